package main

// fspath: correspondence + property oracle for C18 (filesystem authentication cannot be
// steered outside its directory). Layers, each compared with the Lean model (oracle engine
// `fspath`) and, independently, judged by a property oracle written from the statement:
//
//	consts    base dir, size limit, regex sources the model's recognisers were written for
//	path      path/filepath.{IsAbs,Clean,Dir,Base}           vs the model's transcription
//	parseip   net.ParseIP                                     vs the model's transcription
//	addrleaf  security.fsAddrLeaf            (hook)
//	endpoint  security.verifyFSPathEndpoint  (hook)
//	validate  security.validateFSAuthPath    (hook), at volume, plus every path of <= 4 components
//	          over {"", ".", "..", tmp, sub, three recognised leaves}
//	client    the whole client exchange against a scripted server, with before / at-reply / after
//	          snapshots of the filesystem (sandbox tree, /tmp entries the case could touch)
//	server    the whole server exchange against a scripted client that leaves every kind of object
//	honest    real server <-> real client over TCP loopback (IPv4 and IPv6), property oracle only

import (
	"context"
	"encoding/binary"
	"encoding/hex"
	"fmt"
	"io"
	"net"
	"net/netip"
	"os"
	"os/user"
	"path/filepath"
	"regexp"
	"sort"
	"strconv"
	"strings"
	"syscall"
	"time"

	"cedarverif/harness/internal/orc"
	"cedarverif/harness/internal/refcodec"

	"github.com/bbockelm/cedar/security"
	"github.com/bbockelm/cedar/stream"
)

func init() { register(Engine{"fspath", runFsPath}) }

const fsBase = "/tmp" // the property's "fixed temporary base directory"; compared with the code's in `consts`

// fsSendFailureInQuantifier: does "removed again once the exchange completes" also cover exchanges in
// which the client cannot send its result code?  The property's quantifier ranges over inputs (path
// strings), not over transport faults, so: no — such a leak is recorded as an observation (Notes).
// Set to true together with the library fix that registers the clean-up before the send.
const fsSendFailureInQuantifier = true

// ---------------------------------------------------------------------------------------------
// small helpers

func fsHex(s string) string {
	if s == "" {
		return "-"
	}
	return hex.EncodeToString([]byte(s))
}

func fsShow(s string) string { return orc.ShowBytes([]byte(s)) }

type fsAddr string // a net.Addr with an arbitrary String()

func (a fsAddr) Network() string { return "tcp" }
func (a fsAddr) String() string  { return string(a) }

// fsPeerTok renders what the validator can learn from the connection, in the oracle's syntax.
func fsPeerTok(a net.Addr) string {
	if a == nil {
		return "nil"
	}
	h, p, err := net.SplitHostPort(a.String())
	if err != nil {
		return "bad"
	}
	return "hp:" + fsHex(h) + ":" + fsHex(p)
}

func fsRejClass(err error) string {
	m := err.Error()
	switch {
	case m == "empty path":
		return "empty"
	case strings.HasPrefix(m, "not an absolute path: "):
		return "notAbs"
	case strings.HasPrefix(m, "path ") && strings.HasSuffix(m, " is not in canonical form (Clean)"):
		return "notClean"
	case strings.HasPrefix(m, "parent ") && strings.Contains(m, " is not the expected base directory "):
		return "parent"
	case strings.HasPrefix(m, "leaf ") && strings.HasSuffix(m, " contains an unsafe component"):
		return "unsafeLeaf"
	case strings.HasPrefix(m, "cannot check FS path against connection: no connection address available"):
		return "noPeer"
	case strings.HasPrefix(m, "cannot parse connection peer address "):
		return "badPeer"
	case strings.HasPrefix(m, "FS path ") && strings.Contains(m, " is inconsistent with the connection endpoint "):
		return "endpoint"
	case strings.HasPrefix(m, "leaf ") && strings.HasSuffix(m, " does not match any accepted FS-auth directory-name pattern"):
		return "shape"
	}
	return "other:" + strings.ReplaceAll(m, " ", "_")
}

// ---------------------------------------------------------------------------------------------
// reference recogniser: written from the property statement, not from fs_auth.go

var (
	fsRefLocal  = regexp.MustCompile(`\AFS_[A-Za-z0-9]{1,16}\z`)
	fsRefRemote = regexp.MustCompile(`\AFS_REMOTE_[A-Za-z0-9._-]+_[0-9]+_[A-Za-z0-9]{1,16}\z`)
	fsRefAddrL  = regexp.MustCompile(`\AFS_([0-9A-Fa-f:.]+)_([0-9]{1,5})_([A-Za-z0-9]{1,16})\z`)
	fsRefAddrR  = regexp.MustCompile(`\AFS_REMOTE_([0-9A-Fa-f:.]+)_([0-9]{1,5})_([A-Za-z0-9]{1,16})\z`)
)

// fsRefAccept: may a client create `p` at all?  "" = yes; otherwise the clause it would break.
func fsRefAccept(p string, remote bool, peer net.Addr) string {
	if !strings.HasPrefix(p, fsBase+"/") {
		return "not directly under the base directory"
	}
	leaf := p[len(fsBase)+1:]
	if leaf == "" || leaf == "." || leaf == ".." || strings.ContainsAny(leaf, "/\x00") {
		return "not a single safe component under the base directory"
	}
	re := fsRefAddrL
	if remote {
		re = fsRefAddrR
	}
	if m := re.FindStringSubmatch(leaf); m != nil {
		if ip, err := netip.ParseAddr(m[1]); err == nil && ip.Zone() == "" {
			// address-qualified: must name the endpoint the connection really has
			if peer == nil {
				return "address-qualified name accepted without a connection address"
			}
			h, pp, err := net.SplitHostPort(peer.String())
			if err != nil {
				return "address-qualified name accepted without a usable connection address"
			}
			pip, err := netip.ParseAddr(h)
			if err != nil || pip.Zone() != "" || pip.Unmap() != ip.Unmap() {
				return "address-qualified name names another host than the connection's"
			}
			a, e1 := strconv.Atoi(m[2])
			b, e2 := strconv.Atoi(pp)
			if e1 != nil || e2 != nil || a != b {
				return "address-qualified name names another port than the connection's"
			}
			return ""
		}
	}
	if remote {
		if !fsRefRemote.MatchString(leaf) {
			return "leaf is not of a recognised FS_REMOTE shape"
		}
		return ""
	}
	if !fsRefLocal.MatchString(leaf) {
		return "leaf is not of a recognised FS shape"
	}
	return ""
}

// ---------------------------------------------------------------------------------------------
// generator

type fsGen struct {
	c       *Ctx
	sandbox string
	tag     string // goes into generated random suffixes: makes this run's names recognisable
}

const fsAlnum = "ABCDEFGHIJKLMNOPQRSTUVWXYZabcdefghijklmnopqrstuvwxyz0123456789"

func (g *fsGen) n(k int) int { return g.c.Rng.Intn(k) }

func (g *fsGen) pick(xs ...string) string { return xs[g.n(len(xs))] }

func (g *fsGen) alnum(k int) string {
	b := make([]byte, k)
	for i := range b {
		b[i] = fsAlnum[g.n(len(fsAlnum))]
	}
	return string(b)
}

// suffix: a valid random field {1,16}; mostly 9–12 chars carrying the run tag
func (g *fsGen) suffix() string {
	switch g.n(10) {
	case 0:
		return g.alnum(1)
	case 1:
		return g.alnum(16)
	case 2:
		return strconv.Itoa(int(g.c.Rng.Uint32())) // os.MkdirTemp style
	case 3:
		return "XXX" + g.alnum(6) // condor_mkstemp style
	}
	return g.tag + g.alnum(6+g.n(5))
}

func (g *fsGen) hostname() string {
	switch g.n(9) {
	case 0:
		return "host"
	case 1:
		return "my_host"
	case 2:
		return "node-" + strconv.Itoa(g.n(100)) + ".example.com"
	case 3:
		return "_"
	case 4:
		return "a.b-c_d"
	case 5:
		return "1.2.3" // looks numeric, is not an address
	case 6:
		return "127.0.0.01" // leading zero: not an address for Go
	case 7:
		return strings.ToUpper(g.alnum(1 + g.n(12)))
	}
	return g.alnum(1 + g.n(20))
}

var fsGoodV4 = []string{"127.0.0.1", "10.1.2.3", "192.168.0.255", "0.0.0.0", "255.255.255.255", "8.8.8.8"}
var fsGoodV6 = []string{"::1", "::", "fe80::1", "2001:db8::68", "1:2:3:4:5:6:7:8", "::ffff:127.0.0.1", "::ffff:7f00:1", "1::", "0:0:0:0:0:0:0:1",
	"2001:DB8::A", "::1.2.3.4", "1:2:3:4:5:6:1.2.3.4", "1:2:3:4:5:6:7::", "::2:3:4:5:6:7:8", "ffff:ffff:ffff:ffff:ffff:ffff:ffff:ffff"}
var fsBadIP = []string{"", "1.2.3", "1.2.3.4.5", "256.1.1.1", "01.2.3.4", "1..2.3", ".1.2.3", "1.2.3.", "1.2.3.4 ", " 1.2.3.4", "1.2.3.a", "1.2.3.-4", "1.2.3.0004",
	":", ":::", "1::2::3", "12345::", "::g", "1:2:3:4:5:6:7", "1:2:3:4:5:6:7:8:9", "1:2:3:4:5:6:7:8::", "::1:2:3:4:5:6:7:8", "fe80::1%eth0", "fe80::1%", "%eth0",
	"1:2:3:4:5:6:7:1.2.3.4", "1.2.3.4:5", "::ffff:1.2.3", "::ffff:256.1.1.1", "::ffff:01.2.3.4", "1:", ":1", "1::2:", "localhost", "1234", "0x7f.0.0.1", "1:2:3:4:5:6:7:", "::1.2.3.4.5"}

func (g *fsGen) ipString() string {
	switch g.n(10) {
	case 0, 1, 2:
		return fsGoodV4[g.n(len(fsGoodV4))]
	case 3, 4, 5:
		return fsGoodV6[g.n(len(fsGoodV6))]
	case 6:
		return fmt.Sprintf("%d.%d.%d.%d", g.n(300), g.n(256), g.n(256), g.n(256))
	case 7:
		var gs []string
		for i := 0; i < 8; i++ {
			gs = append(gs, strconv.FormatInt(int64(g.n(0x10000)), 16))
		}
		s := strings.Join(gs, ":")
		if g.n(2) == 0 { // collapse a run
			i := g.n(7)
			s = strings.Join(gs[:i], ":") + "::" + strings.Join(gs[i+1+g.n(8-i-1):], ":")
		}
		return s
	}
	return fsBadIP[g.n(len(fsBadIP))]
}

// peer: the address the client's connection reports for the server
func (g *fsGen) peer() net.Addr {
	port := []int{9618, 1, 65535, 80, 40000 + g.n(20000)}[g.n(5)]
	switch g.n(14) {
	case 0:
		return nil
	case 1, 2, 3:
		return &net.TCPAddr{IP: net.ParseIP(fsGoodV4[g.n(len(fsGoodV4))]).To4(), Port: port}
	case 4, 5:
		return &net.TCPAddr{IP: net.ParseIP(fsGoodV6[g.n(len(fsGoodV6))]), Port: port}
	case 6:
		return &net.TCPAddr{IP: net.ParseIP("fe80::1"), Port: port, Zone: "eth0"}
	case 7:
		return &net.TCPAddr{IP: net.ParseIP("127.0.0.1").To16(), Port: port} // 16-byte form of an IPv4 address
	case 8:
		return fsAddr(g.pick("pipe", "@", "/run/condor.sock", "<nil>", "", "127.0.0.1", "::1:9618", "[::1]", "127.0.0.1:80:90"))
	case 9:
		return fsAddr(g.pick("host.example.com:9618", ":9618", "127.0.0.1:", "127.0.0.1:09618", "[::1]:9618", "[::ffff:10.1.2.3]:80", "127.0.0.1:http", "[fe80::1%25eth0]:1"))
	}
	return &net.TCPAddr{IP: net.ParseIP("127.0.0.1").To4(), Port: port}
}

func fsPeerHP(a net.Addr) (string, string, bool) {
	if a == nil {
		return "", "", false
	}
	h, p, err := net.SplitHostPort(a.String())
	return h, p, err == nil
}

// ipFor: the ip field of an address-qualified name, related to the peer in a chosen way
func (g *fsGen) ipFor(peer net.Addr) (string, string) {
	h, _, ok := fsPeerHP(peer)
	if ok && g.n(10) < 6 {
		if ip := net.ParseIP(h); ip != nil && g.n(3) == 0 {
			// same address, other spelling
			if v4 := ip.To4(); v4 != nil {
				return g.pick("::ffff:"+v4.String(), fmt.Sprintf("::ffff:%02x%02x:%02x%02x", v4[0], v4[1], v4[2], v4[3]), fmt.Sprintf("0:0:0:0:0:ffff:%x:%x", int(v4[0])<<8|int(v4[1]), int(v4[2])<<8|int(v4[3]))), "ip:respelled"
			}
			return g.pick(strings.ToUpper(ip.String()), fmt.Sprintf("%x:%x:%x:%x:%x:%x:%x:%x", int(ip[0])<<8|int(ip[1]), int(ip[2])<<8|int(ip[3]), int(ip[4])<<8|int(ip[5]), int(ip[6])<<8|int(ip[7]),
				int(ip[8])<<8|int(ip[9]), int(ip[10])<<8|int(ip[11]), int(ip[12])<<8|int(ip[13]), int(ip[14])<<8|int(ip[15]))), "ip:respelled"
		}
		return h, "ip:peer"
	}
	return g.ipString(), "ip:other"
}

func (g *fsGen) portFor(peer net.Addr) (string, string) {
	_, p, ok := fsPeerHP(peer)
	if ok && g.n(10) < 6 {
		return p, "port:peer"
	}
	if ok && g.n(2) == 0 {
		if v, err := strconv.Atoi(p); err == nil {
			return g.pick(strconv.Itoa(v+1), strconv.Itoa(v-1), "0"+p, p+"0", fmt.Sprintf("%05d", v), fmt.Sprintf("%06d", v)), "port:near"
		}
	}
	return g.pick("0", "1", "9618", "65535", "65536", "99999", "100000", "123456", "", "96a8", "+9618", "-1", " 9618", "９６１８", strconv.Itoa(g.n(70000))), "port:other"
}

// goodLeaf: a leaf of a recognised shape for the mode (address-qualified ones name the peer)
func (g *fsGen) goodLeaf(remote bool, peer net.Addr) (string, string) {
	h, p, ok := fsPeerHP(peer)
	if ok && net.ParseIP(h) != nil && g.n(2) == 0 {
		pfx := "FS_"
		if remote {
			pfx = "FS_REMOTE_"
		}
		return pfx + h + "_" + p + "_" + g.suffix(), "leaf:addr-peer"
	}
	if remote {
		return "FS_REMOTE_" + g.hostname() + "_" + strconv.Itoa(1+g.n(4194304)) + "_" + g.suffix(), "leaf:remote-hist"
	}
	return "FS_" + g.suffix(), "leaf:local-hist"
}

func (g *fsGen) addrLeaf(remote bool, peer net.Addr) (string, string) {
	pfx := "FS_"
	if remote {
		pfx = "FS_REMOTE_"
	}
	if g.n(12) == 0 { // the other mode's prefix
		pfx = g.pick("FS_", "FS_REMOTE_", "FS_REMOTE_REMOTE_")
	}
	ip, ic := g.ipFor(peer)
	port, pc := g.portFor(peer)
	suf := g.suffix()
	if g.n(10) == 0 {
		suf = g.pick("", g.alnum(17), "a-b", "a.b", "a_b", "ab\n")
	}
	return pfx + ip + "_" + port + "_" + suf, "leaf:addr/" + ic + "/" + pc
}

func (g *fsGen) nearMissLeaf(remote bool) (string, string) {
	l := g.pick("FS_", "FS", "FS_"+g.alnum(17), "fs_"+g.alnum(6), "FS-"+g.alnum(6), "FS_ab.cd", "FS_ab-cd", "FS_ab cd", "FS_ab\ncd", "FS_abc\n", " FS_abc", "FS_abc ",
		"XFS_abc", ".X11-unix", "FS_..", "FS_.", ".", "..", "...", "FS_REMOTE_", "FS_REMOTE_h_1", "FS_REMOTE_h_1_", "FS_REMOTE__1_a", "FS_REMOTE___1_a", "FS_REMOTE_h__a", "FS_REMOTE_h_x_a",
		"FS_REMOTE_h_1_"+g.alnum(17), "FS_REMOTE_h!_1_a", "FS_REMOTE_h_1_a_", "FS_REMOTE_h_+1_a", "FS_REMOTE_1_a", "FS_REMOTE_h_1_a\n", "FS_REMOTE_hôte_1_a", "FS_REMOTE_h_１_a",
		"FS_"+g.alnum(3)+"\x00", "FS_\x00"+g.alnum(3), "FS_"+g.alnum(3)+"\x7f", "FS_"+g.alnum(3)+"\xff", "FS_"+g.alnum(2)+"é", "FS_REMOTE_"+g.alnum(4), "FS_REMOTE_a_b", "FS_1_2_3",
		"FS_REMOTE_1.2.3.4_123456_abc", "FS_REMOTE_1.2.3_80_abc", "FS_REMOTE_::1_80", "FS_::1_80_", "FS_REMOTE_[::1]_80_abc", "FS_REMOTE_fe80::1%eth0_80_abc", "FS_REMOTE_host:1_80_abc")
	return l, "leaf:nearmiss"
}

func (g *fsGen) otherParent() string {
	return g.pick("/var/tmp", "/", "", "/tmp/sub", "/tmp/FS_"+g.alnum(4), "/tmpx", "/tm", "/TMP", "/tmp ", " /tmp", "tmp", "./tmp", ".", "..", "/tmp/.", "/tmp/..", "/tmp/../tmp", "/./tmp", "//tmp", "/tmp/",
		"/tmp//", "/home", "/etc", "/dev/shm", "/tmp/\x00", "/t\xffmp", "/ｔｍｐ", g.sandbox+"/real", g.sandbox+"/link", g.sandbox+"/linkreal", g.sandbox, "real", "link", "../"+filepath.Base(g.sandbox)+"/link",
		"/tmp/../"+strings.TrimPrefix(g.sandbox, "/")+"/real", "/proc/self/cwd/link", "/proc/self/root/tmp")
}

func (g *fsGen) mutate(s string) string {
	b := []byte(s)
	for k := 1 + g.n(2); k > 0; k-- {
		if len(b) == 0 {
			return g.alnum(1)
		}
		i := g.n(len(b))
		switch g.n(10) {
		case 0: // delete
			b = append(b[:i:i], b[i+1:]...)
		case 1: // duplicate
			b = append(b[:i+1:i+1], b[i:]...)
		case 2: // insert something pathy
			ins := g.pick("/", "..", ".", "_", "//", "/../", "/./", "\x00", "\n", "é", "\xff", " ", "0", "x", ":", "%")
			b = append(b[:i:i], append([]byte(ins), b[i:]...)...)
		case 3: // replace
			b[i] = byte(g.pick("/", ".", "_", "-", "0", "a", "Z", ":", "\x01", "\x80")[0])
		case 4: // flip a bit
			b[i] ^= 1 << uint(g.n(8))
		case 5: // swap neighbours
			if i+1 < len(b) {
				b[i], b[i+1] = b[i+1], b[i]
			}
		case 6: // truncate
			b = b[:i]
		case 7: // case
			if b[i] >= 'a' && b[i] <= 'z' {
				b[i] -= 32
			} else if b[i] >= 'A' && b[i] <= 'Z' {
				b[i] += 32
			}
		case 8: // append
			b = append(b, g.pick("/", "/.", "/..", "_", "x", "\n", " ", "/x", "\x00")...)
		case 9: // prepend
			b = append([]byte(g.pick("/", ".", "./", "../", " ", "/tmp", "x")), b...)
		}
	}
	return string(b)
}

// pathCase: one server-supplied path, the mode, the connection address and a class label.
func (g *fsGen) pathCase() (string, bool, net.Addr, string) {
	remote := g.n(2) == 0
	peer := g.peer()
	k := g.n(100)
	switch {
	case k < 28:
		l, c := g.goodLeaf(remote, peer)
		return fsBase + "/" + l, remote, peer, "good/" + c
	case k < 46:
		l, c := g.addrLeaf(remote, peer)
		return fsBase + "/" + l, remote, peer, "addr/" + c
	case k < 58:
		l, c := g.nearMissLeaf(remote)
		return fsBase + "/" + l, remote, peer, "nearmiss/" + c
	case k < 74: // structure around a good leaf
		l, _ := g.goodLeaf(remote, peer)
		switch g.n(10) {
		case 0:
			return g.otherParent() + "/" + l, remote, peer, "struct/other-parent"
		case 1:
			return fsBase + "/" + g.pick("..", ".", "", "sub", "FS_1", "../tmp", "./.", "...") + "/" + l, remote, peer, "struct/nested"
		case 2:
			return fsBase + g.pick("//", "/./", "/../tmp/", "///") + l, remote, peer, "struct/noncanonical"
		case 3:
			return fsBase + "/" + l + g.pick("/", "/.", "/..", "//", "/x", "/../"+l, "/../../etc"), remote, peer, "struct/trailing"
		case 4:
			return strings.TrimPrefix(fsBase, "/") + "/" + l, remote, peer, "struct/relative"
		case 5:
			return l, remote, peer, "struct/leaf-only"
		case 6:
			return "/" + l, remote, peer, "struct/root-child"
		case 7:
			return g.pick(g.sandbox+"/link/", g.sandbox+"/linkreal/", "link/", "/proc/self/root/tmp/") + l, remote, peer, "struct/symlinked-parent"
		case 8:
			return g.pick("", "/", fsBase, fsBase+"/", ".", "..", "//", "/tmp/.", "/tmp/.."), remote, peer, "struct/degenerate"
		}
		return g.otherParent() + g.pick("/", "//", "/./") + l, remote, peer, "struct/other-parent"
	case k < 90:
		l, _ := g.goodLeaf(remote, peer)
		return g.mutate(fsBase + "/" + l), remote, peer, "mutation"
	case k < 95: // over-long fields
		switch g.n(5) {
		case 0:
			return fsBase + "/FS_REMOTE_" + strings.Repeat("h", 200+g.n(200)) + "_1_" + g.suffix(), true, peer, "long/host"
		case 1:
			return fsBase + "/FS_REMOTE_" + strings.Repeat("h", 4060+g.n(60)) + "_1_a", true, peer, "long/path-at-limit"
		case 2:
			return fsBase + "/FS_" + g.alnum(17+g.n(300)), false, peer, "long/suffix"
		case 3:
			return fsBase + "/FS_REMOTE_h_" + strings.Repeat("7", 20+g.n(300)) + "_a", true, peer, "long/pid"
		}
		return fsBase + "/" + strings.Repeat("a/", 2100), remote, peer, "long/deep"
	}
	// junk
	n := g.n(24)
	b := make([]byte, n)
	for i := range b {
		b[i] = byte(g.pick("/", "/", ".", "_", "F", "S", "t", "m", "p", "0", "\x00", "\x07", "\xc3", "\xa9", "\xff", ":", " ")[0])
	}
	return string(b), remote, peer, "junk"
}

// ---------------------------------------------------------------------------------------------
// in-memory connection: single-threaded; a hook runs after every write

type fsConn struct {
	in        []byte
	out       []byte
	remote    net.Addr
	local     net.Addr
	afterW    func()
	beforeR   func() // called at the start of every Read
	failWrite bool
	writes    int
}

func (c *fsConn) Read(p []byte) (int, error) {
	if c.beforeR != nil {
		c.beforeR()
	}
	if len(c.in) == 0 {
		return 0, io.EOF
	}
	n := copy(p, c.in)
	c.in = c.in[n:]
	return n, nil
}

func (c *fsConn) Write(p []byte) (int, error) {
	c.writes++
	if c.failWrite {
		if c.afterW != nil {
			c.afterW()
		}
		return 0, syscall.EPIPE
	}
	c.out = append(c.out, p...)
	if c.afterW != nil {
		c.afterW()
	}
	return len(p), nil
}
func (c *fsConn) Close() error                       { return nil }
func (c *fsConn) LocalAddr() net.Addr                { return c.local }
func (c *fsConn) RemoteAddr() net.Addr               { return c.remote }
func (c *fsConn) SetDeadline(t time.Time) error      { return nil }
func (c *fsConn) SetReadDeadline(t time.Time) error  { return nil }
func (c *fsConn) SetWriteDeadline(t time.Time) error { return nil }

func fsFrame(flag byte, body []byte) []byte {
	return refcodec.Frame{Flag: flag, Len: uint32(len(body)), Body: body}.Bytes()
}

func fsIntBody(v int64) []byte {
	b := make([]byte, 8)
	binary.BigEndian.PutUint64(b, uint64(v))
	return b
}

// first complete end-of-message message in b: concatenated payload, ok
func fsFirstMessage(b []byte) ([]byte, bool) {
	frames, _ := refcodec.ParseFrames(b)
	var pl []byte
	for _, f := range frames {
		pl = append(pl, f.Body...)
		if f.Flag == 1 {
			return pl, true
		}
	}
	return nil, false
}

// ---------------------------------------------------------------------------------------------
// filesystem observation

func fsKind(fi os.FileInfo) string {
	m := fi.Mode()
	k := "file"
	switch {
	case m&os.ModeSymlink != 0:
		k = "symlink"
	case m.IsDir():
		k = "dir"
	case m&os.ModeNamedPipe != 0:
		k = "fifo"
	case m&os.ModeSocket != 0:
		k = "socket"
	}
	return fmt.Sprintf("%s:%o", k, m.Perm())
}

type fsSnap map[string]string // absolute path -> kind:perm

// fsWatch: what one case could conceivably touch
type fsWatch struct {
	sandbox string
	cands   []string
}

func newFsWatch(sandbox, p string) *fsWatch {
	w := &fsWatch{sandbox: sandbox}
	add := func(s string) {
		if s == "" || strings.ContainsRune(s, 0) || len(s) > 4000 {
			return
		}
		for _, x := range w.cands {
			if x == s {
				return
			}
		}
		w.cands = append(w.cands, s)
	}
	if p != "" && !strings.ContainsRune(p, 0) {
		abs := p
		if !filepath.IsAbs(abs) {
			abs = filepath.Join(sandbox, p) // the engine's working directory is the sandbox
		}
		add(abs)
		add(filepath.Clean(abs))
		if d, err := filepath.EvalSymlinks(filepath.Dir(filepath.Clean(abs))); err == nil {
			add(filepath.Join(d, filepath.Base(abs)))
		}
		add(filepath.Join(fsBase, filepath.Base(p)))
		add(filepath.Join(fsBase, p))
		add(filepath.Join(sandbox, filepath.Base(p)))
	}
	return w
}

func (w *fsWatch) snap() fsSnap {
	s := fsSnap{}
	for _, c := range w.cands {
		if fi, err := os.Lstat(c); err == nil {
			s[c] = fsKind(fi)
		}
	}
	_ = filepath.Walk(w.sandbox, func(path string, fi os.FileInfo, err error) error {
		if err == nil {
			s[path] = fsKind(fi)
		}
		return nil
	})
	return s
}

func fsDiff(a, b fsSnap) (added, removed, changed []string) {
	for k, v := range b {
		if av, ok := a[k]; !ok {
			added = append(added, k)
		} else if av != v {
			changed = append(changed, k)
		}
	}
	for k := range a {
		if _, ok := b[k]; !ok {
			removed = append(removed, k)
		}
	}
	sort.Strings(added)
	sort.Strings(removed)
	sort.Strings(changed)
	return
}

// ---------------------------------------------------------------------------------------------
// one whole client exchange

type fsClientCase struct {
	path    string
	remote  bool
	peer    net.Addr
	class   string
	payload []byte // raw payload of the path message (nil with broken != "")
	broken  string // "", "eof", "badflag", "truncated", "huge"
	split   int    // >0: the payload travels in two frames cut here
	pre     string // "", "dir", "file", "symlink": object placed at /tmp/<leaf> beforehand
	send    bool
	srv     string // r:<n> | x | f
	// the peer address RECORDED on the stream (Stream.SetPeerAddr: what client.Connect, the shared-port
	// client, the CCB requester or the application wrote there) when it is set apart from the
	// connection's real remote address `peer`. It is a declared value: an address-qualified name must
	// name the endpoint the client is REALLY connected to, whatever is recorded.
	setRecorded bool
	recorded    string
}

// recordedFor renders an endpoint the way callers record a peer on a stream (a sinful string, bare
// host:port, with parameters) — or something that is no address at all.
func (g *fsGen) recordedFor(a net.Addr) string {
	h, p, ok := fsPeerHP(a)
	if !ok || g.n(8) == 0 {
		return g.pick("", "<>", "pipe", "<host.example.com:9618>", "schedd@host.example.com", "<127.0.0.1>", "<:9618>")
	}
	hp := net.JoinHostPort(h, p)
	return g.pick("<"+hp+">", "<"+hp+">", "<"+hp+">", hp, "<"+hp+"?sock=schedd_17_a1b2>", "<"+hp+"?addrs="+hp+"&alias=host.example.com>")
}

func fsClientErrClass(err error, wrote bool) string {
	if err == nil {
		return "ok"
	}
	m := err.Error()
	switch {
	case strings.HasPrefix(m, "failed to receive directory path"):
		return "recvPath"
	case strings.HasPrefix(m, "protocol error"):
		if wrote {
			return "protoResult"
		}
		return "protoPath"
	case strings.HasPrefix(m, "failed to send client result"), strings.HasPrefix(m, "failed to finish message"):
		return "sendResult"
	case strings.HasPrefix(m, "failed to receive server result"):
		return "recvResult"
	case strings.HasPrefix(m, "FS authentication failed: client and server"):
		return "rejected"
	}
	return "other" // unknown text: a class only, never the text
}

// runFsClient drives the real client; returns the op, the real reply line, and oracle findings.
func runFsClient(c *Ctx, g *fsGen, cs fsClientCase) (op, real string, bad []Violation) {
	// Another process may create the very same /tmp/FS_* name between our look and the client's mkdir,
	// or remove / create something under /tmp while the case runs (parallel checks, the library's own
	// tests): /tmp is shared. The exchange itself is deterministic (scripted server, no clock), so a
	// finding of the library shows again when the case is run again on its own; one that came from
	// outside does not. A case is therefore reported only when it fails on every one of three runs.
	for try := 0; ; try++ {
		var raced bool
		op, real, bad, raced = runFsClientOnce(c, g, cs)
		if (!raced && len(bad) == 0) || try == 2 {
			return
		}
		if raced {
			c.Count("client:rerun-after-foreign-interference")
		} else {
			c.Count("client:violation-rechecked")
		}
		time.Sleep(5 * time.Millisecond)
	}
}

func runFsClientOnce(c *Ctx, g *fsGen, cs fsClientCase) (op, real string, bad []Violation, raced bool) {
	// the string the client will see: the payload up to its first NUL
	wellFormed := false
	if cs.broken == "" {
		if i := strings.IndexByte(string(cs.payload), 0); i >= 0 {
			cs.path = string(cs.payload[:i])
			wellFormed = i == len(cs.payload)-1
		} else {
			cs.path = string(cs.payload)
		}
	}
	leafGuess := filepath.Base(cs.path)
	target := fsBase + "/" + leafGuess
	legitTarget := cs.path == target && !strings.ContainsRune(cs.path, 0) && leafGuess != "." && leafGuess != ".." && leafGuess != "/"
	// object placed beforehand (only ever at a plain FS_* child of the base)
	placed := false
	if cs.pre != "" && legitTarget && strings.HasPrefix(leafGuess, "FS_") && len(leafGuess) < 200 {
		if _, err := os.Lstat(target); err != nil {
			switch cs.pre {
			case "dir":
				placed = os.Mkdir(target, 0o755) == nil
			case "file":
				placed = os.WriteFile(target, []byte("x"), 0o600) == nil
			case "symlink":
				placed = os.Symlink(g.sandbox+"/real", target) == nil
			}
		}
	}
	defer func() {
		if placed {
			_ = os.Remove(target)
		}
	}()
	mkdirOK := true
	if !strings.ContainsRune(target, 0) {
		if _, err := os.Lstat(target); err == nil {
			mkdirOK = false
		}
	}
	if len(leafGuess) > 255 {
		mkdirOK = false
	}

	conn := &fsConn{remote: cs.peer, failWrite: !cs.send}
	msgTok := "broken"
	switch cs.broken {
	case "":
		msgTok = "p:" + orc.Payload(cs.payload)
		if cs.split > 0 && cs.split < len(cs.payload) {
			conn.in = append(fsFrame(0, cs.payload[:cs.split]), fsFrame(1, cs.payload[cs.split:])...)
		} else {
			conn.in = fsFrame(1, cs.payload)
		}
	case "eof":
	case "badflag":
		conn.in = append([]byte{200}, fsFrame(1, cs.payload)[1:]...)
	case "truncated":
		f := fsFrame(1, append([]byte(cs.path), 0))
		conn.in = f[:len(f)-1-len(f)/3]
	case "huge":
		conn.in = []byte{1, 0x7f, 0xff, 0xff, 0xff, 'x'}
	}
	if cs.broken == "" {
		switch {
		case strings.HasPrefix(cs.srv, "r:"):
			v, _ := strconv.ParseInt(cs.srv[2:], 10, 64)
			conn.in = append(conn.in, fsFrame(1, fsIntBody(v))...)
		case cs.srv == "x":
			conn.in = append(conn.in, fsFrame(1, append(fsIntBody(0), 9))...)
		case cs.srv == "f": // nothing more: EOF
		}
	}
	w := newFsWatch(g.sandbox, cs.path)
	before := w.snap()
	var during fsSnap
	conn.afterW = func() {
		if during != nil {
			return
		}
		if _, ok := fsFirstMessage(conn.out); ok || conn.failWrite {
			during = w.snap()
		}
	}
	st := stream.NewStream(conn)
	if cs.setRecorded {
		st.SetPeerAddr(cs.recorded)
	}
	var err error
	cctx := bg
	srvTok := cs.srv
	if cs.srv == "c" {
		// the caller's context is cancelled once the client has handed over its result code: no
		// verdict is ever read. For the model this is the continuation "receiving the verdict fails";
		// what the client created must be removed all the same.
		var ccancel context.CancelFunc
		cctx, ccancel = context.WithCancel(bg)
		defer ccancel()
		conn.beforeR = func() {
			// the result code is on the wire and the client has come back to read the verdict
			if _, ok := fsFirstMessage(conn.out); ok {
				ccancel()
			}
		}
		srvTok = "f"
	}
	func() {
		defer func() {
			if r := recover(); r != nil {
				err = fmt.Errorf("PANIC: %v", r)
			}
		}()
		err = security.VerifFSAuthClient(cctx, st, cs.remote)
	}()
	after := w.snap()

	op = fmt.Sprintf("client %s %s %s %s %s %s", b01(cs.remote), fsPeerTok(cs.peer), b01(mkdirOK), b01(cs.send), srvTok, msgTok)
	ops := []string{op, "# path=" + strconv.Quote(cs.path)}
	if cs.setRecorded {
		ops = append(ops, "# the connection's real remote address is "+fmt.Sprint(cs.peer)+"; Stream.SetPeerAddr("+strconv.Quote(cs.recorded)+") was called before the exchange (a recorded, declared address: not an input of the check)")
	}

	// what the client put on the wire
	reply := "-"
	replyInt := int64(-999)
	if pl, ok := fsFirstMessage(conn.out); ok {
		if len(pl) == 8 {
			replyInt = int64(binary.BigEndian.Uint64(pl))
			reply = strconv.FormatInt(replyInt, 10)
		} else {
			reply = "malformed:" + hex.EncodeToString(pl)
		}
		if rest := conn.out[len(fsFrame(1, pl)):]; len(rest) > 0 {
			reply += "+extra"
		}
	} else if conn.writes > 0 {
		reply = "lost"
	}

	// effects
	if during == nil {
		during = after
	}
	addD, remD, chD := fsDiff(before, during)
	addA, remA, chA := fsDiff(before, after)
	eff := "-"
	if len(addD) == 1 && strings.HasPrefix(addD[0], fsBase+"/") && !strings.Contains(addD[0][len(fsBase)+1:], "/") && strings.HasPrefix(during[addD[0]], "dir:") {
		leaf := addD[0][len(fsBase)+1:]
		eff = "mkdir:" + fsShow(leaf) + ":" + strings.TrimPrefix(during[addD[0]], "dir:")
		if len(addA) == 0 {
			eff += ",remove:" + fsShow(leaf)
		}
	} else if len(addD) > 0 {
		eff = "OTHER:" + strings.Join(addD, "|")
	}
	if len(addD) == 0 && len(addA) > 0 {
		eff = "LATE:" + strings.Join(addA, "|")
	}
	real = fmt.Sprintf("ok eff=%s reply=%s ret=%s", eff, reply, fsClientErrClass(err, conn.writes > 0))

	// ---- property oracle (independent of the model) ----
	viol := func(key, what, exp, obs string) {
		bad = append(bad, Violation{Property: "C18", Key: key, What: what, Ops: ops, Expected: exp, Observed: obs})
	}
	if err != nil && strings.HasPrefix(err.Error(), "PANIC") {
		viol("C18:client-panic", "the client panicked on a server-supplied path", "clean failure", err.Error())
		bad = append(bad, Violation{Property: "C13", Key: "C13:fs-client-panic", What: "the FS client panicked on a server-supplied path", Ops: ops, Expected: "clean failure", Observed: err.Error()})
	}
	if len(addD) > 1 {
		viol("C18:more-than-one-created", "the client created more than one filesystem object", "at most one directory", strings.Join(addD, " "))
	}
	if len(remD)+len(remA)+len(chD)+len(chA) > 0 {
		viol("C18:foreign-object-touched", "the client removed or changed an object it did not create", "untouched",
			fmt.Sprintf("removed=%v changed=%v", append(remD, remA...), append(chD, chA...)))
	}
	why := "no path was received"
	if cs.broken == "" {
		why = fsRefAccept(cs.path, cs.remote, cs.peer)
		if !wellFormed {
			why = "the path message was not a single well-formed string" // then nothing may be created at all
		}
		if len(cs.path) >= 4096 {
			why = "over-long path"
		}
	}
	for _, x := range addD {
		switch {
		case why != "":
			viol("C18:mkdir-for-unacceptable-path", "the client created a filesystem object for a path it must refuse: "+why, "no filesystem change, reply -1", x+" ("+during[x]+")")
		case x != cs.path:
			viol("C18:mkdir-elsewhere", "the client created something other than the validated path", cs.path, x)
		case !strings.HasPrefix(during[x], "dir:"):
			viol("C18:created-non-directory", "the client created something that is not a directory", "directory", during[x])
		}
	}
	if len(addD) == 0 && len(addA) > 0 {
		viol("C18:created-after-reply", "a filesystem object appeared after the reply was sent", "none", strings.Join(addA, " "))
	}
	if cs.send {
		if len(addD) > 0 && len(addA) > 0 {
			viol("C18:not-removed", "what the client created was still there after the exchange completed", "removed", strings.Join(addA, " "))
		}
		if (replyInt == 0) != (len(addD) > 0) && reply != "-" && reply != "lost" {
			viol("C18:reply-disagrees-with-effect", "the result code does not tell whether a directory was created", "0 iff created", fmt.Sprintf("reply=%s created=%v", reply, addD))
		}
		if cs.broken == "" && why != "" && why != "over-long path" && why != "the path message was not a single well-formed string" && reply != "-1" {
			viol("C18:no-clean-failure-reply", "an unacceptable path did not get the failure reply: "+why, "reply -1", "reply "+reply)
		}
		if reply != "-" && reply != "0" && reply != "-1" {
			viol("C18:bad-reply", "the client sent something other than one result code 0 / -1", "0 or -1", reply)
		}
	} else if len(addA) > 0 {
		if fsSendFailureInQuantifier {
			viol("C18:not-removed-when-reply-cannot-be-sent", "the client could not send its result code and left the directory it had created behind", "removed", strings.Join(addA, " "))
		} else {
			c.Count("observation:leak-when-reply-cannot-be-sent")
		}
	}
	// never leave anything behind, whatever happened
	for _, x := range addA {
		if strings.HasPrefix(x, fsBase+"/FS_") || strings.HasPrefix(x, g.sandbox+"/") {
			_ = os.Remove(x)
		}
	}
	if mkdirOK && cs.broken == "" && wellFormed && reply == "-1" && len(addD) == 0 {
		// the validator itself accepts the path, nothing was in the way when we looked, and still no directory
		fsGuard(c, op, func() {
			if _, verr := security.VerifValidateFSAuthPath(cs.path, cs.remote, cs.peer); verr == nil {
				raced = true
			}
		})
	}
	return op, real, bad, raced
}

// ---------------------------------------------------------------------------------------------
// one whole server exchange

type fsServerCase struct {
	remote bool
	kind   string // object the client leaves at the path
	cli    string // r:<n> | x | f
}

func fsServerErrClass(err error) string {
	if err == nil {
		return "ok"
	}
	m := err.Error()
	switch {
	case strings.Contains(m, "could not generate temp directory"):
		return "generate"
	case strings.HasPrefix(m, "failed to receive client result"):
		return "recvResult"
	case strings.HasPrefix(m, "protocol error"):
		return "protoResult"
	case strings.HasPrefix(m, "failed to send server result"), strings.HasPrefix(m, "failed to finish verification message"):
		return "sendResult"
	case strings.Contains(m, "directory verification failed"):
		return "verify"
	}
	return "other" // unknown text: a class only, never the text
}

var fsServerKinds = []string{"none", "dir700", "dir700", "file700", "dir755", "dir750", "dir701", "dir710", "dir600", "dir500", "dir000", "dir777", "dir1700", "dir2700", "dir4700",
	"symlink-dir700", "symlink-dangling", "symlink-self", "dir-with-subdir", "dir-with-file", "fifo", "socket", "dir-uid1", "dir-uid-unknown", "dir-uid1-755"}

func fsSafeGenerated(p string) bool {
	return strings.HasPrefix(p, fsBase+"/FS_") && filepath.Dir(p) == fsBase && filepath.Clean(p) == p
}

func fsMakeObject(g *fsGen, p, kind string) (extra []string, skipped bool) {
	mk := func(mode os.FileMode) {
		_ = os.Mkdir(p, 0o700)
		_ = os.Chmod(p, mode)
	}
	switch kind {
	case "none":
	case "file700":
		_ = os.WriteFile(p, nil, 0o700)
		_ = os.Chmod(p, 0o700)
	case "dir700", "dir755", "dir750", "dir701", "dir710", "dir600", "dir500", "dir000", "dir777":
		m, _ := strconv.ParseUint(kind[3:], 8, 32)
		mk(os.FileMode(m))
	case "dir1700":
		mk(0o700 | os.ModeSticky)
	case "dir2700":
		mk(0o700 | os.ModeSetgid)
	case "dir4700":
		mk(0o700 | os.ModeSetuid)
	case "symlink-dir700":
		t := filepath.Join(g.sandbox, "target700")
		_ = os.Mkdir(t, 0o700)
		_ = os.Chmod(t, 0o700)
		_ = os.Symlink(t, p)
		extra = append(extra, t)
	case "symlink-dangling":
		_ = os.Symlink(filepath.Join(g.sandbox, "nowhere"), p)
	case "symlink-self":
		_ = os.Symlink(p, p)
	case "dir-with-subdir":
		mk(0o700)
		_ = os.Mkdir(filepath.Join(p, "sub"), 0o700)
	case "dir-with-file":
		mk(0o700)
		_ = os.WriteFile(filepath.Join(p, "f"), nil, 0o600)
	case "fifo":
		_ = syscall.Mkfifo(p, 0o700)
		_ = os.Chmod(p, 0o700)
	case "socket":
		if l, err := net.Listen("unix", p); err == nil {
			if ul, ok := l.(*net.UnixListener); ok {
				ul.SetUnlinkOnClose(false)
			}
			_ = l.Close()
			_ = os.Chmod(p, 0o700)
		}
	case "dir-uid1", "dir-uid-unknown", "dir-uid1-755":
		if os.Geteuid() != 0 {
			return nil, true
		}
		mk(0o700)
		uid := 1
		if kind == "dir-uid-unknown" {
			uid = 54321
		}
		if kind == "dir-uid1-755" {
			_ = os.Chmod(p, 0o755)
		}
		_ = os.Chown(p, uid, uid)
	}
	return extra, false
}

// runFsServer: the case, run again on its own when it produced a finding (see runFsClient: /tmp is
// shared with other processes; the exchange is deterministic up to the random directory name).
func runFsServer(c *Ctx, g *fsGen, cs fsServerCase) (op, real string, bad []Violation, skipped bool) {
	for try := 0; ; try++ {
		op, real, bad, skipped = runFsServerOnce(c, g, cs)
		if skipped || len(bad) == 0 || try == 2 {
			return
		}
		c.Count("server:violation-rechecked")
		time.Sleep(5 * time.Millisecond)
	}
}

func runFsServerOnce(c *Ctx, g *fsGen, cs fsServerCase) (op, real string, bad []Violation, skipped bool) {
	conn := &fsConn{}
	var sentPath string
	var gotPath, handled bool
	statTok, lookTok := "none", "none"
	var measured os.FileInfo
	var extra []string
	conn.afterW = func() {
		if handled {
			return
		}
		pl, ok := fsFirstMessage(conn.out)
		if !ok {
			return
		}
		handled = true
		if len(pl) > 0 && pl[len(pl)-1] == 0 {
			sentPath, gotPath = string(pl[:len(pl)-1]), true
		}
		if !gotPath || !fsSafeGenerated(sentPath) {
			gotPath = false
			return
		}
		extra, skipped = fsMakeObject(g, sentPath, cs.kind)
		if fi, err := os.Lstat(sentPath); err == nil {
			measured = fi
			if sy, ok := fi.Sys().(*syscall.Stat_t); ok {
				statTok = fmt.Sprintf("%s,%s,%o,%d,%d", b01(fi.Mode().IsDir()), b01(fi.Mode()&os.ModeSymlink != 0), fi.Mode().Perm(), sy.Nlink, sy.Uid)
				if u, err := user.LookupId(strconv.Itoa(int(sy.Uid))); err == nil {
					lookTok = fsHex(u.Username)
				}
			}
		}
		switch {
		case strings.HasPrefix(cs.cli, "r:"):
			v, _ := strconv.ParseInt(cs.cli[2:], 10, 64)
			conn.in = append(conn.in, fsFrame(1, fsIntBody(v))...)
		case cs.cli == "x":
			conn.in = append(conn.in, fsFrame(1, append(fsIntBody(0), 1))...)
		}
	}
	st := stream.NewStream(conn)
	var userName string
	var err error
	func() {
		defer func() {
			if r := recover(); r != nil {
				err = fmt.Errorf("PANIC: %v", r)
			}
		}()
		userName, err = security.VerifFSAuthServer(bg, st, cs.remote)
	}()
	// the verdict is the second message the server wrote
	result := "-"
	if gotPath {
		first := fsFrame(1, append([]byte(sentPath), 0))
		if len(conn.out) > len(first) {
			if pl, ok := fsFirstMessage(conn.out[len(first):]); ok && len(pl) == 8 {
				result = strconv.FormatInt(int64(binary.BigEndian.Uint64(pl)), 10)
			} else {
				result = "malformed"
			}
		}
	}
	removed := "0"
	stillThere := false
	if gotPath {
		if _, e := os.Lstat(sentPath); e == nil {
			stillThere = true
		}
		// os.Remove is attempted exactly when the client reported success; observable when there is
		// something a plain Remove can delete, otherwise the rule itself is printed
		switch cs.kind {
		case "none", "dir-with-subdir", "dir-with-file":
			if strings.HasPrefix(cs.cli, "r:0") {
				removed = "1"
			}
		default:
			if !stillThere {
				removed = "1"
			}
		}
		_ = os.Chmod(sentPath, 0o700)
		_ = os.RemoveAll(sentPath)
	}
	for _, x := range extra {
		_ = os.RemoveAll(x)
	}
	if skipped {
		return "", "", nil, true
	}
	op = fmt.Sprintf("server 1 %s %s %s 1", cs.cli, statTok, lookTok)
	ops := []string{op, "# object=" + cs.kind + " remote=" + b01(cs.remote)}
	u := "none"
	if userName != "" {
		u = fsShow(userName)
	}
	real = fmt.Sprintf("ok result=%s user=%s removed=%s ret=%s", result, u, removed, fsServerErrClass(err))
	if !gotPath {
		real = "ok BROKEN: the server did not send a usable path: " + strconv.Quote(sentPath)
	}
	viol := func(key, what, exp, obs string) {
		bad = append(bad, Violation{Property: "C18", Key: key, What: what, Ops: ops, Expected: exp, Observed: obs})
	}
	if err != nil && strings.HasPrefix(err.Error(), "PANIC") {
		viol("C18:server-panic", "the server panicked", "clean failure", err.Error())
		bad = append(bad, Violation{Property: "C13", Key: "C13:fs-server-panic", What: "the FS server panicked", Ops: ops, Expected: "clean failure", Observed: err.Error()})
	}
	accepted := result == "0" || err == nil
	if accepted {
		okDir := measured != nil && measured.Mode().IsDir() && measured.Mode()&os.ModeSymlink == 0 && measured.Mode().Perm()&0o077 == 0 // owner-only
		if !okDir {
			viol("C18:server-accepts:"+cs.kind, "the server accepted something that is not a real, non-symlink, owner-only directory", "verdict -1", "verdict "+result+" for "+cs.kind+" ("+statTok+")")
		} else {
			sy := measured.Sys().(*syscall.Stat_t)
			ou, e := user.LookupId(strconv.Itoa(int(sy.Uid)))
			if e != nil || ou.Username != userName {
				viol("C18:server-identity", "the recorded identity is not the owner of the directory", "owner of uid "+strconv.Itoa(int(sy.Uid)), strconv.Quote(userName))
			}
		}
		if result != "0" || err != nil {
			viol("C18:server-verdict-split", "verdict on the wire and return value disagree", "both success or both failure", fmt.Sprintf("verdict=%s err=%v", result, err))
		}
	} else if userName != "" {
		viol("C18:server-identity-without-accept", "an identity was recorded although verification failed", "no identity", strconv.Quote(userName))
	}
	if stillThere && strings.HasPrefix(cs.cli, "r:0") && cs.kind != "dir-with-subdir" && cs.kind != "dir-with-file" {
		c.Count("observation:server-left-object:" + cs.kind)
	}
	return op, real, bad, false
}

// ---------------------------------------------------------------------------------------------
// honest end-to-end over TCP loopback

// runFsHonest: a finding is reported only when the exchange, run again on its own, fails again (the
// directory lives in the shared /tmp for the duration of the exchange).
func runFsHonest(c *Ctx, network, addr string, remote bool, recorded string) (ran bool, bad []Violation) {
	for try := 0; ; try++ {
		ran, bad = runFsHonestOnce(c, network, addr, remote, recorded)
		if !ran || len(bad) == 0 || try == 2 {
			return
		}
		c.Count("honest:violation-rechecked")
		time.Sleep(20 * time.Millisecond)
	}
}

// recorded != "": the client's stream carries that string as its recorded peer address (SetPeerAddr)
// although the socket is connected to the listener — the server qualifies the name with the endpoint
// that was really dialed, and that is what the client must accept.
func runFsHonestOnce(c *Ctx, network, addr string, remote bool, recorded string) (ran bool, bad []Violation) {
	l, err := net.Listen(network, addr)
	if err != nil {
		return false, nil
	}
	defer l.Close()
	// the directory of THIS exchange is the one named on this connection (never "anything in /tmp
	// that carries our port number": other checks have theirs in flight at the same time)
	rec := &fsOwnRecorder{names: map[string]bool{}}
	type sres struct {
		user string
		err  error
	}
	ch := make(chan sres, 1)
	go func() {
		conn, err := l.Accept()
		if err != nil {
			ch <- sres{"", err}
			return
		}
		defer conn.Close()
		ctx, cancel := context.WithTimeout(bg, 10*time.Second)
		defer cancel()
		u, err := security.VerifFSAuthServer(ctx, stream.NewStream(rec.wrap(conn)), remote)
		ch <- sres{u, err}
	}()
	conn, err := net.DialTimeout(network, l.Addr().String(), 5*time.Second)
	if err != nil {
		return false, nil
	}
	defer conn.Close()
	ctx, cancel := context.WithTimeout(bg, 10*time.Second)
	defer cancel()
	cst := stream.NewStream(rec.wrap(conn))
	if recorded != "" {
		cst.SetPeerAddr(recorded)
	}
	cerr := security.VerifFSAuthClient(ctx, cst, remote)
	var sr sres
	select {
	case sr = <-ch:
	case <-time.After(12 * time.Second):
		sr = sres{"", fmt.Errorf("server timed out")}
	}
	ops := []string{fmt.Sprintf("# honest exchange over %s %s remote=%v", network, l.Addr(), remote)}
	if recorded != "" {
		ops = append(ops, "# the client's stream records the peer as "+strconv.Quote(recorded)+" (SetPeerAddr); the socket is connected to the listener")
	}
	me, _ := user.Current()
	if cerr != nil || sr.err != nil || me == nil || sr.user != me.Username {
		bad = append(bad, Violation{Property: "C18", Key: "C18:honest-exchange-fails:" + network, What: "a real server and a real client on one machine do not complete FS authentication with the owner as identity",
			Ops: ops, Expected: "success, identity = current user", Observed: fmt.Sprintf("client err=%v server err=%v user=%q", cerr, sr.err, sr.user)})
	}
	named := rec.all()
	if len(named) == 0 && cerr == nil && sr.err == nil {
		bad = append(bad, Violation{Property: "C18", Key: "C18:honest-exchange-names-no-directory", What: "the exchange succeeded although no directory under the base was named on the connection", Ops: ops, Expected: "one /tmp/FS_* path sent by the server", Observed: "none seen"})
	}
	for _, d := range named {
		if _, e := os.Lstat(d); e == nil {
			bad = append(bad, Violation{Property: "C18", Key: "C18:honest-exchange-leaves-directory", What: "the exchange left its directory behind", Ops: ops, Expected: "removed", Observed: filepath.Base(d)})
			_ = os.Remove(d)
		}
	}
	return true, bad
}

// ---------------------------------------------------------------------------------------------

// fsGuard runs a hook call; a panic becomes a C13 violation (and a C18 one: "clean failure") instead of a crash.
func fsGuard(c *Ctx, op string, f func()) (panicked bool) {
	defer func() {
		if r := recover(); r != nil {
			panicked = true
			for _, prop := range []string{"C13", "C18"} {
				fsViolate(c, Violation{Property: prop, Key: prop + ":fs-auth-panic", What: "filesystem-authentication code panicked on attacker-controlled input",
					Ops: []string{op}, Expected: "clean failure", Observed: fmt.Sprint(r)})
			}
		}
	}()
	f()
	return false
}

// fsViolate records a violation, at most 3 per key (one failing site must not crowd out the others).
var fsViolSeen = map[string]int{}

func fsViolate(c *Ctx, v Violation) {
	fsViolSeen[v.Key]++
	if fsViolSeen[v.Key] <= 3 {
		c.Violate(v)
	} else {
		c.Count("violations-not-recorded:" + v.Key)
	}
}

func fsWorkDir(c *Ctx) string {
	// <root>/lean/.lake/build/bin/cedar_oracle -> <root>/.work when that is this checkout's oracle;
	// otherwise the checkout the driver / the executable belongs to (workRoot). No fixed path.
	root := filepath.Dir(filepath.Dir(filepath.Dir(filepath.Dir(filepath.Dir(c.Oracle)))))
	if filepath.Base(filepath.Dir(filepath.Dir(filepath.Dir(filepath.Dir(c.Oracle))))) == "lean" {
		if d := filepath.Join(root, ".work"); os.MkdirAll(d, 0o755) == nil {
			return d
		}
	}
	return workRoot()
}

func runFsPath(c *Ctx) (err error) {
	c.Res.Rule = "server-supplied paths from a component grammar (base dir, other/nested/symlinked parents, '..', '.', empty and doubled slashes, relative forms, recognised and near-miss leaf names, IPv4/IPv6/hostname address fields spelled several ways, ports equal / near / unrelated to the connection's, over-long fields, control and non-ASCII bytes) plus 1–2 byte-level mutations of accepted paths, junk, and every path of up to 4 (thorough 5) components over a small component alphabet, for FS and FS_REMOTE and 14 kinds of connection address; fed (a) to validateFSAuthPath, fsAddrLeaf, verifyFSPathEndpoint through hooks and (b) through the whole client exchange against a scripted server (well-formed, split, NUL-less, trailing-data and broken path messages; every verdict message; failing send; object already present) with filesystem snapshots before / at reply time / after; server side: every kind of object a client might leave (25 kinds) x client replies; each observable compared with the Lean model and judged by a reference recogniser written from the statement; distinct by op line; non-trivial = path accepted, or rejected for a reason other than emptiness"
	// runs of this engine share /tmp/FS_* (and, from the same checkout, the work directory): one at a
	// time. The lock files are opened read-only (flock needs no write access), created world-readable
	// regardless of the umask, so that a run as another user (root / non-root) can still take the lock;
	// a lock that cannot be taken is an engine error -- never "go on without it".
	for _, lp := range []string{filepath.Join(os.TempDir(), ".cedar-verif-fspath.lock"), filepath.Join(fsWorkDir(c), "fspath.lock")} {
		unlock, e := fsFlock(lp)
		if e != nil {
			return fmt.Errorf("fspath: cannot take the lock %s (concurrent runs share /tmp/FS_*): %w", lp, e)
		}
		defer unlock()
	}
	sandbox, e := os.MkdirTemp(fsWorkDir(c), scratchPrefix("fspath"))
	if e != nil {
		return e
	}
	sandbox, _ = filepath.EvalSymlinks(sandbox)
	defer os.RemoveAll(sandbox)
	for _, d := range []string{"real", "real/sub", "tmp"} {
		_ = os.Mkdir(filepath.Join(sandbox, d), 0o755)
	}
	_ = os.Symlink(fsBase, filepath.Join(sandbox, "link"))
	_ = os.Symlink("real", filepath.Join(sandbox, "linkreal"))
	_ = os.WriteFile(filepath.Join(sandbox, "file"), []byte("x"), 0o644)
	cwd, _ := os.Getwd()
	if e := os.Chdir(sandbox); e != nil {
		return e
	}
	defer os.Chdir(cwd)
	// the library reports on stdout; keep the run quiet
	if devnull, e := os.OpenFile(os.DevNull, os.O_WRONLY, 0); e == nil {
		saved := os.Stdout
		os.Stdout = devnull
		defer func() { os.Stdout = saved; devnull.Close() }()
	}
	// names under /tmp carry the process id besides the seed: two instances that do meet (different
	// users, lock on another filesystem) at least never use the same names
	g := &fsGen{c: c, sandbox: sandbox, tag: "v" + strconv.FormatInt((c.Seed%1000)*1679+int64(os.Getpid()%1679), 36) + "q"} // at most 6 characters: the suffix stays within 16
	var cases []Case
	one := func(label, op, real string) {
		cases = append(cases, Case{Label: label, Ops: []string{op}, Real: []string{real}})
	}

	// ---- consts ----
	{
		base, max, lre, rre, sre := security.VerifFSAuthConsts()
		one("consts", "consts", fmt.Sprintf("ok base=%s max=%d", fsHex(base), max))
		// the three leaf-name expressions are compared by BEHAVIOUR (an equivalent re-spelling of a
		// pattern is not a change): the library's sources, compiled, against the reference
		// expressions written from the statement, on leaf names of every shape and their mutations
		refSuffix := regexp.MustCompile(`\A[A-Za-z0-9]{1,16}\z`)
		for _, pr := range []struct {
			name string
			src  string
			ref  *regexp.Regexp
		}{{"local", lre, fsRefLocal}, {"remote", rre, fsRefRemote}, {"suffix", sre, refSuffix}} {
			lib, e := regexp.Compile(pr.src)
			if e != nil {
				fsViolate(c, Violation{Property: "C18", Key: "C18:leaf-expression-unusable:" + pr.name, What: "the library's leaf-name expression does not compile", Ops: []string{"consts"}, Expected: "a regular expression", Observed: "compile error"})
				continue
			}
			for i, n := 0, c.Pick(3000, 30000); i < n; i++ {
				var leaf string
				switch g.n(5) {
				case 0:
					leaf, _ = g.goodLeaf(g.n(2) == 0, g.peer())
				case 1:
					leaf, _ = g.addrLeaf(g.n(2) == 0, g.peer())
				case 2:
					leaf, _ = g.nearMissLeaf(g.n(2) == 0)
				case 3:
					leaf = g.suffix()
				default:
					leaf, _ = g.goodLeaf(g.n(2) == 0, g.peer())
					leaf = g.mutate(leaf)
				}
				if g.n(4) == 0 {
					leaf = g.mutate(leaf)
				}
				if g.n(12) == 0 {
					leaf += "\n" // `$` without \z would let a trailing newline through
				}
				if lib.MatchString(leaf) != pr.ref.MatchString(leaf) {
					fsViolate(c, Violation{Property: "C18", Key: "C18:leaf-shape-differs:" + pr.name, What: "the library's leaf-name expression and the recognised shape of the statement disagree on a name",
						Ops: []string{"# leaf " + strconv.Quote(leaf)}, Expected: fmt.Sprintf("match=%v", pr.ref.MatchString(leaf)), Observed: fmt.Sprintf("match=%v", lib.MatchString(leaf))})
					break
				}
			}
			c.Count("consts:leaf-expression-behaviour:" + pr.name)
		}
		if base != fsBase {
			fsViolate(c, Violation{Property: "C18", Key: "C18:base-dir-changed", What: "the base directory is not the fixed temporary directory the property names", Ops: []string{"consts"}, Expected: fsBase, Observed: base})
		}
		c.Distinct("consts", true)
	}

	// ---- path/filepath ----
	for i, n := 0, c.Pick(4000, 60000); i < n; i++ {
		var p string
		if i%3 == 0 {
			p, _, _, _ = g.pathCase()
			if len(p) > 600 {
				p = p[:600]
			}
		} else {
			k := g.n(6)
			for j := 0; j < k; j++ {
				p += g.pick("/", "/", "//", "a", "tmp", ".", "..", "...", "FS_1", "", "x/", "/.", "\x00", "é")
				if g.n(2) == 0 {
					p += "/"
				}
			}
		}
		op := "path " + orc.Payload([]byte(p))
		real := fmt.Sprintf("ok abs=%s clean=%s dir=%s base=%s", b01(filepath.IsAbs(p)), fsShow(filepath.Clean(p)), fsShow(filepath.Dir(p)), fsShow(filepath.Base(p)))
		one("path", op, real)
		c.Distinct(op, p != "")
		c.Count("op:path")
	}

	// ---- net.ParseIP ----
	for i, n := 0, c.Pick(6000, 150000); i < n; i++ {
		s := g.ipString()
		if g.n(4) == 0 {
			s = g.mutate(s)
		}
		op := "parseip " + orc.Payload([]byte(s))
		real := "ok none"
		if ip := net.ParseIP(s); ip != nil {
			real = "ok " + hex.EncodeToString(ip.To16())
			c.Count("parseip:valid")
		} else {
			c.Count("parseip:invalid")
		}
		one("parseip", op, real)
		c.Distinct(op, true)
	}

	// ---- fsAddrLeaf / verifyFSPathEndpoint ----
	for i, n := 0, c.Pick(6000, 150000); i < n; i++ {
		remote := g.n(2) == 0
		peer := g.peer()
		var leaf string
		switch g.n(4) {
		case 0:
			leaf, _ = g.goodLeaf(remote, peer)
		case 1:
			leaf, _ = g.nearMissLeaf(remote)
		default:
			leaf, _ = g.addrLeaf(remote, peer)
		}
		if g.n(5) == 0 {
			leaf = g.mutate(leaf)
		}
		op := fmt.Sprintf("addrleaf %s %s", b01(remote), orc.Payload([]byte(leaf)))
		var ip, port string
		var ok bool
		if fsGuard(c, op, func() { ip, port, ok = security.VerifFSAddrLeaf(leaf, remote) }) {
			one("addrleaf", op, "err PANIC")
			continue
		}
		real := "ok none"
		if ok {
			real = "ok " + fsShow(ip) + " " + fsShow(port)
			c.Count("addrleaf:yes")
		} else {
			c.Count("addrleaf:no")
		}
		one("addrleaf", op, real)
		c.Distinct(op, ok)
		// endpoint check on whatever the name embeds (or on generated fields)
		if !ok {
			ip, _ = g.ipFor(peer)
			port, _ = g.portFor(peer)
		}
		op2 := fmt.Sprintf("endpoint %s %s %s", fsHex(ip), fsHex(port), fsPeerTok(peer))
		real2 := "ok"
		var e error
		if fsGuard(c, op2, func() { e = security.VerifVerifyFSPathEndpoint(ip, port, peer) }) {
			e = fmt.Errorf("PANIC")
		}
		if e != nil {
			real2 = "err " + fsRejClass(e)
			c.Count("endpoint:" + fsRejClass(e))
		} else {
			c.Count("endpoint:ok")
			// oracle: the accepted (ip, port) is the connection's
			if why := fsRefAccept(fsBase+"/FS_"+ip+"_"+port+"_a", false, peer); why != "" && fsRefAddrL.MatchString("FS_"+ip+"_"+port+"_a") {
				fsViolate(c, Violation{Property: "C18", Key: "C18:endpoint-check-accepts-other-endpoint", What: "verifyFSPathEndpoint accepted an address that is not the connection's: " + why,
					Ops: []string{op2}, Expected: "error", Observed: "nil"})
			}
		}
		one("endpoint", op2, real2)
		c.Distinct(op2, true)
	}

	// ---- validateFSAuthPath at volume ----
	for i, n := 0, c.Pick(60000, 1500000); i < n; i++ {
		p, remote, peer, class := g.pathCase()
		op := fmt.Sprintf("validate %s %s %s", b01(remote), fsPeerTok(peer), orc.Payload([]byte(p)))
		var leaf string
		var e error
		if fsGuard(c, op, func() { leaf, e = security.VerifValidateFSAuthPath(p, remote, peer) }) {
			e = fmt.Errorf("PANIC")
		}
		var real string
		if e != nil {
			real = "err " + fsRejClass(e)
			c.Count("validate:" + fsRejClass(e))
		} else {
			real = "ok " + fsShow(leaf)
			c.Count("validate:accepted")
			if why := fsRefAccept(p, remote, peer); why != "" {
				fsViolate(c, Violation{Property: "C18", Key: "C18:validator-accepts:" + strings.SplitN(class, "/", 2)[0], What: "validateFSAuthPath accepted a path the client must refuse: " + why,
					Ops: []string{op, "# path=" + strconv.Quote(p)}, Expected: "error", Observed: "leaf " + strconv.Quote(leaf)})
			} else if fsBase+"/"+leaf != p {
				fsViolate(c, Violation{Property: "C18", Key: "C18:validator-leaf-differs", What: "the validated leaf is not the last component of the accepted path",
					Ops: []string{op, "# path=" + strconv.Quote(p)}, Expected: p, Observed: fsBase + "/" + leaf})
			}
		}
		c.Count("class:" + strings.SplitN(class, "/", 2)[0])
		one("validate "+class, op, real)
		c.Distinct(op, real != "err empty")
		if i < 3 {
			c.Sample(map[string]any{"path": strconv.Quote(p), "remote": remote, "peer": fsPeerTok(peer), "class": class, "real": real})
		}
	}

	// ---- validateFSAuthPath: every path of up to 4 (thorough: 5) components from a small alphabet ----
	{
		comps := []string{"", ".", "..", "tmp", "sub", "FS_1a", "FS_REMOTE_h_1_a", "FS_127.0.0.1_9618_a"}
		peers := []net.Addr{nil, &net.TCPAddr{IP: net.ParseIP("127.0.0.1").To4(), Port: 9618}}
		var rec func(prefix []string, depth int)
		rec = func(prefix []string, depth int) {
			p := strings.Join(prefix, "/")
			for _, remote := range []bool{false, true} {
				for _, peer := range peers {
					op := fmt.Sprintf("validate %s %s %s", b01(remote), fsPeerTok(peer), orc.Payload([]byte(p)))
					var leaf string
					var e error
					if fsGuard(c, op, func() { leaf, e = security.VerifValidateFSAuthPath(p, remote, peer) }) {
						e = fmt.Errorf("PANIC")
					}
					real := "ok " + fsShow(leaf)
					if e != nil {
						real = "err " + fsRejClass(e)
					} else if why := fsRefAccept(p, remote, peer); why != "" {
						fsViolate(c, Violation{Property: "C18", Key: "C18:validator-accepts:enumerated", What: "validateFSAuthPath accepted a path the client must refuse: " + why,
							Ops: []string{op, "# path=" + strconv.Quote(p)}, Expected: "error", Observed: "leaf " + strconv.Quote(leaf)})
					}
					one("validate enum", op, real)
					c.Distinct(op, p != "")
					c.Count("class:enumerated")
				}
			}
			if depth == 0 {
				return
			}
			for _, x := range comps {
				rec(append(prefix[:len(prefix):len(prefix)], x), depth-1)
			}
		}
		for _, x := range comps {
			rec([]string{x}, c.Pick(3, 4))
		}
	}

	// ---- whole client exchange ----
	for i, n := 0, c.Pick(6000, 120000); i < n; i++ {
		p, remote, peer, class := g.pathCase()
		setRecorded, recorded := false, ""
		if g.n(4) == 0 {
			// the stream's recorded peer address differs from the connection's real remote address
			alt := g.peer()
			for t := 0; t < 4 && (alt == nil || peer == nil || alt.String() == peer.String()); t++ {
				alt = g.peer()
			}
			setRecorded, recorded = true, g.recordedFor(alt)
			rc := "recorded-other"
			if h, pt, ok := fsPeerHP(alt); ok && net.ParseIP(h) != nil && (strings.HasPrefix(class, "good") || strings.HasPrefix(class, "addr")) && g.n(2) == 0 {
				// … and the name is qualified with the RECORDED endpoint, which the client is not connected to
				pfx := "FS_"
				if remote {
					pfx = "FS_REMOTE_"
				}
				p = fsBase + "/" + pfx + h + "_" + pt + "_" + g.suffix()
				rc = "recorded-named"
			}
			class += "/" + rc
			c.Count("client:" + rc)
		}
		cs := fsClientCase{path: p, remote: remote, peer: peer, class: class, payload: append([]byte(p), 0), send: true, srv: "r:0", setRecorded: setRecorded, recorded: recorded}
		switch g.n(12) {
		case 0:
			cs.srv = g.pick("r:-1", "r:1", "r:7", "r:-9223372036854775808")
		case 1:
			cs.srv = g.pick("x", "f", "c")
		}
		switch k := g.n(40); {
		case k == 0:
			cs.payload = []byte(p) // no terminator
		case k == 1:
			cs.payload = append(append([]byte(p), 0), g.pick("x", "\x00", "/tmp/FS_1\x00")...)
		case k == 2:
			cs.broken = g.pick("eof", "badflag", "truncated", "huge")
		case k == 3:
			cs.payload = []byte{0}
			cs.path = ""
		case k == 4:
			cs.payload = nil
			cs.path = ""
		case k < 8 && len(p) > 1:
			cs.split = 1 + g.n(len(p))
		}
		if strings.HasPrefix(class, "good") || strings.HasPrefix(class, "addr") {
			switch g.n(12) {
			case 0:
				cs.pre = g.pick("dir", "file", "symlink")
			case 1:
				cs.send = false
			}
		}
		if k := strings.IndexByte(p, 0); k >= 0 && cs.broken == "" && cs.path != "" {
			// a NUL ends the string on a cleartext stream: what the client sees is the part before it
			c.Count("client:nul-in-path")
		}
		op, real, bad := runFsClient(c, g, cs)
		for _, v := range bad {
			fsViolate(c, v)
		}
		one("client "+class, op, real)
		c.Distinct(op, strings.Contains(real, "mkdir") || strings.Contains(real, "reply=-1"))
		c.Count("client-class:" + strings.SplitN(class, "/", 2)[0])
		switch {
		case strings.Contains(real, "eff=mkdir") && strings.Contains(real, ",remove"):
			c.Count("client:created-and-removed")
		case strings.Contains(real, "eff=mkdir"):
			c.Count("client:created-not-removed")
		case strings.Contains(real, "reply=-1"):
			c.Count("client:refused")
		default:
			c.Count("client:aborted")
		}
		if cs.pre != "" {
			c.Count("client:object-present-beforehand")
		}
		if !cs.send {
			c.Count("client:send-fails")
		}
		if i < 3 {
			c.Sample(map[string]any{"op": abbreviate([]string{op}), "path": strconv.Quote(p), "real": real})
		}
	}

	// ---- clean-up that cannot succeed: a foreign object appears inside the directory the client made ----
	for i, n := 0, c.Pick(6, 40); i < n; i++ {
		remote := g.n(2) == 0
		bad := fsCleanupForeign(c, g, remote)
		for try := 0; try < 2 && len(bad) > 0; try++ { // run again on its own before reporting (shared /tmp)
			c.Count("client:violation-rechecked")
			bad = fsCleanupForeign(c, g, remote)
		}
		for _, v := range bad {
			fsViolate(c, v)
		}
	}

	// ---- whole server exchange ----
	for rep, nrep := 0, c.Pick(2, 20); rep < nrep; rep++ {
		for _, kind := range fsServerKinds {
			for _, cli := range []string{"r:0", "r:0", "r:-1", "r:1", "x", "f"} {
				if rep > 0 && cli != "r:0" && g.n(3) != 0 {
					continue
				}
				cs := fsServerCase{remote: g.n(2) == 0, kind: kind, cli: cli}
				op, real, bad, skipped := runFsServer(c, g, cs)
				if skipped {
					c.Count("server:skipped-needs-root")
					continue
				}
				for _, v := range bad {
					fsViolate(c, v)
				}
				one("server "+kind+" "+cli, op, real)
				c.Distinct(op+kind, true)
				c.Count("server-object:" + kind)
				if strings.Contains(real, "result=0") {
					c.Count("server:accepted")
				} else {
					c.Count("server:refused")
				}
			}
		}
	}

	if n := c.Res.Distribution["server:skipped-needs-root"]; n > 0 {
		c.Res.Notes = append(c.Res.Notes, fmt.Sprintf("PARTIAL for the clause \"recording its owner as the identity\": this process is not root, so %d server cases with a directory owned by ANOTHER uid (known, unknown, wrong mode) were not run; the owner was only ever the current user, for whom owner lookup and current-user lookup coincide", n))
		c.Count("clause-partial:server-identity-of-foreign-owner-not-exercised")
	} else if c.Res.Distribution["server-object:dir-uid1"] == 0 {
		c.Res.Notes = append(c.Res.Notes, "no server case with a foreign-owned directory ran although the process is root")
		c.Count("clause-partial:server-identity-of-foreign-owner-not-exercised")
	} else {
		c.Count("server:foreign-owner-cases-ran")
	}

	// ---- honest exchanges over TCP loopback ----
	for _, nw := range [][2]string{{"tcp4", "127.0.0.1:0"}, {"tcp6", "[::1]:0"}} {
		if nw[0] == "tcp6" {
			// a machine without an IPv6 loopback is a property of the environment, said so in the evidence;
			// any other failure to set the exchange up counts against planned-vs-run
			if l, e := net.Listen("tcp6", "[::1]:0"); e != nil {
				c.Count("honest:no-ipv6-loopback-on-this-machine")
				c.Res.Notes = append(c.Res.Notes, "NOT EXERCISED: honest FS exchange over tcp6 — this machine has no IPv6 loopback ([::1] cannot be listened on); IPv6-literal directory names were exercised through the validator and the scripted client only")
				continue
			} else {
				l.Close()
			}
		}
		for _, hv := range []struct {
			remote   bool
			recorded string
		}{{false, ""}, {true, ""}, {false, "<192.0.2.7:9618>"}, {true, "<[2001:db8::7]:9618?sock=schedd_1>"}, {true, "<schedd.pool.example:9618>"}} {
			remote := hv.remote
			c.Planned("fspath-honest-exchanges", 1)
			ran, bad := runFsHonest(c, nw[0], nw[1], remote, hv.recorded)
			if hv.recorded != "" {
				c.Count("honest:recorded-peer-differs")
			}
			if !ran {
				c.Count("honest:unavailable:" + nw[0])
				continue
			}
			c.Ran("fspath-honest-exchanges", 1)
			c.Count("honest:" + nw[0])
			c.Res.Evaluations++
			for _, v := range bad {
				fsViolate(c, v)
			}
		}
	}
	if c.Res.Distribution["observation:leak-when-reply-cannot-be-sent"] > 0 {
		c.Res.Notes = append(c.Res.Notes, "observation (outside the property's quantifier, which ranges over path strings with a working transport): when the client cannot send its result code the directory it created is not removed (the clean-up is registered after the send); the model has the same behaviour (Env.sendOk = false)")
	}
	return diffBatch(c, "fspath", cases, nil)
}

// fsCleanupForeign: an accepted path, the client creates its directory and reports success; before the
// verdict arrives another local process drops a file INTO that directory. The client's clean-up can
// then only fail (rmdir of a non-empty directory): it must fail cleanly — the exchange still ends with
// its ordinary result, nothing panics, and the foreign object is not destroyed (removing "whatever
// the client created" never extends to what others put there). Implementation observables only.
func fsCleanupForeign(c *Ctx, g *fsGen, remote bool) (bad []Violation) {
	peer := g.peer()
	var leaf, target string
	for try := 0; try < 5; try++ {
		leaf, _ = g.goodLeaf(remote, peer)
		target = fsBase + "/" + leaf
		if _, err := os.Lstat(target); err != nil {
			break
		}
	}
	intruder := filepath.Join(target, "left-by-someone-else")
	conn := &fsConn{remote: peer}
	conn.in = append(fsFrame(1, append([]byte(target), 0)), fsFrame(1, fsIntBody(0))...)
	planted := false
	conn.afterW = func() {
		if planted {
			return
		}
		if _, ok := fsFirstMessage(conn.out); ok {
			if fi, err := os.Lstat(target); err == nil && fi.IsDir() {
				planted = os.WriteFile(intruder, []byte("x"), 0o600) == nil
			}
		}
	}
	st := stream.NewStream(conn)
	var err error
	func() {
		defer func() {
			if r := recover(); r != nil {
				err = fmt.Errorf("PANIC: %v", r)
			}
		}()
		err = security.VerifFSAuthClient(bg, st, remote)
	}()
	ops := []string{fmt.Sprintf("# client exchange remote=%v path=%s verdict 0; at reply time a file is created inside the client's directory", remote, strconv.Quote(target))}
	c.Count("client:cleanup-with-foreign-object-inside")
	c.Res.Evaluations++
	if err != nil && strings.HasPrefix(err.Error(), "PANIC") {
		bad = append(bad, Violation{Property: "C18", Key: "C18:client-panic", What: "the client panicked when its clean-up could not succeed", Ops: ops, Expected: "clean return", Observed: "panic"})
	}
	if planted {
		if _, e := os.Lstat(intruder); e != nil {
			bad = append(bad, Violation{Property: "C18", Key: "C18:foreign-object-touched", What: "the client's clean-up destroyed an object it did not create (a file another process put into the directory)", Ops: ops, Expected: "the foreign file is left alone (the directory stays, non-empty)", Observed: "file gone"})
		}
		if err != nil && !strings.HasPrefix(err.Error(), "PANIC") {
			bad = append(bad, Violation{Property: "C18", Key: "C18:cleanup-failure-changes-result", What: "a clean-up that cannot succeed changed the outcome of an otherwise successful exchange", Ops: ops, Expected: "success (verdict 0 was received)", Observed: "error class " + fsClientErrClass(err, true)})
		}
	} else {
		c.Count("client:cleanup-foreign-object-not-planted")
	}
	_ = os.Remove(intruder)
	_ = os.Remove(target)
	return bad
}

// fsFlock takes an exclusive advisory lock on path (created if missing, mode 0666 whatever the umask).
func fsFlock(path string) (unlock func(), err error) {
	lk, err := os.OpenFile(path, os.O_RDONLY|os.O_CREATE, 0o666)
	if err != nil {
		return nil, err
	}
	_ = os.Chmod(path, 0o666) // ours if we created it; harmless failure if somebody else's
	if err := syscall.Flock(int(lk.Fd()), syscall.LOCK_EX); err != nil {
		lk.Close()
		return nil, err
	}
	return func() { _ = syscall.Flock(int(lk.Fd()), syscall.LOCK_UN); lk.Close() }, nil
}
