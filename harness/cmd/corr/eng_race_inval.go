package main

// C17 workload `hs-invalidate`: connections that resume ONE shared session run concurrently with
// goroutines that invalidate that session (on the client's cache and on the server's) over and over.
// "… invalidating … without … handshakes disturbing one another": an invalidation decides whether the
// NEXT lookup finds the session; a handshake that already holds the entry goes on with the entry's
// key as it was, and a resumption the server no longer knows is answered and retried as a full
// handshake by the public client entry point. So every connection must end authenticated, encrypted
// and with a working echo, whatever the invalidators do meanwhile.

import (
	"context"
	"fmt"
	"net"
	"sync"
	"sync/atomic"
	"time"

	"github.com/bbockelm/cedar/security"
	"github.com/bbockelm/cedar/server"
)

const hsInvalidateGroup = "hs-invalidate"

func wlHsInvalidate(c *Ctx, out *raceWorkerOut) {
	security.ClearSessionCache()
	srv := server.New(raceSrvConf())
	srv.Handle(raceCmd, echoHandler)
	ln, err := net.Listen("tcp", "127.0.0.1:0")
	if err != nil {
		out.Notes = append(out.Notes, "hs-invalidate: cannot listen on loopback: "+err.Error())
		return
	}
	defer ln.Close()
	ctx, cancel := context.WithCancel(context.Background())
	defer cancel()
	go func() { _ = srv.Serve(ctx, ln) }()
	addr := ln.Addr().String()

	rounds := c.Pick(3, 10)
	conns, perConn := 6, c.Pick(12, 40)
	out.Dist["planned:hs-invalidate-connections"] += rounds * conns * perConn
	for rd := 0; rd < rounds; rd++ {
		ccache := security.NewSessionCache()
		sec := raceCliConf(ccache, "")
		// establish the session everybody will ride
		if _, err := oneConn(addr, sec, []byte("first")); err != nil {
			out.Notes = append(out.Notes, "hs-invalidate: could not establish the first session: "+errShort(err))
			continue
		}
		var stop atomic.Bool
		var wg, iwg sync.WaitGroup
		var mu sync.Mutex
		var failed []string
		var nres, nfull atomic.Int64
		// invalidators: the client's cache and the server's (global) cache, by the identifiers they hold
		for k := 0; k < 2; k++ {
			iwg.Add(1)
			go func(k int) {
				defer iwg.Done()
				for !stop.Load() {
					var cache *security.SessionCache
					if k == 0 {
						cache = ccache
					} else {
						cache = security.GetSessionCache()
					}
					for _, e := range cache.Snapshot() {
						cache.Invalidate(e.ID())
					}
					time.Sleep(time.Duration(3+c.Seed%5) * time.Millisecond)
				}
			}(k)
		}
		for g := 0; g < conns; g++ {
			wg.Add(1)
			go func(g int) {
				defer wg.Done()
				for i := 0; i < perConn; i++ {
					resumed, err := oneConn(addr, sec, []byte(fmt.Sprintf("r%d-g%d-%d", rd, g, i)))
					raceProgress.Add(1)
					out.countLocked(&mu, "ran:hs-invalidate-connections")
					if resumed {
						nres.Add(1)
					} else {
						nfull.Add(1)
					}
					if err != nil && security.IsSessionResumptionError(err) {
						// the public entry point retries a failed resumption a bounded number of times; when the
						// invalidators win every round it gives up with the typed resumption error -- churn, not
						// a disturbed handshake
						out.countLocked(&mu, "hs-invalidate:gave-up-after-repeated-SID_NOT_FOUND")
						continue
					}
					if err != nil {
						mu.Lock()
						if len(failed) < 4 {
							failed = append(failed, fmt.Sprintf("goroutine %d connection %d (resumed=%v): %s", g, i, resumed, errShort(err)))
						}
						mu.Unlock()
					}
				}
			}(g)
		}
		wg.Wait()
		stop.Store(true)
		iwg.Wait()
		out.Dist["hs-invalidate:resumed"] += int(nres.Load())
		out.Dist["hs-invalidate:full"] += int(nfull.Load())
		if len(failed) > 0 {
			out.violate(Violation{Property: "C17", Key: "C17:connection-disturbed-by-invalidation",
				What:     "while other goroutines invalidated the shared session, a connection through the public client entry point did not end with a working authenticated, encrypted exchange (an invalidation may make the NEXT lookup miss; it must not break a handshake that already holds the entry, and a resumption the server no longer knows is answered and retried; giving up with the typed resumption error after repeated misses is tolerated)",
				Ops:      []string{fmt.Sprintf("# round %d: 6 goroutines x %d connections riding one session of one client cache; 2 goroutines invalidating every session of the client cache / of the server's cache in a loop", rd, perConn)},
				Expected: "every connection authenticated, encrypted, echo intact", Observed: fmt.Sprint(failed)})
		}
	}
}

func (o *raceWorkerOut) countLocked(mu *sync.Mutex, k string) {
	mu.Lock()
	o.Dist[k]++
	mu.Unlock()
}
