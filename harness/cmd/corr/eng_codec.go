package main

import (
	"bytes"
	"encoding/binary"
	"fmt"
	"math"
	"math/big"
	"strings"

	"cedarverif/harness/internal/orc"
	"cedarverif/harness/internal/refcodec"

	"github.com/bbockelm/cedar/message"
)

func init() { register(Engine{"codec", runCodec}) }

// typed values of the codec engine
type tval struct {
	kind string // int int32 uint32 char str dbl bytes
	i    int64
	s    []byte
	f    float64
}

// baseKind: the value type behind an entry point (Code* and the float32 wrappers travel as the
// same wire values as Put*/Get*)
func baseKind(k string) string {
	switch k {
	case "code-int64", "code-int32", "code-int":
		return "int"
	case "code-char":
		return "char"
	case "code-dbl", "flt", "code-flt":
		return "dbl"
	case "code-str":
		return "str"
	}
	return k
}

// specEnc is the reference encoding written from protocol/CEDAR_PROTOCOL.md (not from message.go).
func specEnc(v tval, enc bool) []byte {
	be := func(x uint64) []byte { b := make([]byte, 8); binary.BigEndian.PutUint64(b, x); return b }
	switch baseKind(v.kind) {
	case "int", "int32", "uint32":
		return be(uint64(v.i))
	case "char":
		return []byte{byte(v.i)}
	case "str", "strbytes":
		var out []byte
		if enc {
			out = append(out, be(uint64(len(v.s)+1))...)
		}
		out = append(out, v.s...)
		return append(out, 0)
	case "dbl":
		frac, exp := math.Frexp(v.f)
		fi := int32(frac * 2147483647.0)
		return append(be(uint64(int64(fi))), be(uint64(int64(exp)))...)
	case "bytes":
		return v.s
	}
	return nil
}

type codecWorld struct {
	w    *sworld
	enc  bool
	enM  *message.Message
	deM  *message.Message
	ops  []string
	real []string
	// payloads of the frames A flushed for the current message
	wire [][]byte
	// reference sender towards B for re-cut delivery in encrypted mode
	refDir *refcodec.Dir
}

func newCodecWorld(c *Ctx, enc bool) *codecWorld {
	cw := &codecWorld{w: newWorld(), enc: enc}
	if enc {
		cw.w.key("A", 41)
		cw.w.key("B", 41)
		cw.refDir, _ = refcodec.NewDir(keyBytes(41), [32]byte{}, [32]byte{})
		copy(cw.refDir.BaseIV[:], randBytes(c, 16))
	}
	cw.enM = message.NewMessageForStream(cw.w.a.s)
	cw.deM = message.NewMessageFromStream(cw.w.b.s)
	cw.log(fmt.Sprintf("new %s", b01(enc)), "ok")
	return cw
}

func (cw *codecWorld) log(op, r string) { cw.ops = append(cw.ops, op); cw.real = append(cw.real, r) }

// flushed collects the frames A wrote, returns their plaintext payloads rendered as the model does.
func (cw *codecWorld) flushed() (string, error) {
	out := cw.w.a.c.TakeOut()
	frames, rest := refcodec.ParseFrames(out)
	if len(rest) > 0 {
		return "", fmt.Errorf("trailing bytes on the wire")
	}
	var parts []string
	for _, f := range frames {
		pl := f.Body
		if cw.enc {
			o, err := cw.w.a.dir.Open(f)
			if err != nil {
				return "", fmt.Errorf("frame not openable by refcodec: %v", err)
			}
			pl = o.Plain
		}
		cw.wire = append(cw.wire, append([]byte{}, pl...))
		parts = append(parts, fmt.Sprintf("%d:%s", len(pl), orc.ShowBytes(pl)))
		_ = f
	}
	cw.w.pending["B"] = append(cw.w.pending["B"], out...)
	return "[" + strings.Join(parts, ",") + "]", nil
}

func (cw *codecWorld) put(v tval) error {
	var err error
	var op string
	switch v.kind {
	case "int":
		err = cw.enM.PutInt64(bg, v.i)
		op = fmt.Sprintf("put int %d", v.i)
	case "int32":
		err = cw.enM.PutInt32(bg, int32(v.i))
		op = fmt.Sprintf("put int %d", v.i)
	case "uint32":
		err = cw.enM.PutUint32(bg, uint32(v.i))
		op = fmt.Sprintf("put int %d", v.i)
	case "char":
		err = cw.enM.PutChar(bg, byte(v.i))
		op = fmt.Sprintf("put char %d", v.i)
	case "str":
		err = cw.enM.PutString(bg, string(v.s))
		op = "put str " + orc.Payload(v.s)
	case "strbytes":
		err = cw.enM.PutStringBytes(bg, v.s)
		op = "put strbytes " + orc.Payload(v.s) // own model op: its large branch cuts frames differently from PutString's
	case "dbl":
		err = cw.enM.PutDouble(bg, v.f)
		op = fmt.Sprintf("put dbl %d", math.Float64bits(v.f))
	case "bytes":
		err = cw.enM.PutBytes(bg, v.s)
		op = "put bytes " + runPayload(v.s)
	// the Code* entry points (direction = encode on this Message) and the float32 wrappers
	case "code-int64":
		x := v.i
		err = cw.enM.CodeInt64(bg, &x)
		op = fmt.Sprintf("put int %d", v.i)
	case "code-int32":
		x := int32(v.i)
		err = cw.enM.CodeInt32(bg, &x)
		op = fmt.Sprintf("put int %d", v.i)
	case "code-int":
		x := int(v.i)
		err = cw.enM.CodeInt(bg, &x)
		op = fmt.Sprintf("put int %d", v.i)
	case "code-char":
		x := byte(v.i)
		err = cw.enM.CodeChar(bg, &x)
		op = fmt.Sprintf("put char %d", v.i)
	case "code-dbl":
		x := v.f
		err = cw.enM.CodeDouble(bg, &x)
		op = fmt.Sprintf("put dbl %d", math.Float64bits(v.f))
	case "flt":
		err = cw.enM.PutFloat(bg, float32(v.f))
		op = fmt.Sprintf("put dbl %d", math.Float64bits(v.f))
	case "code-flt":
		x := float32(v.f)
		err = cw.enM.CodeFloat(bg, &x)
		op = fmt.Sprintf("put dbl %d", math.Float64bits(v.f))
	case "code-str":
		x := string(v.s)
		err = cw.enM.CodeString(bg, &x)
		op = "put str " + orc.Payload(v.s)
	}
	if err != nil {
		cw.w.a.c.TakeOut()
		cw.log(op, "err "+errClass(err))
		return err
	}
	fl, ferr := cw.flushed()
	if ferr != nil {
		cw.log(op, "ok BROKEN:"+ferr.Error())
		return nil
	}
	cw.log(op, "ok f="+fl)
	return nil
}

func (cw *codecWorld) finish() error {
	err := cw.enM.FinishMessage(bg)
	if err != nil {
		cw.log("finish", "err "+errClass(err))
		return err
	}
	before := len(cw.wire)
	fl, ferr := cw.flushed()
	if ferr != nil {
		cw.log("finish", "ok BROKEN:"+ferr.Error())
		return nil
	}
	_ = before
	cw.log("finish", fmt.Sprintf("ok f=%s n=%d", fl, len(cw.wire)))
	return nil
}

// recut replaces what is in flight to B by the same payload bytes cut at the given positions.
func (cw *codecWorld) recut(cuts []int) {
	var all []byte
	for _, p := range cw.wire {
		all = append(all, p...)
	}
	var frames [][]byte
	pos := 0
	for _, c := range cuts {
		frames = append(frames, all[pos:c])
		pos = c
	}
	frames = append(frames, all[pos:])
	var out []byte
	for i, p := range frames {
		flag := byte(0)
		if i == len(frames)-1 {
			flag = 1
		}
		if cw.enc {
			out = append(out, cw.refDir.Seal(flag, p).Bytes()...)
		} else {
			out = append(out, refcodec.Frame{Flag: flag, Len: uint32(len(p)), Body: p}.Bytes()...)
		}
	}
	cw.w.pending["B"] = out
	var cs []string
	for _, c := range cuts {
		cs = append(cs, fmt.Sprint(c))
	}
	cw.log(strings.TrimRight("recut "+strings.Join(cs, " "), " "), fmt.Sprintf("ok n=%d", len(frames)))
}

// feedFrames puts explicit frames (payload, end-of-message flag) in flight to B, built by the reference
// codec: the decoder's input is then exactly these frames, possibly several messages in a row.
func (cw *codecWorld) feedFrames(frames [][]byte, eom []bool) {
	var out []byte
	var specs []string
	for i, p := range frames {
		flag := byte(0)
		if eom[i] {
			flag = 1
		}
		if cw.enc {
			out = append(out, cw.refDir.Seal(flag, p).Bytes()...)
		} else {
			out = append(out, refcodec.Frame{Flag: flag, Len: uint32(len(p)), Body: p}.Bytes()...)
		}
		specs = append(specs, orc.Payload(p)+"/"+b01(eom[i]))
	}
	cw.w.pending["B"] = out
	cw.log("frames "+strings.Join(specs, " "), "ok")
}

// newmsg: the application starts reading the next message (NewMessageFromStream on the same stream)
func (cw *codecWorld) newmsg() {
	cw.deM = message.NewMessageFromStream(cw.w.b.s)
	cw.log("newmsg", "ok")
}

func (cw *codecWorld) get(kind string, n int) (tval, error) {
	cw.w.deliver("B")
	var v tval
	var err error
	var r string
	op := "get " + kind
	switch kind {
	case "int":
		var x int64
		x, err = cw.deM.GetInt64(bg)
		v.i, r = x, fmt.Sprint(x)
	case "int32":
		var x int32
		x, err = cw.deM.GetInt32(bg)
		v.i, r = int64(x), fmt.Sprint(x)
	case "uint32":
		var x uint32
		x, err = cw.deM.GetUint32(bg)
		v.i, r = int64(x), fmt.Sprint(x)
	case "char":
		var x byte
		x, err = cw.deM.GetChar(bg)
		v.i, r = int64(x), fmt.Sprint(x)
	case "str":
		var x string
		x, err = cw.deM.GetString(bg)
		v.s, r = []byte(x), orc.ShowBytes([]byte(x))
	case "dbl":
		var x float64
		x, err = cw.deM.GetDouble(bg)
		v.f, r = x, fmt.Sprint(math.Float64bits(x))
	case "bytes":
		var x []byte
		x, err = cw.deM.GetBytes(bg, n)
		v.s, r = x, orc.ShowBytes(x)
		op = fmt.Sprintf("get bytes %d", n)
	case "rest":
		var x []byte
		x, err = cw.deM.GetRemainingBytes(bg)
		v.s, r = x, orc.ShowBytes(x)
	case "code-int64":
		var x int64
		err = cw.deM.CodeInt64(bg, &x)
		v.i, r, op = x, fmt.Sprint(x), "get int"
	case "code-int32":
		var x int32
		err = cw.deM.CodeInt32(bg, &x)
		v.i, r, op = int64(x), fmt.Sprint(x), "get int32"
	case "code-int":
		var x int
		err = cw.deM.CodeInt(bg, &x)
		v.i, r, op = int64(x), fmt.Sprint(x), "get int"
	case "code-char":
		var x byte
		err = cw.deM.CodeChar(bg, &x)
		v.i, r, op = int64(x), fmt.Sprint(x), "get char"
	case "code-dbl":
		var x float64
		err = cw.deM.CodeDouble(bg, &x)
		v.f, r, op = x, fmt.Sprint(math.Float64bits(x)), "get dbl"
	case "flt":
		var x float32
		x, err = cw.deM.GetFloat(bg)
		v.f, r, op = float64(x), fmt.Sprint(math.Float64bits(float64(x))), "get flt"
	case "code-flt":
		var x float32
		err = cw.deM.CodeFloat(bg, &x)
		v.f, r, op = float64(x), fmt.Sprint(math.Float64bits(float64(x))), "get flt"
	case "code-str":
		var x string
		err = cw.deM.CodeString(bg, &x)
		v.s, r, op = []byte(x), orc.ShowBytes([]byte(x)), "get str"
	}
	v.kind = kind
	if err != nil {
		cw.log(op, "err "+errClass(err))
		return v, err
	}
	cw.log(op, "ok "+r)
	return v, nil
}

func randUTF8(c *Ctx, n int) []byte {
	var b bytes.Buffer
	runes := []rune{'a', 'Z', '0', ' ', '"', '\\', 'é', 'ß', '中', '😀', '\n', '\t', 0x7f, 0xad, 0xff}
	for b.Len() < n {
		b.WriteRune(runes[c.Rng.Intn(len(runes))])
	}
	return b.Bytes()
}

// randVal: a value and the entry point that sends it (a quarter go through Code* / PutFloat)
func randVal(c *Ctx) tval {
	v := randVal0(c)
	if c.Rng.Intn(4) != 0 {
		return v
	}
	switch v.kind {
	case "int":
		v.kind = []string{"code-int64", "code-int"}[c.Rng.Intn(2)]
	case "int32":
		v.kind = "code-int32"
	case "char":
		v.kind = "code-char"
	case "str":
		v.kind = "code-str"
	case "dbl":
		switch c.Rng.Intn(3) {
		case 0:
			v.kind = "code-dbl"
		default:
			// a float32 value (finite): PutFloat / CodeFloat
			f32 := float32(v.f)
			if math.IsInf(float64(f32), 0) {
				f32 = math.MaxFloat32
				if v.f < 0 {
					f32 = -f32
				}
			}
			v.f = float64(f32)
			v.kind = []string{"flt", "code-flt"}[c.Rng.Intn(2)]
		}
	}
	return v
}

func randVal0(c *Ctx) tval {
	switch c.Rng.Intn(10) {
	case 0, 1:
		bnd := []int64{0, 1, -1, math.MaxInt64, math.MinInt64, math.MaxInt32, math.MinInt32, 1 << 32, -(1 << 32), 255, 256}
		if c.Rng.Intn(2) == 0 {
			return tval{kind: "int", i: bnd[c.Rng.Intn(len(bnd))]}
		}
		return tval{kind: "int", i: int64(c.Rng.Uint64())}
	case 2:
		return tval{kind: "int32", i: int64(int32(c.Rng.Uint32()))}
	case 3:
		return tval{kind: "uint32", i: int64(c.Rng.Uint32())}
	case 4:
		return tval{kind: "char", i: int64(c.Rng.Intn(256))}
	case 5, 6:
		n := c.Rng.Intn(40)
		if c.Rng.Intn(8) == 0 {
			n = 16370 + c.Rng.Intn(30)
		}
		if c.Rng.Intn(30) == 0 {
			n = 40000 + c.Rng.Intn(1000)
		}
		k := "str"
		if c.Rng.Intn(4) == 0 {
			k = "strbytes"
		}
		return tval{kind: k, s: randUTF8(c, n)}
	case 7, 8:
		for {
			var bits uint64
			switch c.Rng.Intn(5) {
			case 0:
				bits = c.Rng.Uint64() & 0x800fffffffffffff // subnormal
			case 1:
				bits = c.Rng.Uint64()&0x800fffffffffffff | 0x7fe0000000000000 // largest exponent
			case 2:
				bits = c.Rng.Uint64()&0x800fffffffffffff | 0x0010000000000000 // smallest normal exponent
			default:
				bits = c.Rng.Uint64()
			}
			f := math.Float64frombits(bits)
			if !math.IsNaN(f) && !math.IsInf(f, 0) {
				return tval{kind: "dbl", f: f}
			}
		}
	default:
		return tval{kind: "bytes", s: randBytes(c, 1+c.Rng.Intn(30))}
	}
}

const largePost = 0x0102030405060708

// putPost: an integer after the large value (not when the reader drains the message with GetRemainingBytes)
func (cw *codecWorld) putPost(skip bool) error {
	if skip {
		return nil
	}
	return cw.put(tval{kind: "int", i: largePost})
}

// largeContent: strings stay a constant fill (the C-string reader of the oracle is linear but slow);
// raw bytes get position-dependent content in blocks (fill runs joined by '+' in the op line), so a
// dropped, duplicated or reordered chunk shows in the value and in its digest.
func largeContent(kind string, n int) []byte {
	if kind != "bytes" {
		return fillBytes(n, 0x51)
	}
	b := make([]byte, n)
	for i := range b {
		b[i] = byte(0x30 + (i/65536)%64)
	}
	return b
}

// runPayload: large values made of a few constant runs travel as fill:<n>:<byte> parts joined by '+'
// (the oracle's payload syntax); everything else as orc.Payload renders it.
func runPayload(b []byte) string {
	if len(b) < 4096 {
		return orc.Payload(b)
	}
	var parts []string
	for i := 0; i < len(b); {
		j := i
		for j < len(b) && b[j] == b[i] {
			j++
		}
		parts = append(parts, fmt.Sprintf("fill:%d:%02x", j-i, b[i]))
		if len(parts) > 128 {
			return orc.Payload(b)
		}
		i = j
	}
	return strings.Join(parts, "+")
}

// dblNear checks the 16 wire bytes of a finite non-zero double with exact integers.
func dblNear(f float64, w []byte) string {
	frac, exp := math.Frexp(f)
	m := new(big.Int)
	big.NewFloat(math.Ldexp(frac, 53)).Int(m) // exact: the fraction has 53 bits
	fi := int64(binary.BigEndian.Uint64(w[:8]))
	ex := int64(binary.BigEndian.Uint64(w[8:16]))
	if ex != int64(exp) {
		return fmt.Sprintf("double %g: exponent on the wire %d, binary exponent %d", f, ex, exp)
	}
	if (fi < 0) != (f < 0) && fi != 0 {
		return fmt.Sprintf("double %g: fraction on the wire %d has the wrong sign", f, fi)
	}
	if fi > math.MaxInt32 || fi < math.MinInt32 {
		return fmt.Sprintf("double %g: fraction on the wire %d does not fit 32 bits", f, fi)
	}
	p53 := new(big.Int).Lsh(big.NewInt(1), 53)
	d := new(big.Int).Mul(big.NewInt(fi), p53)
	d.Sub(d, new(big.Int).Mul(m, big.NewInt(2147483647)))
	if d.Abs(d).Cmp(p53) > 0 {
		return fmt.Sprintf("double %g: fraction on the wire %d is not trunc(m·(2^31−1)/2^53) ± 1 for m = %s", f, fi, m.String())
	}
	return ""
}

func b2i(b bool) int {
	if b {
		return 1
	}
	return 0
}

func getKind(k string) string {
	if k == "strbytes" {
		return "str"
	}
	return k
}

// getVia: which decoder entry point reads a value sent as kind k (Get* or Code*, float32 or float64)
func getVia(c *Ctx, k string) string {
	switch c.Rng.Intn(3) {
	case 0:
		switch baseKind(getKind(k)) {
		case "int":
			if k == "int32" || k == "code-int32" {
				return "code-int32"
			}
			if k == "uint32" {
				return "uint32"
			}
			return []string{"code-int64", "code-int"}[c.Rng.Intn(2)]
		case "char":
			return "code-char"
		case "str":
			return "code-str"
		case "dbl":
			if k == "flt" || k == "code-flt" {
				return []string{"flt", "code-flt"}[c.Rng.Intn(2)]
			}
			return "code-dbl"
		}
	case 1:
		switch k {
		case "code-int64", "code-int":
			return "int"
		case "code-int32":
			return "int32"
		case "code-char":
			return "char"
		case "code-str":
			return "str"
		case "code-dbl":
			return "dbl"
		}
	}
	return getKind(k)
}

// sameVal is the C14 property oracle for one value.
func sameVal(put, got tval) string {
	if put.kind == "flt" || put.kind == "code-flt" || got.kind == "flt" || got.kind == "code-flt" {
		if put.kind != "flt" && put.kind != "code-flt" {
			return "" // (a float64 read back as float32: only the float32 sends are judged)
		}
		// a float32 value: 31-bit fraction on the wire, then rounding to float32 on receipt
		if put.f == 0 {
			if got.f != 0 {
				return fmt.Sprintf("float 0 decoded as %g", got.f)
			}
			return ""
		}
		if rel := math.Abs(got.f-put.f) / math.Abs(put.f); rel > math.Ldexp(1, -22) && math.Abs(got.f-put.f) > math.Ldexp(1, -149)*2 {
			return fmt.Sprintf("float %g decoded as %g (rel err %g)", put.f, got.f, rel)
		}
		return ""
	}
	switch baseKind(put.kind) {
	case "int", "int32", "uint32", "char":
		if put.i != got.i {
			return fmt.Sprintf("integer %d decoded as %d", put.i, got.i)
		}
	case "str", "strbytes", "bytes":
		if !bytes.Equal(put.s, got.s) {
			return fmt.Sprintf("%s %s decoded as %s", put.kind, orc.ShowBytes(put.s), orc.ShowBytes(got.s))
		}
	case "dbl":
		if put.f == 0 {
			if got.f != 0 {
				return fmt.Sprintf("double 0 decoded as %g", got.f)
			}
			return ""
		}
		rel := math.Abs(got.f-put.f) / math.Abs(put.f)
		// subnormal results lose bits to gradual underflow: compare at the absolute ulp of the result
		if rel > math.Ldexp(1, -29) && math.Abs(got.f-put.f) > math.Ldexp(1, -1074)*2 {
			return fmt.Sprintf("double %g decoded as %g (rel err %g)", put.f, got.f, rel)
		}
	}
	return ""
}

func runCodec(c *Ctx) error {
	prop := "C14"
	c.Res.Rule = "sequences of typed values (ints at type boundaries and random; int32/uint32 wrappers; chars; UTF-8 NUL-free strings to multi-frame length via PutString and PutStringBytes; finite doubles from random bit patterns, subnormals, exponent extremes; raw bytes) encoded by the real message.Message on real streams in both modes; emitted bytes compared with an independent spec encoder; decoded as sent and again after re-cutting the payload bytes into frames at every position (short sequences) or random positions; plus 2-3 messages in a row on one stream (frames cut anywhere, empty partial frames, the end-of-message flag in an EMPTY frame of its own), each decoded, drained with GetRemainingBytes (nothing left, nothing of the next message) and followed by NewMessageFromStream; plus PutBytes/PutString/PutStringBytes/CodeString of 1 MiB ± 40 and 2–3 MiB in both modes, strings read back through GetString and CodeString as sent and after re-cutting the frames (inside the length prefix, in the text, before the terminator), judged by a property oracle on the decoded string and on the value that follows it; distinct by op-sequence hash; non-trivial = ≥2 values or a cut inside a value"
	var cases []Case
	n := c.Pick(300, 5000)
	for i := 0; i < n; i++ {
		enc := c.Rng.Intn(2) == 1
		cw := newCodecWorld(c, enc)
		nv := 1 + c.Rng.Intn(6)
		var vals []tval
		var want []byte
		okAll := true
		for j := 0; j < nv; j++ {
			v := randVal(c)
			if cw.put(v) != nil {
				okAll = false
				c.Violate(Violation{Property: "C01", Key: "C01:typed-put-rejected:" + v.kind, What: "the typed layer refused a value", Ops: cw.ops, Expected: "ok", Observed: cw.real[len(cw.real)-1]})
				break
			}
			vals = append(vals, v)
			want = append(want, specEnc(v, enc)...)
		}
		if okAll {
			_ = cw.finish()
			var all []byte
			for _, p := range cw.wire {
				all = append(all, p...)
			}
			if !bytes.Equal(all, want) {
				c.Violate(Violation{Property: prop, Key: "C14:layout", What: "emitted bytes differ from the reference layout", Ops: cw.ops,
					Expected: orc.ShowBytes(want), Observed: orc.ShowBytes(all)})
			}
			// choose a delivery: as sent, or re-cut
			mode := c.Rng.Intn(3)
			cutInside := false
			if mode > 0 && len(all) > 0 {
				var cuts []int
				if len(all) <= 24 && mode == 1 {
					// one cut at a random position, the exhaustive sweep is below
					cuts = []int{c.Rng.Intn(len(all) + 1)}
				} else {
					k := 1 + c.Rng.Intn(6)
					pos := 0
					for q := 0; q < k && pos < len(all); q++ {
						pos += c.Rng.Intn(len(all) - pos + 1)
						cuts = append(cuts, pos)
					}
				}
				cw.recut(cuts)
				cutInside = true
			}
			// the fraction of every double on the wire, against exact integer arithmetic (independent
			// of float multiplication): |fracInt · 2^53 − m · FracConst| ≤ 2^53 and the sign of m — the
			// hypothesis `NearN` of the precision theorem, measured on the implementation
			{
				off := 0
				for _, v := range vals {
					e := specEnc(v, enc)
					if baseKind(v.kind) == "dbl" && v.f != 0 && off+16 <= len(all) {
						if bad := dblNear(v.f, all[off:off+16]); bad != "" {
							c.Violate(Violation{Property: prop, Key: "C14:double-fraction", What: bad, Ops: cw.ops, Expected: "fraction = trunc(m·(2^31−1)/2^53) ± 1 with the sign of the value, exponent = the binary exponent", Observed: orc.ShowBytes(all[off : off+16])})
						}
					}
					off += len(e)
				}
			}
			// sometimes the reader stops after k values and takes the rest of the message raw
			stopAt := len(vals)
			if c.Rng.Intn(5) == 0 {
				stopAt = c.Rng.Intn(len(vals) + 1)
			}
			for vi, v := range vals {
				if vi == stopAt {
					break
				}
				g, err := cw.get(getVia(c, v.kind), len(v.s))
				if err != nil {
					c.Violate(Violation{Property: prop, Key: "C14:decode-error:" + v.kind, What: "decoding what was encoded failed", Ops: cw.ops, Expected: "value", Observed: err.Error()})
					break
				}
				if bad := sameVal(v, g); bad != "" {
					c.Violate(Violation{Property: prop, Key: "C14:value:" + v.kind + "->" + g.kind, What: bad, Ops: cw.ops, Expected: "same value", Observed: bad})
					break
				}
			}
			if stopAt < len(vals) {
				var wantRest []byte
				for _, v := range vals[stopAt:] {
					wantRest = append(wantRest, specEnc(v, enc)...)
				}
				g, err := cw.get("rest", 0)
				if err != nil {
					c.Violate(Violation{Property: prop, Key: "C14:decode-error:rest", What: "GetRemainingBytes failed on an unfinished message", Ops: cw.ops, Expected: "the remaining bytes", Observed: err.Error()})
				} else if !bytes.Equal(g.s, wantRest) {
					c.Violate(Violation{Property: prop, Key: "C14:value:rest", What: "GetRemainingBytes did not return exactly the encodings of the values not yet read", Ops: cw.ops, Expected: orc.ShowBytes(wantRest), Observed: orc.ShowBytes(g.s)})
				}
				c.Count("kind:rest")
			}
			c.Distinct(strings.Join(cw.ops, "\n"), nv >= 2 || cutInside)
			c.Count("mode:" + b01(enc))
			for _, v := range vals {
				c.Count("val:" + v.kind)
			}
		}
		if i < 2 {
			c.Sample(map[string]any{"ops": abbreviate(cw.ops), "real": abbreviate(cw.real)})
		}
		cases = append(cases, Case{Label: fmt.Sprintf("codec#%d", i), Ops: cw.ops, Real: cw.real})
	}
	// every cut position of short sequences, both modes
	for enc := 0; enc < 2; enc++ {
		for t := 0; t < c.Pick(6, 40); t++ {
			vals := []tval{randVal(c), randVal(c), randVal(c)}
			for i := range vals {
				if len(vals[i].s) > 40 {
					vals[i].s = vals[i].s[:40-len(vals[i].s)%3]
					vals[i].s = randUTF8(c, 12)
				}
			}
			total := 0
			for _, v := range vals {
				total += len(specEnc(v, enc == 1))
			}
			for cut := 0; cut <= total; cut++ {
				cw := newCodecWorld(c, enc == 1)
				for _, v := range vals {
					_ = cw.put(v)
				}
				_ = cw.finish()
				cw.recut([]int{cut})
				for _, v := range vals {
					g, err := cw.get(getVia(c, v.kind), len(v.s))
					if err != nil {
						c.Violate(Violation{Property: prop, Key: "C14:decode-error-cut:" + v.kind, What: "decoding failed after re-cutting", Ops: cw.ops, Expected: "value", Observed: err.Error()})
						break
					}
					if bad := sameVal(v, g); bad != "" {
						c.Violate(Violation{Property: prop, Key: "C14:value-cut:" + v.kind, What: bad, Ops: cw.ops, Expected: "same value", Observed: bad})
						break
					}
				}
				c.Distinct(strings.Join(cw.ops, "\n"), true)
				c.Count("kind:everycut")
				cases = append(cases, Case{Label: fmt.Sprintf("everycut enc=%d t=%d cut=%d", enc, t, cut), Ops: cw.ops, Real: cw.real})
			}
		}
	}
	// message boundaries in the typed reader: two or three messages in a row on one stream, the frames
	// of each cut anywhere, empty partial frames in between, and — two cases in three — the end-of-message
	// flag travelling in a frame of its own WITHOUT payload (what a sender produces that flushes right
	// before FinishMessage). The reader decodes the values of a message, drains it (GetRemainingBytes:
	// nothing may be left, nothing of the next message may leak in), starts the next message.
	for i := 0; i < c.Pick(150, 2000); i++ {
		enc := i%2 == 1
		cw := newCodecWorld(c, enc)
		nmsg := 2 + c.Rng.Intn(2)
		var msgs [][]tval
		var frames [][]byte
		var eoms []bool
		emptyEOM := false
		for mi := 0; mi < nmsg; mi++ {
			var vals []tval
			var enc1 []byte
			for j := 0; j < 1+c.Rng.Intn(3); j++ {
				v := randVal(c)
				if len(v.s) > 60 {
					v.s = randUTF8(c, 12)
				}
				vals = append(vals, v)
				enc1 = append(enc1, specEnc(v, enc)...)
			}
			msgs = append(msgs, vals)
			pos := 0
			for k := c.Rng.Intn(3); k > 0 && pos < len(enc1); k-- {
				n := c.Rng.Intn(len(enc1) - pos + 1)
				frames, eoms = append(frames, enc1[pos:pos+n]), append(eoms, false)
				pos += n
				if c.Rng.Intn(4) == 0 {
					frames, eoms = append(frames, nil), append(eoms, false) // an empty partial frame
				}
			}
			if c.Rng.Intn(3) != 0 || (mi == 0 && i%4 < 2) {
				frames, eoms = append(frames, enc1[pos:], nil), append(eoms, false, true) // the end-of-message mark on its own
				emptyEOM = true
			} else {
				frames, eoms = append(frames, enc1[pos:]), append(eoms, true)
			}
		}
		cw.feedFrames(frames, eoms)
	readAll:
		for mi, vals := range msgs {
			if mi > 0 {
				cw.newmsg()
			}
			for _, v := range vals {
				g, err := cw.get(getVia(c, v.kind), len(v.s))
				if err != nil {
					c.Violate(Violation{Property: "C01", Key: "C01:typed-boundary:decode-error:" + b01(enc), What: fmt.Sprintf("a value of message %d (of %d in a row) could not be decoded", mi+1, nmsg), Ops: cw.ops, Expected: "value", Observed: "error class " + errKind(err)})
					break readAll
				}
				if bad := sameVal(v, g); bad != "" {
					c.Violate(Violation{Property: "C01", Key: "C01:typed-boundary:value:" + b01(enc), What: fmt.Sprintf("message %d of %d in a row: %s", mi+1, nmsg, bad), Ops: cw.ops, Expected: "same value", Observed: bad})
					break readAll
				}
			}
			g, err := cw.get("rest", 0)
			if err != nil || len(g.s) != 0 {
				c.Violate(Violation{Property: "C01", Key: "C01:typed-boundary:message-not-ended:" + b01(enc), What: fmt.Sprintf("after all values of message %d (of %d in a row) were decoded the typed reader does not see the end of that message: bytes of the next message leak in, or the stream is read past the end", mi+1, nmsg),
					Ops: cw.ops, Expected: "GetRemainingBytes returns nothing", Observed: fmt.Sprintf("%d bytes, error class %q", len(g.s), errKind(err))})
				break
			}
		}
		c.Distinct(strings.Join(cw.ops, "\n"), true)
		c.Count("kind:boundaries:empty-eom=" + b01(emptyEOM))
		cases = append(cases, Case{Label: fmt.Sprintf("boundaries#%d enc=%v", i, enc), Ops: cw.ops, Real: cw.real})
	}
	// large values through the typed layer (C01 typed part)
	sizes := []int{MiB - 40, MiB - 33, MiB - 32, MiB - 31, MiB - 17, MiB - 16, MiB - 9, MiB - 8, MiB - 1, MiB, MiB + 1, 2*MiB + 5}
	if c.Thorough() {
		sizes = append(sizes, MiB-34, MiB-15, MiB+31, 2*MiB-32, 2*MiB-64, 3*MiB+17)
	}
	for enc := 0; enc < 2; enc++ {
		for _, sz := range sizes {
			for _, kind := range []string{"bytes", "str", "strbytes", "bytes-rest", "code-str", "str/recut", "strbytes/recut", "code-str/recut"} {
				// strings re-cut: the same bytes delivered in frames cut elsewhere — inside the leading integer,
				// inside the length prefix, in the text, right before the terminator
				doRecut := strings.HasSuffix(kind, "/recut")
				kind = strings.TrimSuffix(kind, "/recut")
				if doRecut && !c.Thorough() && sz != MiB && sz != 2*MiB+5 && !(sz == MiB-9 && kind == "str") {
					continue
				}
				if kind == "str" && !c.Thorough() && sz != MiB-9 && sz != MiB-33 && sz != MiB && sz != MiB-41 && sz != MiB-40 {
					continue
				}
				if kind == "code-str" && !c.Thorough() && sz != MiB-40 && sz != MiB-8 && sz != MiB && sz != 2*MiB+5 {
					continue
				}
				// PutStringBytes around the threshold of its large branch (len+1 [+8] > frame payload limit) and
				// well above it; GetRemainingBytes on a value spanning several frames
				if kind == "strbytes" && !c.Thorough() && sz != MiB-40 && sz != MiB-1 && sz != MiB && sz != 2*MiB+5 && sz != MiB-9 && sz != MiB+1 {
					continue
				}
				if kind == "bytes-rest" && !c.Thorough() && sz != MiB+1 && sz != 2*MiB+5 {
					continue
				}
				readRest := kind == "bytes-rest"
				if readRest {
					kind = "bytes"
				}
				cw := newCodecWorld(c, enc == 1)
				pre := tval{kind: "int", i: 7}
				_ = cw.put(pre)
				v := tval{kind: kind, s: largeContent(kind, sz)}
				if err := cw.put(v); err != nil {
					c.Violate(Violation{Property: "C01", Key: "C01:typed-put-rejected-large:" + kind + ":" + b01(enc == 1), What: "the typed layer refused a large value instead of splitting it",
						Ops: cw.ops, Expected: "ok", Observed: err.Error()})
				} else if err := cw.putPost(readRest); err != nil {
					c.Violate(Violation{Property: "C01", Key: "C01:typed-put-rejected-after-large:" + kind + ":" + b01(enc == 1), What: "the typed layer refused a value following a large one",
						Ops: cw.ops, Expected: "ok", Observed: err.Error()})
				} else if err := cw.finish(); err != nil {
					c.Violate(Violation{Property: "C01", Key: "C01:typed-finish-rejected-large:" + kind + ":" + b01(enc == 1), What: "FinishMessage failed after a large value",
						Ops: cw.ops, Expected: "ok", Observed: err.Error()})
				} else {
					isStr := baseKind(getKind(kind)) == "str"
					if doRecut {
						total := 0
						for _, p := range cw.wire {
							total += len(p)
						}
						cuts := []int{1 + c.Rng.Intn(7)}
						if enc == 1 {
							cuts = append(cuts, 9+c.Rng.Intn(7)) // inside the length prefix
						}
						for pos := cuts[len(cuts)-1]; ; {
							pos += 1 + c.Rng.Intn(900*1024)
							if pos >= total-20 {
								break
							}
							cuts = append(cuts, pos)
						}
						cuts = append(cuts, total-9-c.Rng.Intn(3), total-8) // before the terminator; before the trailing integer
						cw.recut(cuts)
					}
					if kind == "strbytes" {
						var all []byte
						for _, p := range cw.wire {
							all = append(all, p...)
						}
						want := append(specEnc(pre, enc == 1), specEnc(v, enc == 1)...)
						if !readRest { // the integer written after the large value
							want = append(want, specEnc(tval{kind: "int", i: largePost}, enc == 1)...)
						}
						if !bytes.Equal(all, want) {
							c.Violate(Violation{Property: "C14", Key: "C14:layout:large-strbytes", What: fmt.Sprintf("PutStringBytes of %d bytes: emitted bytes differ from the reference layout (%d bytes on the wire, %d expected)", sz, len(all), len(want)), Ops: cw.ops,
								Expected: orc.ShowBytes(want), Observed: orc.ShowBytes(all)})
						}
					}
					g0, err := cw.get("int", 0)
					if err == nil {
						rk := getKind(kind)
						if readRest {
							rk = "rest"
						}
						if isStr && (sz+enc+b2i(doRecut))%2 == 1 {
							rk = map[string]string{"str": "code-str", "code-str": "str"}[rk] // every sender entry point × GetString / CodeString
						}
						g, err2 := cw.get(rk, sz)
						err = err2
						if err == nil && (g0.i != 7 || !bytes.Equal(g.s, v.s)) {
							c.Violate(Violation{Property: "C01", Key: "C01:typed-large-differs:" + kind, What: "large value differs", Ops: cw.ops, Expected: orc.ShowBytes(v.s), Observed: orc.ShowBytes(g.s)})
						}
						// ---- property oracle C14 for strings of multi-frame length: "decoding what was encoded returns
						// ... NUL-free strings exactly ... wherever frame boundaries fall, including in the middle of a
						// value", in both encryption modes, through PutString / PutStringBytes / CodeString on the
						// sending side and GetString / CodeString on the receiving side ----
						if isStr {
							c.Count(fmt.Sprintf("large-str:%s->%s:enc=%d:recut=%s", kind, rk, enc, b01(doRecut)))
							if err2 != nil {
								c.Violate(Violation{Property: "C14", Key: "C14:decode-error:large-" + kind + "->" + rk + ":" + b01(enc == 1), What: fmt.Sprintf("a NUL-free string of %d bytes that the typed sender encoded (spread over several frames) could not be decoded", sz),
									Ops: cw.ops, Expected: "the string", Observed: "error class " + errKind(err2)})
							} else if !bytes.Equal(g.s, v.s) {
								c.Violate(Violation{Property: "C14", Key: "C14:value:large-" + kind + "->" + rk + ":" + b01(enc == 1), What: fmt.Sprintf("a NUL-free string of %d bytes was not decoded exactly", sz),
									Ops: cw.ops, Expected: orc.ShowBytes(v.s), Observed: orc.ShowBytes(g.s)})
							}
						}
						if err == nil && !readRest {
							// the value FOLLOWING the large one: a length prefix or terminator that is off by one
							// leaves the large value intact and shifts everything after it
							g1, err3 := cw.get("int", 0)
							err = err3
							if isStr && err2 == nil && (err3 != nil || g1.i != largePost) {
								c.Violate(Violation{Property: "C14", Key: "C14:value-after-large-" + kind + ":" + b01(enc == 1), What: "the integer following a multi-frame string was not decoded as sent (the string's length prefix or terminator is off)",
									Ops: cw.ops, Expected: fmt.Sprint(int64(largePost)), Observed: fmt.Sprint(g1.i, " ", errKind(err3))})
							}
							if err == nil && g1.i != largePost {
								c.Violate(Violation{Property: "C01", Key: "C01:typed-after-large-differs:" + kind + ":" + b01(enc == 1), What: "the value following a large one is not received as sent (the large value consumed too few or too many bytes)",
									Ops: cw.ops, Expected: fmt.Sprint(int64(largePost)), Observed: fmt.Sprint(g1.i)})
							}
						}
					}
					if err != nil {
						c.Violate(Violation{Property: "C01", Key: "C01:typed-large-rejected-by-receiver:" + kind + ":" + b01(enc == 1), What: "frames the typed sender emitted were rejected by the cedar receiver",
							Ops: cw.ops, Expected: "value", Observed: err.Error()})
					}
				}
				c.Distinct(strings.Join(cw.ops, "\n"), true)
				c.Count("kind:large")
				cases = append(cases, Case{Label: fmt.Sprintf("large %s %d enc=%d recut=%v", kind, sz, enc, doRecut), Ops: cw.ops, Real: cw.real})
			}
		}
	}
	return diffBatch(c, "codec", cases, nil)
}
