package main

// Wire observation shared by the handshake engines (hsadv, matrix): a tap that records every
// Write of both ends of an in-memory pipe in one global order, a splitter of the recorded bytes
// into CEDAR messages, and an interpreter of the cleartext authentication loop that says which
// method exchanges ran and which one COMPLETED -- read from the wire, not from what an endpoint
// reports (the property: "the authentication flag and method reported by a full handshake are
// exactly what ran on the wire").

import (
	"bytes"
	"encoding/binary"
	"net"
	"sort"
	"strings"
	"sync"

	"cedarverif/harness/internal/bufpipe"
	"cedarverif/harness/internal/refcodec"
)

type tapWrite struct{ seq, n int }

type wireTap struct {
	mu  sync.Mutex
	seq int
	w   [2][]tapWrite // per direction: 0 = client->server, 1 = server->client
	raw [2][]byte
}

type tapConn struct {
	*bufpipe.Conn
	tap    *wireTap
	dir    int
	remote net.Addr // when set, what this end believes its peer's address to be (address translation)
}

func (t *tapConn) Write(p []byte) (int, error) {
	t.tap.mu.Lock()
	t.tap.seq++
	t.tap.w[t.dir] = append(t.tap.w[t.dir], tapWrite{t.tap.seq, len(p)})
	t.tap.raw[t.dir] = append(t.tap.raw[t.dir], p...)
	t.tap.mu.Unlock()
	return t.Conn.Write(p)
}

func (t *tapConn) RemoteAddr() net.Addr {
	if t.remote != nil {
		return t.remote
	}
	return t.Conn.RemoteAddr()
}

type strAddr string

func (a strAddr) Network() string { return "tcp" }
func (a strAddr) String() string  { return string(a) }

// tappedPair: client end, server end and the tap. clientSees != "" makes the client end report
// that address as its peer's (a client behind an address translator: it dialled clientSees, the
// server's own socket is addrS).
func tappedPair(addrC, addrS, clientSees string) (*tapConn, *tapConn, *wireTap) {
	a, b := bufpipe.Pair(addrC, addrS)
	tp := &wireTap{}
	ca := &tapConn{Conn: a, tap: tp, dir: 0}
	if clientSees != "" {
		ca.remote = strAddr(clientSees)
	}
	return ca, &tapConn{Conn: b, tap: tp, dir: 1}, tp
}

type tapMsg struct {
	dir     int
	seq     int
	frames  []refcodec.Frame
	payload []byte // concatenated frame bodies (meaningful while the direction is in clear)
}

// messages splits what was written so far into messages (frames up to a non-zero end flag) and
// merges both directions in the order the first byte of each message was written.
func (tp *wireTap) messages() []tapMsg {
	tp.mu.Lock()
	defer tp.mu.Unlock()
	var out []tapMsg
	for dir := 0; dir < 2; dir++ {
		frames, _ := refcodec.ParseFrames(tp.raw[dir])
		off := 0
		wi, wend := 0, 0
		if len(tp.w[dir]) > 0 {
			wend = tp.w[dir][0].n
		}
		seqAt := func(o int) int {
			for wi < len(tp.w[dir])-1 && o >= wend {
				wi++
				wend += tp.w[dir][wi].n
			}
			if wi < len(tp.w[dir]) {
				return tp.w[dir][wi].seq
			}
			return 1 << 30
		}
		cur := tapMsg{dir: dir, seq: -1}
		for _, f := range frames {
			if cur.seq < 0 {
				cur.seq = seqAt(off)
			}
			cur.frames = append(cur.frames, f)
			cur.payload = append(cur.payload, f.Body...)
			off += 5 + len(f.Body)
			if f.Flag != 0 {
				out = append(out, cur)
				cur = tapMsg{dir: dir, seq: -1}
			}
		}
		if cur.seq >= 0 {
			out = append(out, cur)
		}
	}
	sort.SliceStable(out, func(i, j int) bool { return out[i].seq < out[j].seq })
	return out
}

func (tp *wireTap) written(dir int) []byte {
	tp.mu.Lock()
	defer tp.mu.Unlock()
	return append([]byte{}, tp.raw[dir]...)
}

func oneInt(p []byte) (int64, bool) {
	if len(p) != 8 {
		return 0, false
	}
	return int64(binary.BigEndian.Uint64(p)), true
}

type wireAuth struct {
	parsed bool     // the cleartext authentication loop could be followed to its end
	ranAny []string // method exchanges begun on the wire, in order
	ranOK  []string // the exchange after which the server went on to the key message (at most one)
	masks  []int64
	picks  []int64
}

// methodOfBit: the bit values of the protocol description (condor_auth.h).
func methodOfBit(b int64, listed []string) string {
	switch b {
	case 2:
		return "CLAIMTOBE"
	case 4:
		return "FS"
	case 8:
		return "FS_REMOTE"
	case 64:
		return "KERBEROS"
	case 256:
		return "SSL"
	case 512:
		return "PASSWORD"
	case 2048:
		return "TOKEN" // also spelled IDTOKENS: same bit, same exchange (see canonMethod)
	case 4096:
		return "SCITOKENS"
	}
	return "?"
}

// canonMethod: TOKEN and IDTOKENS are two spellings of one method (one bit, one exchange); the wire
// cannot tell them apart, so reported names are compared up to this spelling.
func canonMethod(m string) string {
	if m == "IDTOKENS" {
		return "TOKEN"
	}
	return m
}

func containsCanon(l []string, m string) bool {
	for _, x := range l {
		if canonMethod(x) == canonMethod(m) {
			return true
		}
	}
	return false
}

// exchange shapes (message directions after the server's pick; c = client speaks)
// PASSWORD is a stub on both ends: it fails at once without a message.
var wireShape = map[string]string{"CLAIMTOBE": "cs", "FS": "scs", "FS_REMOTE": "scs", "TOKEN": "csc", "IDTOKENS": "csc", "PASSWORD": ""}

// readAuthLoop follows the authentication loop in the messages after the two negotiation ads:
//
//	client: mask     server: pick (one bit, 0 = nothing usable in the mask)
//	  <exchange of the picked method>
//	then EITHER the server speaks again (the key message: the method completed)
//	     OR the client sends its next (smaller) mask / 0 (the method failed).
func readAuthLoop(ms []tapMsg, listed []string) wireAuth {
	var r wireAuth
	i := 0
	// skip the negotiation: first message of each direction
	seen := [2]bool{}
	for i < len(ms) && !(seen[0] && seen[1]) {
		seen[ms[i].dir] = true
		i++
	}
	for i < len(ms) {
		if ms[i].dir != 0 {
			r.parsed = len(r.masks) == 0 // no authentication phase at all
			return r
		}
		mask, ok := oneInt(ms[i].payload)
		if !ok {
			// not a mask: the client went on to something else (no authentication phase, or it is over)
			r.parsed = len(r.masks) == 0 || len(r.ranOK) > 0
			return r
		}
		r.masks = append(r.masks, mask)
		if mask == 0 {
			r.parsed = true
			return r
		}
		if i+1 >= len(ms) || ms[i+1].dir != 1 {
			r.parsed = i+1 >= len(ms)
			return r
		}
		pickv, ok := oneInt(ms[i+1].payload)
		if !ok {
			return r
		}
		r.picks = append(r.picks, pickv)
		i += 2
		if pickv == 0 {
			continue
		}
		m := methodOfBit(pickv, listed)
		shape, known := wireShape[m]
		if !known {
			return r
		}
		r.ranAny = append(r.ranAny, m)
		for _, d := range shape {
			want := 0
			if d == 's' {
				want = 1
			}
			if i >= len(ms) {
				r.parsed = true // connection ended inside the exchange: it did not complete
				return r
			}
			if ms[i].dir != want {
				break
			}
			i++
		}
		if i >= len(ms) {
			r.parsed = true
			return r
		}
		if ms[i].dir == 1 {
			// the server carries on: key message (one int). The method completed.
			if _, ok := oneInt(ms[i].payload); !ok {
				return r
			}
			r.ranOK = append(r.ranOK, m)
			r.parsed = true
			return r
		}
	}
	r.parsed = true
	return r
}

func joinDash(l []string) string {
	if len(l) == 0 {
		return "-"
	}
	return strings.Join(l, ",")
}

// wireDenied: the server's LAST cleartext message is a ClassAd carrying a return code other than
// AUTHORIZED (the explicit denial of the protocol), and the server sent nothing after it.
func wireDenied(ms []tapMsg) bool {
	var last *tapMsg
	for k := range ms {
		if ms[k].dir == 1 {
			last = &ms[k]
		}
	}
	if last == nil {
		return false
	}
	rc, ok := adStringAttr(last.payload, "ReturnCode")
	return ok && rc != "" && rc != "AUTHORIZED"
}

// adStringAttr finds `name = "value"` among the NUL-terminated expressions of a ClassAd on the wire.
func adStringAttr(p []byte, name string) (string, bool) {
	for _, part := range bytes.Split(p, []byte{0}) {
		s := string(part)
		eq := strings.Index(s, "=")
		if eq < 0 {
			continue
		}
		if !strings.EqualFold(strings.TrimSpace(s[:eq]), name) {
			continue
		}
		v := strings.TrimSpace(s[eq+1:])
		if len(v) >= 2 && v[0] == '"' && v[len(v)-1] == '"' {
			return v[1 : len(v)-1], true
		}
		return v, true
	}
	return "", false
}
