package main

// C17 workloads on handshakes: many simultaneous client connections sharing one *SecurityConfig
// and one SessionCache against one server (fresh, resuming one shared session, mixed) with cache
// maintenance running; deterministic replays of the configuration-cell schedules and of the
// resume-vs-Invalidate schedule on real Authenticators.

import (
	"bytes"
	"context"
	"fmt"
	"log/slog"
	"net"
	"runtime"
	"strings"
	"sync"
	"sync/atomic"
	"time"

	"cedarverif/harness/internal/bufpipe"

	"github.com/PelicanPlatform/classad/classad"
	"github.com/bbockelm/cedar/client"
	"github.com/bbockelm/cedar/commands"
	"github.com/bbockelm/cedar/message"
	"github.com/bbockelm/cedar/security"
	"github.com/bbockelm/cedar/server"
	"github.com/bbockelm/cedar/stream"
)

const raceCmd = 60007

func raceSrvConf() *security.SecurityConfig {
	return &security.SecurityConfig{AuthMethods: toMethods([]string{"CLAIMTOBE"}), Authentication: security.SecurityRequired,
		CryptoMethods: toCiphers([]string{"AES"}), Encryption: security.SecurityRequired, Integrity: security.SecurityOptional}
}

func raceCliConf(cache *security.SessionCache, tag string) *security.SecurityConfig {
	return &security.SecurityConfig{AuthMethods: toMethods([]string{"CLAIMTOBE"}), Authentication: security.SecurityOptional,
		CryptoMethods: toCiphers([]string{"AES"}), Encryption: security.SecurityRequired, Integrity: security.SecurityOptional,
		Command: raceCmd, SessionCache: cache, SecurityTag: tag}
}

// The shared-configuration workload uses MULTI-element method lists, in an order that is neither
// ascending nor descending: a shallow copy (x := *cfg) shares the slices' backing arrays with the
// caller's object, so any in-place reordering / element write by one handshake is a write to memory
// every other handshake reads. (The server tries its own list in order and CLAIMTOBE is first; the
// client never offers TOKEN, so the negotiated method stays CLAIMTOBE.)
var (
	raceSrvMethods = []string{"CLAIMTOBE", "TOKEN", "FS"}
	raceCliMethods = []string{"FS", "CLAIMTOBE", "KERBEROS"}
	// the server walks ITS list and takes the first cipher the client also lists: 3DES is not offered
	// by the client, so AES is negotiated although it is first in neither list
	raceSrvCiphers = []string{"3DES", "AES", "BLOWFISH"}
	raceCliCiphers = []string{"BLOWFISH", "AES"}
)

func raceSrvConfMulti() *security.SecurityConfig {
	c := raceSrvConf()
	c.AuthMethods, c.CryptoMethods = toMethods(raceSrvMethods), toCiphers(raceSrvCiphers)
	return c
}

func raceCliConfMulti(cache *security.SessionCache, tag string) *security.SecurityConfig {
	c := raceCliConf(cache, tag)
	c.AuthMethods, c.CryptoMethods = toMethods(raceCliMethods), toCiphers(raceCliCiphers)
	return c
}

// cfgLists renders the two method lists of a configuration object (order matters).
func cfgLists(c *security.SecurityConfig) string {
	var a, k []string
	for _, m := range c.AuthMethods {
		a = append(a, string(m))
	}
	for _, m := range c.CryptoMethods {
		k = append(k, string(m))
	}
	return strings.Join(a, ",") + " / " + strings.Join(k, ",")
}

func echoHandler(ctx context.Context, c *server.Conn) error {
	m, err := c.Stream.ReceiveCompleteMessage(ctx)
	if err != nil {
		return err
	}
	return c.Stream.SendMessage(ctx, append([]byte("echo:"), m...))
}

func errShort(err error) string {
	if err == nil {
		return ""
	}
	s := err.Error()
	if len(s) > 220 {
		s = s[:220] + "…"
	}
	return s
}

// oneConn: connect + authenticate through the public client API with the given (shared) config,
// then prove the two ends hold the same key by an echo.
func oneConn(addr string, sec *security.SecurityConfig, payload []byte) (resumed bool, err error) {
	ctx, cancel := context.WithTimeout(context.Background(), 20*time.Second)
	defer cancel()
	cl, err := client.ConnectAndAuthenticateWithConfig(ctx, &client.ClientConfig{Address: addr, Security: sec, Timeout: 10 * time.Second, ClientName: "c17"})
	if err != nil {
		return false, fmt.Errorf("connect/authenticate: %w", err)
	}
	defer cl.Close()
	neg := cl.GetSecurityNegotiation()
	if neg == nil || !neg.Encryption || !cl.GetStream().IsEncrypted() {
		return false, fmt.Errorf("session not encrypted")
	}
	st := cl.GetStream()
	if err := st.SendMessage(ctx, payload); err != nil {
		return neg.SessionResumed, fmt.Errorf("send: %w", err)
	}
	got, err := st.ReceiveCompleteMessage(ctx)
	if err != nil {
		return neg.SessionResumed, fmt.Errorf("receive echo: %w", err)
	}
	if !bytes.Equal(got, append([]byte("echo:"), payload...)) {
		return neg.SessionResumed, fmt.Errorf("echo differs")
	}
	return neg.SessionResumed, nil
}

func wlHsShared(c *Ctx, out *raceWorkerOut) {
	security.ClearSessionCache()
	srvCfg := raceSrvConfMulti()
	srvLists0 := cfgLists(srvCfg)
	srv := server.New(srvCfg)
	// the server side of every connection: which session identifier it minted (full handshakes) with which key
	var mintMu sync.Mutex
	srvMinted := map[string][][]byte{} // sid -> keys of the full server handshakes that ended with it
	srv.Handle(raceCmd, func(ctx context.Context, sc *server.Conn) error {
		if n := sc.Negotiation; n != nil && !n.SessionResumed {
			mintMu.Lock()
			srvMinted[n.SessionId] = append(srvMinted[n.SessionId], append([]byte{}, n.GetSharedSecret()...))
			mintMu.Unlock()
		}
		return echoHandler(ctx, sc)
	})
	// every other round the server selects a per-command policy from ONE shared object (the daemon
	// pattern of server.SecurityConfigForCommand): the handshake must not write through it either
	perCmd := raceSrvConfMulti()
	var usePerCmd int32
	srv.SecurityConfigForCommand = func(cmd int) *security.SecurityConfig {
		if atomic.LoadInt32(&usePerCmd) == 1 {
			return perCmd
		}
		return nil
	}
	// planned vs run (./check fails the run when an engine ran less than 90 % of what it planned)
	out.Dist["planned:hs-shared-rounds"] += c.Pick(3, 12)
	ln, err := net.Listen("tcp", "127.0.0.1:0")
	if err != nil {
		out.Notes = append(out.Notes, "hs-shared: cannot listen on loopback: "+err.Error())
		return
	}
	defer ln.Close()
	ctx, cancel := context.WithCancel(context.Background())
	defer cancel()
	go func() { _ = srv.Serve(ctx, ln) }()
	addr := ln.Addr().String()

	rounds := c.Pick(3, 12)
	for rd := 0; rd < rounds; rd++ {
		if rd%2 == 1 {
			atomic.StoreInt32(&usePerCmd, 1)
			out.count("hs-per-command-config-rounds")
		} else {
			atomic.StoreInt32(&usePerCmd, 0)
		}
		ccache := security.NewSessionCache()
		shared := raceCliConfMulti(ccache, "")     // ONE configuration object for every connection of this round
		sharedT := raceCliConfMulti(ccache, "TAG") // a second shared object: another tag => no cached session => fresh
		cliLists0 := cfgLists(shared)
		N := 4 + c.Rng.Intn(c.Pick(5, 13))
		// phases: fresh (empty cache), resume (all ride the one cached session), mixed
		for phase, name := range []string{"fresh", "resume", "mixed"} {
			var wg sync.WaitGroup
			var fails int64
			var resumedN int64
			var mu sync.Mutex
			var firstErr string
			stop := make(chan struct{})
			var mw sync.WaitGroup
			// maintenance on both caches while handshakes run
			for m := 0; m < 2; m++ {
				mw.Add(1)
				go func(m int) {
					defer mw.Done()
					for i := 0; ; i++ {
						select {
						case <-stop:
							return
						default:
						}
						// the package-level entry points of session_manager.go as well
						if (i+m)%3 == 0 {
							security.InvalidateExpiredSessions()
						} else if (i+m)%3 == 1 {
							security.InvalidateSession(fmt.Sprintf("no-such-session-%d", i))
						}
						for _, ch := range []*security.SessionCache{ccache, security.GetSessionCache()} {
							switch (i + m) % 4 {
							case 0:
								ch.InvalidateExpired()
							case 1:
								_ = ch.DebugDump()
							case 2:
								for _, e := range ch.Snapshot() {
									_ = e.IsExpired()
									_ = e.Expiration()
								}
							case 3:
								_ = ch.Size()
							}
						}
						runtime.Gosched()
						time.Sleep(200 * time.Microsecond)
					}
				}(m)
			}
			start := make(chan struct{})
			for g := 0; g < N; g++ {
				wg.Add(1)
				cfg := shared
				if phase == 2 && g%2 == 1 {
					cfg = sharedT
				}
				go func(g int, cfg *security.SecurityConfig) {
					defer wg.Done()
					<-start
					res, err := oneConn(addr, cfg, []byte(fmt.Sprintf("r%d-%s-g%d", rd, name, g)))
					if res {
						atomic.AddInt64(&resumedN, 1)
					}
					if err != nil {
						atomic.AddInt64(&fails, 1)
						mu.Lock()
						if firstErr == "" {
							firstErr = errShort(err)
						}
						mu.Unlock()
					}
				}(g, cfg)
			}
			close(start)
			wg.Wait()
			close(stop)
			mw.Wait()
			out.count("hs-phase:" + name)
			out.Dist["hs-connections"] += N
			out.Dist["hs-resumed"] += int(resumedN)
			out.eval(fmt.Sprintf("hs-shared:%s:n%d", name, N), true)
			if fails > 0 {
				out.violate(Violation{Property: "C17", Key: "C17:handshake-disturbed:" + name,
					What:     "simultaneous client connections sharing one *SecurityConfig and one SessionCache: a connection failed to authenticate / to agree on the session key although each of them succeeds alone",
					Ops:      []string{fmt.Sprintf("# round %d phase %s: %d goroutines call client.ConnectAndAuthenticateWithConfig(addr, shared config) at once against one server.Server, then echo one message", rd, name, N)},
					Expected: "all connections authenticate, are encrypted and echo", Observed: fmt.Sprintf("%d of %d failed; first: %s", fails, N, firstErr)})
			}
			if phase == 1 && resumedN == 0 {
				out.count("hs-resume-phase-without-resumption")
			}
			// every server handshake that ran to the end minted its own session identifier
			mintMu.Lock()
			for sid, keys := range srvMinted {
				out.Dist["hs-server-minted-ids"]++
				if len(keys) > 1 || sid == "" {
					out.violate(Violation{Property: "C17", Key: "C17:session-id-minted-twice",
						What:     "two simultaneous server handshakes ended with the SAME session identifier: the second session stored under it replaces the first (key, identity)",
						Ops:      []string{fmt.Sprintf("# round %d phase %s: %d goroutines call client.ConnectAndAuthenticateWithConfig(addr, shared config) at once against one server.Server", rd, name, N)},
						Expected: "all session identifiers minted by one process pairwise distinct", Observed: fmt.Sprintf("identifier ending …%s minted by %d handshakes", idTail(sid), len(keys))})
				}
			}
			srvMinted = map[string][][]byte{}
			mintMu.Unlock()
		}
		// post-condition (handshakes do not disturb one another THROUGH the shared object): the
		// configuration objects the caller shared are exactly as the caller left them — element
		// order of the method lists included (a per-connection shallow copy shares their arrays)
		for _, chk := range []struct {
			who       string
			now, then string
		}{{"client", cfgLists(shared), cliLists0}, {"client(tagged)", cfgLists(sharedT), cliLists0}, {"server", cfgLists(srvCfg), srvLists0}, {"server(per-command)", cfgLists(perCmd), srvLists0}} {
			if chk.now != chk.then {
				out.violate(Violation{Property: "C17", Key: "C17:shared-config-mutated:" + chk.who,
					What:     "after the simultaneous handshakes the shared configuration object's method lists differ from what the caller put there: a handshake wrote through the backing array its private (shallow) copy shares",
					Ops:      []string{fmt.Sprintf("# round %d: goroutines call client.ConnectAndAuthenticateWithConfig(addr, shared config) at once against one server.Server (AuthMethods / CryptoMethods with 3 elements each)", rd)},
					Expected: chk.then, Observed: chk.now})
			}
		}
		out.eval(fmt.Sprintf("hs-shared:config-unchanged:%d", rd), true)
		out.Dist["ran:hs-shared-rounds"]++
	}
}

// ---- deterministic replays -------------------------------------------------------------------------

// detHandshake: one real client handshake with a pre-built Authenticator against a real server side.
func detServer(cb *bufpipe.Conn, wg *sync.WaitGroup) {
	defer wg.Done()
	ctx, cancel := context.WithTimeout(context.Background(), 15*time.Second)
	defer cancel()
	st := stream.NewStream(cb)
	st.SetPeerAddr("10.0.0.1:1111")
	sc := *raceSrvConf()
	a := security.NewAuthenticator(&sc, st)
	if _, err := a.ServerHandshake(ctx); err != nil {
		cb.Close()
		return
	}
	m, err := st.ReceiveCompleteMessage(ctx)
	if err != nil {
		cb.Close()
		return
	}
	_ = st.SendMessage(ctx, append([]byte("echo:"), m...))
}

func wlHsDet(c *Ctx, out *raceWorkerOut) {
	// (1) the configuration cell: schedules over two handshakes; step 1 of handshake i =
	// NewAuthenticator(cfg_i, stream_i), step 2 = the whole ClientHandshake_i (which opens by
	// advertising cfg_i.ECDHPublicKey) + echo.
	scheds := [][]int{{0, 1, 0, 1}, {0, 0, 1, 1}, {0, 1, 1, 0}, {1, 0, 0, 1}, {0, 1, 0}, {1, 0, 1}}
	for _, shared := range []bool{true, false} {
		for _, sc := range scheds {
			security.ClearSessionCache()
			base := raceCliConf(security.NewSessionCache(), "")
			cfgs := []*security.SecurityConfig{base, base}
			if !shared {
				c0, c1 := *base, *base
				cfgs = []*security.SecurityConfig{&c0, &c1}
			}
			type hs struct {
				ca, cb *bufpipe.Conn
				st     *stream.Stream
				auth   *security.Authenticator
				pc     int
				agree  bool
			}
			h := []*hs{{}, {}}
			for _, i := range sc {
				x := h[i]
				switch x.pc {
				case 0:
					x.ca, x.cb = bufpipe.Pair("10.0.0.1:1111", "10.0.0.2:9618")
					x.st = stream.NewStream(x.ca)
					x.st.SetPeerAddr(fmt.Sprintf("srv%d", i))
					x.auth = security.NewAuthenticator(cfgs[i], x.st)
					x.pc = 1
				case 1:
					var wg sync.WaitGroup
					wg.Add(1)
					go detServer(x.cb, &wg)
					ctx, cancel := context.WithTimeout(context.Background(), 15*time.Second)
					_, err := x.auth.ClientHandshake(ctx)
					if err == nil {
						if err = x.st.SendMessage(ctx, []byte("ping")); err == nil {
							var m []byte
							m, err = x.st.ReceiveCompleteMessage(ctx)
							x.agree = err == nil && string(m) == "echo:ping"
						}
					}
					if err != nil {
						x.ca.Close()
					}
					cancel()
					wg.Wait()
					x.ca.Close()
					x.cb.Close()
					x.pc = 2
				}
			}
			var ss []string
			for _, i := range sc {
				ss = append(ss, fmt.Sprint(i))
			}
			var ops, real []string
			for i := range h {
				ops = append(ops, fmt.Sprintf("cfg %s %d %s", b01(shared), i, strings.Join(ss, ",")))
				real = append(real, fmt.Sprintf("ok pc=%d agree=%s", h[i].pc, b01(h[i].agree)))
			}
			out.Cases = append(out.Cases, Case{Label: fmt.Sprintf("cfg-witness shared=%v %v", shared, sc), Ops: ops, Real: real})
			out.eval(strings.Join(ops, ";"), true)
			out.count(fmt.Sprintf("cfg-schedule:shared=%v", shared))
			if shared && len(out.Samples) < 1 {
				out.sample(map[string]any{"ops": ops, "real": real})
			}
		}
	}
	// (2) a resumption in flight vs Invalidate: the client looked the session up and sent its
	// request; the session is invalidated (another goroutine, an administrator); the server's
	// reply arrives. The invalidation must not be undone.
	for rep := 0; rep < c.Pick(3, 10); rep++ {
		out.Dist["planned:resume-vs-invalidate-schedules"]++
		security.ClearSessionCache()
		ccache := security.NewSessionCache()
		cc := raceCliConf(ccache, "")
		cc.PeerName = "srvA"
		// setup: one full handshake files session S in the client cache (and in the server's)
		var sid string
		{
			ca0, cb0 := bufpipe.Pair("10.0.0.1:1111", "10.0.0.2:9618")
			var wg0 sync.WaitGroup
			wg0.Add(1)
			go detServer(cb0, &wg0)
			ctx0, cancel0 := context.WithTimeout(context.Background(), 15*time.Second)
			cfg0 := *cc
			neg0, err0 := security.NewAuthenticator(&cfg0, stream.NewStream(ca0)).ClientHandshake(ctx0)
			ca0.Close()
			wg0.Wait()
			cancel0()
			if err0 != nil || neg0 == nil || neg0.SessionId == "" {
				out.Notes = append(out.Notes, "resume-invalidate: setup handshake failed: "+errShort(err0))
				continue
			}
			sid = neg0.SessionId
		}
		ca, cb := bufpipe.Pair("10.0.0.1:1111", "10.0.0.2:9618")
		cst := stream.NewStream(ca)
		ctx, cancel := context.WithTimeout(context.Background(), 15*time.Second)
		cfg := *cc
		auth := security.NewAuthenticator(&cfg, cst)
		done := make(chan error, 1)
		go func() { _, err := auth.ClientHandshake(ctx); done <- err }()
		// wait until the client's resumption request is on the wire (it is now blocked on the reply)
		for i := 0; i < 3000 && len(ca.Written()) == 0; i++ {
			time.Sleep(time.Millisecond)
		}
		invalidated := ccache.Invalidate(sid)
		var wg sync.WaitGroup
		wg.Add(1)
		go detServer(cb, &wg)
		herr := <-done
		resumed := auth.WasSessionResumed()
		ca.Close()
		wg.Wait()
		cancel()
		_, back := ccache.Lookup(sid)
		_, backCmd := ccache.LookupByCommand("", "srvA", fmt.Sprint(raceCmd))
		out.count("resume-vs-invalidate")
		out.Dist["ran:resume-vs-invalidate-schedules"]++
		out.eval("resume-vs-invalidate", true)
		if invalidated && resumed && herr == nil && (back || backCmd) {
			out.violate(Violation{Property: "C17", Key: "C17:lost-invalidation-resume",
				What: "Invalidate(sid) completed while a client resumption of that session was waiting for the server's reply; when the reply arrived the handshake stored the entry again, so the invalidated session is reachable by Lookup afterwards",
				Ops: []string{"# full handshake -> session S cached; ClientHandshake (resumes S) started, request on the wire", "# cache.Invalidate(S) -> true", "# server replies AUTHORIZED; handshake returns",
					"# cache.Lookup(S)"},
				Expected: "S stays invalidated (Lookup misses)", Observed: fmt.Sprintf("Lookup(S) found=%v LookupByCommand found=%v", back, backCmd)})
		}
	}
	wlSrvResumeInvalidate(c, out)
}

// schedHandler is a slog handler that runs `fire` at the k-th record logged while armed: every log
// call the library makes is a schedule point at which another goroutine's operation can be placed
// deterministically, without depending on what the record says.
type schedHandler struct {
	mu    sync.Mutex
	armed bool
	n     int
	at    int
	fire  func()
}

func (h *schedHandler) Enabled(context.Context, slog.Level) bool { return true }
func (h *schedHandler) Handle(_ context.Context, _ slog.Record) error {
	h.mu.Lock()
	var f func()
	if h.armed {
		if h.n == h.at {
			f = h.fire
		}
		h.n++
	}
	h.mu.Unlock()
	if f != nil {
		f()
	}
	return nil
}
func (h *schedHandler) WithAttrs([]slog.Attr) slog.Handler { return h }
func (h *schedHandler) WithGroup(string) slog.Handler      { return h }

// wlSrvResumeInvalidate: (3) the SERVER side of "no lost invalidations". A resumption request for
// session S is being served; Invalidate(S) (an administrator, another goroutine) takes effect at a
// chosen point between the server's lookup and the end of the resumption; afterwards S must be dead
// in the server's cache — by Lookup and for the next resumption request — whether or not the
// resumption in flight was still honoured. Two ways of placing the invalidation, neither of which
// needs a hook in the library:
//   (a) at the per-command policy callback (ServerConfigForCommand), which the server consults
//       for a session established without authentication after it has looked the session up;
//   (b) at every log record the server emits while serving the request (k = 0, 1, 2, …).
func wlSrvResumeInvalidate(c *Ctx, out *raceWorkerOut) {
	establish := func() (sid string, key []byte, ok bool) {
		security.ClearSessionCache()
		sc := raceSrvConf()
		sc.Authentication = security.SecurityOptional
		cc := raceCliConf(security.NewSessionCache(), "")
		cc.Authentication = security.SecurityNever // the session is established WITHOUT authentication
		cc.PeerName = "srvA"
		p := realPair(cc, sc, "10.0.0.1:1111")
		defer p.close()
		if p.cerr != nil || p.serr != nil || p.sneg == nil || p.sneg.SessionId == "" {
			out.Notes = append(out.Notes, "srv-resume-invalidate: setup handshake failed: "+errShort(p.cerr)+" / "+errShort(p.serr))
			return "", nil, false
		}
		return p.sneg.SessionId, p.cneg.GetSharedSecret(), true
	}
	// serve one scripted resumption request (reply requested) for sid; `hook` may be installed as
	// the per-command policy callback
	serve := func(sid string, perCmd func(int) *security.SecurityConfig, before func()) (resumedOK bool) {
		ca, cb := bufpipe.Pair("10.0.0.1:1111", "10.0.0.2:9618")
		defer ca.Close()
		defer cb.Close()
		ctx, cancel := context.WithTimeout(context.Background(), 15*time.Second)
		defer cancel()
		cst := stream.NewStream(ca)
		ad := classad.New()
		_ = ad.Set("Command", raceCmd)
		_ = ad.Set("UseSession", "YES")
		_ = ad.Set("Sid", sid)
		_ = ad.Set("ResumeResponse", true)
		_ = ad.Set("RemoteVersion", security.DefaultRemoteVersion)
		_ = ad.Set("CryptoMethods", "AES")
		m := message.NewMessageForStream(cst)
		_ = m.PutInt(ctx, commands.DC_AUTHENTICATE)
		_ = m.PutClassAd(ctx, ad)
		_ = m.FinishMessage(ctx) // buffered in the pipe: the server finds the whole request waiting
		sst := stream.NewStream(cb)
		sst.SetPeerAddr("10.0.0.1:1111")
		sc := *raceSrvConf()
		sc.Authentication = security.SecurityOptional
		a := security.NewAuthenticator(&sc, sst)
		a.ServerConfigForCommand = perCmd
		if before != nil {
			before()
		}
		_, err := a.ServerHandshake(ctx)
		return err == nil
	}
	check := func(label, sid string, invalidated, resumedOK bool, ops []string) {
		_, back := security.GetSessionCache().Lookup(sid)
		again := serve(sid, nil, nil)
		out.count("srv-resume-vs-invalidate:" + label)
		out.Dist["ran:srv-resume-vs-invalidate-schedules"]++
		out.eval("srv-resume-vs-invalidate:"+label, true)
		if invalidated && (back || again) {
			out.violate(Violation{Property: "C17", Key: "C17:lost-invalidation-server-resume",
				What:     "Invalidate(S) took effect on the server's cache while the server was resuming S (after its lookup); when the resumption finished the session was in the cache again: the invalidation was lost",
				Ops:      append(ops, "# afterwards: GetSessionCache().Lookup(S); a second resumption request for S"),
				Expected: "S stays invalidated (Lookup misses, the next request is refused)", Observed: fmt.Sprintf("resumption in flight succeeded=%v; Lookup(S) found=%v; next request resumed=%v", resumedOK, back, again)})
		}
	}
	// (a) the policy callback as the schedule point
	for rep := 0; rep < c.Pick(2, 6); rep++ {
		out.Dist["planned:srv-resume-vs-invalidate-schedules"]++
		sid, _, ok := establish()
		if !ok {
			continue
		}
		invalidated := false
		fired := 0
		resumedOK := serve(sid, func(int) *security.SecurityConfig {
			if fired == 0 {
				invalidated = security.GetSessionCache().Invalidate(sid)
			}
			fired++
			return nil
		}, nil)
		if fired == 0 {
			out.count("srv-resume-vs-invalidate:callback-not-consulted")
		}
		check("callback", sid, invalidated, resumedOK, []string{"# session S established without authentication (server OPTIONAL, client NEVER)", "# scripted resumption request for S (reply requested) served by ServerHandshake", "# inside the server's ServerConfigForCommand callback (consulted after the lookup): GetSessionCache().Invalidate(S)"})
	}
	// (b) every log record of the server's resumption as a schedule point
	prev := slog.Default()
	defer slog.SetDefault(prev)
	h := &schedHandler{}
	slog.SetDefault(slog.New(h))
	// dry run: how many records does serving one request emit?
	records := 0
	out.Dist["planned:srv-resume-log-point-dry-run"]++
	if sid, _, ok := establish(); ok {
		out.Dist["ran:srv-resume-log-point-dry-run"]++
		h.mu.Lock()
		h.armed, h.n, h.at, h.fire = true, 0, -1, nil
		h.mu.Unlock()
		serve(sid, nil, nil)
		h.mu.Lock()
		records, h.armed = h.n, false
		h.mu.Unlock()
	}
	out.Dist["srv-resume-log-points"] = records
	for k := 0; k < records && k < 24; k++ {
		out.Dist["planned:srv-resume-vs-invalidate-schedules"]++
		sid, _, ok := establish()
		if !ok {
			continue
		}
		invalidated := false
		h.mu.Lock()
		h.armed, h.n, h.at = false, 0, k
		h.fire = func() { invalidated = security.GetSessionCache().Invalidate(sid) }
		h.mu.Unlock()
		resumedOK := serve(sid, nil, func() { h.mu.Lock(); h.armed = true; h.mu.Unlock() })
		h.mu.Lock()
		h.armed = false
		h.mu.Unlock()
		check("log-point", sid, invalidated, resumedOK, []string{"# session S established", "# scripted resumption request for S (reply requested) served by ServerHandshake", fmt.Sprintf("# at the %d-th log record the server emits while serving it: GetSessionCache().Invalidate(S)", k)})
	}
}
