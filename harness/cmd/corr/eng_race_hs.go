package main

// C17 workloads on handshakes: many simultaneous client connections sharing one *SecurityConfig
// and one SessionCache against one server (fresh, resuming one shared session, mixed) with cache
// maintenance running; deterministic replays of the configuration-cell schedules and of the
// resume-vs-Invalidate schedule on real Authenticators.

import (
	"bytes"
	"context"
	"fmt"
	"net"
	"runtime"
	"strings"
	"sync"
	"sync/atomic"
	"time"

	"cedarverif/harness/internal/bufpipe"

	"github.com/bbockelm/cedar/client"
	"github.com/bbockelm/cedar/security"
	"github.com/bbockelm/cedar/server"
	"github.com/bbockelm/cedar/stream"
)

const raceCmd = 60007

func raceSrvConf() *security.SecurityConfig {
	return &security.SecurityConfig{AuthMethods: toMethods([]string{"CLAIMTOBE"}), Authentication: security.SecurityRequired,
		CryptoMethods: toCiphers([]string{"AES"}), Encryption: security.SecurityRequired, Integrity: security.SecurityOptional}
}

func raceCliConf(cache *security.SessionCache, tag string) *security.SecurityConfig {
	return &security.SecurityConfig{AuthMethods: toMethods([]string{"CLAIMTOBE"}), Authentication: security.SecurityOptional,
		CryptoMethods: toCiphers([]string{"AES"}), Encryption: security.SecurityRequired, Integrity: security.SecurityOptional,
		Command: raceCmd, SessionCache: cache, SecurityTag: tag}
}

func echoHandler(ctx context.Context, c *server.Conn) error {
	m, err := c.Stream.ReceiveCompleteMessage(ctx)
	if err != nil {
		return err
	}
	return c.Stream.SendMessage(ctx, append([]byte("echo:"), m...))
}

func errShort(err error) string {
	if err == nil {
		return ""
	}
	s := err.Error()
	if len(s) > 220 {
		s = s[:220] + "…"
	}
	return s
}

// oneConn: connect + authenticate through the public client API with the given (shared) config,
// then prove the two ends hold the same key by an echo.
func oneConn(addr string, sec *security.SecurityConfig, payload []byte) (resumed bool, err error) {
	ctx, cancel := context.WithTimeout(context.Background(), 20*time.Second)
	defer cancel()
	cl, err := client.ConnectAndAuthenticateWithConfig(ctx, &client.ClientConfig{Address: addr, Security: sec, Timeout: 10 * time.Second, ClientName: "c17"})
	if err != nil {
		return false, fmt.Errorf("connect/authenticate: %w", err)
	}
	defer cl.Close()
	neg := cl.GetSecurityNegotiation()
	if neg == nil || !neg.Encryption || !cl.GetStream().IsEncrypted() {
		return false, fmt.Errorf("session not encrypted")
	}
	st := cl.GetStream()
	if err := st.SendMessage(ctx, payload); err != nil {
		return neg.SessionResumed, fmt.Errorf("send: %w", err)
	}
	got, err := st.ReceiveCompleteMessage(ctx)
	if err != nil {
		return neg.SessionResumed, fmt.Errorf("receive echo: %w", err)
	}
	if !bytes.Equal(got, append([]byte("echo:"), payload...)) {
		return neg.SessionResumed, fmt.Errorf("echo differs")
	}
	return neg.SessionResumed, nil
}

func wlHsShared(c *Ctx, out *raceWorkerOut) {
	security.ClearSessionCache()
	srvCfg := raceSrvConf()
	srv := server.New(srvCfg)
	srv.Handle(raceCmd, echoHandler)
	// every other round the server selects a per-command policy from ONE shared object (the daemon
	// pattern of server.SecurityConfigForCommand): the handshake must not write through it either
	perCmd := raceSrvConf()
	var usePerCmd int32
	srv.SecurityConfigForCommand = func(cmd int) *security.SecurityConfig {
		if atomic.LoadInt32(&usePerCmd) == 1 {
			return perCmd
		}
		return nil
	}
	ln, err := net.Listen("tcp", "127.0.0.1:0")
	if err != nil {
		out.Notes = append(out.Notes, "hs-shared: cannot listen on loopback: "+err.Error())
		return
	}
	defer ln.Close()
	ctx, cancel := context.WithCancel(context.Background())
	defer cancel()
	go func() { _ = srv.Serve(ctx, ln) }()
	addr := ln.Addr().String()

	rounds := c.Pick(3, 12)
	for rd := 0; rd < rounds; rd++ {
		if rd%2 == 1 {
			atomic.StoreInt32(&usePerCmd, 1)
			out.count("hs-per-command-config-rounds")
		} else {
			atomic.StoreInt32(&usePerCmd, 0)
		}
		ccache := security.NewSessionCache()
		shared := raceCliConf(ccache, "")     // ONE configuration object for every connection of this round
		sharedT := raceCliConf(ccache, "TAG") // a second shared object: another tag => no cached session => fresh
		N := 4 + c.Rng.Intn(c.Pick(5, 13))
		// phases: fresh (empty cache), resume (all ride the one cached session), mixed
		for phase, name := range []string{"fresh", "resume", "mixed"} {
			var wg sync.WaitGroup
			var fails int64
			var resumedN int64
			var mu sync.Mutex
			var firstErr string
			stop := make(chan struct{})
			var mw sync.WaitGroup
			// maintenance on both caches while handshakes run
			for m := 0; m < 2; m++ {
				mw.Add(1)
				go func(m int) {
					defer mw.Done()
					for i := 0; ; i++ {
						select {
						case <-stop:
							return
						default:
						}
						for _, ch := range []*security.SessionCache{ccache, security.GetSessionCache()} {
							switch (i + m) % 4 {
							case 0:
								ch.InvalidateExpired()
							case 1:
								_ = ch.DebugDump()
							case 2:
								for _, e := range ch.Snapshot() {
									_ = e.IsExpired()
									_ = e.Expiration()
								}
							case 3:
								_ = ch.Size()
							}
						}
						runtime.Gosched()
						time.Sleep(200 * time.Microsecond)
					}
				}(m)
			}
			start := make(chan struct{})
			for g := 0; g < N; g++ {
				wg.Add(1)
				cfg := shared
				if phase == 2 && g%2 == 1 {
					cfg = sharedT
				}
				go func(g int, cfg *security.SecurityConfig) {
					defer wg.Done()
					<-start
					res, err := oneConn(addr, cfg, []byte(fmt.Sprintf("r%d-%s-g%d", rd, name, g)))
					if res {
						atomic.AddInt64(&resumedN, 1)
					}
					if err != nil {
						atomic.AddInt64(&fails, 1)
						mu.Lock()
						if firstErr == "" {
							firstErr = errShort(err)
						}
						mu.Unlock()
					}
				}(g, cfg)
			}
			close(start)
			wg.Wait()
			close(stop)
			mw.Wait()
			out.count("hs-phase:" + name)
			out.Dist["hs-connections"] += N
			out.Dist["hs-resumed"] += int(resumedN)
			out.eval(fmt.Sprintf("hs-shared:%s:n%d", name, N), true)
			if fails > 0 {
				out.violate(Violation{Property: "C17", Key: "C17:handshake-disturbed:" + name,
					What:     "simultaneous client connections sharing one *SecurityConfig and one SessionCache: a connection failed to authenticate / to agree on the session key although each of them succeeds alone",
					Ops:      []string{fmt.Sprintf("# round %d phase %s: %d goroutines call client.ConnectAndAuthenticateWithConfig(addr, shared config) at once against one server.Server, then echo one message", rd, name, N)},
					Expected: "all connections authenticate, are encrypted and echo", Observed: fmt.Sprintf("%d of %d failed; first: %s", fails, N, firstErr)})
			}
			if phase == 1 && resumedN == 0 {
				out.count("hs-resume-phase-without-resumption")
			}
		}
	}
}

// ---- deterministic replays -------------------------------------------------------------------------

// detHandshake: one real client handshake with a pre-built Authenticator against a real server side.
func detServer(cb *bufpipe.Conn, wg *sync.WaitGroup) {
	defer wg.Done()
	ctx, cancel := context.WithTimeout(context.Background(), 15*time.Second)
	defer cancel()
	st := stream.NewStream(cb)
	st.SetPeerAddr("10.0.0.1:1111")
	sc := *raceSrvConf()
	a := security.NewAuthenticator(&sc, st)
	if _, err := a.ServerHandshake(ctx); err != nil {
		cb.Close()
		return
	}
	m, err := st.ReceiveCompleteMessage(ctx)
	if err != nil {
		cb.Close()
		return
	}
	_ = st.SendMessage(ctx, append([]byte("echo:"), m...))
}

func wlHsDet(c *Ctx, out *raceWorkerOut) {
	// (1) the configuration cell: schedules over two handshakes; step 1 of handshake i =
	// NewAuthenticator(cfg_i, stream_i), step 2 = the whole ClientHandshake_i (which opens by
	// advertising cfg_i.ECDHPublicKey) + echo.
	scheds := [][]int{{0, 1, 0, 1}, {0, 0, 1, 1}, {0, 1, 1, 0}, {1, 0, 0, 1}, {0, 1, 0}, {1, 0, 1}}
	for _, shared := range []bool{true, false} {
		for _, sc := range scheds {
			security.ClearSessionCache()
			base := raceCliConf(security.NewSessionCache(), "")
			cfgs := []*security.SecurityConfig{base, base}
			if !shared {
				c0, c1 := *base, *base
				cfgs = []*security.SecurityConfig{&c0, &c1}
			}
			type hs struct {
				ca, cb *bufpipe.Conn
				st     *stream.Stream
				auth   *security.Authenticator
				pc     int
				agree  bool
			}
			h := []*hs{{}, {}}
			for _, i := range sc {
				x := h[i]
				switch x.pc {
				case 0:
					x.ca, x.cb = bufpipe.Pair("10.0.0.1:1111", "10.0.0.2:9618")
					x.st = stream.NewStream(x.ca)
					x.st.SetPeerAddr(fmt.Sprintf("srv%d", i))
					x.auth = security.NewAuthenticator(cfgs[i], x.st)
					x.pc = 1
				case 1:
					var wg sync.WaitGroup
					wg.Add(1)
					go detServer(x.cb, &wg)
					ctx, cancel := context.WithTimeout(context.Background(), 15*time.Second)
					_, err := x.auth.ClientHandshake(ctx)
					if err == nil {
						if err = x.st.SendMessage(ctx, []byte("ping")); err == nil {
							var m []byte
							m, err = x.st.ReceiveCompleteMessage(ctx)
							x.agree = err == nil && string(m) == "echo:ping"
						}
					}
					if err != nil {
						x.ca.Close()
					}
					cancel()
					wg.Wait()
					x.ca.Close()
					x.cb.Close()
					x.pc = 2
				}
			}
			var ss []string
			for _, i := range sc {
				ss = append(ss, fmt.Sprint(i))
			}
			var ops, real []string
			for i := range h {
				ops = append(ops, fmt.Sprintf("cfg %s %d %s", b01(shared), i, strings.Join(ss, ",")))
				real = append(real, fmt.Sprintf("ok pc=%d agree=%s", h[i].pc, b01(h[i].agree)))
			}
			out.Cases = append(out.Cases, Case{Label: fmt.Sprintf("cfg-witness shared=%v %v", shared, sc), Ops: ops, Real: real})
			out.eval(strings.Join(ops, ";"), true)
			out.count(fmt.Sprintf("cfg-schedule:shared=%v", shared))
			if shared && len(out.Samples) < 1 {
				out.sample(map[string]any{"ops": ops, "real": real})
			}
		}
	}
	// (2) a resumption in flight vs Invalidate: the client looked the session up and sent its
	// request; the session is invalidated (another goroutine, an administrator); the server's
	// reply arrives. The invalidation must not be undone.
	for rep := 0; rep < c.Pick(3, 10); rep++ {
		security.ClearSessionCache()
		ccache := security.NewSessionCache()
		cc := raceCliConf(ccache, "")
		cc.PeerName = "srvA"
		// setup: one full handshake files session S in the client cache (and in the server's)
		var sid string
		{
			ca0, cb0 := bufpipe.Pair("10.0.0.1:1111", "10.0.0.2:9618")
			var wg0 sync.WaitGroup
			wg0.Add(1)
			go detServer(cb0, &wg0)
			ctx0, cancel0 := context.WithTimeout(context.Background(), 15*time.Second)
			cfg0 := *cc
			neg0, err0 := security.NewAuthenticator(&cfg0, stream.NewStream(ca0)).ClientHandshake(ctx0)
			ca0.Close()
			wg0.Wait()
			cancel0()
			if err0 != nil || neg0 == nil || neg0.SessionId == "" {
				out.Notes = append(out.Notes, "resume-invalidate: setup handshake failed: "+errShort(err0))
				continue
			}
			sid = neg0.SessionId
		}
		ca, cb := bufpipe.Pair("10.0.0.1:1111", "10.0.0.2:9618")
		cst := stream.NewStream(ca)
		ctx, cancel := context.WithTimeout(context.Background(), 15*time.Second)
		cfg := *cc
		auth := security.NewAuthenticator(&cfg, cst)
		done := make(chan error, 1)
		go func() { _, err := auth.ClientHandshake(ctx); done <- err }()
		// wait until the client's resumption request is on the wire (it is now blocked on the reply)
		for i := 0; i < 3000 && len(ca.Written()) == 0; i++ {
			time.Sleep(time.Millisecond)
		}
		invalidated := ccache.Invalidate(sid)
		var wg sync.WaitGroup
		wg.Add(1)
		go detServer(cb, &wg)
		herr := <-done
		resumed := auth.WasSessionResumed()
		ca.Close()
		wg.Wait()
		cancel()
		_, back := ccache.Lookup(sid)
		_, backCmd := ccache.LookupByCommand("", "srvA", fmt.Sprint(raceCmd))
		out.count("resume-vs-invalidate")
		out.eval("resume-vs-invalidate", true)
		if invalidated && resumed && herr == nil && (back || backCmd) {
			out.violate(Violation{Property: "C17", Key: "C17:lost-invalidation-resume",
				What: "Invalidate(sid) completed while a client resumption of that session was waiting for the server's reply; when the reply arrived the handshake stored the entry again, so the invalidated session is reachable by Lookup afterwards",
				Ops: []string{"# full handshake -> session S cached; ClientHandshake (resumes S) started, request on the wire", "# cache.Invalidate(S) -> true", "# server replies AUTHORIZED; handshake returns",
					"# cache.Lookup(S)"},
				Expected: "S stays invalidated (Lookup misses)", Observed: fmt.Sprintf("Lookup(S) found=%v LookupByCommand found=%v", back, backCmd)})
		}
	}
}
