package main

// C17 workloads on security.SessionCache / security.SessionEntry: concurrent histories checked for
// linearizability against a reference transcription of the sequential cache (the linearization is
// then replayed by the Lean model), targeted method pairs, the invalidate-wins post-condition.

import (
	"encoding/json"
	"fmt"
	"math/rand"
	"os"
	"regexp"
	"runtime"
	"sort"
	"strings"
	"sync"
	"sync/atomic"
	"time"

	"github.com/bbockelm/cedar/security"
)

// ---- the pool of entry objects of one history ------------------------------------------------

type entObj struct {
	uid   int
	key   int
	exp   string // never | past | future
	lease time.Duration
	e     *security.SessionEntry
}

func sidOf(k int) string { return fmt.Sprintf("K%d", k) }

func mkEntries(rng *rand.Rand, now time.Time, keys, perKey int) []*entObj {
	var out []*entObj
	for k := 0; k < keys; k++ {
		for j := 0; j < perKey; j++ {
			o := &entObj{uid: len(out), key: k}
			switch rng.Intn(4) {
			case 0:
				o.exp = "never"
			case 1:
				o.exp = "past"
			default:
				o.exp = "future"
			}
			var t time.Time
			switch o.exp {
			case "past":
				t = now.Add(-time.Hour)
			case "future":
				t = now.Add(time.Hour)
				o.lease = time.Hour // RenewLease really writes; the class stays `future`
			}
			o.e = security.NewSessionEntry(sidOf(k), "srv", &security.KeyInfo{Data: keyBytes(1), Protocol: "AES"}, nil, t, o.lease, "")
			out = append(out, o)
		}
	}
	return out
}

// ---- operations --------------------------------------------------------------------------------

type linOp struct {
	kind string // store lookup lookupne bycmd mapcmd invalidate gc clear size snapshot dump
	a, b int
}

func (o linOp) line() string {
	switch o.kind {
	case "store", "lookup", "lookupne", "bycmd", "invalidate":
		return fmt.Sprintf("%s %d", o.kind, o.a)
	case "mapcmd":
		return fmt.Sprintf("mapcmd %d %d", o.a, o.b)
	}
	return o.kind
}

type linEvent struct {
	op        linOp
	call, ret int64
	res       string
	g         int
}

func cmdTriple(ck int) (string, string, string) { return "", "srv", fmt.Sprint(ck) }

// dumpedTime reads an expiration as DebugDump prints it. shaped: the text IS a timestamp of the shape
// DebugDump uses (so a value that does not parse -- a five-digit year -- is a garbage VALUE); when it
// is not even shaped like one, the dump's FORMAT is not the one the harness knows, which says nothing
// about torn reads (counted as dump-format-unknown, and the model comparison of the dump shows it).
var reDumpStamp = regexp.MustCompile(`\A[+-]?[0-9]{4,}-[0-9]{2}-[0-9]{2}T`)
var dumpFormatUnknown atomic.Int64

var dumpStampsRead atomic.Int64

func dumpedTime(s string) (t time.Time, ok, shaped bool) {
	t, err := time.Parse(time.RFC3339Nano, s)
	shaped = reDumpStamp.MatchString(s)
	if shaped {
		dumpStampsRead.Add(1)
	}
	return t, err == nil, shaped
}

// classOfTime: which class a dumped expiration belongs to; "" if it is not a plausible value
func classOfTime(s string, now time.Time) string {
	if s == "never" {
		return "never"
	}
	t, err := time.Parse(time.RFC3339Nano, s)
	if err != nil {
		return ""
	}
	d := t.Sub(now)
	switch {
	case d > -2*time.Hour && d < -30*time.Minute:
		return "past"
	case d > 30*time.Minute && d < 2*time.Hour:
		return "future"
	}
	return ""
}

// parseDump renders DebugDump in the oracle's vocabulary; torn is set when an expiration is garbage.
func parseDump(d string, now time.Time) (res string, torn string) {
	var ss, cs []string
	sec := ""
	for _, l := range strings.Split(d, "\n") {
		switch {
		case l == "sessions:":
			sec = "s"
		case l == "command_map:":
			sec = "c"
		case strings.HasPrefix(l, "- ") && sec == "s":
			f := map[string]string{}
			for _, kv := range strings.Fields(l[2:]) {
				if i := strings.Index(kv, "="); i > 0 {
					f[kv[:i]] = kv[i+1:]
				}
			}
			cl := classOfTime(f["exp"], now)
			if cl == "" {
				// a torn read shows as a timestamp no entry ever had; a line without `exp=` or with a
				// value that is no timestamp at all is a dump FORMAT the harness does not know
				if _, _, shaped := dumpedTime(f["exp"]); shaped {
					torn = l
				} else {
					dumpFormatUnknown.Add(1)
				}
				cl = "garbage"
			}
			ss = append(ss, fmt.Sprintf("%s:%s", strings.TrimPrefix(f["id"], "K"), cl))
		case strings.HasPrefix(l, "- ") && sec == "c":
			// "- {srv,<2>} -> K1"
			parts := strings.SplitN(l[2:], " -> ", 2)
			if len(parts) == 2 {
				ck := strings.TrimSuffix(strings.TrimPrefix(parts[0], "{srv,<"), ">}")
				cs = append(cs, fmt.Sprintf("%s:%s", ck, strings.TrimPrefix(parts[1], "K")))
			}
		}
	}
	sort.Slice(ss, func(i, j int) bool { return lessNumPair(ss[i], ss[j]) })
	sort.Slice(cs, func(i, j int) bool { return lessNumPair(cs[i], cs[j]) })
	return "ok s=[" + strings.Join(ss, ",") + "] c=[" + strings.Join(cs, ",") + "]", torn
}

func lessNumPair(a, b string) bool {
	var x, y int
	var p, q string
	fmt.Sscanf(strings.Replace(a, ":", " ", 1), "%d %s", &x, &p)
	fmt.Sscanf(strings.Replace(b, ":", " ", 1), "%d %s", &y, &q)
	if x != y {
		return x < y
	}
	return p <= q
}

func entRes(e *security.SessionEntry, ok bool, byPtr map[*security.SessionEntry]int) string {
	if !ok {
		return "ok none"
	}
	return fmt.Sprintf("ok u%d", byPtr[e])
}

// doOp runs one operation on the real cache and renders the result as the oracle does.
func doOp(cache *security.SessionCache, ents []*entObj, byPtr map[*security.SessionEntry]int, o linOp, now time.Time) (string, string) {
	switch o.kind {
	case "store":
		cache.Store(ents[o.a].e)
		return "ok", ""
	case "lookup":
		e, ok := cache.Lookup(sidOf(o.a))
		return entRes(e, ok, byPtr), ""
	case "lookupne":
		e, ok := cache.LookupNonExpired(sidOf(o.a))
		return entRes(e, ok, byPtr), ""
	case "bycmd":
		tg, ad, cm := cmdTriple(o.a)
		e, ok := cache.LookupByCommand(tg, ad, cm)
		return entRes(e, ok, byPtr), ""
	case "mapcmd":
		tg, ad, cm := cmdTriple(o.a)
		cache.MapCommand(tg, ad, cm, sidOf(o.b))
		return "ok", ""
	case "invalidate":
		return fmt.Sprintf("ok %v", cache.Invalidate(sidOf(o.a))), ""
	case "gc":
		return fmt.Sprintf("ok %d", cache.InvalidateExpired()), ""
	case "clear":
		cache.Clear()
		return "ok", ""
	case "size":
		return fmt.Sprintf("ok %d", cache.Size()), ""
	case "snapshot":
		var ids []int
		for _, e := range cache.Snapshot() {
			ids = append(ids, byPtr[e])
		}
		sort.Ints(ids)
		var s []string
		for _, u := range ids {
			s = append(s, fmt.Sprintf("u%d", u))
		}
		return "ok [" + strings.Join(s, ",") + "]", ""
	case "dump":
		return parseDump(cache.DebugDump(), now)
	}
	return "?", ""
}

// ---- reference transcription of the sequential cache (for the linearization search only) -------

type refCache struct {
	sess map[int]int // key -> uid
	cmds map[int]int // command key -> key
}

func newRef() *refCache { return &refCache{map[int]int{}, map[int]int{}} }
func (r *refCache) clone() *refCache {
	n := newRef()
	for k, v := range r.sess {
		n.sess[k] = v
	}
	for k, v := range r.cmds {
		n.cmds[k] = v
	}
	return n
}
func (r *refCache) hash() string {
	var p []string
	for k, v := range r.sess {
		p = append(p, fmt.Sprintf("s%d=%d", k, v))
	}
	for k, v := range r.cmds {
		p = append(p, fmt.Sprintf("c%d=%d", k, v))
	}
	sort.Strings(p)
	return strings.Join(p, ",")
}
func (r *refCache) live(ents []*entObj, k int) (int, bool) {
	u, ok := r.sess[k]
	if !ok || ents[u].exp == "past" {
		return 0, false
	}
	return u, true
}
func (r *refCache) apply(ents []*entObj, o linOp) string {
	er := func(u int, ok bool) string {
		if !ok {
			return "ok none"
		}
		return fmt.Sprintf("ok u%d", u)
	}
	switch o.kind {
	case "store":
		r.sess[ents[o.a].key] = o.a
		return "ok"
	case "lookup":
		return er(r.live(ents, o.a))
	case "lookupne":
		u, ok := r.live(ents, o.a)
		if _, present := r.sess[o.a]; present && !ok {
			delete(r.sess, o.a)
		}
		return er(u, ok)
	case "bycmd":
		k, ok := r.cmds[o.a]
		if !ok {
			return "ok none"
		}
		return er(r.live(ents, k))
	case "mapcmd":
		r.cmds[o.a] = o.b
		return "ok"
	case "invalidate":
		// the mappings that lead to the identifier go whether or not an entry is still filed under it
		// (fix 94c25e6); the result says whether there was an entry
		_, had := r.sess[o.a]
		delete(r.sess, o.a)
		for ck, k := range r.cmds {
			if k == o.a {
				delete(r.cmds, ck)
			}
		}
		return fmt.Sprintf("ok %v", had)
	case "gc":
		n := 0
		for k, u := range r.sess {
			if ents[u].exp == "past" {
				delete(r.sess, k)
				n++
			}
		}
		for ck, k := range r.cmds {
			if _, ok := r.sess[k]; !ok {
				delete(r.cmds, ck)
			}
		}
		return fmt.Sprintf("ok %d", n)
	case "clear":
		r.sess, r.cmds = map[int]int{}, map[int]int{}
		return "ok"
	case "size":
		return fmt.Sprintf("ok %d", len(r.sess))
	case "snapshot":
		var ids []int
		for _, u := range r.sess {
			ids = append(ids, u)
		}
		sort.Ints(ids)
		var s []string
		for _, u := range ids {
			s = append(s, fmt.Sprintf("u%d", u))
		}
		return "ok [" + strings.Join(s, ",") + "]"
	case "dump":
		var ss, cs []string
		for k, u := range r.sess {
			ss = append(ss, fmt.Sprintf("%d:%s", k, ents[u].exp))
		}
		for ck, k := range r.cmds {
			cs = append(cs, fmt.Sprintf("%d:%d", ck, k))
		}
		sort.Slice(ss, func(i, j int) bool { return lessNumPair(ss[i], ss[j]) })
		sort.Slice(cs, func(i, j int) bool { return lessNumPair(cs[i], cs[j]) })
		return "ok s=[" + strings.Join(ss, ",") + "] c=[" + strings.Join(cs, ",") + "]"
	}
	return "?"
}

// linearize searches an order of the events that respects real time (a before b if a returned
// before b was called) and under which the sequential cache gives every observed result.
func linearize(ents []*entObj, evs []linEvent) ([]int, bool) {
	n := len(evs)
	if n > 62 {
		return nil, false
	}
	bad := map[string]bool{}
	var order []int
	var rec func(done uint64, st *refCache) bool
	rec = func(done uint64, st *refCache) bool {
		if done == (uint64(1)<<uint(n))-1 {
			return true
		}
		key := fmt.Sprintf("%x|%s", done, st.hash())
		if bad[key] {
			return false
		}
		// earliest return among pending ops bounds which ops may go next
		minRet := int64(1 << 62)
		for i := 0; i < n; i++ {
			if done&(1<<uint(i)) == 0 && evs[i].ret < minRet {
				minRet = evs[i].ret
			}
		}
		for i := 0; i < n; i++ {
			if done&(1<<uint(i)) != 0 || evs[i].call > minRet {
				continue
			}
			ns := st.clone()
			if ns.apply(ents, evs[i].op) != evs[i].res {
				continue
			}
			order = append(order, i)
			if rec(done|1<<uint(i), ns) {
				return true
			}
			order = order[:len(order)-1]
		}
		bad[key] = true
		return false
	}
	ok := rec(0, newRef())
	return order, ok
}

func randLinOp(rng *rand.Rand, ents []*entObj, keys, cks int) linOp {
	switch r := rng.Intn(20); {
	case r < 4:
		return linOp{"store", rng.Intn(len(ents)), 0}
	case r < 7:
		return linOp{"lookup", rng.Intn(keys), 0}
	case r < 9:
		return linOp{"lookupne", rng.Intn(keys), 0}
	case r < 11:
		return linOp{"bycmd", rng.Intn(cks), 0}
	case r < 13:
		return linOp{"mapcmd", rng.Intn(cks), rng.Intn(keys)}
	case r < 15:
		return linOp{"invalidate", rng.Intn(keys), 0}
	case r < 16:
		return linOp{"gc", 0, 0}
	case r < 17:
		return linOp{"dump", 0, 0}
	case r < 18:
		return linOp{"size", 0, 0}
	case r < 19:
		return linOp{"snapshot", 0, 0}
	}
	if rng.Intn(4) == 0 {
		return linOp{"clear", 0, 0}
	}
	return linOp{"dump", 0, 0}
}

func wlCacheLin(c *Ctx, out *raceWorkerOut) {
	n := c.Pick(140, 1500)
	const keys, cks = 3, 3
	for h := 0; h < n; h++ {
		now := time.Now()
		ents := mkEntries(c.Rng, now, keys, 2)
		G := 2 + c.Rng.Intn(3)
		perG := 3 + c.Rng.Intn(4)
		progs := make([][]linOp, G)
		for g := range progs {
			for j := 0; j < perG; j++ {
				progs[g] = append(progs[g], randLinOp(c.Rng, ents, keys, cks))
			}
		}
		// some histories start from a populated cache (sequential prefix)
		var prefix []linOp
		if c.Rng.Intn(2) == 0 {
			for j := 0; j < 1+c.Rng.Intn(4); j++ {
				o := linOp{"store", c.Rng.Intn(len(ents)), 0}
				if c.Rng.Intn(3) == 0 {
					o = linOp{"mapcmd", c.Rng.Intn(cks), c.Rng.Intn(keys)}
				}
				prefix = append(prefix, o)
			}
		}
		linHistory(c, out, fmt.Sprintf("lin#%d", h), now, ents, prefix, progs, keys, cks, h == 0)
	}
}

// wlCacheAtomic: small targeted histories around the operations that touch BOTH maps (Invalidate,
// InvalidateExpired, Clear) or read-then-write one (LookupNonExpired): each must take effect at
// one instant, so a concurrent Store + MapCommand of the same id is either wholly before or
// wholly after, and observers never see the state in between.
func wlCacheAtomic(c *Ctx, out *raceWorkerOut) {
	n := c.Pick(1600, 12000)
	const keys, cks = 2, 2
	for h := 0; h < n; h++ {
		now := time.Now()
		// uid 0: key 0 live, uid 1: key 0 live (the replacement), uid 2: key 0 expired, uid 3: key 1 live
		mk := func(uid, key int, exp string) *entObj {
			o := &entObj{uid: uid, key: key, exp: exp}
			var t time.Time
			if exp == "past" {
				t = now.Add(-time.Hour)
			} else {
				t = now.Add(time.Hour)
				o.lease = time.Hour
			}
			o.e = security.NewSessionEntry(sidOf(key), "srv", nil, nil, t, o.lease, "")
			return o
		}
		ents := []*entObj{mk(0, 0, "future"), mk(1, 0, "future"), mk(2, 0, "past"), mk(3, 1, "future")}
		var prefix []linOp
		var progs [][]linOp
		observer := []linOp{{"dump", 0, 0}, {"bycmd", 0, 0}, {"lookup", 0, 0}, {"dump", 0, 0}}
		if c.Rng.Intn(2) == 0 {
			observer = []linOp{{"bycmd", 0, 0}, {"dump", 0, 0}, {"size", 0, 0}, {"bycmd", 1, 0}}
		}
		switch tpl := h % 8; {
		case tpl == 0 || tpl >= 4: // Invalidate vs re-store + re-map of the same id
			prefix = []linOp{{"store", 0, 0}, {"mapcmd", 0, 0}, {"store", 3, 0}}
			progs = [][]linOp{{{"invalidate", 0, 0}}, {{"store", 1, 0}, {"mapcmd", 0, 0}, {"mapcmd", 1, 0}}, {{"mapcmd", 0, 0}, {"store", 0, 0}, {"mapcmd", 0, 0}}, observer}
		case tpl == 1: // the sweep vs a live replacement of the expired entry
			prefix = []linOp{{"store", 2, 0}, {"mapcmd", 0, 0}, {"store", 3, 0}, {"mapcmd", 1, 1}}
			progs = [][]linOp{{{"gc", 0, 0}}, {{"store", 1, 0}, {"mapcmd", 0, 0}}, observer}
		case tpl == 2: // LookupNonExpired deletes what it found expired vs a live replacement
			prefix = []linOp{{"store", 2, 0}, {"mapcmd", 0, 0}}
			progs = [][]linOp{{{"lookupne", 0, 0}, {"lookupne", 0, 0}}, {{"store", 1, 0}}, {{"lookup", 0, 0}, {"bycmd", 0, 0}, {"lookup", 0, 0}}}
		case tpl == 3: // Clear vs store + map
			prefix = []linOp{{"store", 0, 0}, {"mapcmd", 0, 0}, {"store", 3, 0}, {"mapcmd", 1, 1}}
			progs = [][]linOp{{{"clear", 0, 0}}, {{"store", 1, 0}, {"mapcmd", 0, 0}}, observer}
		}
		linHistory(c, out, fmt.Sprintf("atomic#%d", h), now, ents, prefix, progs, keys, cks, h == 0)
	}
}

// linHistory runs one concurrent history on a fresh real cache, checks it for a linearization and
// hands the linearization to the oracle as a case.
func linHistory(c *Ctx, out *raceWorkerOut, label string, now time.Time, ents []*entObj, prefix []linOp, progs [][]linOp, keys, cks int, sample bool) {
	{
		byPtr := map[*security.SessionEntry]int{}
		for _, o := range ents {
			byPtr[o.e] = o.uid
		}
		cache := security.NewSessionCache()
		G := len(progs)
		yields := make([][]bool, G)
		touched := map[int]int{}
		for g := range progs {
			for _, o := range progs[g] {
				yields[g] = append(yields[g], c.Rng.Intn(3) == 0)
				switch o.kind {
				case "store":
					touched[ents[o.a].key] |= 1 << uint(g)
				case "lookup", "lookupne", "invalidate":
					touched[o.a] |= 1 << uint(g)
				case "mapcmd":
					touched[o.b] |= 1 << uint(g)
				}
			}
		}
		var clock int64
		var evs []linEvent
		for _, o := range prefix {
			t := atomic.AddInt64(&clock, 1)
			r, _ := doOp(cache, ents, byPtr, o, now)
			evs = append(evs, linEvent{o, t, atomic.AddInt64(&clock, 1), r, -1})
		}
		results := make([][]linEvent, G)
		var torn atomic.Value
		var wg sync.WaitGroup
		stop := make(chan struct{})
		// entry-level traffic on the same objects: lease renewal and the locked readers
		var rw sync.WaitGroup
		for r := 0; r < 2; r++ {
			rw.Add(1)
			go func(r int) {
				defer rw.Done()
				i := r
				for {
					select {
					case <-stop:
						return
					default:
					}
					o := ents[i%len(ents)]
					o.e.RenewLease()
					_ = o.e.IsExpired()
					_ = o.e.Expiration()
					i++
					if i%3 == 0 {
						runtime.Gosched()
					}
				}
			}(r)
		}
		start := make(chan struct{})
		for g := 0; g < G; g++ {
			wg.Add(1)
			go func(g int) {
				defer wg.Done()
				<-start
				for j, o := range progs[g] {
					if yields[g][j] {
						runtime.Gosched()
					}
					t := atomic.AddInt64(&clock, 1)
					r, tr := doOp(cache, ents, byPtr, o, now)
					t2 := atomic.AddInt64(&clock, 1)
					if tr != "" {
						torn.Store(tr)
					}
					results[g] = append(results[g], linEvent{o, t, t2, r, g})
				}
			}(g)
		}
		close(start)
		wg.Wait()
		close(stop)
		rw.Wait()
		for g := range results {
			evs = append(evs, results[g]...)
		}
		// quiescence: final observations are part of the history (they come after everything)
		final := []linOp{{"size", 0, 0}, {"snapshot", 0, 0}, {"dump", 0, 0}}
		for k := 0; k < keys; k++ {
			final = append(final, linOp{"lookup", k, 0})
		}
		for ck := 0; ck < cks; ck++ {
			final = append(final, linOp{"bycmd", ck, 0})
		}
		for _, o := range final {
			t := atomic.AddInt64(&clock, 1)
			r, tr := doOp(cache, ents, byPtr, o, now)
			if tr != "" {
				torn.Store(tr)
			}
			evs = append(evs, linEvent{o, t, atomic.AddInt64(&clock, 1), r, -2})
		}
		var decl []string
		decl = append(decl, "reset")
		for _, o := range ents {
			decl = append(decl, fmt.Sprintf("ent %d %d %s", o.uid, o.key, o.exp))
		}
		var hist []string
		for _, e := range evs {
			hist = append(hist, fmt.Sprintf("g%d [%d,%d] %s -> %s", e.g, e.call, e.ret, e.op.line(), e.res))
		}
		shared := false
		for _, m := range touched {
			if m&(m-1) != 0 {
				shared = true
			}
		}
		out.eval(strings.Join(decl, ";")+"|"+fmt.Sprint(prefix, progs), shared)
		out.count(fmt.Sprintf("lin-goroutines:%d", G))
		for _, e := range evs {
			out.count("lin-op:" + e.op.kind)
		}
		if tr := torn.Load(); tr != nil {
			out.violate(Violation{Property: "C17", Key: "C17:torn-expiration", What: "DebugDump printed an expiration that is neither `never` nor a time any entry ever had (torn read of SessionEntry.expiration)",
				Ops: append(decl, hist...), Expected: "never | ~now-1h | ~now+1h", Observed: fmt.Sprint(tr)})
		}
		order, ok := linearize(ents, evs)
		if !ok {
			out.violate(Violation{Property: "C17", Key: "C17:cache-not-linearizable", What: "no sequential order of the cache operations (consistent with real time) explains the observed results: an update was lost or a lookup saw a state no order produces",
				Ops: append(decl, hist...), Expected: "some linearization", Observed: "none exists"})
			return
		}
		ops := append([]string{}, decl...)
		real := make([]string, len(decl))
		for i := range real {
			real[i] = "ok"
		}
		for _, i := range order {
			ops = append(ops, evs[i].op.line())
			real = append(real, evs[i].res)
		}
		out.Cases = append(out.Cases, Case{Label: label, Ops: ops, Real: real})
		if sample {
			out.sample(map[string]any{"history": abbreviate(hist), "linearization": abbreviate(ops)})
		}
	}
}

// ---- targeted pairs ------------------------------------------------------------------------------

func pairBody(kind string, cache *security.SessionCache, ents []*entObj, i int) {
	o := ents[i%len(ents)]
	switch kind {
	case "gc":
		cache.InvalidateExpired()
	case "dump":
		_ = cache.DebugDump()
	case "lookup":
		cache.Lookup(sidOf(o.key))
	case "lookupne":
		cache.LookupNonExpired(sidOf(o.key))
	case "bycmd":
		cache.LookupByCommand("", "srv", fmt.Sprint(i%3))
	case "renew":
		o.e.RenewLease()
	case "store":
		cache.Store(o.e)
	case "invalidate":
		cache.Invalidate(sidOf(o.key))
	case "mapcmd":
		cache.MapCommand("", "srv", fmt.Sprint(i%3), sidOf(o.key))
	case "clear":
		if i%7 == 0 {
			cache.Clear()
		} else {
			cache.Store(o.e)
		}
	case "size":
		_ = cache.Size()
	case "snapshot":
		for _, e := range cache.Snapshot() {
			_ = e.IsExpired()
			_ = e.IsInherited()
			_ = e.Expiration()
			_ = e.ID() + e.Addr() + e.Tag()
			_ = e.Lease()
		}
	case "peerversion":
		if i%2 == 0 {
			o.e.SetLastPeerVersion(fmt.Sprint(i))
		} else {
			_ = o.e.LastPeerVersion()
		}
	case "inherited":
		if i%2 == 0 {
			o.e.SetInherited(i%4 == 0)
		} else {
			_ = o.e.IsInherited()
		}
	}
}

func wlCachePairs(c *Ctx, out *raceWorkerOut, arg string) {
	iters := c.Pick(400, 4000)
	for _, pr := range strings.Split(arg, ";") {
		ab := strings.Split(pr, ",")
		if len(ab) != 2 {
			continue
		}
		now := time.Now()
		// all entries live with a lease: RenewLease writes every time
		var ents []*entObj
		for k := 0; k < 8; k++ {
			o := &entObj{uid: k, key: k, exp: "future", lease: time.Hour}
			o.e = security.NewSessionEntry(sidOf(k), "srv", nil, nil, now.Add(time.Hour), time.Hour, "")
			ents = append(ents, o)
		}
		cache := security.NewSessionCache()
		for _, o := range ents {
			cache.Store(o.e)
			cache.MapCommand("", "srv", fmt.Sprint(o.key%3), sidOf(o.key))
		}
		var wg sync.WaitGroup
		start := make(chan struct{})
		for g := 0; g < 4; g++ {
			wg.Add(1)
			go func(g int) {
				defer wg.Done()
				<-start
				kind := ab[g%2]
				for i := 0; i < iters; i++ {
					pairBody(kind, cache, ents, i+g)
					if i%16 == g {
						runtime.Gosched()
					}
				}
			}(g)
		}
		close(start)
		wg.Wait()
		out.count("pair:" + pr)
		out.eval("pair:"+pr, true)
		// post-condition: the cache is still a consistent object
		if n := cache.Size(); n != len(cache.Snapshot()) {
			out.violate(Violation{Property: "C17", Key: "C17:size-snapshot-differ", What: "after quiescence Size() and len(Snapshot()) differ", Ops: []string{"# pair " + pr}, Expected: fmt.Sprint(len(cache.Snapshot())), Observed: fmt.Sprint(n)})
		}
	}
}

// ---- dumps against writers: progress ------------------------------------------------------------

// wlDumpWriters: DebugDump (and Snapshot, Size) from several goroutines while others store, map,
// invalidate and sweep. Every call must return: a cache operation that blocks for ever wedges every
// handshake that shares the cache. The watchdog reports and ends the process.
func wlDumpWriters(c *Ctx, out *raceWorkerOut) {
	now := time.Now()
	cache := security.NewSessionCache()
	mk := func(k int) *security.SessionEntry {
		return security.NewSessionEntry(sidOf(k), "srv", nil, nil, now.Add(time.Hour), time.Hour, "")
	}
	for k := 0; k < 24; k++ {
		cache.Store(mk(k))
		cache.MapCommand("", "srv", fmt.Sprint(k%5), sidOf(k))
	}
	dumps := c.Pick(1500, 8000)
	var done int64
	var stop int32
	var wg, ww sync.WaitGroup
	for g := 0; g < 3; g++ {
		wg.Add(1)
		go func(g int) {
			defer wg.Done()
			for i := 0; i < dumps; i++ {
				switch (i + g) % 3 {
				case 0:
					_ = cache.DebugDump()
				case 1:
					_ = cache.Snapshot()
				default:
					_ = cache.Size()
				}
				atomic.AddInt64(&done, 1)
			}
		}(g)
	}
	for g := 0; g < 3; g++ {
		ww.Add(1)
		go func(g int) {
			defer ww.Done()
			for i := 0; atomic.LoadInt32(&stop) == 0; i++ {
				k := (i*7 + g) % 24
				switch i % 5 {
				case 0:
					cache.Store(mk(k))
				case 1:
					cache.MapCommand("", "srv", fmt.Sprint(k%5), sidOf(k))
				case 2:
					cache.Invalidate(sidOf(k))
				case 3:
					_, _ = cache.LookupNonExpired(sidOf(k))
				default:
					cache.InvalidateExpired()
				}
				if i%8 == g {
					runtime.Gosched()
				}
			}
		}(g)
	}
	fin := make(chan struct{})
	go func() { wg.Wait(); close(fin) }()
	total := int64(3 * dumps)
	last, lastChange := int64(-1), time.Now()
	for {
		select {
		case <-fin:
			atomic.StoreInt32(&stop, 1)
			ww.Wait()
			out.count("dump-writers:completed")
			out.eval("dump-writers", true)
			return
		case <-time.After(200 * time.Millisecond):
		}
		if d := atomic.LoadInt64(&done); d != last {
			last, lastChange = d, time.Now()
		} else if time.Since(lastChange) > 20*time.Second {
			out.violate(Violation{Property: "C17", Key: "C17:cache-wedged:dump-vs-writers",
				What:     "DebugDump/Snapshot/Size calls stopped returning while other goroutines were storing / mapping / invalidating: the cache is wedged (every lookup and handshake sharing it blocks)",
				Ops:      []string{"# 3 goroutines: DebugDump / Snapshot / Size in a loop; 3 goroutines: Store / MapCommand / Invalidate / LookupNonExpired / InvalidateExpired on the same 24 ids"},
				Expected: fmt.Sprintf("all %d read-side calls return", total), Observed: fmt.Sprintf("%d returned, then no progress for 20 s", last)})
			b, _ := json.Marshal(out)
			_ = os.WriteFile(os.Getenv("VERIF_RACE_OUT"), b, 0o644)
			os.Exit(0)
		}
	}
}

// ---- invalidate wins -----------------------------------------------------------------------------

func wlInvalidateWins(c *Ctx, out *raceWorkerOut) {
	rounds := c.Pick(150, 2000)
	for r := 0; r < rounds; r++ {
		now := time.Now()
		cache := security.NewSessionCache()
		e := security.NewSessionEntry("K0", "srv", nil, nil, now.Add(time.Hour), time.Hour, "")
		other := security.NewSessionEntry("K1", "srv", nil, nil, now.Add(time.Hour), time.Hour, "")
		cache.Store(e)
		cache.Store(other)
		cache.MapCommand("", "srv", "1", "K0")
		cache.MapCommand("T", "srv", "2", "K0")
		var invalidated int64 // 0 until Invalidate returned
		var wg sync.WaitGroup
		var mu sync.Mutex
		var lates []string
		start := make(chan struct{})
		for g := 0; g < 3; g++ {
			wg.Add(1)
			go func(g int) {
				defer wg.Done()
				<-start
				for i := 0; i < 40; i++ {
					after := atomic.LoadInt64(&invalidated) == 1
					var hit bool
					var what string
					switch (i + g) % 5 {
					case 0:
						_, hit = cache.Lookup("K0")
						what = "Lookup"
					case 1:
						_, hit = cache.LookupByCommand("", "srv", "1")
						what = "LookupByCommand"
					case 2:
						_, hit = cache.LookupNonExpired("K0")
						what = "LookupNonExpired"
					case 3:
						e.RenewLease() // a holder of the pointer keeps renewing: must not bring it back
						cache.InvalidateExpired()
						_, hit = cache.LookupByCommand("T", "srv", "2")
						what = "LookupByCommand(tag)"
					case 4:
						d := cache.DebugDump()
						hit = strings.Contains(d, "id=K0 ") || strings.Contains(d, "-> K0")
						what = "DebugDump"
						cache.MapCommand("", "srv", "3", "K1")
					}
					if after && hit {
						mu.Lock()
						lates = append(lates, what)
						mu.Unlock()
					}
				}
			}(g)
		}
		wg.Add(1)
		ny := c.Rng.Intn(6)
		go func() {
			defer wg.Done()
			<-start
			for i := 0; i < ny; i++ {
				runtime.Gosched()
			}
			cache.Invalidate("K0")
			atomic.StoreInt64(&invalidated, 1)
		}()
		close(start)
		wg.Wait()
		out.eval(fmt.Sprintf("invalidate-wins#%d", r%8), true)
		out.count("invalidate-wins")
		_, again := cache.Lookup("K0")
		if len(lates) > 0 || again || cache.Size() != 1 {
			out.violate(Violation{Property: "C17", Key: "C17:lookup-after-invalidate", What: "a lookup that started after Invalidate(K0) had returned still found the session (or it is back after quiescence)",
				Ops:      []string{"# 3 goroutines: Lookup / LookupByCommand / LookupNonExpired / RenewLease+InvalidateExpired / DebugDump+MapCommand on K0; 1 goroutine: Invalidate(K0)"},
				Expected: "every later lookup misses; Size()==1", Observed: fmt.Sprintf("late hits %v, found after quiescence %v, size %d", lates, again, cache.Size())})
		}
	}
}

// wlCacheTorn: torn reads of SessionEntry.expiration made VISIBLE. The other workloads renew
// entries whose old and new expiry lie in the same class, so a reader that mixed the words of two
// time.Time values would still print a plausible time. Here every entry starts with an expiry in
// wall-clock form (time.Unix: no monotonic reading, seconds in the `ext` word) ten hours ahead and
// is then renewed to the monotonic form one hour ahead (seconds in the `wall` word, monotonic
// nanoseconds in `ext`): a read that takes `wall` from one value and `ext` from the other yields a
// time far outside both windows. Readers: DebugDump, Expiration, IsExpired via Snapshot.
func wlCacheTorn(c *Ctx, out *raceWorkerOut) {
	cache := security.NewSessionCache()
	now := time.Now()
	far := time.Unix(now.Unix()+10*3600, 0)
	plausible := func(t time.Time) bool {
		if t.IsZero() {
			return true
		}
		d := t.Sub(now)
		return (d > 30*time.Minute && d < 2*time.Hour) || (d > 9*time.Hour && d < 11*time.Hour)
	}
	var torn atomic.Value
	stop := make(chan struct{})
	var wg sync.WaitGroup
	var stores, reads int64
	for w := 0; w < 2; w++ {
		wg.Add(1)
		go func(w int) {
			defer wg.Done()
			for i := 0; ; i++ {
				select {
				case <-stop:
					return
				default:
				}
				e := security.NewSessionEntry(fmt.Sprintf("T%d-%d", w, i%16), "srv", &security.KeyInfo{Data: keyBytes(1), Protocol: "AES"}, nil, far, time.Hour, "")
				cache.Store(e)
				atomic.AddInt64(&stores, 1)
				runtime.Gosched()
				e.RenewLease()
			}
		}(w)
	}
	wg.Add(1)
	go func() {
		defer wg.Done()
		for {
			select {
			case <-stop:
				return
			default:
			}
			for _, e := range cache.Snapshot() {
				e.RenewLease()
			}
			cache.InvalidateExpired()
		}
	}()
	for r := 0; r < 2; r++ {
		wg.Add(1)
		go func(r int) {
			defer wg.Done()
			for {
				select {
				case <-stop:
					return
				default:
				}
				if r == 0 {
					for _, l := range strings.Split(cache.DebugDump(), "\n") {
						for _, kv := range strings.Fields(l) {
							if strings.HasPrefix(kv, "exp=") && kv != "exp=never" {
								atomic.AddInt64(&reads, 1)
								t, ok, shaped := dumpedTime(kv[4:])
								if !shaped {
									dumpFormatUnknown.Add(1) // not a timestamp of the known shape: format, not value
								} else if !ok || !plausible(t) {
									torn.Store("DebugDump: " + l)
								}
							}
						}
					}
				} else {
					for _, e := range cache.Snapshot() {
						atomic.AddInt64(&reads, 1)
						if t := e.Expiration(); !plausible(t) {
							torn.Store("Expiration(): " + t.Format(time.RFC3339Nano))
						}
						if e.IsExpired() {
							torn.Store("IsExpired(): true for an entry that never had a past expiry")
						}
					}
				}
			}
		}(r)
	}
	time.Sleep(time.Duration(c.Pick(700, 3000)) * time.Millisecond)
	close(stop)
	wg.Wait()
	out.Dist["torn-stores"] += int(stores)
	out.Dist["torn-reads"] += int(reads)
	out.eval("cache-torn", true)
	if tr := torn.Load(); tr != nil {
		out.violate(Violation{Property: "C17", Key: "C17:torn-expiration", What: "a reader saw an expiration that no entry ever had (words of two different time.Time values mixed: torn read of SessionEntry.expiration)",
			Ops:      []string{"# 2 goroutines: Store(entry with wall-clock expiry now+10h, lease 1h) then RenewLease (monotonic expiry now+1h); 1 goroutine: RenewLease over Snapshot + InvalidateExpired; 2 readers: DebugDump / Expiration+IsExpired over Snapshot"},
			Expected: "every expiry read is now+10h (initial) or about now+1h (renewed)", Observed: fmt.Sprint(tr)})
	}
}
