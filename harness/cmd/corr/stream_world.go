package main

import (
	"bytes"
	"context"
	"encoding/binary"
	"encoding/hex"
	"errors"
	"fmt"
	"io"
	"math/big"
	"strings"

	"cedarverif/harness/internal/bufconn"
	"cedarverif/harness/internal/orc"
	"cedarverif/harness/internal/refcodec"

	"github.com/bbockelm/cedar/message"
	"github.com/bbockelm/cedar/stream"
)

// sworld drives two real stream.Stream endpoints over deterministic in-memory conns and
// renders every observable in the vocabulary of the Lean oracle's `stream` engine.

type sentFrame struct {
	f     refcodec.Frame
	enc   bool
	hasIV bool
	// for a protected frame the reference decryptor opened: the full 16-byte nonce it opened under
	// (base IV of the direction with the leading word advanced), the key, and the op that emitted it
	opened bool
	nonce  [16]byte
	keyID  int
	opIdx  int
}

type sep struct {
	name      string
	s         *stream.Stream
	c         *bufconn.Conn
	keyID     int
	key       []byte
	keyLine   int
	iv        [16]byte
	ivKnown   bool
	finalized bool
	clearSent []byte
	anySent   bool
	clearRecv []byte
	anyRecv   bool
	dir       *refcodec.Dir // opens the frames this endpoint sends
	sent      []sentFrame
	// what the harness itself knows about unfinished messages on this endpoint (C15 oracle): inside
	// StartMessageRead..EndMessageRead; bytes handed to WriteMessage and not yet put on the wire
	inRead      bool
	bufferedOut int
	// the session constants (key, frozen digests) of the blob this endpoint's stream was last rebuilt
	// from: what every later export of the session must carry again (C15 oracle)
	imported *blobFields
	// protected frames this endpoint's stream has put on the wire / has accepted since its key was
	// installed, as the harness saw them happen (C15 oracle: "has not yet exchanged a protected frame in
	// both directions"); a stream rebuilt from a blob starts from what the blob's flags vouch for
	protSent, protRecv int
}

// scrub overwrites a buffer the harness handed to (or got from) the library, as a careful caller does
// with memory that held a raw key: zeros first, then a pattern. A stream that kept a reference to the
// caller's buffer instead of its own copy now holds garbage.
func scrub(b []byte) {
	for i := range b {
		b[i] = 0
	}
	for i := range b {
		b[i] = byte(i*131 + 0x5b)
	}
}

// fakeAddr is the remote address of a harness connection.
type fakeAddr struct{ network, addr string }

func (a fakeAddr) Network() string { return a.network }
func (a fakeAddr) String() string  { return a.addr }

// newWorldAddr: as newWorld, but the two connections have remote addresses (as real TCP
// connections do), which NewStream records as the peer address in sinful form.
func newWorldAddr() *sworld {
	w := &sworld{pending: map[string][]byte{}}
	mk := func(name, remote string) *sep {
		c := bufconn.New()
		c.Remote = fakeAddr{"tcp", remote}
		return &sep{name: name, c: c, s: stream.NewStream(c), keyLine: -1}
	}
	w.a, w.b = mk("A", "192.0.2.7:9618"), mk("B", "198.51.100.23:41714")
	w.log("new", "ok")
	w.log("connaddr A "+hexOrDash([]byte("<192.0.2.7:9618>")), "ok")
	w.log("connaddr B "+hexOrDash([]byte("<198.51.100.23:41714>")), "ok")
	return w
}

func (w *sworld) setauth(n string, on bool) {
	w.ep(n).s.SetAuthenticated(on)
	w.log("setauth "+n+" "+b01(on), "ok")
}

func (w *sworld) setpeer(n string, addr string) {
	w.ep(n).s.SetPeerAddr(addr)
	w.log("setpeer "+n+" "+hexOrDash([]byte(addr)), "ok")
}

// ident: what the stream reports about the session's identity
func (w *sworld) ident(n string) (bool, string) {
	e := w.ep(n)
	a, p := e.s.IsAuthenticated(), e.s.GetPeerAddr()
	w.log("ident "+n, fmt.Sprintf("ok auth=%s peer=%s", b01(a), orc.ShowBytes([]byte(p))))
	return a, p
}

type sworld struct {
	a, b    *sep
	pending map[string][]byte
	ops     []string
	real    []string
	dead    bool // a terminal error happened on a receive; the case stops making claims
	pat     *patState
}

// patState: the big position-dependent message currently being sent (compact `pat:` op payloads)
type patState struct {
	seed int
	msg  []byte
	off  int
}

// patByte mirrors Oracle.StreamEngine.patByte: byte i of test pattern `seed`.
func patByte(seed, i int) byte {
	return byte(((uint64(i) + uint64(seed)) * 2654435761 % 4294967296) / 16777216)
}

func patBytes(seed, off, n int) []byte {
	b := make([]byte, n)
	for j := range b {
		b[j] = patByte(seed, off+j)
	}
	return b
}

// payload renders the bytes of a send/write op. While a pattern message is being sent, a chunk that
// IS the next bytes of the pattern (checked byte for byte) is written as pat:<n>:<seed>:<off>.
func (w *sworld) payload(data []byte) string {
	if p := w.pat; p != nil && len(data) > 0 && p.off+len(data) <= len(p.msg) && bytes.Equal(data, p.msg[p.off:p.off+len(data)]) {
		off := p.off
		p.off += len(data)
		if len(data) > 64 {
			return fmt.Sprintf("pat:%d:%d:%d", len(data), p.seed, off)
		}
	}
	return orc.Payload(data)
}

var bg = context.Background()

func keyBytes(id int) []byte {
	k := make([]byte, 32)
	binary.BigEndian.PutUint32(k[28:], uint32(id))
	return k
}

func newSep(name string) *sep {
	c := bufconn.New()
	return &sep{name: name, c: c, s: stream.NewStream(c), keyLine: -1}
}

func newWorld() *sworld {
	w := &sworld{a: newSep("A"), b: newSep("B"), pending: map[string][]byte{}}
	w.log("new", "ok")
	return w
}

func (w *sworld) log(op, reply string) { w.ops = append(w.ops, op); w.real = append(w.real, reply) }

func (w *sworld) ep(n string) *sep {
	if n == "A" {
		return w.a
	}
	return w.b
}
func (w *sworld) peer(n string) *sep {
	if n == "A" {
		return w.b
	}
	return w.a
}

func showDig(b []byte, any bool) string {
	if !any {
		return "Z"
	}
	return "H:" + orc.DigestOf(b)
}

func ivStr(iv [16]byte) string {
	return fmt.Sprintf("%d:%s", binary.BigEndian.Uint32(iv[:4]), hex.EncodeToString(iv[4:]))
}

// every base IV a SetSymmetricKey call drew during this engine run, as read back from the wire
// (C12: "fresh and distinct for every direction and session")
type drawnIV struct {
	iv    [16]byte
	where string
	ops   []string // the session up to (not including) the send that carried the IV
}

var drawnIVs []drawnIV

// describe renders a frame the endpoint just emitted; protected frames are opened by refcodec.
func (w *sworld) describe(e *sep, f refcodec.Frame, enc bool) string {
	d, _ := w.describeP(e, f, enc)
	return d
}

// describeP: the rendering and the frame's plaintext (nil when the frame could not be opened)
func (w *sworld) describeP(e *sep, f refcodec.Frame, enc bool) (string, []byte) {
	if !enc {
		e.sent = append(e.sent, sentFrame{f: f})
		return fmt.Sprintf("F(%d,%d,raw,%s)", f.Flag, f.Len, orc.ShowBytes(f.Body)), f.Body
	}
	if e.dir == nil {
		return fmt.Sprintf("F(%d,%d,NOKEY)", f.Flag, f.Len), nil
	}
	o, err := e.dir.Open(f)
	if err != nil {
		e.sent = append(e.sent, sentFrame{f: f, enc: true})
		return fmt.Sprintf("F(%d,%d,UNOPENABLE:%v)", f.Flag, f.Len, err), nil
	}
	var nn [16]byte
	copy(nn[:], e.dir.BaseIV[:])
	binary.BigEndian.PutUint32(nn[:4], o.NonceW0)
	e.sent = append(e.sent, sentFrame{f: f, enc: true, hasIV: o.HadIV, opened: true, nonce: nn, keyID: e.keyID, opIdx: len(w.ops)})
	e.protSent++
	ivs := "iv=-"
	if o.HadIV {
		e.iv = e.dir.BaseIV
		e.ivKnown = true
		ivs = "iv=" + ivStr(e.iv)
		if e.keyLine >= 0 { // the IV a SetSymmetricKey call drew (not one restored from a blob)
			drawnIVs = append(drawnIVs, drawnIV{iv: e.iv, where: fmt.Sprintf("IV draw #%d of the run: endpoint %s, key installed at op %d", len(drawnIVs)+1, e.name, e.keyLine), ops: append([]string{}, w.ops...)})
		}
	}
	aad := "aad=H"
	if o.FirstAAD {
		aad = fmt.Sprintf("aad=D[%s|%s]", showDig(e.clearSent, e.anySent), showDig(e.clearRecv, e.anyRecv))
	}
	return fmt.Sprintf("F(%d,%d,ct,%s,n=%d,%s,k=%d,%s)", f.Flag, f.Len, ivs, o.NonceW0, aad, e.keyID, orc.ShowBytes(o.Plain)), o.Plain
}

// collect parses what the endpoint wrote, renders it and puts it in flight to the peer.
func (w *sworld) collect(e *sep, enc bool, wasFinal bool) string {
	out := e.c.TakeOut()
	frames, rest := refcodec.ParseFrames(out)
	var parts []string
	for _, f := range frames {
		parts = append(parts, w.describe(e, f, enc))
	}
	if len(rest) != 0 {
		parts = append(parts, fmt.Sprintf("TRAILING(%d)", len(rest)))
	}
	if !wasFinal && len(out) > 0 {
		e.clearSent = append(e.clearSent, out...)
		e.anySent = true
	}
	pn := w.peer(e.name).name
	w.pending[pn] = append(w.pending[pn], out...)
	return strings.Join(parts, " ")
}

func (e *sep) crypting() bool { return e.key != nil && e.s.IsEncrypted() }

func (w *sworld) key(n string, id int) {
	e := w.ep(n)
	kbuf := keyBytes(id)
	err := e.s.SetSymmetricKey(kbuf)
	scrub(kbuf) // the caller's key buffer is the caller's: wiped after the call
	if err != nil {
		w.log(fmt.Sprintf("key %s %d 0 -", n, id), "err "+errClass(err))
		return
	}
	e.keyID, e.key = id, keyBytes(id)
	e.protSent, e.protRecv = 0, 0
	e.finalized = true
	e.ivKnown = false
	e.dir, _ = refcodec.NewDir(e.key, refcodec.Digest(e.clearSent, e.anySent), refcodec.Digest(e.clearRecv, e.anyRecv))
	e.keyLine = len(w.ops)
	w.log(fmt.Sprintf("key %s %d ? ?", n, id), "ok")
}

// finish patches the key lines with the IVs observed on the wire.
func (w *sworld) finish() {
	for _, e := range []*sep{w.a, w.b} {
		w.patchKey(e)
	}
}

func (w *sworld) patchKey(e *sep) {
	if e.keyLine < 0 {
		return
	}
	iv := "0 -"
	if e.ivKnown {
		iv = strings.Replace(ivStr(e.iv), ":", " ", 1)
	}
	w.ops[e.keyLine] = fmt.Sprintf("key %s %d %s", e.name, e.keyID, iv)
	e.keyLine = -1
}

func (w *sworld) send(n string, flag int, data []byte) error {
	e := w.ep(n)
	enc, fin := e.crypting(), e.finalized
	var err error
	if flag == 1 {
		err = e.s.SendMessage(bg, data)
	} else {
		err = e.s.SendPartialMessage(bg, data)
	}
	op := fmt.Sprintf("send %s %d %s", n, flag, w.payload(data))
	if err != nil {
		e.c.TakeOut()
		w.log(op, "err "+errClass(err))
		return err
	}
	w.log(op, strings.TrimRight("ok "+w.collect(e, enc, fin), " "))
	return nil
}

// writeFrame sends one frame through Stream.WriteFrame (the typed layer's way onto the wire): to the
// stream model a `send` with the end flag WriteFrame chose.
func (w *sworld) writeFrame(n string, data []byte, eom bool) error {
	e := w.ep(n)
	enc, fin := e.crypting(), e.finalized
	err := e.s.WriteFrame(bg, data, eom)
	op := fmt.Sprintf("send %s %s %s", n, b01(eom), w.payload(data))
	if err != nil {
		e.c.TakeOut()
		w.log(op, "err "+errClass(err))
		return err
	}
	w.log(op, strings.TrimRight("ok "+w.collect(e, enc, fin), " "))
	return nil
}

func (w *sworld) write(n string, data []byte) error {
	e := w.ep(n)
	enc, fin := e.crypting(), e.finalized
	err := e.s.WriteMessage(bg, data)
	op := fmt.Sprintf("write %s %s", n, w.payload(data))
	if err != nil {
		e.c.TakeOut()
		w.log(op, "err "+errClass(err))
		return err
	}
	if len(e.c.Out) > 0 {
		e.bufferedOut = 0 // the writer flushed: everything handed over so far is on the wire
	} else {
		e.bufferedOut += len(data)
	}
	w.log(op, strings.TrimRight("ok "+w.collect(e, enc, fin), " "))
	return nil
}

func (w *sworld) end(n string) error {
	e := w.ep(n)
	enc, fin := e.crypting(), e.finalized
	err := e.s.EndMessage(bg)
	if err != nil {
		e.c.TakeOut()
		w.log("end "+n, "err "+errClass(err))
		return err
	}
	e.bufferedOut = 0
	w.log("end "+n, strings.TrimRight("ok "+w.collect(e, enc, fin), " "))
	return nil
}

func (w *sworld) start(n string) {
	w.ep(n).s.StartMessage()
	w.ep(n).bufferedOut = 0
	w.log("start "+n, "ok")
}

func (w *sworld) secret(n string, data []byte) error {
	e := w.ep(n)
	enc, fin := e.key != nil, e.finalized
	err := e.s.PutSecret(bg, string(data))
	op := fmt.Sprintf("secret %s %s", n, orc.Payload(data))
	if err != nil {
		e.c.TakeOut()
		w.log(op, "err "+errClass(err))
		return err
	}
	w.log(op, strings.TrimRight("ok "+w.collect(e, enc, fin), " "))
	return nil
}

// typedFrame sends one frame through the typed layer: Message.PutBytes + FlushFrame(false) (->
// WriteFrame -> SendPartialMessage) or FinishMessage (-> SendMessage). To the stream model that is one
// `send` with the end flag the typed layer chose.
func (w *sworld) typedFrame(n string, data []byte, eom bool) error {
	e := w.ep(n)
	enc, fin := e.crypting(), e.finalized
	m := message.NewMessageForStream(e.s)
	err := m.PutBytes(bg, data)
	if err == nil {
		if eom {
			err = m.FinishMessage(bg)
		} else {
			err = m.FlushFrame(bg, false)
		}
	}
	op := fmt.Sprintf("send %s %s %s", n, b01(eom), orc.Payload(data))
	if err != nil {
		e.c.TakeOut()
		w.log(op, "err "+errClass(err))
		return err
	}
	w.log(op, strings.TrimRight("ok "+w.collect(e, enc, fin), " "))
	return nil
}

// typedBytes sends `data` as ONE message through the typed layer (Message.PutBytes + FinishMessage),
// which splits it into frames itself. To the stream model every frame the typed layer put on the wire
// is one `send` of that frame's plaintext with that frame's end flag (the typed layer is a client of
// WriteFrame); whether the pieces add up to `data` is for the property oracle on the receiving side.
func (w *sworld) typedBytes(n string, data []byte) error {
	e := w.ep(n)
	enc, fin := e.crypting(), e.finalized
	m := message.NewMessageForStream(e.s)
	err := m.PutBytes(bg, data)
	if err == nil {
		err = m.FinishMessage(bg)
	}
	out := e.c.TakeOut()
	frames, rest := refcodec.ParseFrames(out)
	for _, f := range frames {
		d, plain := w.describeP(e, f, enc)
		w.log(fmt.Sprintf("send %s %d %s", n, f.Flag, w.payload(plain)), "ok "+d)
	}
	if len(rest) != 0 {
		w.log("send "+n+" 1 -", fmt.Sprintf("ok TRAILING(%d)", len(rest)))
	}
	if !fin && len(out) > 0 {
		e.clearSent = append(e.clearSent, out...)
		e.anySent = true
	}
	pn := w.peer(n).name
	w.pending[pn] = append(w.pending[pn], out...)
	return err
}

// typedChunks sends ONE message through one typed Message: every chunk is PutBytes + FlushFrame(false)
// (a frame flush the application asked for), then FinishMessage — whose final frame is empty when the
// buffer was just flushed. Frames are told to the stream model as typedBytes does.
func (w *sworld) typedChunks(n string, chunks [][]byte) error {
	e := w.ep(n)
	enc, fin := e.crypting(), e.finalized
	m := message.NewMessageForStream(e.s)
	var err error
	for _, ch := range chunks {
		if err = m.PutBytes(bg, ch); err != nil {
			break
		}
		if err = m.FlushFrame(bg, false); err != nil {
			break
		}
	}
	if err == nil {
		err = m.FinishMessage(bg)
	}
	out := e.c.TakeOut()
	frames, rest := refcodec.ParseFrames(out)
	for _, f := range frames {
		d, plain := w.describeP(e, f, enc)
		w.log(fmt.Sprintf("send %s %d %s", n, f.Flag, w.payload(plain)), "ok "+d)
	}
	if len(rest) != 0 {
		w.log("send "+n+" 1 -", fmt.Sprintf("ok TRAILING(%d)", len(rest)))
	}
	if !fin && len(out) > 0 {
		e.clearSent = append(e.clearSent, out...)
		e.anySent = true
	}
	pn := w.peer(n).name
	w.pending[pn] = append(w.pending[pn], out...)
	return err
}

func (w *sworld) crypto(n string, on bool) {
	r := w.ep(n).s.SetCryptoMode(on)
	w.log(fmt.Sprintf("crypto %s %s", n, b01(on)), "ok "+b01(r))
}

func (w *sworld) finalize(n string) {
	e := w.ep(n)
	e.s.FinalizeDigests()
	e.finalized = true
	w.log("finalize "+n, "ok")
}

func b01(b bool) string {
	if b {
		return "1"
	}
	return "0"
}

// deliver moves the bytes in flight into the endpoint's connection.
func (w *sworld) deliver(n string) {
	e := w.ep(n)
	if p := w.pending[n]; len(p) > 0 {
		e.c.Feed(p)
		w.pending[n] = nil
	}
}

// around wraps a receive operation: tracks the cleartext consumed before digests freeze.
// NOTE (known fragility, not fixable from outside the library): the cleartext the stream fed to its
// receive digest is inferred from how many raw bytes left the connection buffer. That is exact as long
// as Stream reads precisely header+payload per frame (io.ReadFull on the conn, as today). If Stream
// ever gains read-ahead buffering (bufio), `consumed` would include bytes of frames not yet processed
// and the reference digests (refcodec.Digest(e.clearRecv…)) would diverge from the stream's: every
// first protected frame would then be reported UNOPENABLE although the library is right. The remedy
// then is to feed exactly one frame per receive call (deliver frame by frame) instead of the backlog.
func (w *sworld) around(n string, f func(e *sep) (string, error)) error {
	w.deliver(n)
	e := w.ep(n)
	before := append([]byte{}, e.c.In...)
	fin := e.finalized
	prot := e.crypting()
	_, err := f(e)
	consumed := before[:len(before)-len(e.c.In)]
	if err == nil && prot {
		fr, _ := refcodec.ParseFrames(consumed)
		e.protRecv += len(fr)
	}
	if err == nil && !fin && len(consumed) > 0 {
		e.clearRecv = append(e.clearRecv, consumed...)
		e.anyRecv = true
	}
	if err != nil {
		w.dead = true
	}
	return err
}

func (w *sworld) recvc(n string) ([]byte, error) {
	var msg []byte
	err := w.around(n, func(e *sep) (string, error) {
		m, err := e.s.ReceiveCompleteMessage(bg)
		msg = m
		if err != nil {
			w.log("recvc "+n, "err "+errClass(err))
		} else {
			w.log("recvc "+n, "ok "+orc.ShowBytes(m))
		}
		return "", err
	})
	return msg, err
}

// mrest reads one whole message through the typed layer's GetRemainingBytes.
func (w *sworld) mrest(n string) ([]byte, error) {
	var msg []byte
	err := w.around(n, func(e *sep) (string, error) {
		m, err := message.NewMessageFromStream(e.s).GetRemainingBytes(bg)
		msg = m
		if err != nil {
			w.log("mrest "+n, "err "+errClass(err))
		} else {
			w.log("mrest "+n, "ok "+orc.ShowBytes(m))
		}
		return "", err
	})
	return msg, err
}

func (w *sworld) recvf(n string) ([]byte, byte, error) {
	var d []byte
	var fl byte
	err := w.around(n, func(e *sep) (string, error) {
		x, f, err := e.s.ReceiveFrameWithEnd(bg)
		d, fl = x, f
		if err != nil {
			w.log("recvf "+n, "err "+errClass(err))
		} else {
			w.log("recvf "+n, fmt.Sprintf("ok %d %s", f, orc.ShowBytes(x)))
		}
		return "", err
	})
	return d, fl, err
}

func (w *sworld) recvp(n string) ([]byte, error) {
	var d []byte
	err := w.around(n, func(e *sep) (string, error) {
		x, err := e.s.ReceiveFrame(bg)
		d = x
		if err != nil {
			w.log("recvp "+n, "err "+errClass(err))
		} else {
			w.log("recvp "+n, "ok "+orc.ShowBytes(x))
		}
		return "", err
	})
	return d, err
}

func (w *sworld) getsecret(n string) ([]byte, error) {
	var d []byte
	err := w.around(n, func(e *sep) (string, error) {
		forced := e.key != nil && !e.crypting() // GetSecret switches decryption on for the one frame
		x, err := e.s.GetSecret(bg)
		if err == nil && forced {
			e.protRecv++
		}
		d = []byte(x)
		if err != nil {
			w.log("getsecret "+n, "err "+errClass(err))
		} else {
			w.log("getsecret "+n, "ok "+orc.ShowBytes(d))
		}
		return "", err
	})
	return d, err
}

func (w *sworld) startread(n string) error {
	return w.around(n, func(e *sep) (string, error) {
		err := e.s.StartMessageRead(bg)
		if err != nil {
			w.log("startread "+n, "err "+errClass(err))
		} else {
			e.inRead = true
			w.log("startread "+n, "ok")
		}
		return "", err
	})
}

func (w *sworld) read(n string, k int) ([]byte, error) {
	e := w.ep(n)
	buf := make([]byte, k)
	got, err := e.s.ReadMessageBytes(bg, buf)
	d := buf[:got]
	op := fmt.Sprintf("read %s %d", n, k)
	if err != nil {
		// ReadMessageBytes never touches the connection: an error that IS io.EOF (bare today; wrapped
		// with %w would be the same thing to every caller using errors.Is) means "end of the current
		// message", not a broken stream
		if isEOM(err) {
			w.log(op, "err eom")
		} else {
			w.log(op, "err "+errClass(err))
			w.dead = true
		}
	} else {
		w.log(op, "ok "+orc.ShowBytes(d))
	}
	return d, err
}

// isEOM: the error ReadMessageBytes uses for "no more bytes in this message"
func isEOM(err error) bool { return errors.Is(err, io.EOF) }

// errKind is errClass without any error TEXT (unknown wording -> "other"): for violation keys.
func errKind(err error) string {
	c := errClass(err)
	if strings.HasPrefix(c, "other:") {
		return "other"
	}
	return c
}

func (w *sworld) endread(n string) error {
	e := w.ep(n)
	err := e.s.EndMessageRead()
	if err != nil {
		w.log("endread "+n, "err "+errClass(err))
	} else {
		e.inRead = false
		w.log("endread "+n, "ok")
	}
	return err
}

// blobFields parses an ExportCryptoState blob by the documented layout (independently of cedar).
type blobFields struct {
	flags        byte
	key          []byte
	eiv, div     [16]byte
	ectr, dctr   uint32
	fs, fr, peer []byte
}

func parseBlob(b []byte) (*blobFields, error) {
	if len(b) < 79 || string(b[:4]) != "CDRX" || binary.BigEndian.Uint16(b[4:6]) != 1 {
		return nil, fmt.Errorf("bad blob")
	}
	f := &blobFields{flags: b[6], key: b[7:39]}
	copy(f.eiv[:], b[39:55])
	copy(f.div[:], b[55:71])
	f.ectr = binary.BigEndian.Uint32(b[71:75])
	f.dctr = binary.BigEndian.Uint32(b[75:79])
	r := b[79:]
	rd := func() ([]byte, error) {
		if len(r) < 2 {
			return nil, fmt.Errorf("trunc")
		}
		n := int(binary.BigEndian.Uint16(r[:2]))
		r = r[2:]
		if len(r) < n {
			return nil, fmt.Errorf("trunc")
		}
		x := r[:n]
		r = r[n:]
		return x, nil
	}
	var err error
	if f.fs, err = rd(); err != nil {
		return nil, err
	}
	if f.fr, err = rd(); err != nil {
		return nil, err
	}
	if f.peer, err = rd(); err != nil {
		return nil, err
	}
	return f, nil
}

func buildBlob(f *blobFields) []byte {
	var b bytes.Buffer
	b.WriteString("CDRX")
	b.Write([]byte{0, 1, f.flags})
	b.Write(f.key)
	b.Write(f.eiv[:])
	b.Write(f.div[:])
	_ = binary.Write(&b, binary.BigEndian, f.ectr)
	_ = binary.Write(&b, binary.BigEndian, f.dctr)
	for _, v := range [][]byte{f.fs, f.fr, f.peer} {
		_ = binary.Write(&b, binary.BigEndian, uint16(len(v)))
		b.Write(v)
	}
	return b.Bytes()
}

func (w *sworld) export(n string) ([]byte, error) {
	e := w.ep(n)
	ret, err := e.s.ExportCryptoState()
	if err != nil {
		w.log("export "+n, "err "+errClass(err))
		return nil, err
	}
	// the returned slice is the caller's from here on: the harness keeps a copy and wipes the original,
	// as a process does after passing the blob on (the exporting stream may live on)
	blob := append([]byte{}, ret...)
	scrub(ret)
	f, perr := parseBlob(blob)
	if perr != nil {
		w.log("export "+n, "ok UNPARSEABLE")
		return blob, nil
	}
	kid := new(big.Int).SetBytes(f.key).String()
	w.log("export "+n, fmt.Sprintf("ok flags=%d key=%s eiv=%s div=%s ectr=%d dctr=%d fs=%d fr=%d peer=%s",
		f.flags, kid, ivStr(f.eiv), ivStr(f.div), f.ectr, f.dctr, len(f.fs), len(f.fr), orc.ShowBytes(f.peer)))
	return blob, nil
}

// importBlob rebuilds the endpoint's stream from a blob around the same connection.
func (w *sworld) importBlob(n string, blob []byte) error { return w.importBlobAround(n, blob, "") }

// importBlobAround: the connection the session is continued on reports `remote` as its remote address
// (a hand-off passes the fd to another process, typically over a unix socket; what the new process's
// conn reports need not be the peer). remote == "": leave the connection as it is, model not told.
func (w *sworld) importBlobAround(n string, blob []byte, remote string) error {
	e := w.ep(n)
	w.patchKey(e)
	op := "import " + n + " " + hexOrDash(blob)
	if remote != "" {
		e.c.Remote = fakeAddr{"unix", remote}
		op += " " + hexOrDash([]byte("<"+remote+">"))
	}
	// the transfer buffer is the caller's: it is wiped and reused as soon as the import has returned
	buf := append([]byte{}, blob...)
	s, err := stream.NewStreamWithCryptoState(e.c, buf)
	scrub(buf)
	if err != nil {
		w.log(op, "err "+errClass(err))
		return err
	}
	e.s = s
	e.imported = nil
	e.inRead, e.bufferedOut = false, 0
	e.finalized = true // an imported stream never feeds digests that matter again (see model)
	if f, perr := parseBlob(blob); perr == nil {
		e.imported = &blobFields{key: append([]byte{}, f.key...), fs: append([]byte{}, f.fs...), fr: append([]byte{}, f.fr...)}
		e.protSent, e.protRecv = int(f.flags>>2&1), int(f.flags>>3&1)
		e.key = append([]byte{}, f.key...)
		e.keyID = int(binary.BigEndian.Uint32(f.key[28:]))
		d, _ := refcodec.NewDir(e.key, [32]byte{}, [32]byte{})
		d.BaseIV, d.HaveIV, d.Counter = f.eiv, true, f.ectr
		d.First = f.flags&4 == 0
		if len(f.fs) == 32 {
			copy(d.DigSelf[:], f.fs)
		}
		if len(f.fr) == 32 {
			copy(d.DigPeer[:], f.fr)
		}
		e.dir = d
		e.iv, e.ivKnown = f.eiv, true
	}
	w.log(op, "ok")
	return nil
}

func hexOrDash(b []byte) string {
	if len(b) == 0 {
		return "-"
	}
	return hex.EncodeToString(b)
}
