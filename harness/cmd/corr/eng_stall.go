package main

// Engine `stall` (property C19): cancellation and deadlines always unblock stream operations.
//
// The side under test (a real stream.Stream, plain message exchange or a real Client/Server
// handshake) talks through a stallConn: a net.Conn wrapper over an in-memory pipe that can make
// the k-th read or write never complete, fail it, or fire the cancellation from inside it. The
// peer is the real library on the other end of the pipe with context.Background. For every
// operation shape a fault-free run records the I/O trace (n calls); then for every k < n and
// every schedule the operation is run again:
//
//   guard   cancellation fires after call k-1 returned, exactly at the entry guard of step k
//           (scripted context: ctx.Err() fires the cancel when k calls have completed)
//   during  call k stalls; once it is blocked the harness cancels
//   dline   call k stalls; the context's deadline (WithTimeout) passes while it is blocked
//   race    call k completes, the cancel fires inside the call just before it returns
//           (the window between the I/O returning and stop())
//   never / unfired   call k stalls under context.Background / a context nobody cancels: it must block
//   after   call k stalls, the peer resumes, the operation completes; then the context is cancelled
//   ioerr   call k fails with an injected error under Background and under an unfired context
//   past    deadline already passed / context already cancelled when the operation starts
//
// Observables, compared with the Lean model (oracle engine `cancel`): what the operation returned
// (ok / ctx:canceled / ctx:deadline / io:<class> / blocked), whether Close was called on the
// connection (polled, so an asynchronous watcher counts), how many I/O calls were issued.
// Independently the property oracle checks, on the implementation: return within a generous
// bound after the context fired, a non-nil error (errors.Is the context's error for plain stream
// operations), connection closed, no I/O issued after the cancel; and that Background / unfired
// contexts change nothing. Times are a liveness detector only, never compared.

import (
	"context"
	"crypto/ecdsa"
	"crypto/elliptic"
	"crypto/hmac"
	crand "crypto/rand"
	"crypto/sha256"
	"crypto/x509"
	"crypto/x509/pkix"
	"encoding/base64"
	"encoding/json"
	"encoding/pem"
	"errors"
	"fmt"
	"io"
	"math/big"
	"net"
	"os"
	"path/filepath"
	"runtime/debug"
	"sort"
	"strings"
	"sync"
	"sync/atomic"
	"time"

	"cedarverif/harness/internal/bufpipe"

	"github.com/PelicanPlatform/classad/classad"
	"github.com/bbockelm/cedar/message"
	"github.com/bbockelm/cedar/security"
	"github.com/bbockelm/cedar/stream"
	"golang.org/x/crypto/hkdf"
)

func init() { register(Engine{"stall", runStall}) }

var errInjected = errors.New("injected transport failure")

// the reason handed to cause-carrying contexts (WithCancelCause / WithTimeoutCause / WithDeadlineCause):
// context.Cause(ctx) is then this error, ctx.Err() stays Canceled / DeadlineExceeded -- "the context's own error"
var errStallCause = errors.New("stall: caller-supplied cancellation reason")

// context kinds, a dimension of every schedule
const (
	ckPlain = iota // WithCancel / WithTimeout / WithDeadline
	ckCause        // WithCancelCause(reason) / WithTimeoutCause / WithDeadlineCause
	ckChild        // a derived context (WithValue + WithCancel) of a cause-carrying one; the PARENT fires
	ckKinds
)

var ckNames = [ckKinds]string{"plain", "cause", "cause-child"}

// stallCtx builds the context of one run. fire cancels it (with the reason, for the cause-carrying
// kinds); release frees its resources. deadline: zero = none.
func stallCtx(kind int, deadline time.Time) (ctx context.Context, fire func(), release func()) {
	type ctxKey struct{}
	switch kind {
	case ckCause, ckChild:
		var rel []func()
		if deadline.IsZero() {
			c, cc := context.WithCancelCause(context.Background())
			ctx, fire = c, func() { cc(errStallCause) }
			rel = append(rel, func() { cc(nil) })
		} else {
			c, cancel := context.WithDeadlineCause(context.Background(), deadline, errStallCause)
			ctx, fire = c, cancel
			rel = append(rel, cancel)
		}
		if kind == ckChild {
			child, cancel := context.WithCancel(context.WithValue(ctx, ctxKey{}, 1))
			ctx = child
			rel = append(rel, cancel)
		}
		release = func() {
			for i := len(rel) - 1; i >= 0; i-- {
				rel[i]()
			}
		}
		return
	}
	if deadline.IsZero() {
		c, cancel := context.WithCancel(context.Background())
		return c, cancel, cancel
	}
	c, cancel := context.WithDeadline(context.Background(), deadline)
	return c, cancel, cancel
}

// panics of the counterpart goroutine (context.Background side of a run), recovered so that the engine goes on
var (
	stallPeerPanics   atomic.Int64
	stallPeerPanicMsg atomic.Value
)

const (
	stallReturnBound = 1500 * time.Millisecond // liveness detector: return after the context fired
	stallCloseBound  = 1500 * time.Millisecond // liveness detector: Close after return
	stallBlockWindow = 30 * time.Millisecond   // how long a stalled call is watched to call it "blocked"
	stallSetupBound  = 5 * time.Second         // a fault-free run / reaching step k
)

// ---------------------------------------------------------------------------------------------
// the connection wrapper

type stallConn struct {
	net.Conn
	mu       sync.Mutex
	started  int
	finished int
	trace    []byte
	stallAt  int // call index that never completes (-1: none)
	failAt   int // call index that fails with errInjected (-1: none)
	raceAt   int // call index inside which raceFn runs after the I/O completed (-1: none)
	raceFn   func()
	entered  chan struct{} // closed when the stalled call is blocked
	release  chan struct{} // closed by the harness: the peer resumes
	closedCh chan struct{}
	once     sync.Once
	closed   atomic.Bool
	firedAt  atomic.Int64 // number of calls started when the context fired (-1 unknown)
	lateIO   atomic.Int64 // calls started after the context fired
}

func newStallConn(c net.Conn) *stallConn {
	s := &stallConn{Conn: c, stallAt: -1, failAt: -1, raceAt: -1, entered: make(chan struct{}), release: make(chan struct{}), closedCh: make(chan struct{})}
	s.firedAt.Store(-1)
	return s
}

func (s *stallConn) begin(kind byte) int {
	s.mu.Lock()
	defer s.mu.Unlock()
	i := s.started
	s.started++
	s.trace = append(s.trace, kind)
	if s.firedAt.Load() >= 0 {
		s.lateIO.Add(1)
	}
	return i
}

func (s *stallConn) end() {
	s.mu.Lock()
	s.finished++
	s.mu.Unlock()
}

func (s *stallConn) counts() (started, finished int, trace string) {
	s.mu.Lock()
	defer s.mu.Unlock()
	return s.started, s.finished, string(s.trace)
}

// markFired records the moment the context fired (for the "no I/O after the cancel" oracle).
func (s *stallConn) markFired() {
	s.mu.Lock()
	if s.firedAt.Load() < 0 {
		s.firedAt.Store(int64(s.started))
	}
	s.mu.Unlock()
}

func (s *stallConn) gate(i int) error {
	if i == s.stallAt {
		close(s.entered)
		select {
		case <-s.closedCh:
			return net.ErrClosed
		case <-s.release:
		}
	}
	if i == s.failAt {
		return errInjected
	}
	return nil
}

func (s *stallConn) Read(p []byte) (int, error) {
	i := s.begin('R')
	defer s.end()
	if err := s.gate(i); err != nil {
		return 0, err
	}
	n, err := s.Conn.Read(p)
	if i == s.raceAt && s.raceFn != nil {
		s.raceFn()
	}
	return n, err
}

func (s *stallConn) Write(p []byte) (int, error) {
	i := s.begin('W')
	defer s.end()
	if err := s.gate(i); err != nil {
		return 0, err
	}
	n, err := s.Conn.Write(p)
	if i == s.raceAt && s.raceFn != nil {
		s.raceFn()
	}
	return n, err
}

func (s *stallConn) Close() error {
	s.once.Do(func() {
		s.closed.Store(true)
		close(s.closedCh)
	})
	return s.Conn.Close()
}

// guardCtx fires its cancel from inside ctx.Err() once `at` I/O calls have completed and none is
// in flight: that is the entry guard of step `at` (the first thing read/writeWithContext do).
type guardCtx struct {
	context.Context
	conn   *stallConn
	at     int
	cancel func()
	fired  atomic.Bool
}

func (g *guardCtx) maybeFire() {
	if !g.fired.Load() {
		st, fin, _ := g.conn.counts()
		if st == fin && st >= g.at {
			g.fired.Store(true)
			g.conn.markFired()
			g.cancel()
		}
	}
}

func (g *guardCtx) Err() error {
	g.maybeFire()
	return g.Context.Err()
}

// Done fires the scripted cancel too: an entry guard written as `select { case <-ctx.Done(): ... }`
// (instead of `if ctx.Err() != nil`) consults the context through Done and must meet the same schedule.
func (g *guardCtx) Done() <-chan struct{} {
	g.maybeFire()
	return g.Context.Done()
}

// ---------------------------------------------------------------------------------------------
// subjects: what runs over the wrapped connection

type stallInst struct {
	run     func(ctx context.Context, conn net.Conn) error // operation under test
	peer    func(conn net.Conn)                            // counterpart, context.Background
	follow  func(ctx context.Context) error                // plain only: one more operation on the same stream
	cleanup func()
}

type stallSubject struct {
	name  string // shape:role
	plain bool
	// expectErr: the fault-free run legitimately ends with a (non-context) error (negotiation failure)
	expectErr bool
	setup     func() (*stallInst, error)
	// concurrent: the operation runs while other handshakes of the same cache and key are in flight
	// (stall_concurrent.go); judged by the property oracle only. enterBound: how long the run is given
	// to reach its own stalled step before the cancel fires anyway (0: stallSetupBound, no early fire)
	concurrent bool
	enterBound time.Duration
}

// --- plain message exchange ---------------------------------------------------------------

type plainItem struct {
	kind   string // send partial write recvf recvfe recvc startread putsecret getsecret putfile getfile typedput typedget
	size   int
	frames int
}

func (it plainItem) String() string { return fmt.Sprintf("%s/%d/%d", it.kind, it.size, it.frames) }

func stallPayload(n int, tag byte) []byte {
	b := make([]byte, n)
	for i := range b {
		b[i] = tag + byte(i%7)
	}
	return b
}

func plainSubject(name string, items []plainItem, enc bool, dir string) stallSubject {
	return stallSubject{name: "plain-" + name + ":A", plain: true, setup: func() (*stallInst, error) {
		key := keyBytes(77)
		var sa *stream.Stream
		mkStreams := func(conn net.Conn) (*stream.Stream, error) {
			s := stream.NewStream(conn)
			if enc {
				if err := s.SetSymmetricKey(key); err != nil {
					return nil, err
				}
				s.SetEncrypted(true)
			}
			return s, nil
		}
		tmp, err := os.MkdirTemp(dir, "stall-plain-")
		if err != nil {
			return nil, err
		}
		src := filepath.Join(tmp, "src")
		inst := &stallInst{cleanup: func() { os.RemoveAll(tmp) }}
		inst.run = func(ctx context.Context, conn net.Conn) error {
			s, err := mkStreams(conn)
			if err != nil {
				return err
			}
			sa = s
			for i, it := range items {
				if err := plainDo(ctx, s, it, true, src, filepath.Join(tmp, fmt.Sprintf("a%d", i))); err != nil {
					return err
				}
			}
			return nil
		}
		inst.peer = func(conn net.Conn) {
			s, err := mkStreams(conn)
			if err != nil {
				return
			}
			for i, it := range items {
				if plainDo(context.Background(), s, it, false, src, filepath.Join(tmp, fmt.Sprintf("b%d", i))) != nil {
					return
				}
			}
		}
		inst.follow = func(ctx context.Context) error {
			if sa == nil {
				return errors.New("no stream")
			}
			return sa.SendMessage(ctx, []byte("follow-up"))
		}
		for _, it := range items {
			if it.kind == "putfile" || it.kind == "getfile" {
				if err := os.WriteFile(src, stallPayload(it.size, 'f'), 0o600); err != nil {
					return nil, err
				}
			}
		}
		return inst, nil
	}}
}

// plainDo performs item `it` on s: the side under test (subject=true) or the mirrored action.
func plainDo(ctx context.Context, s *stream.Stream, it plainItem, subject bool, src, dst string) error {
	data := stallPayload(it.size, 'a')
	sendFrames := func() error { // a message of it.frames frames
		for f := 0; f < it.frames-1; f++ {
			if err := s.SendPartialMessage(ctx, data); err != nil {
				return err
			}
		}
		return s.SendMessage(ctx, data)
	}
	recvAll := func() error { _, err := s.ReceiveCompleteMessage(ctx); return err }
	typedPut := func() error {
		m := message.NewMessageForStream(s)
		if err := m.PutInt(ctx, it.size); err != nil {
			return err
		}
		if err := m.PutString(ctx, string(stallPayload(it.size%200, 'k'))); err != nil {
			return err
		}
		ad := classad.New()
		_ = ad.Set("Size", int64(it.size))
		_ = ad.Set("Name", "stall")
		if err := m.PutClassAd(ctx, ad); err != nil {
			return err
		}
		if it.size > 0 {
			if err := m.PutBytes(ctx, data); err != nil {
				return err
			}
		}
		return m.FinishMessage(ctx)
	}
	typedGet := func() error {
		m := message.NewMessageFromStream(s)
		if _, err := m.GetInt(ctx); err != nil {
			return err
		}
		if _, err := m.GetString(ctx); err != nil {
			return err
		}
		if _, err := m.GetClassAd(ctx); err != nil {
			return err
		}
		if it.size > 0 {
			if _, err := m.GetBytes(ctx, it.size); err != nil {
				return err
			}
		}
		return nil
	}
	kind := it.kind
	if !subject { // mirror
		switch kind {
		case "send", "partial", "write":
			return recvAllOrFrame(ctx, s, kind)
		case "recvf", "recvfe", "recvc", "startread":
			return sendFrames()
		case "putsecret":
			_, err := s.GetSecret(ctx)
			return err
		case "getsecret":
			return s.PutSecret(ctx, string(stallPayload(it.size, 's')))
		case "putfile":
			_, err := s.GetFile(ctx, dst)
			return err
		case "getfile":
			_, err := s.PutFile(ctx, src)
			return err
		case "typedput":
			return typedGet()
		case "typedget":
			return typedPut()
		}
		return fmt.Errorf("unknown item %s", kind)
	}
	switch kind {
	case "send":
		return s.SendMessage(ctx, data)
	case "partial":
		return s.SendPartialMessage(ctx, data)
	case "write":
		s.StartMessage()
		for f := 0; f < it.frames; f++ {
			if err := s.WriteMessage(ctx, data); err != nil {
				return err
			}
		}
		return s.EndMessage(ctx)
	case "recvf":
		for f := 0; f < it.frames; f++ {
			if _, err := s.ReceiveFrame(ctx); err != nil {
				return err
			}
		}
		return nil
	case "recvfe":
		for f := 0; f < it.frames; f++ {
			if _, _, err := s.ReceiveFrameWithEnd(ctx); err != nil {
				return err
			}
		}
		return nil
	case "recvc":
		return recvAll()
	case "startread":
		if err := s.StartMessageRead(ctx); err != nil {
			return err
		}
		buf := make([]byte, 1000)
		for {
			_, err := s.ReadMessageBytes(ctx, buf)
			if err == io.EOF {
				break
			}
			if err != nil {
				return err
			}
		}
		return s.EndMessageRead()
	case "putsecret":
		return s.PutSecret(ctx, string(stallPayload(it.size, 's')))
	case "getsecret":
		_, err := s.GetSecret(ctx)
		return err
	case "putfile":
		_, err := s.PutFile(ctx, src)
		return err
	case "getfile":
		_, err := s.GetFile(ctx, dst)
		return err
	case "typedput":
		return typedPut()
	case "typedget":
		return typedGet()
	}
	return fmt.Errorf("unknown item %s", kind)
}

func recvAllOrFrame(ctx context.Context, s *stream.Stream, kind string) error {
	if kind == "partial" {
		_, _, err := s.ReceiveFrameWithEnd(ctx)
		return err
	}
	_, err := s.ReceiveCompleteMessage(ctx)
	return err
}

// --- handshakes ------------------------------------------------------------------------------

type hsShape struct {
	name      string
	expectErr bool
	// mk returns fresh configurations (and anything that has to exist before the handshake)
	mk func() (cli, srv *security.SecurityConfig, err error)
}

func hsSubject(sh hsShape, role string) stallSubject {
	return stallSubject{name: "hs-" + sh.name + ":" + role, expectErr: sh.expectErr, setup: func() (*stallInst, error) {
		cli, srv, err := sh.mk()
		if err != nil {
			return nil, err
		}
		client := func(ctx context.Context, conn net.Conn) error {
			st := stream.NewStream(conn)
			_, err := security.NewAuthenticator(cli, st).ClientHandshake(ctx)
			return err
		}
		server := func(ctx context.Context, conn net.Conn) error {
			st := stream.NewStream(conn)
			_, err := security.NewAuthenticator(srv, st).ServerHandshake(ctx)
			return err
		}
		inst := &stallInst{cleanup: func() {}}
		if role == "client" {
			inst.run = client
			inst.peer = func(conn net.Conn) { _ = server(context.Background(), conn) }
		} else {
			inst.run = server
			inst.peer = func(conn net.Conn) { _ = client(context.Background(), conn) }
		}
		return inst, nil
	}}
}

type stallMaterial struct {
	dir                 string
	poolKeyFile, keyDir string
	tokenFile           string
	cert, key           string
}

func stallPrepare(dir string) (*stallMaterial, error) {
	m := &stallMaterial{dir: dir}
	// TOKEN: pool signing key (scrambled as HTCondor stores it) + a token signed with it
	pool := []byte("stall_pool_signing_key_32_bytes!")
	scr := make([]byte, len(pool))
	for i := range pool {
		scr[i] = pool[i] ^ []byte{0xde, 0xad, 0xbe, 0xef}[i%4]
	}
	m.poolKeyFile = filepath.Join(dir, "pool_signing_key")
	m.keyDir = filepath.Join(dir, "named_keys")
	if err := os.WriteFile(m.poolKeyFile, scr, 0o600); err != nil {
		return nil, err
	}
	if err := os.MkdirAll(m.keyDir, 0o700); err != nil {
		return nil, err
	}
	hdr, _ := json.Marshal(map[string]any{"alg": "HS256", "typ": "JWT", "kid": "POOL"})
	now := time.Now().Unix()
	pl, _ := json.Marshal(map[string]any{"sub": "stall@example.com", "iss": "example.com", "iat": now, "exp": now + 86400})
	td := base64.RawURLEncoding.EncodeToString(hdr) + "." + base64.RawURLEncoding.EncodeToString(pl)
	jwtKey := make([]byte, 32)
	if _, err := io.ReadFull(hkdf.New(sha256.New, append(append([]byte{}, pool...), pool...), []byte("htcondor"), []byte("master jwt")), jwtKey); err != nil {
		return nil, err
	}
	mac := hmac.New(sha256.New, jwtKey)
	mac.Write([]byte(td))
	m.tokenFile = filepath.Join(dir, "token.jwt")
	if err := os.WriteFile(m.tokenFile, []byte(td+"."+base64.RawURLEncoding.EncodeToString(mac.Sum(nil)[:32])+"\n"), 0o600); err != nil {
		return nil, err
	}
	// SSL: one self-signed ECDSA certificate used as server certificate and as CA
	priv, err := ecdsa.GenerateKey(elliptic.P256(), crand.Reader)
	if err != nil {
		return nil, err
	}
	tpl := &x509.Certificate{SerialNumber: big.NewInt(19), Subject: pkix.Name{CommonName: "cedar.test"}, DNSNames: []string{"cedar.test"},
		NotBefore: time.Now().Add(-time.Hour), NotAfter: time.Now().Add(48 * time.Hour), IsCA: true, BasicConstraintsValid: true,
		KeyUsage: x509.KeyUsageDigitalSignature | x509.KeyUsageCertSign, ExtKeyUsage: []x509.ExtKeyUsage{x509.ExtKeyUsageServerAuth, x509.ExtKeyUsageClientAuth}}
	der, err := x509.CreateCertificate(crand.Reader, tpl, tpl, &priv.PublicKey, priv)
	if err != nil {
		return nil, err
	}
	kb, err := x509.MarshalECPrivateKey(priv)
	if err != nil {
		return nil, err
	}
	m.cert, m.key = filepath.Join(dir, "cert.pem"), filepath.Join(dir, "key.pem")
	if err := os.WriteFile(m.cert, pem.EncodeToMemory(&pem.Block{Type: "CERTIFICATE", Bytes: der}), 0o600); err != nil {
		return nil, err
	}
	if err := os.WriteFile(m.key, pem.EncodeToMemory(&pem.Block{Type: "EC PRIVATE KEY", Bytes: kb}), 0o600); err != nil {
		return nil, err
	}
	return m, nil
}

func stallConf(methods []string, auth, enc string, ciphers []string) *security.SecurityConfig {
	return &security.SecurityConfig{AuthMethods: toMethods(methods), Authentication: security.SecurityLevel(auth),
		CryptoMethods: toCiphers(ciphers), Encryption: security.SecurityLevel(enc), Integrity: security.SecurityOptional,
		Command: testCmd, SessionCache: security.NewSessionCache()}
}

func hsShapes(m *stallMaterial) []hsShape {
	aes := []string{"AES"}
	simple := func(name string, methods []string, cauth, sauth, cenc, senc string, cc, sc []string) hsShape {
		return hsShape{name: name, mk: func() (*security.SecurityConfig, *security.SecurityConfig, error) {
			return stallConf(methods, cauth, cenc, cc), stallConf(methods, sauth, senc, sc), nil
		}}
	}
	shapes := []hsShape{
		simple("noauth-aes", []string{"CLAIMTOBE"}, "NEVER", "OPTIONAL", "OPTIONAL", "OPTIONAL", aes, aes),
		simple("noauth-clear", []string{"CLAIMTOBE"}, "NEVER", "OPTIONAL", "NEVER", "OPTIONAL", nil, aes),
		simple("claimtobe-aes", []string{"CLAIMTOBE"}, "OPTIONAL", "REQUIRED", "OPTIONAL", "REQUIRED", aes, aes),
		simple("fs-aes", []string{"FS"}, "REQUIRED", "REQUIRED", "OPTIONAL", "OPTIONAL", aes, aes),
	}
	shapes = append(shapes, hsShape{name: "negfail", expectErr: true, mk: func() (*security.SecurityConfig, *security.SecurityConfig, error) {
		return stallConf([]string{"CLAIMTOBE"}, "OPTIONAL", "REQUIRED", aes), stallConf([]string{"CLAIMTOBE"}, "OPTIONAL", "NEVER", nil), nil
	}})
	shapes = append(shapes, hsShape{name: "token", mk: func() (*security.SecurityConfig, *security.SecurityConfig, error) {
		cli := stallConf([]string{"TOKEN"}, "REQUIRED", "OPTIONAL", aes)
		cli.TokenFile, cli.TrustDomain, cli.IssuerKeys = m.tokenFile, "example.com", []string{"POOL"}
		srv := stallConf([]string{"TOKEN"}, "REQUIRED", "OPTIONAL", aes)
		srv.TrustDomain, srv.TokenPoolSigningKeyFile, srv.TokenSigningKeyDir = "example.com", m.poolKeyFile, m.keyDir
		return cli, srv, nil
	}})
	// Two cedar endpoints cannot complete SSL with each other (the server never reports HOLDING after
	// the TLS handshake), so SSL is exercised as the first, failing method of a fallback: the whole
	// TLS handshake runs through CEDARTLSConnection (which carries the stored context), the
	// confirmation fails, both sides go round their retry loops and settle on CLAIMTOBE.
	shapes = append(shapes, hsShape{name: "ssl-fallback", mk: func() (*security.SecurityConfig, *security.SecurityConfig, error) {
		cli := stallConf([]string{"SSL", "CLAIMTOBE"}, "REQUIRED", "OPTIONAL", aes)
		cli.CAFile, cli.ServerName = m.cert, "cedar.test"
		srv := stallConf([]string{"SSL", "CLAIMTOBE"}, "REQUIRED", "OPTIONAL", aes)
		srv.CertFile, srv.KeyFile = m.cert, m.key
		return cli, srv, nil
	}})
	shapes = append(shapes, hsShape{name: "sslbadca-fallback", mk: func() (*security.SecurityConfig, *security.SecurityConfig, error) {
		// the client trusts no CA: the TLS handshake itself fails half-way
		cli := stallConf([]string{"SSL", "CLAIMTOBE"}, "REQUIRED", "OPTIONAL", aes)
		cli.ServerName = "cedar.test"
		srv := stallConf([]string{"SSL", "CLAIMTOBE"}, "REQUIRED", "OPTIONAL", aes)
		srv.CertFile, srv.KeyFile = m.cert, m.key
		return cli, srv, nil
	}})
	shapes = append(shapes, hsShape{name: "ssl-only", expectErr: true, mk: func() (*security.SecurityConfig, *security.SecurityConfig, error) {
		cli := stallConf([]string{"SSL"}, "REQUIRED", "OPTIONAL", aes)
		cli.CAFile, cli.ServerName = m.cert, "cedar.test"
		srv := stallConf([]string{"SSL"}, "REQUIRED", "OPTIONAL", aes)
		srv.CertFile, srv.KeyFile = m.cert, m.key
		return cli, srv, nil
	}})
	shapes = append(shapes, hsShape{name: "resume", mk: func() (*security.SecurityConfig, *security.SecurityConfig, error) {
		ccache, scache := security.NewSessionCache(), security.NewSessionCache()
		cli := stallConf([]string{"CLAIMTOBE"}, "OPTIONAL", "OPTIONAL", aes)
		cli.SessionCache, cli.PeerName = ccache, "srvA"
		srv := stallConf([]string{"CLAIMTOBE"}, "REQUIRED", "REQUIRED", aes)
		srv.SessionCache = scache
		// establish the session with a full handshake on a separate connection
		a, b := bufpipe.Pair("10.0.0.1:1111", "10.0.0.2:9618")
		defer a.Close()
		defer b.Close()
		ctx, cancel := context.WithTimeout(context.Background(), stallSetupBound)
		defer cancel()
		done := make(chan error, 1)
		go func() {
			sc := *srv
			_, err := security.NewAuthenticator(&sc, stream.NewStream(b)).ServerHandshake(ctx)
			done <- err
		}()
		cc := *cli
		if _, err := security.NewAuthenticator(&cc, stream.NewStream(a)).ClientHandshake(ctx); err != nil {
			return nil, nil, fmt.Errorf("resume setup (client): %w", err)
		}
		if err := <-done; err != nil {
			return nil, nil, fmt.Errorf("resume setup (server): %w", err)
		}
		return cli, srv, nil
	}})
	return shapes
}

// ---------------------------------------------------------------------------------------------
// one run

type stallObs struct {
	ret       string // ok | ctx:canceled | ctx:deadline | io:<c> | blocked | err:<class> | panic
	err       error
	closed    bool
	io        int
	trace     string
	ctxErr    string // ctx.Err() when the operation returned
	entered   bool   // the stalled call was reached
	lateIO    int64
	retLate   bool // did not return within the bound after the context fired
	retAfter  time.Duration
	closeLate bool
	follow    string // plain, schedule `after`: result of one more operation
	followCl  bool
	setupErr  error
}

func stallRetClass(err error) string {
	switch {
	case err == nil:
		return "ok"
	case errors.Is(err, context.Canceled):
		return "ctx:canceled"
	case errors.Is(err, context.DeadlineExceeded):
		return "ctx:deadline"
	case errors.Is(err, errInjected):
		return "io:other"
	case errors.Is(err, io.EOF), errors.Is(err, io.ErrUnexpectedEOF):
		return "io:eof"
	case errors.Is(err, net.ErrClosed):
		return "io:closed"
	}
	return "err:" + errClass(err)
}

func ctxErrName(ctx context.Context) string {
	switch ctx.Err() {
	case nil:
		return "-"
	case context.Canceled:
		return "canceled"
	case context.DeadlineExceeded:
		return "deadline"
	}
	return "other"
}

type stallPlan struct {
	sched   string // nofault-bg nofault-live guard during dline race never unfired after ioerr-bg ioerr-live past-cancel past-dline
	k       int
	timeout time.Duration
	scale   int // liveness bounds are multiplied by this (0 = 1); 10 when a late run is repeated on its own
	ck      int // context kind (ckPlain, ckCause, ckChild)
}

func waitClosed(sc *stallConn, bound time.Duration) bool {
	t0 := time.Now()
	for !sc.closed.Load() {
		if time.Since(t0) > bound {
			return false
		}
		time.Sleep(200 * time.Microsecond)
	}
	return true
}

func stallExec(sub stallSubject, pl stallPlan) (o stallObs) {
	scale := time.Duration(1)
	if pl.scale > 1 {
		scale = time.Duration(pl.scale)
	}
	stallReturnBound, stallCloseBound, stallSetupBound := stallReturnBound*scale, stallCloseBound*scale, stallSetupBound*scale
	enterBound := stallSetupBound
	if sub.enterBound > 0 {
		enterBound = sub.enterBound * scale
	}
	inst, err := sub.setup()
	if err != nil {
		o.setupErr = err
		return
	}
	defer inst.cleanup()
	a, b := bufpipe.Pair("10.0.0.1:1111", "10.0.0.2:9618")
	if strings.HasSuffix(sub.name, ":server") {
		a, b = b, a
	}
	sc := newStallConn(a)
	var ctx context.Context
	cancel := func() {}
	fire := func() {}
	switch pl.sched {
	case "nofault-bg", "never", "ioerr-bg":
		ctx = context.Background()
	case "guard":
		inner, f, rel := stallCtx(pl.ck, time.Time{})
		cancel = rel
		ctx = &guardCtx{Context: inner, conn: sc, at: pl.k, cancel: f}
	case "dline":
		ctx, _, cancel = stallCtx(pl.ck, time.Now().Add(pl.timeout))
	case "past-dline":
		ctx, _, cancel = stallCtx(pl.ck, time.Now().Add(-time.Second))
		sc.markFired()
	case "past-cancel":
		var f func()
		ctx, f, cancel = stallCtx(pl.ck, time.Time{})
		sc.markFired()
		f()
	default:
		var f func()
		ctx, f, cancel = stallCtx(pl.ck, time.Time{})
		fire = func() { sc.markFired(); f() }
	}
	defer cancel()
	switch pl.sched {
	case "during", "dline", "never", "unfired", "after":
		sc.stallAt = pl.k
	case "race":
		sc.raceAt, sc.raceFn = pl.k, fire
	case "ioerr-bg", "ioerr-live":
		sc.failAt = pl.k
	}
	peerDone := make(chan struct{})
	go func() {
		defer close(peerDone)
		defer func() {
			if p := recover(); p != nil { // the counterpart died: the run proves nothing; made visible (runStall)
				stallPeerPanics.Add(1)
				stallPeerPanicMsg.CompareAndSwap(nil, fmt.Sprintf("%s %s k=%d: %v", sub.name, pl.sched, pl.k, p))
			}
		}()
		inst.peer(b)
	}()
	type res struct {
		err   error
		panic string
	}
	resCh := make(chan res, 1)
	go func() {
		var r res
		defer func() {
			if p := recover(); p != nil {
				r.panic = fmt.Sprintf("%v\n%s", p, debug.Stack())
			}
			resCh <- r
		}()
		r.err = inst.run(ctx, sc)
	}()
	finish := func(r res) {
		o.err = r.err
		o.ret = stallRetClass(r.err)
		if r.panic != "" {
			o.ret = "panic"
			o.err = errors.New(r.panic)
		}
		o.ctxErr = ctxErrName(ctx)
	}
	var firedAt time.Time
	got := false
	awaitReturn := func(bound time.Duration) bool {
		select {
		case r := <-resCh:
			finish(r)
			got = true
			return true
		case <-time.After(bound):
			// the timer and the result may have become ready together (select picks at random): look again
			select {
			case r := <-resCh:
				finish(r)
				got = true
				return true
			default:
			}
			return false
		}
	}
	switch pl.sched {
	case "during", "never", "unfired", "after", "dline":
		select {
		case <-sc.entered:
			o.entered = true
		case r := <-resCh: // returned before reaching the stall (deadline passed early, or an error)
			finish(r)
			got = true
		case <-time.After(enterBound):
		}
	}
	switch {
	case got:
	case pl.sched == "during" && !o.entered && sub.concurrent:
		// the operation is blocked somewhere before its stalled step (it has issued o.io calls): the
		// cancel fires all the same -- "no matter at which read or write the peer stalls" -- and must
		// unblock it
		firedAt = time.Now()
		fire()
		if !awaitReturn(stallReturnBound) {
			o.retLate = true
		}
	case pl.sched == "during" && o.entered:
		firedAt = time.Now()
		fire()
		if !awaitReturn(stallReturnBound) {
			o.retLate = true
		}
	case pl.sched == "dline" && o.entered:
		dl, _ := ctx.Deadline()
		firedAt = dl
		if !awaitReturn(time.Until(dl) + stallReturnBound) {
			o.retLate = true
		}
	case (pl.sched == "never" || pl.sched == "unfired") && o.entered:
		if !awaitReturn(stallBlockWindow) {
			o.ret = "blocked"
			o.ctxErr = ctxErrName(ctx)
		}
	case pl.sched == "after" && o.entered:
		time.Sleep(time.Millisecond)
		close(sc.release)
		if !awaitReturn(stallSetupBound) {
			o.retLate = true
		}
	default:
		bound := stallSetupBound
		if sub.concurrent && strings.HasPrefix(pl.sched, "past") {
			bound = stallReturnBound // the context had fired before the operation began
		}
		if dl, has := ctx.Deadline(); sub.concurrent && pl.sched == "dline" && has {
			// blocked before its own stalled step: the deadline passes all the same
			firedAt = dl
			bound = stallReturnBound
			if u := time.Until(dl); u > 0 {
				bound += u
			}
		}
		if strings.HasPrefix(pl.sched, "ioerr") && !sub.plain {
			// a handshake may swallow the failure and then wait for a peer that is itself waiting
			// (nothing was cancelled): that is "blocked", and it is not worth seconds
			bound = time.Second
		}
		if !awaitReturn(bound) {
			o.retLate = true
		}
	}
	if got && !firedAt.IsZero() {
		o.retAfter = time.Since(firedAt)
	}
	// connection state as the library left it. When the context had fired by the time the operation
	// returned (whatever error it chose to return) the close is EXPECTED and may come from an
	// asynchronous watcher: poll for it up to the bound (returns as soon as it is closed). Otherwise
	// the connection is expected to stay open: a short look for a spurious close.
	if got && (strings.HasPrefix(o.ret, "ctx:") || o.ctxErr != "-") {
		o.closed = waitClosed(sc, stallCloseBound)
		o.closeLate = !o.closed
	} else {
		if got {
			time.Sleep(2 * time.Millisecond)
		}
		o.closed = sc.closed.Load()
	}
	o.io, _, o.trace = sc.counts()
	o.lateIO = sc.lateIO.Load()
	if pl.sched == "after" && got && o.ret == "ok" {
		fire()
		if inst.follow != nil {
			fr := make(chan error, 1)
			go func() { fr <- inst.follow(ctx) }()
			select {
			case e := <-fr:
				o.follow = stallRetClass(e)
			case <-time.After(stallReturnBound):
				o.follow = "blocked"
				o.retLate = true
			}
			o.followCl = waitClosed(sc, stallCloseBound)
		}
	}
	// release everything
	sc.Close()
	b.Close()
	a.Close()
	if !got {
		select {
		case r := <-resCh:
			if o.ret == "" {
				finish(r)
				o.ret = "late:" + o.ret
			}
		case <-time.After(2 * time.Second):
			if o.ret == "" {
				o.ret = "never-returned"
			}
		}
	}
	select {
	case <-peerDone:
	case <-time.After(2 * time.Second):
	}
	return
}

// stallObsLate: the run hit one of the harness's own time bounds (as opposed to showing a behaviour).
// A handshake that swallowed an injected failure and then waits for its peer is a behaviour (ioerr).
func stallObsLate(j *stallJob) bool {
	o := j.obs
	if o.setupErr != nil || (strings.HasPrefix(j.plan.sched, "ioerr") && !j.sub.plain) {
		return false
	}
	return o.retLate || o.closeLate || strings.HasPrefix(o.ret, "late") || o.ret == "never-returned"
}

// ---------------------------------------------------------------------------------------------
// model op for a run

func envList(n, k int, tok string) string {
	var parts []string
	if k > 0 {
		parts = append(parts, fmt.Sprintf("%dx-D-", k))
	}
	if k < n {
		parts = append(parts, tok)
		if n-k-1 > 0 {
			parts = append(parts, fmt.Sprintf("%dx-D-", n-k-1))
		}
	}
	if len(parts) == 0 {
		return "-"
	}
	return strings.Join(parts, ",")
}

type stallJob struct {
	sub   stallSubject
	trace string
	plan  stallPlan
	obs   stallObs
}

func (j *stallJob) label() string {
	if j.plan.ck != ckPlain {
		return fmt.Sprintf("%s %s[%s-context] k=%d/%d", j.sub.name, j.plan.sched, ckNames[j.plan.ck], j.plan.k, len(j.trace))
	}
	return fmt.Sprintf("%s %s k=%d/%d", j.sub.name, j.plan.sched, j.plan.k, len(j.trace))
}

// opLine renders the model operation that corresponds to the schedule as it was realised.
func (j *stallJob) opLines() (ops, real []string) {
	if j.sub.concurrent {
		return nil, nil // property oracle only (stall_concurrent.go)
	}
	n, k := len(j.trace), j.plan.k
	verb := "hs"
	if j.sub.plain {
		verb = "run"
	}
	steps := j.trace
	if steps == "" {
		steps = "-"
	}
	o := j.obs
	realLine := func(ret string, closed bool, io int, cerr string) string {
		return fmt.Sprintf("ok ret=%s closed=%s io=%d err=%s", ret, b01(closed), io, cerr)
	}
	switch j.plan.sched {
	case "nofault-bg":
		ops = append(ops, fmt.Sprintf("%s never 0 %s %s", verb, steps, envList(n, n, "")))
	case "nofault-live":
		ops = append(ops, fmt.Sprintf("%s live 0 %s %s", verb, steps, envList(n, n, "")))
	case "guard":
		ops = append(ops, fmt.Sprintf("%s live 0 %s %s", verb, steps, envList(n, k, "cD-")))
	case "during":
		ops = append(ops, fmt.Sprintf("%s live 0 %s %s", verb, steps, envList(n, k, "-Sc")))
	case "dline":
		if o.entered {
			ops = append(ops, fmt.Sprintf("%s live 0 %s %s", verb, steps, envList(n, k, "-Sd")))
		} else if o.io < n { // the deadline passed before the stall was reached: realised at step o.io
			ops = append(ops, fmt.Sprintf("%s live 0 %s %s", verb, steps, envList(n, o.io, "dD-")))
		} else if o.ret != "ok" && n > 0 { // ... while the last call was waiting for the peer
			ops = append(ops, fmt.Sprintf("%s live 0 %s %s", verb, steps, envList(n, n-1, "-Sd")))
		} else {
			ops = append(ops, fmt.Sprintf("%s live 0 %s %s", verb, steps, envList(n, n, "")))
		}
	case "race":
		ops = append(ops, fmt.Sprintf("%s live 0 %s %s", verb, steps, envList(n, k, "-Dc")))
	case "never":
		ops = append(ops, fmt.Sprintf("%s never 0 %s %s", verb, steps, envList(n, k, "-Sc")))
	case "unfired":
		ops = append(ops, fmt.Sprintf("%s live 0 %s %s", verb, steps, envList(n, k, "-S-")))
	case "after":
		ops = append(ops, fmt.Sprintf("%s live 0 %s %s", verb, steps, envList(n, n, "")))
	case "ioerr-bg", "ioerr-live":
		cx, tok := "never", "cOc"
		if j.plan.sched == "ioerr-live" {
			cx, tok = "live", "-O-"
		}
		if !j.sub.plain && (strings.HasPrefix(o.ret, "late") || o.ret == "never-returned") {
			return nil, nil // swallowed the failure and waits for a peer that waits too: property oracle only
		}
		if !j.sub.plain && o.io > k+1 && k < len(o.trace) {
			// the handshake swallowed the failure of call k and went on (a retry loop): the model
			// runs the trace as it was realised, with step k marked as an error-swallowing site
			if o.ret != "ok" {
				return nil, nil // it then failed or waits for a reason of its own (protocol out of step): property oracle only
			}
			b := []byte(o.trace)
			b[k] += 'a' - 'A'
			ops = append(ops, fmt.Sprintf("%s %s 0 %s %s", verb, cx, string(b), envList(len(b), k, tok)))
		} else {
			ops = append(ops, fmt.Sprintf("%s %s 0 %s %s", verb, cx, steps, envList(n, k, tok)))
		}
	case "past-cancel":
		ops = append(ops, fmt.Sprintf("%s fired:c 0 %s %s", verb, steps, envList(n, n, "")))
	case "past-dline":
		ops = append(ops, fmt.Sprintf("%s fired:d 0 %s %s", verb, steps, envList(n, n, "")))
	}
	ret := o.ret
	if !j.sub.plain {
		// a handshake may return any error (it wraps, and a few sites replace it); the model's
		// ctx:* and the implementation's error are compared as "err" (see stallNorm)
		if ret != "ok" && ret != "blocked" && ret != "panic" && !strings.HasPrefix(ret, "late") && ret != "never-returned" {
			if j.sub.expectErr && (j.plan.sched == "nofault-bg" || j.plan.sched == "nofault-live" || j.plan.sched == "after") {
				ret = "ok" // the negotiation-failure shape ends with its own error after all I/O steps
			} else {
				ret = "err"
			}
		}
	}
	real = append(real, realLine(ret, o.closed, o.io, o.ctxErr))
	if j.plan.sched == "after" && o.follow != "" {
		ops = append(ops, "run fired:c 0 W -D-")
		real = append(real, realLine(o.follow, o.followCl, 0, "canceled"))
	}
	return
}

// ---------------------------------------------------------------------------------------------

func stallViolate(c *Ctx, seen map[string]int, v Violation) {
	seen[v.Key]++
	if seen[v.Key] <= 3 {
		c.Violate(v)
	} else {
		c.Count("violations-not-recorded:" + v.Key)
	}
}

func runStall(c *Ctx) (err error) {
	c.Res.Rule = "real stream operations and real Client/Server handshakes (shapes: no-auth clear/AES, CLAIMTOBE, FS, TOKEN, SSL, SSL->CLAIMTOBE fallback through both retry loops, session resumption, negotiation failure; both roles) and plain exchanges (single/multi-frame send and receive through every receive API, secrets, files, typed messages; clear and AES-GCM) over a pipe whose k-th read or write stalls, fails, or fires the cancel: for every shape a fault-free trace of n I/O calls, then every k<n under the schedules guard (cancel exactly at the entry guard of step k), during (cancel while blocked), dline (deadline passes while blocked), race (cancel inside the call, before stop()), plus never/unfired (must block), after (peer resumes, then cancel, then one more operation), ioerr (injected failure under Background and unfired contexts), past (already cancelled / deadline passed); CONCURRENT handshakes: a client handshake under these schedules while 1-2 other client handshakes sharing its session cache and cache key (tag, peer, command) are stalled for good, the first at every step k0 of the shape (property oracle only); every schedule under three KINDS of context: plain (WithCancel/WithDeadline), cause-carrying (WithCancelCause / WithDeadlineCause with a caller-supplied reason: context.Cause differs from ctx.Err()) and a derived child of a cause-carrying context; each run compared with the Lean model (result, connection closed, I/O calls issued) and judged by the property oracle (returns within a generous bound, error Is the context's error for plain operations, connection closed, no I/O after the cancel, Background adds nothing); distinct by subject+schedule+k; non-trivial = the context fired or the call stalled/failed"
	defer func() {
		if p := recover(); p != nil {
			c.Violate(Violation{Property: "C13", Key: "C13:panic:stall-engine", What: "panic in the stall engine or the library", Observed: fmt.Sprintf("%v\n%s", p, debug.Stack())})
			err = nil
		}
	}()
	work, e := os.MkdirTemp(fsWorkDir(c), scratchPrefix("stall"))
	if e != nil {
		return e
	}
	defer os.RemoveAll(work)
	mat, e := stallPrepare(work)
	if e != nil {
		return e
	}
	defer func() {
		// FS authentication creates directories under /tmp; a handshake cut short may leave one.
		// Only directories whose names crossed this engine's own connections are removed (fs_own_dirs.go):
		// other checks running at the same time have theirs in flight under the same /tmp/FS_* pattern.
		if n := ownFS.cleanup(); n > 0 {
			c.Res.Distribution["fs-dir-left-behind-removed"] += n
		}
		c.Res.Distribution["fs-dir-names-seen-on-own-wire"] = len(ownFS.all())
	}()

	// ---- subjects
	var subjects []stallSubject
	for _, sh := range hsShapes(mat) {
		subjects = append(subjects, hsSubject(sh, "client"), hsSubject(sh, "server"))
	}
	rounds := c.Pick(1, 16)
	for r := 0; r < rounds; r++ {
		for _, ps := range plainScripts(c, r) {
			subjects = append(subjects, plainSubject(ps.name, ps.items, ps.enc, work))
		}
	}

	if only := os.Getenv("VERIF_STALL_ONLY"); only != "" { // debugging aid: restrict to subjects whose name contains this
		var keep []stallSubject
		for _, sub := range subjects {
			if strings.Contains(sub.name, only) {
				keep = append(keep, sub)
			}
		}
		subjects = keep
	}

	// ---- fault-free traces
	var jobs []*stallJob
	traces := map[string]string{}
	var usable []stallSubject
	c.Planned("stall-subjects", len(subjects))
	for _, sub := range subjects {
		o1 := stallExec(sub, stallPlan{sched: "nofault-live"})
		o2 := stallExec(sub, stallPlan{sched: "nofault-bg"})
		if o1.retLate || o2.retLate { // a fault-free run that did not finish in 5 s: once more, with 50 s
			c.Count("late-run-repeated-alone")
			o1 = stallExec(sub, stallPlan{sched: "nofault-live", scale: 10})
			o2 = stallExec(sub, stallPlan{sched: "nofault-bg", scale: 10})
		}
		if o1.setupErr != nil || o2.setupErr != nil {
			c.Res.Notes = append(c.Res.Notes, fmt.Sprintf("subject %s unusable: setup: %v %v", sub.name, o1.setupErr, o2.setupErr))
			c.Count("subject-unusable")
			continue
		}
		want := "ok"
		okRun := func(o stallObs) bool {
			if sub.expectErr {
				return strings.HasPrefix(o.ret, "err:")
			}
			return o.ret == want
		}
		if !okRun(o1) || !okRun(o2) {
			// not a C19 matter by itself unless the two contexts disagree
			if o1.ret != o2.ret || o1.trace != o2.trace {
				stallViolate(c, map[string]int{}, Violation{Property: "C19", Key: "C19:background-differs:" + sub.name,
					What:     "a never-cancellable context and an unfired cancellable context give different fault-free runs",
					Ops:      []string{sub.name + " nofault-live", sub.name + " nofault-bg"},
					Expected: "same result and I/O trace", Observed: fmt.Sprintf("live: %s %s (%v) / background: %s %s (%v)", o1.ret, o1.trace, o1.err, o2.ret, o2.trace, o2.err)})
			}
			c.Res.Notes = append(c.Res.Notes, fmt.Sprintf("subject %s unusable: fault-free run gives %s (%v)", sub.name, o1.ret, o1.err))
			c.Count("subject-unusable")
			continue
		}
		traces[sub.name] = o1.trace
		usable = append(usable, sub)
		c.Ran("stall-subjects", 1)
		j1 := &stallJob{sub: sub, trace: o1.trace, plan: stallPlan{sched: "nofault-live"}, obs: o1}
		j2 := &stallJob{sub: sub, trace: o1.trace, plan: stallPlan{sched: "nofault-bg"}, obs: o2}
		jobs = append(jobs, j1, j2)
	}
	if len(usable) == 0 {
		return fmt.Errorf("no usable subject")
	}

	// ---- plans
	var todo []*stallJob
	for _, sub := range usable {
		tr := traces[sub.name]
		n := len(tr)
		// the context KIND is a dimension of every schedule: plain, cause-carrying (WithCancelCause /
		// WithDeadlineCause with a caller-supplied reason), and a derived child of a cause-carrying one.
		// Quick tier: the kinds rotate over (schedule, k), so every schedule meets every kind on every
		// subject with >= 3 steps; thorough: the schedules in which the context fires run under all three.
		ckRot := int(c.Seed) + len(usable) + n
		schedIdx := map[string]int{"guard": 0, "during": 1, "race": 2, "dline": 3, "unfired": 4, "ioerr-live": 5, "after": 6}
		rep := map[string]int{}
		add := func(p stallPlan) {
			fires := p.sched == "guard" || p.sched == "during" || p.sched == "race" || p.sched == "dline" || strings.HasPrefix(p.sched, "past")
			if p.sched == "never" || p.sched == "ioerr-bg" {
				todo = append(todo, &stallJob{sub: sub, trace: tr, plan: p}) // context.Background: no kind
				return
			}
			if c.Thorough() && fires && sub.plain {
				for ck := 0; ck < ckKinds; ck++ {
					q := p
					q.ck = ck
					todo = append(todo, &stallJob{sub: sub, trace: tr, plan: q})
				}
				return
			}
			rk := fmt.Sprintf("%s|%d", p.sched, p.k)
			p.ck = (ckRot + schedIdx[p.sched] + p.k + rep[rk]) % ckKinds
			rep[rk]++
			todo = append(todo, &stallJob{sub: sub, trace: tr, plan: p})
		}
		hsTimeout := func() time.Duration {
			if sub.plain {
				return time.Duration(15+c.Rng.Intn(20)) * time.Millisecond
			}
			return time.Duration(50+c.Rng.Intn(40)) * time.Millisecond
		}
		sparse := map[int]bool{0: true, n - 1: true, n / 2: true}
		if n > 0 {
			sparse[c.Rng.Intn(n)] = true
		}
		reps := 1
		if c.Thorough() && !sub.plain {
			reps = 8 // handshakes again and again: the asynchronous close and the deadline timer are timing-sensitive
		}
		for k := 0; k < n; k++ {
			for r := 0; r < reps; r++ {
				add(stallPlan{sched: "guard", k: k})
				add(stallPlan{sched: "during", k: k})
				add(stallPlan{sched: "race", k: k})
				if c.Thorough() || sub.plain || sparse[k] || c.Rng.Intn(3) == 0 {
					add(stallPlan{sched: "dline", k: k, timeout: hsTimeout()})
				}
			}
			if c.Thorough() || sparse[k] {
				add(stallPlan{sched: "never", k: k})
				add(stallPlan{sched: "unfired", k: k})
				add(stallPlan{sched: "ioerr-bg", k: k})
				add(stallPlan{sched: "ioerr-live", k: k})
				add(stallPlan{sched: "after", k: k})
			}
		}
		for ck := 0; ck < ckKinds; ck++ {
			todo = append(todo, &stallJob{sub: sub, trace: tr, plan: stallPlan{sched: "past-cancel", ck: ck}},
				&stallJob{sub: sub, trace: tr, plan: stallPlan{sched: "past-dline", ck: ck}})
		}
	}
	// ---- concurrent handshakes (stall_concurrent.go): the same schedules for a handshake that runs while
	// 1-2 others of the same cache and key are stalled; traces are those of the lone handshake
	{
		csubs, ctr := concurrentSubjects(c, hsShapes(mat), traces)
		if only := os.Getenv("VERIF_STALL_ONLY"); only != "" {
			var keep []stallSubject
			for _, s := range csubs {
				if strings.Contains(s.name, only) {
					keep = append(keep, s)
				}
			}
			csubs = keep
		}
		for si, sub := range csubs {
			tr := ctr[sub.name]
			n := len(tr)
			traces[sub.name] = tr
			js := []int{0, n / 2, n - 1}
			if c.Thorough() {
				js = append(js, c.Rng.Intn(n), c.Rng.Intn(n))
			}
			x := si + int(c.Seed)
			add := func(p stallPlan) {
				x++
				p.ck = x % ckKinds
				todo = append(todo, &stallJob{sub: sub, trace: tr, plan: p})
			}
			for ji, j := range js {
				if !c.Thorough() && (ji+si+int(c.Seed))%3 != 0 {
					// quick tier: one own step per subject for the timing-bound schedules (rotating), all for past-*
					continue
				}
				add(stallPlan{sched: "during", k: j})
				add(stallPlan{sched: "dline", k: j, timeout: time.Duration(50+c.Rng.Intn(40)) * time.Millisecond})
				add(stallPlan{sched: "guard", k: j})
			}
			add(stallPlan{sched: "past-cancel"})
			add(stallPlan{sched: "past-dline"})
			c.Count("concurrent-subjects")
		}
	}
	// deterministic order of execution, shuffled so that slow shapes spread over the workers
	c.Rng.Shuffle(len(todo), func(i, j int) { todo[i], todo[j] = todo[j], todo[i] })
	workers := 8
	var wg sync.WaitGroup
	next := int64(-1)
	for w := 0; w < workers; w++ {
		wg.Add(1)
		go func() {
			defer wg.Done()
			for {
				i := int(atomic.AddInt64(&next, 1))
				if i >= len(todo) {
					return
				}
				todo[i].obs = stallExec(todo[i].sub, todo[i].plan)
			}
		}()
	}
	wg.Wait()
	// A run that was LATE (no return / no close within the bound, stall not reached) under eight
	// workers on a busy machine is not yet an observation of the library: it is repeated on its own with
	// ten times the bounds and that run is judged. A genuine failure to return is late again; repeating
	// stops after three runs that stayed late (the failure is then systematic, the rest keep their verdict).
	{
		stillLate := 0
		for _, j := range todo {
			if stillLate >= 3 {
				break
			}
			if !stallObsLate(j) {
				continue
			}
			c.Count("late-run-repeated-alone")
			pl := j.plan
			pl.scale = 10
			o := stallExec(j.sub, pl)
			j.obs = o
			if stallObsLate(j) {
				stillLate++
				c.Count("late-run-still-late-alone")
			}
		}
	}
	jobs = append(jobs, todo...)
	sort.SliceStable(jobs, func(i, j int) bool {
		a, b := jobs[i], jobs[j]
		if a.sub.name != b.sub.name {
			return a.sub.name < b.sub.name
		}
		if a.plan.sched != b.plan.sched {
			return a.plan.sched < b.plan.sched
		}
		return a.plan.k < b.plan.k
	})

	// ---- judge
	seen := map[string]int{}
	var cases []Case
	maxRet := time.Duration(0)
	for _, j := range jobs {
		o := j.obs
		shape := j.sub.name
		kind := "hs"
		if j.sub.plain {
			kind = "plain"
		}
		if j.sub.concurrent {
			kind = "hs-concurrent"
			if fired0 := j.plan.sched == "during" || j.plan.sched == "dline"; fired0 && !o.entered && o.setupErr == nil {
				c.Count("hs-concurrent:own-stalled-step-not-reached")
			}
		}
		c.Count("sched:" + j.plan.sched)
		if j.plan.sched != "nofault-bg" && j.plan.sched != "never" && j.plan.sched != "ioerr-bg" {
			c.Count("context-kind:" + ckNames[j.plan.ck])
			if kind0 := map[bool]string{true: "plain", false: "hs"}[j.sub.plain]; j.plan.ck != ckPlain {
				c.Count("context-kind:" + ckNames[j.plan.ck] + ":" + kind0 + ":" + j.plan.sched)
			}
		}
		c.Count("kind:" + kind)
		c.Count("ret:" + strings.SplitN(o.ret, ":", 2)[0] + func() string {
			if strings.HasPrefix(o.ret, "ctx:") || strings.HasPrefix(o.ret, "io:") {
				return o.ret[strings.Index(o.ret, ":"):]
			}
			return ""
		}())
		if j.plan.k < len(j.trace) && strings.Contains("guard during dline race never unfired after ioerr-bg ioerr-live", j.plan.sched) {
			c.Count("stalled-call:" + string(j.trace[j.plan.k]))
			switch {
			case j.plan.k == 0:
				c.Count("k:first")
			case j.plan.k == len(j.trace)-1:
				c.Count("k:last")
			default:
				c.Count("k:inner")
			}
		}
		c.Planned("stall-runs", 1)
		if o.setupErr != nil {
			c.Count("setup-error")
			c.Res.Notes = append(c.Res.Notes, fmt.Sprintf("%s: setup: %v", j.label(), o.setupErr))
			continue
		}
		c.Ran("stall-runs", 1)
		if o.retAfter > maxRet {
			maxRet = o.retAfter
		}
		ops, real := j.opLines()
		if ops == nil && j.sub.concurrent {
			c.Count("model-skipped:concurrent-handshake(property-oracle-only)")
		} else if ops == nil {
			c.Count("model-skipped:ioerr-swallowed-then-failed")
		}
		replay := append([]string{"# " + j.label() + " trace=" + j.trace}, ops...)
		viol := func(key, what, exp, obs string) {
			stallViolate(c, seen, Violation{Property: "C19", Key: key, What: what, Ops: replay, Expected: exp, Observed: obs})
		}
		if o.ret == "panic" {
			stallViolate(c, seen, Violation{Property: "C13", Key: "C13:panic:" + shape, What: "panic in the library under a stalled/cancelled connection", Ops: replay, Observed: fmt.Sprint(o.err)})
			continue
		}
		fired := map[string]bool{"guard": true, "during": true, "dline": true, "race": true, "past-cancel": true, "past-dline": true}[j.plan.sched]
		if j.plan.sched == "dline" && !o.entered && o.ret == "ok" {
			fired = false // the operation finished before the deadline
			c.Count("dline-finished-first")
		}
		if j.plan.sched == "dline" && !o.entered && o.ret != "ok" {
			c.Count("dline-early")
		}
		site := fmt.Sprintf("%s:%s", kind, j.plan.sched)
		if fired {
			// (1) returns
			if o.retLate || strings.HasPrefix(o.ret, "late") || o.ret == "never-returned" || o.ret == "blocked" {
				viol("C19:no-return:"+site, "the operation did not return after its context was cancelled / its deadline passed",
					fmt.Sprintf("return within %v of the context firing, without any action of the peer", stallReturnBound),
					fmt.Sprintf("%s: still blocked (%s) with %d I/O calls issued, trace %s", j.label(), o.ret, o.io, o.trace))
				if ops != nil {
					cases = append(cases, Case{Label: j.label(), Ops: ops, Real: real})
				}
				continue
			}
			// (2) an error, the context's own for plain operations
			if o.ret == "ok" {
				viol("C19:no-error:"+site, "the operation reported success although its context had fired before it returned",
					"an error", fmt.Sprintf("%s: nil error; ctx.Err()=%s", j.label(), o.ctxErr))
			} else if j.sub.plain && !strings.HasPrefix(o.ret, "ctx:") {
				viol("C19:wrong-error:"+site, "a plain stream operation returned an error that is not the context's own",
					"errors.Is(err, ctx.Err())", fmt.Sprintf("%s: %v", j.label(), o.err))
			} else if !j.sub.plain {
				if strings.HasPrefix(o.ret, "ctx:") {
					c.Count("hs-error-is-ctx")
				} else {
					c.Count("hs-error-not-ctx")
				}
			}
			if j.sub.plain && strings.HasPrefix(o.ret, "ctx:") && o.ret != "ctx:"+o.ctxErr {
				viol("C19:wrong-error:"+site, "the returned context error is not the one the context reports", "ctx:"+o.ctxErr, o.ret)
			}
			// (3) connection closed
			if !o.closed {
				viol("C19:left-open:"+site, "the operation returned its context's error and left the connection open (never closed within the bound)",
					"Close called on the connection (by the entry guard or by the watcher)",
					fmt.Sprintf("%s: returned %s after %d I/O calls, connection still open %v later", j.label(), o.ret, o.io, stallCloseBound))
			}
			// (4) nothing is sent or read after the cancel
			if o.lateIO > 0 && j.plan.sched != "race" && j.plan.sched != "dline" {
				viol("C19:io-after-cancel:"+site, "I/O calls were issued on the connection after the context had fired",
					"none", fmt.Sprintf("%s: %d calls, trace %s", j.label(), o.lateIO, o.trace))
			}
		} else {
			switch j.plan.sched {
			case "never", "unfired":
				if o.entered && o.ret != "blocked" {
					viol("C19:spurious-return:"+site, "a stalled call returned although nothing cancelled it", "blocked", fmt.Sprintf("%s: %s (%v)", j.label(), o.ret, o.err))
				}
				if o.closed {
					viol("C19:spurious-close:"+site, "the connection was closed although the context never fired", "open", j.label())
				}
			case "ioerr-bg", "ioerr-live":
				// a plain operation reports the failure itself; a handshake reports some error, or swallows
				// the failure in a retry loop and goes on -- but never a context error
				waits := strings.HasPrefix(o.ret, "late") || o.ret == "never-returned"
				if waits && !j.sub.plain {
					c.Count("ioerr-swallowed-then-waits-for-peer")
				}
				if (j.sub.plain && o.ret != "io:other") || strings.HasPrefix(o.ret, "ctx:") || strings.HasPrefix(o.ret, "late:ctx:") || (waits && j.sub.plain) {
					viol("C19:io-error-changed:"+site, "an I/O failure under an unfired context was not reported as that failure", "the injected error", fmt.Sprintf("%s: %s (%v)", j.label(), o.ret, o.err))
				}
				if o.closed {
					viol("C19:spurious-close:"+site, "the connection was closed although the context never fired", "open", j.label())
				}
			case "after":
				exp := "ok"
				if j.sub.expectErr {
					exp = "err"
				}
				if (exp == "ok" && o.ret != "ok") || (exp == "err" && !strings.HasPrefix(o.ret, "err:")) {
					viol("C19:after-release-failed:"+site, "the operation did not complete after the peer resumed (context not fired)", exp, fmt.Sprintf("%s: %s (%v)", j.label(), o.ret, o.err))
				} else if o.closed && o.follow == "" {
					viol("C19:spurious-close:"+site, "the connection was closed although the context had not fired when the operation returned", "open", j.label())
				}
				if o.follow != "" {
					if o.follow != "ctx:canceled" {
						viol("C19:wrong-error:plain:after-follow", "an operation started on a cancelled context did not return the context's error", "ctx:canceled", o.follow)
					}
					if !o.followCl {
						viol("C19:left-open:plain:after-follow", "an operation started on a cancelled context returned and left the connection open", "closed", j.label())
					}
				}
			}
		}
		nontrivial := fired || j.plan.sched == "never" || j.plan.sched == "unfired" || strings.HasPrefix(j.plan.sched, "ioerr") || j.plan.sched == "after"
		c.Distinct(fmt.Sprintf("%s|%s|%d|%d", shape, j.plan.sched, j.plan.k, j.plan.ck), nontrivial)
		if ops != nil {
			cases = append(cases, Case{Label: j.label(), Ops: ops, Real: real})
		}
		if j.plan.sched == "during" && j.plan.k == len(j.trace)/2 {
			c.Sample(map[string]any{"case": j.label(), "trace": j.trace, "op": ops, "implementation": real, "returned_after_ms": float64(o.retAfter.Microseconds()) / 1000})
		}
	}
	// Background vs unfired context: same fault-free result and trace (clause "adds no failure mode")
	byKey := map[string]*stallJob{}
	for _, j := range jobs {
		byKey[fmt.Sprintf("%s|%s|%d", j.sub.name, j.plan.sched, j.plan.k)] = j
	}
	for _, j := range jobs {
		var other string
		switch j.plan.sched {
		case "nofault-bg":
			other = "nofault-live"
		case "ioerr-bg":
			other = "ioerr-live"
		case "never":
			other = "unfired"
		default:
			continue
		}
		o := byKey[fmt.Sprintf("%s|%s|%d", j.sub.name, other, j.plan.k)]
		if o == nil {
			continue
		}
		a, b := j.obs, o.obs
		lateRet := func(r string) bool { return strings.HasPrefix(r, "late") || r == "never-returned" }
		if !j.sub.plain && (lateRet(a.ret) || lateRet(b.ret)) {
			continue // a handshake that swallowed the injected failure and now waits: nothing to compare
		}
		if a.ret != b.ret || a.io != b.io || a.closed != b.closed {
			stallViolate(c, seen, Violation{Property: "C19", Key: "C19:background-differs:" + j.plan.sched, What: "the same run under context.Background and under an unfired cancellable context differ",
				Ops: []string{"# " + j.label(), "# " + o.label()}, Expected: "identical result, I/O count and connection state",
				Observed: fmt.Sprintf("background: %s io=%d closed=%v / unfired: %s io=%d closed=%v", a.ret, a.io, a.closed, b.ret, b.io, b.closed)})
		}
	}
	c.Res.Notes = append(c.Res.Notes, fmt.Sprintf("subjects %d (of %d), slowest return after the context fired %.1f ms (bound %v, liveness only)", len(usable), len(subjects), float64(maxRet.Microseconds())/1000, stallReturnBound))
	var names []string
	for _, s := range usable {
		names = append(names, fmt.Sprintf("%s=%d", s.name, len(traces[s.name])))
	}
	c.Res.Notes = append(c.Res.Notes, "I/O calls per subject: "+strings.Join(names, " "))
	if n := stallPeerPanics.Load(); n > 0 {
		for i := int64(0); i < n; i++ {
			c.HarnessPanic("stall counterpart", stallPeerPanicMsg.Load())
		}
	}
	// blocking calls that take no context (the token issuer stalls inside a SCITOKENS handshake)
	stallSciTokens(c, mat, seen)
	// malformed operations: the oracle must refuse them
	for _, bad := range []string{"run live 0 RW -D-", "run maybe 0 R -D-", "run live 2 R -D-", "run live 0 RQ 2x-D-", "run live 0 R -Q-", "run live 0 R", "stall 3", "run live 0 R 0y-D-"} {
		cases = append(cases, Case{Label: "malformed op", Ops: []string{bad}, Real: []string{"bad-op"}})
		c.Count("sched:malformed-op")
	}
	return diffBatch(c, "cancel", cases, stallNorm)
}

// stallNorm: nothing to normalise (handshake results are rendered coarsely by both sides: op `hs`).
func stallNorm(s string) string { return s }

type plainScript struct {
	name  string
	items []plainItem
	enc   bool
}

// plainScripts: fixed boundary scripts + random ones from the grammar of stream operations.
func plainScripts(c *Ctx, round int) []plainScript {
	var out []plainScript
	if round == 0 {
		out = append(out,
			plainScript{"send-recv", []plainItem{{"send", 11, 1}, {"recvf", 7, 1}}, false},
			plainScript{"empty-frames", []plainItem{{"send", 0, 1}, {"recvf", 0, 2}, {"recvfe", 0, 1}}, false},
			plainScript{"multiframe", []plainItem{{"write", 5000, 3}, {"recvc", 300, 3}, {"startread", 100, 2}}, false},
			plainScript{"multiframe-enc", []plainItem{{"write", 4096, 2}, {"recvc", 1, 4}, {"recvfe", 40, 2}}, true},
			plainScript{"secrets-enc", []plainItem{{"putsecret", 12, 1}, {"getsecret", 30, 1}}, true},
			plainScript{"files", []plainItem{{"putfile", 70000, 1}, {"getfile", 100, 1}}, false},
			plainScript{"typed", []plainItem{{"typedput", 20, 1}, {"typedget", 5000, 1}}, false},
			plainScript{"typed-enc", []plainItem{{"typedget", 17, 1}, {"typedput", 9000, 1}}, true},
			plainScript{"partial", []plainItem{{"partial", 3, 1}, {"send", 3, 1}, {"recvfe", 3, 3}}, false},
		)
	}
	kinds := []string{"send", "partial", "write", "recvf", "recvfe", "recvc", "startread", "putsecret", "getsecret", "putfile", "getfile", "typedput", "typedget"}
	sizes := []int{0, 1, 5, 100, 4095, 4096, 4097, 20000}
	nrand := c.Pick(3, 4)
	for i := 0; i < nrand; i++ {
		var items []plainItem
		m := 1 + c.Rng.Intn(4)
		for x := 0; x < m; x++ {
			k := kinds[c.Rng.Intn(len(kinds))]
			sz := sizes[c.Rng.Intn(len(sizes))]
			fr := 1 + c.Rng.Intn(3)
			if k == "putfile" || k == "getfile" {
				sz = 1 + c.Rng.Intn(100000)
			}
			if (k == "putsecret" || k == "getsecret") && sz == 0 {
				sz = 3
			}
			items = append(items, plainItem{k, sz, fr})
		}
		out = append(out, plainScript{fmt.Sprintf("rand%d.%d", round, i), items, c.Rng.Intn(2) == 0})
	}
	return out
}
