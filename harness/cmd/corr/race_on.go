//go:build race

package main

// raceEnabled: this binary carries the race detector (go build -race)
const raceEnabled = true
