package main

// Engine `adwire` (C08, wire side): ads generated from the ClassAd expression grammar are sent by
// the REAL senders (PutClassAd / PutClassAdWithOptions / PutClassAdRaw / PutClassAdRawBytes) over real
// stream.Stream pairs — plaintext, AES-GCM encrypted, and keyed-but-not-encrypting (where private
// attributes travel as SECRET_MARKER + put_secret) — followed by a trailer in the same message. The
// same wire bytes are handed to three fresh receivers (GetClassAd, GetClassAdRaw, SkipClassAdRaw).
//
//   property oracle (independent of the model):
//     * the reconstructed ad has exactly the attributes the sender serialised (private ones only when
//       opted in) plus the type names, and each value is what the external parser reads from the
//       text the sender rendered for it;
//     * GetClassAdRaw returns exactly the rendered lines;
//     * all three receivers leave exactly the same bytes of the message unread (the trailer), and on
//       damaged input whenever one runs out of message so do the others.
//   correspondence: the frames each receiver was handed by the stream layer go to the model's
//     receivers (oracle engine `classad`); results, error classes and unread bytes are compared.
//
// A second part re-cuts the payload bytes into other frames (both string modes, in-memory stream) and
// a third feeds damaged ads (counts, terminators, length prefixes, markers, type names).

import (
	"bytes"
	"context"
	"encoding/binary"
	"fmt"
	"os"
	"sort"
	"strconv"
	"strings"

	"cedarverif/harness/internal/bufconn"
	"cedarverif/harness/internal/orc"

	"github.com/PelicanPlatform/classad/ast"
	"github.com/PelicanPlatform/classad/classad"
	"github.com/PelicanPlatform/classad/parser"
	"github.com/bbockelm/cedar/message"
	"github.com/bbockelm/cedar/stream"
)

func init() { register(Engine{"adwire", runAdwire}) }

const (
	modePlain = 0
	modeEnc   = 1
	modeKeyed = 2 // session key present, encryption off: secrets go as marker + encrypted field
)

var modeNames = []string{"plain", "encrypted", "keyed-clear"}

type recFrame struct {
	data []byte
	eom  bool
}

// recStream wraps a real stream and records every frame the stream layer hands to the message layer.
type recStream struct {
	*stream.Stream
	got    []recFrame
	srcErr string
}

func (r *recStream) ReadFrame(ctx context.Context) ([]byte, bool, error) {
	d, e, err := r.Stream.ReadFrame(ctx)
	if err != nil {
		if r.srcErr == "" {
			r.srcErr = c08ErrClass(err)
		}
		return d, e, err
	}
	r.got = append(r.got, recFrame{append([]byte{}, d...), e})
	return d, e, nil
}

// recSend records every frame the message layer hands to the stream layer, with the crypto state it is written under.
type recSend struct {
	*stream.Stream
	sent []string
}

func (r *recSend) WriteFrame(ctx context.Context, d []byte, eom bool) error {
	r.sent = append(r.sent, fmt.Sprintf("%d:%s:%s:%s", len(d), orc.ShowBytes(d), b01(eom), b01(r.Stream.IsEncrypted())))
	return r.Stream.WriteFrame(ctx, d, eom)
}

// recMem is the same for the in-memory stream.
type recMem struct {
	*memStream
	got    []recFrame
	srcErr string
}

func (r *recMem) ReadFrame(ctx context.Context) ([]byte, bool, error) {
	d, e, err := r.memStream.ReadFrame(ctx)
	if err != nil {
		if r.srcErr == "" {
			r.srcErr = c08ErrClass(err)
		}
		return d, e, err
	}
	r.got = append(r.got, recFrame{append([]byte{}, d...), e})
	return d, e, nil
}

func newAdStream(mode int) (*stream.Stream, *bufconn.Conn) {
	c := bufconn.New()
	s := stream.NewStream(c)
	if mode != modePlain {
		_ = s.SetSymmetricKey(keyBytes(8))
		if mode == modeKeyed {
			s.SetCryptoMode(false)
		}
	}
	return s, c
}

// ---- ad generation ---------------------------------------------------------------------------

type genAttr struct {
	name string
	text string // expression text the attribute is built from (parsed by the library on the sender side)
}

var adNames = []string{"A", "Bb", "Cpus", "Memory", "Requirements", "Rank", "x_1", "Owner", "Cmd", "Args", "Env", "JobStatus", "Machine", "Arch", "OpSys", "LoadAvg", "Name", "State", "Activity", "Start", "ZKMode", "ZKM", "ZK"}
var adTypeNames = []string{"My Type", " lead", "trail ", "Größe", "日本語", "Ma\u00e7hine", "t\tab", strings.Repeat("L", 41), strings.Repeat("é", 40), strings.Repeat("x", 127), strings.Repeat("x", 128), "a.b-c_d/e:f", "UPPER", "lower", "MiXeD"}
var adPrivate = []string{"ClaimId", "Capability", "claimid", "_condor_privFoo", "TransferKey"}

func genString(c *Ctx) string {
	parts := []string{"a", "Z", "x86_64", " ", "/usr/bin", `"`, `\`, "\n", "\t", "\r", "\x01", "\x1f", "\x7f", "é", "ß", "中", "😀", "'", "=", ";", "]", "[", "{", "//", "/*", "ZKM", "true", "1.5"}
	k := c.Rng.Intn(7)
	var b strings.Builder
	for i := 0; i < k; i++ {
		b.WriteString(parts[c.Rng.Intn(len(parts))])
	}
	return b.String()
}

func genLiteralText(c *Ctx) string {
	switch c.Rng.Intn(9) {
	case 0:
		return []string{"0", "1", "-1", "42", "9223372036854775807", "-9223372036854775808", "-9223372036854775807", "2147483648", "-2147483649", "1000000"}[c.Rng.Intn(10)]
	case 1:
		return strconv.FormatInt(int64(c.Rng.Uint64()), 10)
	case 2:
		return []string{"0.0", "-0.0", "1.5", "-2.25", "0.1", "1e308", "1.7976931348623157e308", "5e-324", "2.2250738585072014e-308", "1e21", "100000.0", "123456789.125", "1e-7", "3.0e+5", ".5", "1E5", "4.9e-324", "-1.7976931348623157e308"}[c.Rng.Intn(18)]
	case 3:
		return strconv.FormatFloat(c.Rng.NormFloat64()*1e6, 'g', -1, 64) + []string{"", ".0", "e1"}[c.Rng.Intn(3)]
	case 4:
		return []string{"true", "false", "TRUE", "False", "tRuE", "FALSE"}[c.Rng.Intn(6)]
	case 5:
		return []string{"undefined", "error", "UNDEFINED"}[c.Rng.Intn(3)]
	default:
		return ast.QuoteString(genString(c))
	}
}

func genExprText(c *Ctx, depth int) string {
	if depth <= 0 || c.Rng.Intn(4) == 0 {
		if c.Rng.Intn(4) == 0 {
			return []string{"a", "Cpus", "MY.b", "TARGET.Memory", "x_1", "Machine"}[c.Rng.Intn(6)]
		}
		return genLiteralText(c)
	}
	sub := func() string { return genExprText(c, depth-1) }
	switch c.Rng.Intn(12) {
	case 0:
		return []string{"-", "!", "~", "+"}[c.Rng.Intn(4)] + sub()
	case 1, 2, 3:
		ops := []string{"+", "-", "*", "/", "%", "<", "<=", ">", ">=", "==", "!=", "&&", "||", "=?=", "=!=", "&", "|", "^", "<<", ">>", ">>>"}
		return sub() + " " + ops[c.Rng.Intn(len(ops))] + " " + sub()
	case 4:
		return sub() + " ? " + sub() + " : " + sub()
	case 5:
		return "(" + sub() + ")"
	case 6:
		fn := []string{"strcat", "ifThenElse", "size", "int", "member", "regexp", "time"}[c.Rng.Intn(7)]
		k := c.Rng.Intn(4)
		var a []string
		for i := 0; i < k; i++ {
			a = append(a, sub())
		}
		return fn + "(" + strings.Join(a, ", ") + ")"
	case 7:
		k := c.Rng.Intn(4)
		var a []string
		for i := 0; i < k; i++ {
			a = append(a, sub())
		}
		return "{" + strings.Join(a, ", ") + "}"
	case 8:
		k := 1 + c.Rng.Intn(3)
		var a []string
		for i := 0; i < k; i++ {
			a = append(a, fmt.Sprintf("n%d = %s", i, sub()))
		}
		return "[" + strings.Join(a, "; ") + "]"
	case 9:
		return "a" + []string{".b", "[0]", "[\"k\"]"}[c.Rng.Intn(3)]
	case 10:
		return sub() + " ?: " + sub()
	default:
		return genLiteralText(c)
	}
}

// NOTE (observation outside C08, recorded in the report): a real literal that overflows (`1.5e999`) is held by the
// classad library as RealLiteral(+Inf), which its ast renderer prints as `+Inf` — a text its own parser
// rejects. cedar renders attributes with that renderer, so such an ad cannot be received. The generator keeps
// to finite reals ("integer and real extremes"); the case is kept in the literal engine's decode-side lists.

// genAd returns the attributes (name, source text) of a generated ad; every text parses.
func genAd(c *Ctx, withPrivate bool) []genAttr {
	n := c.Rng.Intn(9)
	if c.Rng.Intn(12) == 0 {
		n = 0
	}
	used := map[string]bool{}
	var out []genAttr
	add := func(name, text string) {
		if used[strings.ToLower(name)] {
			return
		}
		e, err := parser.ParseExpr(text)
		if err != nil {
			return
		}
		// the classad library's own rendering of some expressions does not parse again (observed: a
		// non-finite real literal renders as +Inf; INT64_MIN as an operand of ?:). Rendering is the
		// library's, not cedar's: such attributes are left out and counted.
		if _, err := parser.ParseExpr(e.String()); err != nil {
			c.Count("observation:library-rendering-does-not-reparse")
			return
		}
		used[strings.ToLower(name)] = true
		out = append(out, genAttr{name, text})
	}
	for i := 0; i < n; i++ {
		add(adNames[c.Rng.Intn(len(adNames))], genExprText(c, c.Rng.Intn(4)))
	}
	if withPrivate {
		for i := 0; i < 1+c.Rng.Intn(2); i++ {
			add(adPrivate[c.Rng.Intn(len(adPrivate))], ast.QuoteString("<secret-"+genString(c)+">"))
		}
	}
	switch c.Rng.Intn(6) {
	case 0:
		add("MyType", `"Machine"`)
		add("TargetType", `"Job"`)
	case 1:
		add("MyType", `"Job"`)
	case 2:
		add("TargetType", ast.QuoteString("T"+strings.Repeat("y", c.Rng.Intn(5))))
	case 3:
		// type names with a blank, non-ASCII, longer than 40 characters, up to the 128 the raw reader admits
		add("MyType", ast.QuoteString(adTypeNames[c.Rng.Intn(len(adTypeNames))]))
		if c.Rng.Intn(2) == 0 {
			add("TargetType", ast.QuoteString(adTypeNames[c.Rng.Intn(len(adTypeNames))]))
		}
	}
	c.Rng.Shuffle(len(out), func(i, j int) { out[i], out[j] = out[j], out[i] })
	return out
}

func isPrivName(n string) bool {
	l := strings.ToLower(n)
	for _, p := range []string{"claimid", "capability", "transferkey", "claimids", "childclaimids", "claimidlist", "transfersocket"} {
		if l == p {
			return true
		}
	}
	return strings.HasPrefix(l, "_condor_priv")
}

// ---- one sender, three receivers ------------------------------------------------------------

type adResult struct {
	kind   string // getad getraw skip
	reply  string // oracle vocabulary
	rest   string
	errc   string
	ad     map[string]string // canonical attribute map (getad)
	names  []string          // attribute names exactly as the reconstructed ad holds them, sorted (getad, getadcap)
	raw    string
	frames []recFrame
	srcErr string
	unread int // bytes of the connection the receiver never consumed (real streams)
}

func canonAd(ad *classad.ClassAd) map[string]string {
	m := map[string]string{}
	a := ad.AST()
	if a == nil {
		return m
	}
	for _, at := range a.Attributes {
		m[strings.ToLower(at.Name)] = canonExpr(at.Value)
	}
	return m
}

// exactNames: the attribute names of an ad with the case the ad holds them in, sorted.
func exactNames(ad *classad.ClassAd) []string {
	var ns []string
	if a := ad.AST(); a != nil {
		for _, at := range a.Attributes {
			ns = append(ns, at.Name)
		}
	}
	sort.Strings(ns)
	return ns
}

func showAdMap(m map[string]string) string {
	var ks []string
	for k := range m {
		ks = append(ks, k)
	}
	sort.Strings(ks)
	var b strings.Builder
	b.WriteString("ok")
	for _, k := range ks {
		b.WriteString(" " + k + "=" + m[k])
	}
	return b.String()
}

// runReceiver runs one receiver over a message and then drains the rest of the message.
func runReceiver(kind string, m *message.Message) (res adResult) {
	return runReceiverCap(kind, m, 0)
}

func runReceiverCap(kind string, m *message.Message, cap int) (res adResult) {
	res.kind = kind
	res.unread = cap
	var err error
	func() {
		defer func() {
			if r := recover(); r != nil {
				err = fmt.Errorf("PANIC: %v", r)
			}
		}()
		switch kind {
		case "getad":
			var ad *classad.ClassAd
			ad, err = m.GetClassAd(bg)
			if err == nil {
				res.ad = canonAd(ad)
				res.names = exactNames(ad)
				res.reply = showAdMap(res.ad)
				// The application owns the ad it received and may change it. What it does to THIS ad
				// must not show in any ad decoded later (the same texts are decoded again and again
				// below, through other framings and receivers): extend every list in place.
				if a := ad.AST(); a != nil {
					if el, perr := classad.ParseExpr("\"mutated-by-the-receiver\""); perr == nil {
						for _, at := range a.Attributes {
							if _, isList := at.Value.(*ast.ListLiteral); isList {
								ad.InsertListElement(at.Name, el)
							}
						}
					}
				}
			}
		case "getadcap":
			// the bounded reader every handshake uses, with a cap the ad fits under (res.unread carries the cap in)
			var ad *classad.ClassAd
			ad, err = m.GetClassAdWithMaxSize(bg, res.unread)
			res.unread = 0
			if err == nil {
				res.ad = canonAd(ad)
				res.names = exactNames(ad)
				res.reply = showAdMap(res.ad)
			}
		case "getraw":
			var t string
			t, err = m.GetClassAdRaw(bg)
			if err == nil {
				res.raw = t
				res.reply = "ok " + orc.ShowBytes([]byte(t))
			}
		case "skip":
			err = m.SkipClassAdRaw(bg)
			if err == nil {
				res.reply = "ok"
			}
		}
	}()
	if err != nil {
		res.errc = c08ErrClass(err)
		res.reply = "err " + res.errc
		return res
	}
	var rest []byte
	func() {
		defer func() {
			if r := recover(); r != nil {
				err = fmt.Errorf("PANIC: %v", r)
			}
		}()
		rest, err = m.GetRemainingBytes(bg)
	}()
	if err != nil {
		res.rest = "err " + c08ErrClass(err)
	} else {
		res.rest = "ok " + orc.ShowBytes(rest)
	}
	return res
}

func framesOp(enc, keyed bool, srcErr string, fr []recFrame) string {
	var parts []string
	for _, f := range fr {
		parts = append(parts, orc.Payload(f.data)+"/"+b01(f.eom))
	}
	if srcErr == "" {
		srcErr = "eof"
	}
	return strings.TrimRight(fmt.Sprintf("rd %s %s %s %s", b01(enc), b01(keyed), srcErr, strings.Join(parts, " ")), " ")
}

// normAdwire resolves the model's symbolic getad reply with the external parser.
//
//	ok <namehex>|lit|... <namehex>|full|<texthex>|old|<hex> ...   (wire order; later names override earlier ones)
func normAdwire(s string) string {
	f := strings.Fields(s)
	items := func(its []string) (map[string]string, string) {
		m := map[string]string{}
		for _, it := range its {
			p := strings.Split(it, "|")
			if len(p) < 3 {
				return nil, "BAD-ITEM " + it
			}
			r := normC08("ok " + p[0] + " " + strings.Join(p[1:], " "))
			if strings.HasPrefix(r, "err ") {
				return nil, r
			}
			g := strings.Fields(r)
			if len(g) != 3 {
				return nil, "BAD-ITEM " + it
			}
			nb, _ := hexDecodeOrDash(g[1])
			m[strings.ToLower(string(nb))] = g[2]
		}
		return m, ""
	}
	switch {
	case len(f) >= 3 && f[0] == "err" && f[2] == "after":
		// a failing getad: the real run stops at the first item the parser rejects
		if _, bad := items(f[3:]); bad != "" {
			return bad
		}
		return "err " + f[1]
	case len(f) == 5 && f[0] == "ok" && f[1] == "raw":
		lines, _ := hexDecodeOrDash(f[2])
		my, _ := hexDecodeOrDash(f[3])
		tg, _ := hexDecodeOrDash(f[4])
		t := string(lines)
		if len(my) > 0 {
			t += "MyType = " + strconv.Quote(string(my)) + "\n"
		}
		if len(tg) > 0 {
			t += "TargetType = " + strconv.Quote(string(tg)) + "\n"
		}
		return "ok " + orc.ShowBytes([]byte(t))
	case len(f) >= 2 && f[0] == "ok" && strings.Contains(f[1], "|"):
		m, bad := items(f[1:])
		if bad != "" {
			return bad
		}
		return showAdMap(m)
	}
	return normC08(s)
}

func hexDecodeOrDash(h string) ([]byte, error) {
	if h == "-" {
		return nil, nil
	}
	b := make([]byte, len(h)/2)
	for i := 0; i+1 < len(h); i += 2 {
		v, err := strconv.ParseUint(h[i:i+2], 16, 8)
		if err != nil {
			return nil, err
		}
		b[i/2] = byte(v)
	}
	return b, nil
}

type adwire struct {
	c     *Ctx
	cases []Case
	perK  map[string]int
}

func (w *adwire) violate(key, what string, ops []string, exp, obs string) {
	if w.perK[key]++; w.perK[key] > 2 {
		return
	}
	w.c.Violate(Violation{Property: "C08", Key: key, What: what, Ops: ops, Expected: exp, Observed: obs})
}

// addCase records a correspondence case; comment lines (kept in violation replays) are not sent to the oracle.
func (w *adwire) addCase(label string, ops, real []string) {
	for _, x := range real {
		if x == "err panic" {
			// a receiver panicked (before /repo 0d73d42 a negative length prefix reached make([]byte, n) in GetString; the typed-layer
			// model already describes the fixed behaviour); reported under C13, not compared here
			w.c.Count("c13-panic-cases-not-compared")
			if w.perK["C13"]++; w.perK["C13"] <= 2 {
				w.c.Violate(Violation{Property: "C13", Key: "C13:getstring-negative-length-panic", What: label + ": a receiver panicked on a damaged ad", Ops: ops, Expected: "clean error", Observed: "panic"})
			}
			return
		}
	}
	var o, r []string
	for i := range ops {
		if !strings.HasPrefix(ops[i], "#") {
			o = append(o, ops[i])
			r = append(r, real[i])
		}
	}
	w.cases = append(w.cases, Case{Label: label, Ops: o, Real: r})
}

// compareReceivers is the "same bytes" clause on three results over the same wire.
func (w *adwire) compareReceivers(label string, ops []string, rs []adResult, honest bool) {
	runOut := func(e string) bool { return e == "eom" || e == "eof" || e == "authFail" }
	okCount := 0
	for _, r := range rs {
		if r.errc == "" {
			okCount++
		}
	}
	for i := 0; i < len(rs); i++ {
		for j := i + 1; j < len(rs); j++ {
			a, b := rs[i], rs[j]
			pair := a.kind + "-vs-" + b.kind
			if a.errc == "" && b.errc == "" && (a.rest != b.rest || a.unread != b.unread) {
				w.violate("C08:receivers-consume-different-bytes:"+pair, label+": two receivers over the same wire bytes leave different bytes unread", ops,
					fmt.Sprintf("%s leaves %s (conn %d)", a.kind, a.rest, a.unread), fmt.Sprintf("%s leaves %s (conn %d)", b.kind, b.rest, b.unread))
			}
			if runOut(a.errc) != runOut(b.errc) && (runOut(a.errc) && b.errc == "" || runOut(b.errc) && a.errc == "") {
				w.violate("C08:receivers-disagree-on-running-out:"+pair, label+": one receiver runs out of message, another completes", ops,
					a.kind+": "+a.reply, b.kind+": "+b.reply)
			}
		}
	}
	if honest && okCount != len(rs) {
		for _, r := range rs {
			if r.errc != "" {
				w.violate("C08:honest-ad-rejected:"+r.kind, label+": a receiver failed on an ad a cedar sender produced", ops, "ok", r.reply)
			}
		}
	}
}

func runAdwire(c *Ctx) error {
	w := &adwire{c: c, perK: map[string]int{}}
	c.Res.Rule = "ads from the ClassAd expression grammar (nested operators, calls, lists, nested ads, selections, strings with quotes/backslashes/controls/UTF-8, int/real extremes, booleans in any case, undefined/error), sent by PutClassAd / PutClassAdWithOptions(IncludePrivate) / PutClassAdRaw / PutClassAdRawBytes (raw texts with blanks and case variants) over real streams in three states (plaintext, AES-GCM, keyed-not-encrypting with SECRET_MARKER fields), single- and multi-frame, followed by a trailer; the same wire bytes read by GetClassAd, GetClassAdRaw and SkipClassAdRaw; plus the payload bytes re-cut into other frames (both string modes) and damaged ads (count, terminators, length prefixes, stray markers, bad type names, truncation); distinct by sender ops + wire; non-trivial = ad with ≥1 attribute or a damaged ad"
	// the oracle is run in batches so that the op lines of a thorough run need not be held at once
	flush := func(force bool) error {
		if len(w.cases) == 0 || (!force && len(w.cases) < 3000) {
			return nil
		}
		cs := w.cases
		w.cases = nil
		if os.Getenv("C08_NOMODEL") != "" {
			return nil
		}
		return diffBatch(c, "classad", cs, normAdwire)
	}
	n := c.Pick(2000, 24000)
	for i := 0; i < n; i++ {
		w.honest(i)
		if err := flush(false); err != nil {
			return err
		}
	}
	for i := 0; i < c.Pick(1200, 20000); i++ {
		w.damaged(i)
		if err := flush(false); err != nil {
			return err
		}
	}
	return flush(true)
}

// honest: one generated ad through a real sender and three real receivers.
func (w *adwire) honest(idx int) {
	c := w.c
	mode := c.Rng.Intn(3)
	sender := c.Rng.Intn(4) // 0 PutClassAd, 1 PutClassAdWithOptions(IncludePrivate), 2 PutClassAdRaw, 3 PutClassAdRawBytes
	withPriv := c.Rng.Intn(3) == 0
	attrs := genAd(c, withPriv && sender < 2)
	big := c.Rng.Intn(c.Pick(45, 25)) == 0
	if big {
		attrs = append(attrs, genAttr{"Big", ast.QuoteString(strings.Repeat("v", 16300+c.Rng.Intn(200)))})
		if c.Thorough() && c.Rng.Intn(10) == 0 {
			attrs = append(attrs, genAttr{"Huge", ast.QuoteString(strings.Repeat("h", MiB-30+c.Rng.Intn(60)))})
		}
		for k := 0; k < c.Pick(10, 30); k++ {
			attrs = append(attrs, genAttr{fmt.Sprintf("Pad%d", k), ast.QuoteString(strings.Repeat("p", 900))})
		}
	}
	label := fmt.Sprintf("honest#%d %s sender=%d", idx, modeNames[mode], sender)

	sa, ca := newAdStream(mode)
	rs0 := &recSend{Stream: sa}
	enM := message.NewMessageForStream(rs0)
	// what the sender is expected to render, and for which attributes
	type line struct{ name, text string }
	var lines []line
	var sentExprs []string // the exact expression strings the sender puts on the wire
	myType, targetType := "", ""
	var perr error
	var senderOps []string
	senderReal := ""
	switch sender {
	case 0, 1:
		ad := classad.New()
		for _, a := range attrs {
			e, err := classad.ParseExpr(a.text)
			if err != nil {
				continue
			}
			ad.InsertExpr(a.name, e)
		}
		for _, name := range ad.GetAttributes() {
			e, _ := ad.Lookup(name)
			if isPrivName(name) && sender == 0 {
				continue
			}
			lines = append(lines, line{name, e.String()})
			sentExprs = append(sentExprs, name+" = "+e.String())
		}
		if s, ok := ad.EvaluateAttrString("MyType"); ok {
			myType = s
		}
		if s, ok := ad.EvaluateAttrString("TargetType"); ok {
			targetType = s
		}
		if sender == 0 {
			perr = enM.PutClassAd(bg, ad)
		} else {
			perr = enM.PutClassAdWithOptions(bg, ad, &message.PutClassAdConfig{Options: message.PutClassAdIncludePrivate})
		}
		senderOps = append(senderOps, fmt.Sprintf("# sender=%d mode=%s ad=%s", sender, modeNames[mode], strconv.QuoteToASCII(truncStr(ad.StringWithPrivate(), 400))))
	default:
		// raw texts: the sender renders `name = text` itself, with blanks and case variants
		var exprs []string
		for _, a := range attrs {
			pre := []string{"", " ", "  ", "\t"}[c.Rng.Intn(4)]
			post := []string{"", " ", "   "}[c.Rng.Intn(3)]
			eq := []string{" = ", "=", "  =  ", " =", "= "}[c.Rng.Intn(5)]
			t := a.text
			exprs = append(exprs, pre+a.name+eq+t+post)
			sentExprs = append(sentExprs, pre+a.name+eq+t+post)
			lines = append(lines, line{a.name, t})
			if a.name == "MyType" {
				myType = "Machine"
			}
			if a.name == "TargetType" {
				targetType = "Job"
			}
		}
		if sender == 2 {
			perr = enM.PutClassAdRaw(bg, exprs, myType, targetType)
		} else {
			var bs [][]byte
			for _, e := range exprs {
				bs = append(bs, []byte(e))
			}
			perr = enM.PutClassAdRawBytes(bg, bs, myType, targetType)
		}
		senderOps = append(senderOps, fmt.Sprintf("# sender=%d mode=%s exprs=%s my=%q target=%q", sender, modeNames[mode], strconv.QuoteToASCII(truncStr(strings.Join(exprs, " ¦ "), 400)), myType, targetType))
	}
	if perr == nil {
		perr = enM.PutInt(bg, 77)
	}
	if perr == nil {
		perr = enM.PutString(bg, "tail")
	}
	if perr == nil {
		perr = enM.FinishMessage(bg)
	}
	if perr != nil {
		w.violate("C08:sender-failed", label+": the sender refused a generated ad", senderOps, "ok", perr.Error())
		return
	}
	wire := ca.TakeOut()
	// sender correspondence: the frames the message layer flushed, and under which crypto state
	{
		opName := "putmsg"
		if sender == 3 {
			opName = "putmsgb" // PutClassAdRawBytes: expressions through PutStringBytes (its own frame boundaries for ≥ one-frame expressions)
		}
		op := fmt.Sprintf("%s %s %s %s %s", opName, b01(mode == modeEnc), b01(mode != modePlain), hexOrDash([]byte(myType)), hexOrDash([]byte(targetType)))
		for i, e := range sentExprs {
			k := "p:"
			if sender == 1 && isPrivName(lines[i].name) {
				k = "s:"
			}
			op += " " + k + hexOrDash([]byte(e))
		}
		senderOps = append(senderOps, op)
		senderReal = "ok f=[" + strings.Join(rs0.sent, ",") + "]"
	}

	// expected reconstruction, from the rendered texts and the external parser only
	expect := map[string]string{}
	for _, l := range lines {
		e, err := parser.ParseExpr(l.text)
		if err != nil {
			w.violate("C08:sender-renders-unparseable", label+": the rendered text of an attribute does not parse", senderOps, "parseable", l.text)
			return
		}
		expect[strings.ToLower(l.name)] = canonExpr(e)
	}
	if myType != "" {
		expect["mytype"] = "str:" + hexOrDash([]byte(myType))
	}
	if targetType != "" {
		expect["targettype"] = "str:" + hexOrDash([]byte(targetType))
	}

	var rs []adResult
	var ops []string
	ops = append(ops, senderOps...)
	var real []string
	for _, o := range senderOps {
		if strings.HasPrefix(o, "putmsg") { // (putmsg and putmsgb)
			real = append(real, senderReal)
		} else {
			real = append(real, "")
		}
	}
	for _, kind := range []string{"getad", "getraw", "skip"} {
		sb, cb := newAdStream(mode)
		cb.Feed(wire)
		rec := &recStream{Stream: sb}
		r := runReceiver(kind, message.NewMessageFromStream(rec))
		// hand the model every frame of the message, including those the receiver did not need
		r.unread = len(cb.In)
		for guard := 0; guard < 10000; guard++ {
			if _, _, err := rec.ReadFrame(bg); err != nil {
				break
			}
		}
		r.frames, r.srcErr = rec.got, rec.srcErr
		rs = append(rs, r)
		ops = append(ops, framesOp(mode == modeEnc, mode != modePlain, r.srcErr, r.frames), kind)
		real = append(real, "ok", r.reply)
		if r.errc == "" {
			ops = append(ops, "rest")
			real = append(real, r.rest)
		}
	}
	w.compareReceivers(label, ops, rs, true)
	// clause 1: reconstructed ad
	if g := rs[0]; g.errc == "" {
		if showAdMap(g.ad) != showAdMap(expect) {
			w.violate("C08:reconstructed-ad-differs:"+adDiffKey(expect, g.ad), label+": the reconstructed ad is not what the parser reads from the sender's rendered text", ops, showAdMap(expect), showAdMap(g.ad))
		}
	}
	// clause 1, attribute names: "exactly the sender's attributes" — ClassAd names are looked up
	// case-insensitively but an ad keeps the spelling it was given; the receiver's ad must hold the
	// sender's spelling (case-insensitive matching is used here only to find the two type names,
	// which the receiver writes as MyType / TargetType)
	var wantNames []string
	{
		seen := map[string]bool{}
		for _, l := range lines {
			lc := strings.ToLower(l.name)
			if (lc == "mytype" && myType != "") || (lc == "targettype" && targetType != "") || seen[lc] {
				continue
			}
			seen[lc] = true
			wantNames = append(wantNames, l.name)
		}
		if myType != "" {
			wantNames = append(wantNames, "MyType")
		}
		if targetType != "" {
			wantNames = append(wantNames, "TargetType")
		}
		sort.Strings(wantNames)
	}
	if g := rs[0]; g.errc == "" && strings.Join(g.names, "\x00") != strings.Join(wantNames, "\x00") {
		w.violate("C08:attribute-names-differ:getad", label+": the reconstructed ad does not hold the sender's attribute names as the sender spelled them", ops, strconv.QuoteToASCII(strings.Join(wantNames, " ")), strconv.QuoteToASCII(strings.Join(g.names, " ")))
	}
	// the capped receiver (what every handshake uses), with a cap the ad fits under: the same ad —
	// attributes, spelling of names, MyType, TargetType — and the same bytes left
	{
		content := len(myType) + len(targetType) + 2
		for _, e := range sentExprs {
			content += len(e) + 1 + 4 // (+ a secret marker in front of it, in the keyed-clear mode)
		}
		cap := []int{content + 64, 2*content + 4096, 1 << 24}[c.Rng.Intn(3)]
		sb, cb := newAdStream(mode)
		cb.Feed(wire)
		g := runReceiverCap("getadcap", message.NewMessageFromStream(&recStream{Stream: sb}), cap)
		g.unread = len(cb.In)
		capOps := append(append([]string{}, ops...), fmt.Sprintf("# then, on the same wire: GetClassAdWithMaxSize(%d) (ad content %d bytes)", cap, content))
		switch {
		case g.errc != "":
			w.violate("C08:capped-receiver-rejects-fitting-ad", label+": GetClassAdWithMaxSize failed on an honest ad that fits its cap", capOps, "ok", g.reply)
		case rs[0].errc == "":
			if showAdMap(g.ad) != showAdMap(rs[0].ad) || strings.Join(g.names, "\x00") != strings.Join(rs[0].names, "\x00") {
				w.violate("C08:capped-receiver-differs:"+adDiffKey(rs[0].ad, g.ad), label+": GetClassAdWithMaxSize reconstructs another ad than GetClassAd from the same bytes", capOps,
					showAdMap(rs[0].ad)+" names="+strconv.QuoteToASCII(strings.Join(rs[0].names, " ")), showAdMap(g.ad)+" names="+strconv.QuoteToASCII(strings.Join(g.names, " ")))
			}
			if g.rest != rs[0].rest || g.unread != rs[0].unread {
				w.violate("C08:receivers-consume-different-bytes:getad-vs-getadcap", label+": the capped and the uncapped parsing receiver leave different bytes unread", capOps,
					fmt.Sprintf("getad leaves %s (conn %d)", rs[0].rest, rs[0].unread), fmt.Sprintf("getadcap leaves %s (conn %d)", g.rest, g.unread))
			}
		}
		c.Count("honest:capped-receiver")
	}
	// clause 1b: the raw text is the rendered expression strings, one per line, then the type names
	if g := rs[1]; g.errc == "" {
		var want strings.Builder
		for _, e := range sentExprs {
			want.WriteString(e + "\n")
		}
		if myType != "" {
			want.WriteString("MyType = " + strconv.Quote(myType) + "\n")
		}
		if targetType != "" {
			want.WriteString("TargetType = " + strconv.Quote(targetType) + "\n")
		}
		if sender < 2 {
			// the sender rendered the ad itself: neither the order of the attributes nor the blanks
			// around '=' are fixed by the property — the lines are read back (name up to the first
			// '=', value through the parser) and compared as a set with what the sender's ad holds
			got := map[string]string{}
			bad := ""
			for _, ln := range strings.Split(strings.TrimSuffix(g.raw, "\n"), "\n") {
				if ln == "" && g.raw == "" {
					continue
				}
				eq := strings.Index(ln, "=")
				if eq < 0 {
					bad = ln
					break
				}
				e, err := parser.ParseExpr(strings.TrimSpace(ln[eq+1:]))
				if err != nil {
					bad = ln
					break
				}
				got[strings.TrimSpace(ln[:eq])] = canonExpr(e)
			}
			wantM := map[string]string{}
			for _, l := range lines {
				lc := strings.ToLower(l.name)
				if (lc == "mytype" && myType != "") || (lc == "targettype" && targetType != "") {
					continue
				}
				if e, err := parser.ParseExpr(l.text); err == nil {
					wantM[l.name] = canonExpr(e)
				}
			}
			if myType != "" {
				wantM["MyType"] = "str:" + hexOrDash([]byte(myType))
			}
			if targetType != "" {
				wantM["TargetType"] = "str:" + hexOrDash([]byte(targetType))
			}
			// an attribute named like a type trailer is overridden by the trailer line that follows it
			for k := range got {
				lc := strings.ToLower(k)
				if k != "MyType" && lc == "mytype" && myType != "" || k != "TargetType" && lc == "targettype" && targetType != "" {
					delete(got, k)
				}
			}
			if bad != "" || showAdMap(got) != showAdMap(wantM) {
				w.violate("C08:raw-text-differs", label+": the text GetClassAdRaw returned does not read back as the sender's attributes", ops, showAdMap(wantM), showAdMap(got)+" "+strconv.QuoteToASCII(truncStr(bad, 120)))
			}
		} else if g.raw != want.String() {
			w.violate("C08:raw-text-differs", label+": GetClassAdRaw did not return the sender's rendered expression strings", ops, strconv.QuoteToASCII(truncStr(want.String(), 300)), strconv.QuoteToASCII(truncStr(g.raw, 300)))
		}
	}
	// the trailer must be exactly what is left
	wantRest := trailerBytes(mode == modeEnc)
	for _, r := range rs {
		if r.errc == "" && r.rest != "ok "+orc.ShowBytes(wantRest) {
			w.violate("C08:unread-bytes-not-the-trailer:"+r.kind, label+": after the receiver, the unread part of the message is not exactly what followed the ad", ops, "ok "+orc.ShowBytes(wantRest), r.rest)
		}
	}
	c.Distinct(strings.Join(ops, "\n"), len(lines) > 0)
	c.Count("honest:mode:" + modeNames[mode])
	c.Count(fmt.Sprintf("honest:sender:%d", sender))
	c.Count(fmt.Sprintf("honest:frames:%s", bucket(len(rs[0].frames))))
	c.Count(fmt.Sprintf("honest:attrs:%s", bucket(len(lines))))
	if withPriv && sender < 2 {
		c.Count(fmt.Sprintf("honest:private-attrs:sender%d:%s", sender, modeNames[mode]))
	}
	if idx < 2 {
		c.Sample(map[string]any{"ops": abbreviate(ops), "real": abbreviate(real)})
	}
	w.addCase(label, ops, real)

	// re-cut: the same payload bytes in other frames, through the in-memory stream (uniform modes only)
	if mode != modeKeyed && c.Rng.Intn(2) == 0 {
		var all []byte
		for _, f := range rs[0].frames {
			all = append(all, f.data...)
		}
		w.overMem(label+" recut", mode == modeEnc, cutRandom(c, all), senderOps[:1], true, wantRest)
	}
}

func truncStr(s string, n int) string {
	if len(s) > n {
		return s[:n] + "…"
	}
	return s
}

func bucket(n int) string {
	switch {
	case n == 0:
		return "0"
	case n == 1:
		return "1"
	case n <= 4:
		return "2-4"
	case n <= 16:
		return "5-16"
	}
	return ">16"
}

func adDiffKey(exp, got map[string]string) string {
	for k, v := range exp {
		g, ok := got[k]
		switch {
		case !ok:
			return "missing-attribute"
		case g != v:
			return "value:" + v[:strings.Index(v, ":")] + "-as-" + g[:strings.Index(g, ":")]
		}
	}
	for k := range got {
		if _, ok := exp[k]; !ok {
			return "extra-attribute"
		}
	}
	return "other"
}

func trailerBytes(enc bool) []byte {
	var b []byte
	b = binary.BigEndian.AppendUint64(b, 77)
	if enc {
		b = binary.BigEndian.AppendUint64(b, 5)
	}
	return append(b, 't', 'a', 'i', 'l', 0)
}

func cutRandom(c *Ctx, all []byte) []recFrame {
	var out []recFrame
	pos := 0
	k := c.Rng.Intn(6)
	for q := 0; q < k && pos < len(all); q++ {
		nx := pos + c.Rng.Intn(len(all)-pos+1)
		if c.Rng.Intn(3) == 0 && nx-pos > 12 {
			nx = pos + c.Rng.Intn(12) // short frames: cuts inside the count and the length prefixes
		}
		out = append(out, recFrame{all[pos:nx], false})
		pos = nx
	}
	return append(out, recFrame{all[pos:], true})
}

// overMem runs the three receivers over explicit frames through the in-memory stream.
func (w *adwire) overMem(label string, enc bool, frames []recFrame, pre []string, honest bool, wantRest []byte) {
	ops := append([]string{}, pre...)
	var real []string
	for range pre {
		real = append(real, "")
	}
	var rs []adResult
	for _, kind := range []string{"getad", "getraw", "skip"} {
		ms := &memStream{enc: enc}
		for _, f := range frames {
			ms.frames = append(ms.frames, f.data)
			ms.eoms = append(ms.eoms, f.eom)
		}
		rec := &recMem{memStream: ms}
		r := runReceiver(kind, message.NewMessageFromStream(rec))
		r.unread = 0
		for _, f := range ms.frames {
			r.unread += len(f) + 5
		}
		rs = append(rs, r)
		ops = append(ops, framesOp(enc, false, "eof", frames), kind)
		real = append(real, "ok", r.reply)
		if r.errc == "" {
			ops = append(ops, "rest")
			real = append(real, r.rest)
		}
	}
	w.compareReceivers(label, ops, rs, honest)
	if honest {
		for _, r := range rs {
			if r.errc == "" && r.rest != "ok "+orc.ShowBytes(wantRest) {
				w.violate("C08:unread-bytes-not-the-trailer-after-recut:"+r.kind, label+": framing changed what a receiver consumed", ops, "ok "+orc.ShowBytes(wantRest), r.rest)
			}
		}
		if rs[0].errc == "" && rs[1].errc == "" {
			w.c.Count("recut:ok")
		}
	}
	w.c.Distinct(strings.Join(ops, "\n"), true)
	w.addCase(label, ops, real)
}

// damaged: a valid ad's payload with one or two faults, both string modes, in-memory stream.
func (w *adwire) damaged(idx int) {
	c := w.c
	enc := c.Rng.Intn(2) == 1
	attrs := genAd(c, false)
	var exprs []string
	for _, a := range attrs {
		if !strings.ContainsAny(a.text, "\n") {
			exprs = append(exprs, a.name+" = "+a.text)
		}
	}
	str := func(s string) []byte {
		var b []byte
		if enc {
			if len(s) > 0 && c.Rng.Intn(12) == 0 { // length-prefixed string without the terminator (GetString accepts it)
				b = binary.BigEndian.AppendUint64(b, uint64(len(s)))
				return append(b, s...)
			}
			b = binary.BigEndian.AppendUint64(b, uint64(len(s)+1))
		}
		return append(append(b, s...), 0)
	}
	be := func(v int64) []byte { return binary.BigEndian.AppendUint64(nil, uint64(v)) }
	count := int64(len(exprs))
	types := []string{"Machine", "Job"}
	var faults []string
	nf := 1 + c.Rng.Intn(2)
	var body [][]byte // the strings, in order
	for _, e := range exprs {
		body = append(body, str(e))
	}
	for f := 0; f < nf; f++ {
		switch k := c.Rng.Intn(12); k {
		case 0:
			count += int64(1 + c.Rng.Intn(3))
			faults = append(faults, "count+")
		case 1:
			count -= int64(1 + c.Rng.Intn(3))
			faults = append(faults, "count-")
		case 2:
			count = []int64{-1, -9223372036854775808, 0, 40, 300, 1 << 31, 9223372036854775807}[c.Rng.Intn(7)]
			faults = append(faults, "count-odd")
		case 3:
			// a stray marker as an expression, followed by whatever comes next
			p := c.Rng.Intn(len(body) + 1)
			body = append(body[:p], append([][]byte{str([]string{"ZKM", "ZKM", "ZK", "ZKMX", "Z", "zkm", "ZKM "}[c.Rng.Intn(7)])}, body[p:]...)...)
			faults = append(faults, "stray-marker")
		case 4:
			// marker + secret field in the stream's own mode, counted as one expression
			p := c.Rng.Intn(len(body) + 1)
			body = append(body[:p], append([][]byte{append(str("ZKM"), str("Secret = \"s\"")...)}, body[p:]...)...)
			count++
			faults = append(faults, "marker+field")
		case 5:
			types[c.Rng.Intn(2)] = []string{"A = 1", "say \"hi\"", "a\\b", strings.Repeat("t", 129), "line\nbreak", "ZKM", ""}[c.Rng.Intn(7)]
			faults = append(faults, "type-name")
		case 6:
			if len(body) > 0 {
				p := c.Rng.Intn(len(body))
				body[p] = str([]string{"no equals sign", "= 1", "  = 2", "A = ", "A = 1 +", "A = \"unterminated", "A = \"old\\style\"", "A = 007", "A = 1.", "A = \"a\" + \"b\"", "A = \"a\xffb\"", "A = falſe", "A == 1", "=", ""}[c.Rng.Intn(15)])
			}
			faults = append(faults, "bad-expr")
		case 7:
			if enc && len(body) > 0 {
				// length prefix off by a little, or negative (rejected by GetString since /repo 0d73d42, a no-op for discard)
				p := c.Rng.Intn(len(body))
				l := binary.BigEndian.Uint64(body[p][:8])
				d := uint64(c.Rng.Intn(5))
				switch c.Rng.Intn(5) {
				case 0:
					l = uint64(int64(-1 - c.Rng.Intn(5)))
				case 1, 2:
					if l >= d {
						l -= d
					}
				default:
					l += d
				}
				binary.BigEndian.PutUint64(body[p][:8], l)
				faults = append(faults, "length-prefix")
			} else if len(body) > 0 {
				p := c.Rng.Intn(len(body))
				body[p] = body[p][:len(body[p])-1] // terminator lost: runs into the next string
				faults = append(faults, "terminator-lost")
			}
		case 8:
			if len(body) > 0 {
				p := c.Rng.Intn(len(body))
				q := c.Rng.Intn(len(body[p]))
				body[p] = append(append(append([]byte{}, body[p][:q]...), 0), body[p][q:]...) // an extra NUL
				faults = append(faults, "extra-nul")
			}
		case 9:
			if enc && len(body) > 0 {
				p := c.Rng.Intn(len(body))
				if len(body[p]) > 9 {
					body[p][8] = 0xad // BinNullChar first
					faults = append(faults, "binnull")
				}
			}
		default:
			faults = append(faults, "truncate")
		}
	}
	// (a huge count no longer spins: the raw and the skipping receiver stop at the end of the message since
	// /repo e91c289, the parsing receiver on the first "" that does not parse)
	if (count > 400 && count < 1<<31) || count < -9223372036854775807+400 && count != -9223372036854775808 {
		count = 400 // only the arithmetic of count+/count- on the odd values; keeps the in-between range small
	}
	var all []byte
	all = append(all, be(count)...)
	for _, b := range body {
		all = append(all, b...)
	}
	all = append(all, str(types[0])...)
	all = append(all, str(types[1])...)
	all = append(all, trailerBytes(enc)...)
	for _, f := range faults {
		if f == "truncate" && len(all) > 0 {
			all = all[:c.Rng.Intn(len(all))]
		}
	}
	frames := cutRandom(c, all)
	if c.Rng.Intn(10) == 0 {
		frames[len(frames)-1].eom = false // the connection ends without an end-of-message frame
		faults = append(faults, "no-eom")
	}
	sort.Strings(faults)
	label := fmt.Sprintf("damaged#%d enc=%s %s", idx, b01(enc), strings.Join(faults, "+"))
	w.overMem(label, enc, frames, []string{"# " + label}, false, nil)
	for _, f := range faults {
		c.Count("damaged:" + f)
	}
	c.Count("damaged:mode:" + b01(enc))
	_ = bytes.Equal
}
