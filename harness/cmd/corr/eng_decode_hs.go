package main

// Part of engine `decode` (property C13, clause "the bounded ClassAd reader used for every
// handshake ad"): REAL handshakes, in both roles, are handed an oversized but well-formed ad at
// each step at which they read one — the negotiation ad (server role), the negotiation response,
// the post-authentication ad and the resume reply (client role), the resume request (server
// role), and the two CCB control-ad readers. The ad is 10–400 times the cap of that step.
//
// Property oracle, on implementation observables only:
//   * the step fails (the handshake returns an error / the reader returns an error): an ad larger
//     than the cap is never accepted;
//   * of the oversized message, the endpoint takes no more than cap + 64 KiB + one frame from
//     the connection (64 KiB is an allowance for read-ahead buffering; what matters is that
//     consumption stops near the cap instead of following the peer);
//   * bytes allocated while the step runs stay below a fixed budget that does not grow with
//     the size of the oversized ad.
// No comparison with the model here: what the capped reader does with these bytes is compared
// in decodeOversize / decodeBudget; this part checks WHICH reader (and cap) the handshakes use.
// The companion obligation is the theorem `handshake_ads_capped` over the regenerated table of
// all ClassAd-reader call sites of security/ and ccb/.

import (
	"bytes"
	"context"
	"fmt"
	"net"
	"runtime"
	"strings"
	"time"

	"cedarverif/harness/internal/bufconn"

	"github.com/bbockelm/cedar/ccb"
	"github.com/bbockelm/cedar/commands"
	"github.com/bbockelm/cedar/message"
	"github.com/bbockelm/cedar/security"
	"github.com/bbockelm/cedar/stream"
)

type tcpAddr string

func (a tcpAddr) Network() string { return "tcp" }
func (a tcpAddr) String() string  { return string(a) }

var _ net.Addr = tcpAddr("")

// plainAdMessage serialises an ad in the plaintext wire layout (count, NUL-terminated
// expressions, MyType, TargetType), optionally behind a command integer, and cuts it into frames
// of at most `frame` payload bytes.
func plainAdMessage(cmd *int64, exprs []string, myType, targetType string, frame int) []byte {
	var fs []dfield
	if cmd != nil {
		fs = append(fs, fInt(*cmd))
	}
	fs = append(fs, fInt(int64(len(exprs))))
	for _, e := range exprs {
		fs = append(fs, fStr(e))
	}
	fs = append(fs, fStr(myType), fStr(targetType))
	var wire []byte
	for _, f := range chunkFrames(serialize(fs, false), frame) {
		fl := byte(0)
		if f.eom {
			fl = 1
		}
		wire = append(wire, wireFrame(fl, uint32(len(f.p)), f.p)...)
	}
	return wire
}

// oversize pads a list of expressions up to about `size` bytes in one of three shapes.
func oversize(base []string, shape string, size int) (exprs []string, myType string) {
	exprs = append([]string{}, base...)
	switch shape {
	case "one-attribute":
		exprs = append(exprs, `Pad = "`+strings.Repeat("x", size)+`"`)
	case "many-attributes":
		for i := 0; i*12 < size; i++ {
			exprs = append(exprs, fmt.Sprintf("P%07d = 1", i))
		}
	case "type-name":
		myType = strings.Repeat("t", size)
	}
	return
}

type hsStep struct {
	name string
	cap  int
	// run feeds `prefix` (honest messages that precede the step) and `hostile` to the endpoint and
	// runs it; returns the error of the step
	run func(conn *bufconn.Conn) error
	// base expressions of a well-formed ad for this step
	base   []string
	cmd    *int64
	prefix func() []byte
}

func decodeHandshakeAds(c *Ctx) error {
	ctxFor := func() (context.Context, context.CancelFunc) {
		// every step reads a prepared byte sequence followed by EOF: nothing ever waits for a peer, the
		// bound is a backstop only (a short one, started before the step's setup, runs out on a busy machine)
		return context.WithTimeout(context.Background(), 30*time.Second)
	}
	authCmd := int64(commands.DC_AUTHENTICATE)
	revCmd := int64(ccb.CommandReverseConnect)
	negoResponse := []string{
		`AuthMethods = "CLAIMTOBE"`, `AuthMethodsList = "CLAIMTOBE"`, `CryptoMethods = "AES"`, `CryptoMethodsList = "AES"`,
		`Authentication = "NO"`, `Encryption = "NO"`, `Integrity = "NO"`, `RemoteVersion = "` + security.DefaultRemoteVersion + `"`,
		`NegotiatedSession = true`, `Enact = "NO"`,
	}
	postAuth := []string{`ReturnCode = "AUTHORIZED"`, `Sid = "srv:1:2:3"`, `User = "unauthenticated@unmapped"`, `ValidCommands = "60007"`, `SessionDuration = 60`, `SessionLease = 30`}
	clientNego := []string{
		`AuthMethods = "CLAIMTOBE"`, `CryptoMethods = "AES"`, `Authentication = "OPTIONAL"`, `Encryption = "OPTIONAL"`, `Integrity = "OPTIONAL"`,
		`Command = 60007`, `RemoteVersion = "` + security.DefaultRemoteVersion + `"`, `NewSession = "YES"`, `Enact = "NO"`, `OutgoingNegotiation = "PREFERRED"`,
	}
	resumeReq := []string{`Command = 60007`, `UseSession = "YES"`, `Sid = "srv:1:2:3"`, `ResumeResponse = true`, `ResumeNonce = "00112233445566778899aabbccddeeff"`,
		`RemoteVersion = "` + security.DefaultRemoteVersion + `"`, `CryptoMethods = "AES"`}
	resumeReply := []string{`ReturnCode = "AUTHORIZED"`, `Sid = "srv:1:2:3"`, `ResumeNonce = "00112233445566778899aabbccddeeff"`}
	control := []string{`Command = 67`, `Name = "startd@host"`, `MyAddress = "<10.0.0.3:9618>"`, `RequestID = "7"`}

	clientConf := func(cache *security.SessionCache) *security.SecurityConfig {
		return &security.SecurityConfig{AuthMethods: toMethods([]string{"CLAIMTOBE"}), Authentication: security.SecurityOptional,
			CryptoMethods: toCiphers([]string{"AES"}), Encryption: security.SecurityOptional, Integrity: security.SecurityOptional,
			Command: testCmd, SessionCache: cache, PeerName: "srvA"}
	}
	clientRun := func(cache func() *security.SessionCache) func(conn *bufconn.Conn) error {
		return func(conn *bufconn.Conn) error {
			ctx, cancel := ctxFor()
			defer cancel()
			conn.Remote = tcpAddr("10.0.0.2:9618")
			_, err := security.NewAuthenticator(clientConf(cache()), stream.NewStream(conn)).ClientHandshake(ctx)
			return err
		}
	}
	serverRun := func(conn *bufconn.Conn) error {
		ctx, cancel := ctxFor()
		defer cancel()
		conn.Remote = tcpAddr("10.0.0.1:1111")
		st := stream.NewStream(conn)
		st.SetPeerAddr("10.0.0.1:1111")
		sc := &security.SecurityConfig{AuthMethods: toMethods([]string{"CLAIMTOBE"}), Authentication: security.SecurityOptional,
			CryptoMethods: toCiphers([]string{"AES"}), Encryption: security.SecurityOptional, Integrity: security.SecurityOptional}
		_, err := security.NewAuthenticator(sc, st).ServerHandshake(ctx)
		return err
	}
	// a client-side cache holding a resumable session for "srvA" (made by a real handshake)
	resumable := func() *security.SessionCache {
		security.ClearSessionCache()
		cache := security.NewSessionCache()
		p := realPair(cliConf(cache, ""), srvConf(true), "10.0.0.1:1111")
		p.close()
		return cache
	}
	steps := []hsStep{
		{name: "client:negotiation-response", cap: 4096, base: negoResponse, run: clientRun(security.NewSessionCache)},
		{name: "client:post-auth", cap: 4096, base: postAuth, run: clientRun(security.NewSessionCache),
			prefix: func() []byte { return plainAdMessage(nil, negoResponse, "", "", 4096) }},
		{name: "client:resume-reply", cap: 4096, base: resumeReply, run: clientRun(resumable)},
		{name: "server:negotiation", cap: 4096, base: clientNego, cmd: &authCmd, run: serverRun},
		{name: "server:resume-request", cap: 4096, base: resumeReq, cmd: &authCmd, run: serverRun},
		{name: "ccb:ReadControlAd", cap: 65536, base: control, run: func(conn *bufconn.Conn) error {
			ctx, cancel := ctxFor()
			defer cancel()
			_, err := ccb.ReadControlAd(ctx, stream.NewStream(conn))
			return err
		}},
		{name: "ccb:ReadReverseConnectAd", cap: 65536, base: control, cmd: &revCmd, run: func(conn *bufconn.Conn) error {
			ctx, cancel := ctxFor()
			defer cancel()
			msg := message.NewMessageFromStream(stream.NewStream(conn))
			cmd, err := msg.GetInt(ctx)
			if err != nil {
				return err
			}
			_, err = ccb.ReadReverseConnectAd(ctx, msg, cmd)
			return err
		}},
	}
	const readAhead = 64 << 10
	for _, st := range steps {
		// the same step with an ad that fits: it must get past this read (sanity of the script;
		// otherwise "the step fails" below would be vacuous)
		{
			conn := bufconn.New()
			if st.prefix != nil {
				conn.Feed(st.prefix())
			}
			small := plainAdMessage(st.cmd, st.base, "", "", 1024)
			conn.Feed(small)
			err := st.run(conn)
			if len(conn.In) != 0 {
				return fmt.Errorf("handshake-ad %s: the endpoint did not consume a well-formed small ad at this step (%d bytes left, err=%v): the script no longer reaches the read it is meant to test", st.name, len(conn.In), err)
			}
			c.Count("handshake-ad:fits:" + st.name)
		}
		times := []int{10, 40, 100, 400}
		if st.cap > 4096 && !c.Thorough() {
			times = []int{10, 40} // (64 KiB caps: 100× and 400× are 6.5 and 26 MB, thorough tier)
		}
		for _, shape := range []string{"one-attribute", "many-attributes", "type-name"} {
			for _, k := range times {
				for _, frame := range []int{1024, 60000} {
					if frame == 60000 && k != 40 {
						continue
					}
					exprs, myType := oversize(st.base, shape, k*st.cap)
					hostile := plainAdMessage(st.cmd, exprs, myType, "", frame)
					conn := bufconn.New()
					pre := 0
					if st.prefix != nil {
						p := st.prefix()
						pre = len(p)
						conn.Feed(p)
					}
					conn.Feed(hostile)
					total := len(conn.In)
					label := fmt.Sprintf("handshake-ad %s %s x%d (%d bytes, frames of %d)", st.name, shape, k, len(hostile), frame)
					ops := []string{"# " + label, fmt.Sprintf("# the endpoint reads: %d honest bytes, then an ad message of %d bytes = count, %d expressions, MyType of %d bytes, TargetType", pre, len(hostile), len(exprs), len(myType))}
					var err error
					var pv any
					var m0, m1 runtime.MemStats
					runtime.ReadMemStats(&m0)
					func() {
						defer func() { pv = recover() }()
						err = st.run(conn)
					}()
					runtime.ReadMemStats(&m1)
					taken := total - len(conn.In) - pre
					alloc := m1.TotalAlloc - m0.TotalAlloc
					c.Distinct(label, true)
					c.Count("handshake-ad:oversize:" + st.name)
					site := st.name
					if pv != nil {
						c13Violate(c, Violation{Property: "C13", Key: "C13:panic:handshake-ad:" + site, What: fmt.Sprintf("%s panicked on an oversized ad: %v", site, pv), Ops: ops, Expected: "an error", Observed: fmt.Sprint(pv)})
						continue
					}
					if err == nil {
						c13Violate(c, Violation{Property: "C13", Key: "C13:handshake-ad-accepted:" + site, What: fmt.Sprintf("%s accepted an ad of %d bytes (cap of the bounded reader at this step: %d)", site, len(hostile), st.cap), Ops: ops,
							Expected: "the step fails once the cap is exceeded", Observed: "success"})
					}
					if lim := st.cap + readAhead + frame + 5; taken > lim {
						c13Violate(c, Violation{Property: "C13", Key: "C13:handshake-ad-consumed:" + site, What: fmt.Sprintf("%s took %d bytes of an oversized ad from the connection (cap %d): it did not stop consuming once the cap was exceeded", site, taken, st.cap), Ops: ops,
							Expected: fmt.Sprintf("≤ cap + 64 KiB read-ahead allowance + one frame = %d", lim), Observed: fmt.Sprint(taken)})
					}
					if lim := uint64(16*st.cap + 4<<20); alloc > lim {
						c13Violate(c, Violation{Property: "C13", Key: "C13:handshake-ad-alloc:" + site, What: fmt.Sprintf("%s allocated %d bytes while refusing an oversized ad (cap %d, ad %d bytes)", site, alloc, st.cap, len(hostile)), Ops: ops,
							Expected: fmt.Sprintf("≤ 16·cap + 4 MiB = %d, whatever the size of the ad", lim), Observed: fmt.Sprint(alloc)})
					}
					if len(c.Res.Samples) < 6 && shape == "one-attribute" && k == 40 && frame == 1024 {
						c.Sample(map[string]any{"label": label, "error": err != nil, "taken_from_connection": taken, "allocated": alloc})
					}
				}
			}
		}
	}
	security.ClearSessionCache()
	return nil
}

// ------------------------------------------------------------------ sub-protocol readers
//
// The length-prefixed readers inside the authentication sub-protocols that are reached through
// hooks (security/verif_hooks_decode2.go): Kerberos request blobs, the receiving steps of the
// token exchange in their OK and error-state branches, the CLAIMTOBE server message. One length
// field at a time takes each value of the catalogue; lengths that could size a buffer beyond
// 64 MiB run in the child process. `krb` is compared with the model (krbRead); the token steps
// and CLAIMTOBE are judged by the implementation-side oracle only (no panic, allocation in
// proportion to the input, cap honoured).

type subKind struct {
	entry string
	model bool
	run   func(w *dworld) (string, error)
}

var subKinds = map[string]subKind{
	"krb": {"security.kerberosReadRequest", true, func(w *dworld) (string, error) {
		v, err := security.VerifKerberosReadRequest(bg, w.src.real)
		return showVal(v), err
	}},
	"tok2": {"security.receiveTokenStep2", false, func(w *dworld) (string, error) {
		return "", security.VerifTokenReceiveStep2(bg, w.src.real, "alice@pool", []byte{1, 2, 3, 4})
	}},
	"tok1s": {"security.receiveServerTokenStep1", false, func(w *dworld) (string, error) {
		return "", security.VerifTokenServerReceiveStep1(bg, w.src.real)
	}},
	"tok3s": {"security.receiveServerTokenStep3", false, func(w *dworld) (string, error) {
		return "", security.VerifTokenServerReceiveStep3(bg, w.src.real, "alice@pool", []byte{5, 6, 7, 8})
	}},
	"ctb": {"security.performClaimToBeAuthenticationServer", false, func(w *dworld) (string, error) {
		return "", security.VerifClaimToBeServer(bg, w.src.real)
	}},
}

func (w *dworld) opSub(kind string) opRes {
	k := subKinds[kind]
	w.nomodel = !k.model
	return w.run(kind, k.entry, 0, func() (string, error) { return k.run(w) })
}

func decodeSubprotocols(c *Ctx, cases *[]Case, childJobs *[]childJob) {
	const pwErr, pwOK = int64(security.AUTH_PW_ERROR), int64(security.AUTH_PW_A_OK)
	id := func(s string) []dfield { return []dfield{fInt(int64(len(s))), fStr(s)} }
	cat := func(parts ...[]dfield) []dfield {
		var out []dfield
		for _, p := range parts {
			out = append(out, p...)
		}
		return out
	}
	raw := func(n int) []dfield { return []dfield{fInt(int64(n)), fRaw(bytes.Repeat([]byte{0x5a}, n))} }
	type shape struct {
		kind, name string
		fs         []dfield
	}
	shapes := []shape{
		{"krb", "request", []dfield{fInt(1), fInt(6), fRaw([]byte("AP_REQ"))}},
		{"tok2", "error-state", cat([]dfield{fInt(pwErr)}, id(""), id(""), raw(0), raw(3), raw(0))},
		{"tok2", "ok", cat([]dfield{fInt(pwOK)}, id("alice@pool"), id("srv@pool"), []dfield{fInt(4), fRaw([]byte{1, 2, 3, 4})}, raw(8), raw(32))},
		{"tok1s", "error-state", cat([]dfield{fInt(pwErr)}, id(""), []dfield{fStr("")}, raw(2))},
		{"tok1s", "ok", cat([]dfield{fInt(pwOK)}, id("alice@pool"), []dfield{fStr("hdr.payload")}, raw(16))},
		{"tok3s", "error-state", cat([]dfield{fInt(pwErr)}, id(""), raw(2), raw(0))},
		{"tok3s", "ok", cat([]dfield{fInt(pwOK)}, id("alice@pool"), []dfield{fInt(4), fRaw([]byte{5, 6, 7, 8})}, raw(32))},
		{"ctb", "user", []dfield{fInt(1), fStr("alice@pool")}},
	}
	lens := []int64{-1, 0, 1, 5, 255, 256, 257, 4096, 1 << 20, 1<<24 + 3, -2147483648, -1 << 63}
	fatal := []int64{2147483647, 1 << 31, 1 << 33, 1 << 40, 1 << 62, 9223372036854775807}
	for _, sh := range shapes {
		for _, enc := range []bool{false, true} {
			// the message as it is
			{
				w := newDWorld(c, fmt.Sprintf("subproto %s %s valid enc=%s", sh.kind, sh.name, b01(enc)), enc, false, []dframe{{p: serialize(sh.fs, enc), eom: true}}, 1)
				w.opSub(sh.kind)
				c.Count("subproto:" + sh.kind)
				w.done(cases, true)
			}
			for i, f := range sh.fs {
				if f.kind != "int" || (i == 0 && sh.kind != "krb") {
					continue // (position 0 is the status word, not a length)
				}
				for _, l := range append(append([]int64{}, lens...), fatal...) {
					fs := append([]dfield{}, sh.fs...)
					fs[i] = fInt(l)
					frames := []dframe{{p: serialize(fs, enc), eom: true}}
					label := fmt.Sprintf("subproto %s %s int#%d=%d enc=%s", sh.kind, sh.name, i, l, b01(enc))
					if l > 1<<26 {
						if enc {
							continue // (one string mode is enough for the process-per-case lengths)
						}
						*childJobs = append(*childJobs, childJob{Label: label, Kind: sh.kind, Enc: enc, Frames: hexFrames(frames), InBytes: len(frames[0].p)})
						c.Count("subproto:child:" + sh.kind)
						continue
					}
					w := newDWorld(c, label, enc, false, frames, 1)
					w.opSub(sh.kind)
					c.Count("subproto:" + sh.kind)
					w.done(cases, true)
				}
			}
		}
	}
	// CLAIMTOBE user name many times its cap
	maxUser, _ := security.VerifAuthLimits()
	for _, k := range []int{10, 100, 400} {
		for _, enc := range []bool{false, true} {
			fs := []dfield{fInt(1), {kind: "str", s: bytes.Repeat([]byte("u"), k*maxUser)}}
			frames := chunkFrames(serialize(fs, enc), 1024)
			w := newDWorld(c, fmt.Sprintf("subproto ctb user-name x%d enc=%s", k, b01(enc)), enc, false, frames, 1)
			r := w.opSub("ctb")
			taken := w.src.wire - len(w.src.conn.In)
			if r.err == nil && r.panicV == nil {
				w.violate("C13:cap-accepted:security.performClaimToBeAuthenticationServer", fmt.Sprintf("a user name of %d bytes was accepted (cap %d)", k*maxUser, maxUser), "an error", "success")
			}
			if lim := maxUser + 64<<10 + 1024 + 5; taken > lim {
				w.violate("C13:cap:security.performClaimToBeAuthenticationServer", fmt.Sprintf("took %d bytes of a %d-byte user name from the connection (cap %d)", taken, k*maxUser, maxUser), fmt.Sprintf("≤ cap + 64 KiB read-ahead allowance + one frame = %d", lim), fmt.Sprint(taken))
			}
			c.Count("subproto:ctb-oversize")
			w.done(cases, true)
		}
	}
}
