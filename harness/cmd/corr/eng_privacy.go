package main

// Engine `privacy` (property C09): private attributes are never serialised unless asked for,
// nor sent in the clear.
//
// Every case builds an ad mixing public and private attributes (every fixed private name and the
// reserved prefix in random case variants, near-miss names, unique canary values), a
// PutClassAdConfig (all option bits, whitelist shapes, EncryptedAttrs, peer versions around the
// cut-off) and a stream state (no key / keyed+encrypting / keyed, not encrypting), serialises the
// ad with the REAL message.PutClassAdWithOptions + FinishMessage on a real stream.Stream over a
// recording connection, opens protected frames with refcodec, and
//   (X)  compares frames (payload, end flag, protected or not), the attribute selection, the name
//        predicates and the version comparison with the Lean model (oracle engine `privacy`), and
//        the real GetClassAdRaw with the model's receiver on the same frames (as sent, re-cut by an
//        independent reference sender, truncated / stripped of the protected frame);
//   (P)  runs the property oracle on the implementation alone: canary search over every byte
//        written and every opened plaintext, twin serialisation (the same ad without its private
//        attributes must produce the same bytes when not opted in), cleartext-only search on a
//        keyed non-encrypting stream, and reconstruction of the ad by the real GetClassAd.

import (
	"bytes"
	"encoding/binary"
	"fmt"
	"sort"
	"strconv"
	"strings"

	"cedarverif/harness/internal/bufconn"
	"cedarverif/harness/internal/orc"
	"cedarverif/harness/internal/refcodec"

	"github.com/PelicanPlatform/classad/classad"
	"github.com/bbockelm/cedar/message"
	"github.com/bbockelm/cedar/stream"
)

func init() { register(Engine{"privacy", runPrivacy}) }

// ---- the property's vocabulary, written from the statement (not from classad.go) -------------

var specV1 = []string{"claimid", "claimids", "claimidlist", "childclaimids", "capability", "transferkey"}

const specV2Prefix = "_condor_priv"

func asciiLower(s string) string {
	b := []byte(s)
	for i, c := range b {
		if c >= 'A' && c <= 'Z' {
			b[i] = c + 32
		}
	}
	return string(b)
}

func specIsV1(n string) bool {
	l := asciiLower(n)
	for _, x := range specV1 {
		if l == x {
			return true
		}
	}
	return false
}
func specIsV2(n string) bool {
	return len(n) >= len(specV2Prefix) && asciiLower(n[:len(specV2Prefix)]) == specV2Prefix
}
func specIsPriv(n string) bool { return specIsV1(n) || specIsV2(n) }

// versions: "too old to understand them" = strictly before 9.9.0
func specTooOld(v *message.HTCondorVersion) bool {
	if v == nil {
		return false
	}
	a := [3]int{v.Major, v.Minor, v.Patch}
	b := [3]int{9, 9, 0}
	for i := 0; i < 3; i++ {
		if a[i] != b[i] {
			return a[i] < b[i]
		}
	}
	return false
}

// ---- case description ------------------------------------------------------------------------

type pattr struct {
	name   string
	src    string // expression source handed to classad.ParseExpr
	canary string // unique token inside the value ("" for public attributes)
	nameC  string // unique token inside the name (reserved-prefix attributes)
}

type pcase struct {
	label   string
	attrs   []pattr
	opts    int
	wl      []string
	enc     []string
	peer    *message.HTCondorVersion
	keyed   bool
	encrypt bool
}

const (
	stNoKey = iota
	stKeyedEnc
	stKeyedClear
	stFlagOnly // no key but SetEncrypted(true): outside the property's three states, kept for model coverage
)

func (pc *pcase) state() int {
	switch {
	case pc.keyed && pc.encrypt:
		return stKeyedEnc
	case pc.keyed:
		return stKeyedClear
	case pc.encrypt:
		return stFlagOnly
	}
	return stNoKey
}

var stateNames = []string{"nokey", "keyed-encrypting", "keyed-clear", "flag-only"}

func (pc *pcase) optIn() bool { return pc.opts&32 != 0 && pc.opts&2 == 0 }

func inStrs(s string, l []string) bool {
	for _, x := range l {
		if x == s {
			return true
		}
	}
	return false
}

// expectSent: the statement's decision for one attribute of the ad (EncryptedAttrs as the code
// documents them: an extra list of fixed private names).
func (pc *pcase) expectSent(a pattr) bool {
	if len(pc.wl) > 0 && !inStrs(a.name, pc.wl) {
		return false
	}
	if specIsPriv(a.name) || inStrs(a.name, pc.enc) {
		if !pc.optIn() {
			return false
		}
		if specIsV2(a.name) && specTooOld(pc.peer) {
			return false
		}
	}
	return true
}

// mentioned: another attribute's expression refers to a by name (then the name is public data)
func (pc *pcase) mentioned(a pattr) bool {
	for _, b := range pc.attrs {
		if b.name != a.name && containsFold([]byte(b.src), a.name) {
			return true
		}
	}
	return false
}

func (pc *pcase) config() *message.PutClassAdConfig {
	return &message.PutClassAdConfig{Options: message.PutClassAdOptions(pc.opts), Whitelist: pc.wl, EncryptedAttrs: pc.enc, PeerVersion: pc.peer}
}

func buildAd(attrs []pattr) (*classad.ClassAd, error) {
	ad := classad.New()
	for _, a := range attrs {
		e, err := classad.ParseExpr(a.src)
		if err != nil {
			return nil, fmt.Errorf("generator produced an unparsable value %q: %v", a.src, err)
		}
		ad.InsertExpr(a.name, e)
	}
	return ad, nil
}

// evalType evaluates MyType/TargetType the way a caller of the classad library would.
func evalType(ad *classad.ClassAd, n string) string {
	if s, ok := ad.EvaluateAttrString(n); ok {
		return orc.Payload([]byte(s))
	}
	return "~"
}

// ---- one endpoint pair -----------------------------------------------------------------------

type pworld struct {
	ac, bc *bufconn.Conn
	as, bs *stream.Stream
	dir    *refcodec.Dir // opens what A sends
}

var privKey = keyBytes(77)

// every second serialisation creates its Message before the stream's final crypto mode is set
var serialiseCalls int

func newPWorld(keyed, encrypt bool, early **message.Message) (*pworld, error) {
	w := &pworld{ac: bufconn.New(), bc: bufconn.New()}
	w.as, w.bs = stream.NewStream(w.ac), stream.NewStream(w.bc)
	if keyed {
		if err := w.as.SetSymmetricKey(privKey); err != nil {
			return nil, err
		}
		if err := w.bs.SetSymmetricKey(privKey); err != nil {
			return nil, err
		}
		w.dir, _ = refcodec.NewDir(privKey, [32]byte{}, [32]byte{})
	}
	if early != nil {
		// the outgoing Message may exist before the stream reaches its final crypto mode (an
		// application builds it right after the handshake and switches the mode afterwards): what
		// matters is the stream's state when the ad is written, not when the Message was made
		*early = message.NewMessageForStream(w.as)
	}
	w.as.SetEncrypted(encrypt)
	w.bs.SetEncrypted(encrypt)
	return w, nil
}

type pframe struct {
	payload []byte
	eom     bool
	sealed  bool
	raw     []byte // the frame as it travelled
}

func showPFrames(fs []pframe) string {
	var parts []string
	for _, f := range fs {
		parts = append(parts, fmt.Sprintf("F(%s,%s,%d:%s)", b01(f.eom), b01(f.sealed), len(f.payload), orc.ShowBytes(f.payload)))
	}
	return strings.Join(parts, " ")
}

// split parses the bytes A wrote; a frame refcodec can open under the session key is protected.
func (w *pworld) split(out []byte) ([]pframe, error) {
	frames, rest := refcodec.ParseFrames(out)
	if len(rest) != 0 {
		return nil, fmt.Errorf("trailing bytes after the last frame")
	}
	var res []pframe
	for _, f := range frames {
		pf := pframe{payload: f.Body, eom: f.Flag != 0, raw: f.Bytes()}
		if w.dir != nil {
			if o, err := w.dir.Open(f); err == nil {
				pf.sealed, pf.payload = true, o.Plain
			}
		}
		res = append(res, pf)
	}
	return res, nil
}

// serialise runs the real sender; returns the frames and all bytes written.
func serialise(pc *pcase, ad *classad.ClassAd) (fs []pframe, wire []byte, w *pworld, err error) {
	serialiseCalls++
	var m *message.Message
	if serialiseCalls%2 == 0 {
		w, err = newPWorld(pc.keyed, pc.encrypt, &m)
	} else {
		w, err = newPWorld(pc.keyed, pc.encrypt, nil)
	}
	if err != nil {
		return nil, nil, nil, err
	}
	if m == nil {
		m = message.NewMessageForStream(w.as)
	}
	if err = m.PutClassAdWithOptions(bg, ad, pc.config()); err != nil {
		return nil, nil, w, err
	}
	if err = m.FinishMessage(bg); err != nil {
		return nil, nil, w, err
	}
	wire = w.ac.AllOut
	fs, err = w.split(wire)
	return fs, wire, w, err
}

// ---- generator -------------------------------------------------------------------------------

func caseVariant(c *Ctx, s string) string {
	b := []byte(s)
	mode := c.Rng.Intn(4)
	for i, ch := range b {
		up := false
		switch mode {
		case 0:
			up = false
		case 1:
			up = true
		default:
			up = c.Rng.Intn(2) == 0
		}
		if ch >= 'a' && ch <= 'z' && up {
			b[i] = ch - 32
		}
	}
	return string(b)
}

var canonicalV1 = []string{"ClaimId", "ClaimIds", "ClaimIdList", "ChildClaimIds", "Capability", "TransferKey"}
var publicNames = []string{"Name", "Cpus", "Memory", "State", "Rank", "Requirements", "Machine", "Owner", "Disk", "Arch"}

// names that look private but are not (model/implementation must agree they are public)
var nearMiss = []string{"ClaimId2", "Claim", "laimId", "ClaimIdListX", "Capabilit", "TransferKeys", "_condor_pri", "_condor_pri_v", "x_condor_priv", "condor_priv", "_CONDOR_PRI", "ChildClaimId", "_condorpriv", "ClaimI"}

type pgen struct {
	c      *Ctx
	caseNo int
	canNo  int
}

func (g *pgen) canary(kind string) string {
	g.canNo++
	return fmt.Sprintf("Q%sq%dx%dZ", kind, g.caseNo, g.canNo)
}

func (g *pgen) publicValue(names []string) string {
	c := g.c
	switch c.Rng.Intn(9) {
	case 0:
		return strconv.Itoa(c.Rng.Intn(100000) - 500)
	case 1:
		return strconv.Quote("v" + strconv.Itoa(c.Rng.Intn(1000)))
	case 2:
		return []string{"true", "false"}[c.Rng.Intn(2)]
	case 3:
		return publicNames[c.Rng.Intn(len(publicNames))] + " > " + strconv.Itoa(c.Rng.Intn(64))
	case 4: // a public expression may mention a private NAME: that is public data
		return canonicalV1[c.Rng.Intn(len(canonicalV1))] + " =!= undefined"
	case 5:
		return "{ 1, 2, " + strconv.Itoa(c.Rng.Intn(9)) + " }"
	case 6:
		return "strcat(\"a\", Name)"
	case 7:
		return "\"" + strings.Repeat("s", c.Rng.Intn(40)) + "\""
	default:
		return "Memory * 2 + " + strconv.Itoa(c.Rng.Intn(10))
	}
}

func (g *pgen) privateValue() (src, canary string) {
	cn := g.canary("v")
	switch g.c.Rng.Intn(4) {
	case 0:
		return "{ \"" + cn + "\", \"other\" }", cn
	case 1:
		return "strcat(\"" + cn + "\", \"#\")", cn
	default:
		return "\"<127.0.0.1:9618>#" + cn + "#1\"", cn
	}
}

func (g *pgen) genCase(label string, big bool) *pcase {
	c := g.c
	g.caseNo++
	g.canNo = 0
	pc := &pcase{label: label}
	used := map[string]bool{}
	add := func(a pattr) bool {
		k := asciiLower(a.name)
		if used[k] {
			return false
		}
		used[k] = true
		pc.attrs = append(pc.attrs, a)
		return true
	}
	nPub := 1 + c.Rng.Intn(4)
	nV1 := c.Rng.Intn(3)
	nV2 := c.Rng.Intn(3)
	nNear := c.Rng.Intn(2)
	var list []pattr
	for i := 0; i < nPub; i++ {
		list = append(list, pattr{name: publicNames[c.Rng.Intn(len(publicNames))], src: g.publicValue(nil)})
	}
	for i := 0; i < nV1; i++ {
		src, cn := g.privateValue()
		list = append(list, pattr{name: caseVariant(c, canonicalV1[c.Rng.Intn(len(canonicalV1))]), src: src, canary: cn})
	}
	for i := 0; i < nV2; i++ {
		src, cn := g.privateValue()
		suffix := ""
		nc := ""
		if c.Rng.Intn(6) != 0 {
			nc = g.canary("n")
			suffix = []string{"", "_"}[c.Rng.Intn(2)] + nc
		}
		list = append(list, pattr{name: caseVariant(c, specV2Prefix) + suffix, src: src, canary: cn, nameC: nc})
	}
	for i := 0; i < nNear; i++ {
		list = append(list, pattr{name: caseVariant(c, nearMiss[c.Rng.Intn(len(nearMiss))]), src: g.publicValue(nil)})
	}
	if c.Rng.Intn(5) == 0 { // a nested ad that itself carries a private NAME (scoped out: no canary inside)
		list = append(list, pattr{name: "Nested", src: "[ ClaimId = \"nested-not-a-canary\"; X = 1 ]"})
	}
	if big && c.Rng.Intn(2) == 0 {
		list = append(list, pattr{name: "Blob", src: "\"" + strings.Repeat("b", 9000+c.Rng.Intn(9000)) + "\""})
	}
	c.Rng.Shuffle(len(list), func(i, j int) { list[i], list[j] = list[j], list[i] })
	for _, a := range list {
		add(a)
	}
	// MyType / TargetType: mostly literals or absent; sometimes expressions, also over private attributes
	var privNames []string
	for _, a := range pc.attrs {
		if specIsPriv(a.name) {
			privNames = append(privNames, a.name)
		}
	}
	for _, tn := range []string{"MyType", "TargetType"} {
		switch r := c.Rng.Intn(12); {
		case r < 5:
			add(pattr{name: tn, src: strconv.Quote([]string{"Machine", "Job", "Scheduler", "Submitter", ""}[c.Rng.Intn(5)])})
		case r < 7:
			add(pattr{name: caseVariant(c, tn), src: "strcat(\"Ty\", \"pe\")"})
		case r < 8:
			add(pattr{name: tn, src: "Name"})
		case r < 10 && len(privNames) > 0:
			p := privNames[c.Rng.Intn(len(privNames))]
			if c.Rng.Intn(2) == 0 {
				add(pattr{name: tn, src: p})
			} else {
				add(pattr{name: tn, src: "strcat(\"t\", " + p + ")"})
			}
		}
	}
	// configuration
	pc.opts = c.Rng.Intn(64)
	if c.Rng.Intn(3) == 0 {
		pc.opts |= 32 // weigh the opt-in
	}
	if c.Rng.Intn(40) == 0 {
		pc.opts |= 1 << uint(6+c.Rng.Intn(20))
	}
	var names []string
	for _, a := range pc.attrs {
		names = append(names, a.name)
	}
	switch c.Rng.Intn(6) {
	case 0: // whitelist: random subset, exact names
		for _, n := range names {
			if c.Rng.Intn(2) == 0 {
				pc.wl = append(pc.wl, n)
			}
		}
	case 1: // whitelist naming every private attribute (and one public)
		pc.wl = append(pc.wl, privNames...)
		pc.wl = append(pc.wl, names[c.Rng.Intn(len(names))])
	case 2: // whitelist with other spellings and absent names
		for _, n := range names {
			if c.Rng.Intn(2) == 0 {
				pc.wl = append(pc.wl, caseVariant(c, n))
			}
		}
		pc.wl = append(pc.wl, "Absent")
	}
	switch c.Rng.Intn(8) {
	case 0:
		pc.enc = []string{names[c.Rng.Intn(len(names))]}
	case 1:
		pc.enc = []string{caseVariant(c, names[c.Rng.Intn(len(names))]), "Absent"}
	}
	switch c.Rng.Intn(4) {
	case 0:
		vs := [][3]int{{9, 8, 99}, {9, 9, 0}, {9, 9, 1}, {9, 10, 0}, {8, 99, 99}, {10, 0, 0}, {9, 8, 0}, {0, 0, 0}, {9, 9, -1}, {8, 10, 5}, {23, 0, 0}, {9, 0, 99}}
		v := vs[c.Rng.Intn(len(vs))]
		pc.peer = message.NewHTCondorVersion(v[0], v[1], v[2])
	case 1:
		pc.peer = message.NewHTCondorVersion(7+c.Rng.Intn(5), c.Rng.Intn(12), c.Rng.Intn(12))
	}
	switch r := c.Rng.Intn(20); {
	case r < 5:
	case r < 10:
		pc.keyed, pc.encrypt = true, true
	case r < 19:
		pc.keyed = true
	default:
		pc.encrypt = true
	}
	return pc
}

// matrixCases: the full option matrix on a 4-attribute ad x whitelist shapes x peers x stream states.
func matrixCases(g *pgen, stride int) []*pcase {
	var res []*pcase
	peers := []*message.HTCondorVersion{nil, message.NewHTCondorVersion(9, 8, 99), message.NewHTCondorVersion(9, 9, 0), message.NewHTCondorVersion(10, 1, 2)}
	k := 0
	for opts := 0; opts < 64; opts++ {
		for wlShape := 0; wlShape < 3; wlShape++ {
			for pi, peer := range peers {
				for st := 0; st < 3; st++ {
					k++
					if stride > 1 && k%stride != 0 {
						continue
					}
					g.caseNo++
					g.canNo = 0
					c1, c2, c3 := g.canary("v"), g.canary("v"), g.canary("n")
					pc := &pcase{label: fmt.Sprintf("matrix:o%d:w%d:p%d:s%d", opts, wlShape, pi, st), opts: opts, peer: peer}
					pc.attrs = []pattr{
						{name: "Name", src: "\"slot1@host\""},
						{name: "cLaImId", src: "\"<10.0.0.1:9618>#" + c1 + "#2\"", canary: c1},
						{name: "_CONDOR_PrivTok" + c3, src: "\"" + c2 + "\"", canary: c2, nameC: c3},
						{name: "MyType", src: "\"Machine\""},
					}
					switch wlShape {
					case 1:
						pc.wl = []string{"Name", "cLaImId", "_CONDOR_PrivTok" + c3}
					case 2:
						pc.wl = []string{"cLaImId"}
					}
					pc.keyed, pc.encrypt = st != 0, st == 1
					res = append(res, pc)
				}
			}
		}
	}
	return res
}

// ---- running one case ------------------------------------------------------------------------

func hexName(s string) string { return orc.Payload([]byte(s)) }

// parsePlainStrings decodes cleartext-mode payload bytes into NUL-terminated strings after the count.
func cstrings(b []byte) []string {
	var out []string
	for len(b) > 0 {
		i := bytes.IndexByte(b, 0)
		if i < 0 {
			out = append(out, string(b))
			break
		}
		out = append(out, string(b[:i]))
		b = b[i+1:]
	}
	return out
}

func containsFold(hay []byte, needle string) bool {
	return bytes.Contains(bytes.ToLower(hay), bytes.ToLower([]byte(needle)))
}

type privRun struct {
	c      *Ctx
	cases  []Case
	perKey map[string]int
}

func (pr *privRun) runCase(pc *pcase) {
	c := pr.c
	defer func() {
		if r := recover(); r != nil {
			c.Violate(Violation{Property: "C13", Key: "C13:panic:privacy", What: fmt.Sprintf("panic while serialising / reading an ad: %v", r), Ops: []string{pc.label}, Expected: "no panic", Observed: fmt.Sprint(r)})
		}
	}()
	ad, err := buildAd(pc.attrs)
	if err != nil {
		c.Res.Notes = append(c.Res.Notes, err.Error())
		return
	}
	// what the classad library itself says about the ad (independent of the message package)
	names := ad.GetAttributes()
	type nv struct{ n, v string }
	var listed []nv
	for _, n := range names {
		e, _ := ad.Lookup(n)
		listed = append(listed, nv{n, e.String()})
	}
	red := classad.New()
	for _, x := range listed {
		if specIsPriv(x.n) || inStrs(x.n, pc.enc) {
			continue
		}
		e, _ := ad.Lookup(x.n)
		red.InsertExpr(x.n, e)
	}

	ops := []string{"new"}
	real := []string{"ok"}
	log := func(op, r string) { ops = append(ops, op); real = append(real, r) }
	for _, x := range listed {
		log("attr "+hexName(x.n)+" "+orc.Payload([]byte(x.v)), "ok")
	}
	log(fmt.Sprintf("opt %d", pc.opts), "ok")
	for _, n := range pc.wl {
		log("wl "+hexName(n), "ok")
	}
	for _, n := range pc.enc {
		log("enc "+hexName(n), "ok")
	}
	if pc.peer != nil {
		log(fmt.Sprintf("peer %d %d %d", pc.peer.Major, pc.peer.Minor, pc.peer.Patch), "ok")
		log(fmt.Sprintf("ver %d %d %d", pc.peer.Major, pc.peer.Minor, pc.peer.Patch), "ok "+b01(pc.peer.BuiltSinceVersion(9, 9, 0)))
	}
	log(fmt.Sprintf("chan %s %s", b01(pc.keyed), b01(pc.encrypt)), "ok")
	log(fmt.Sprintf("types %s %s %s %s", evalType(ad, "MyType"), evalType(ad, "TargetType"), evalType(red, "MyType"), evalType(red, "TargetType")), "ok")
	for _, x := range listed {
		log("isp "+hexName(x.n), fmt.Sprintf("ok v1=%s v2=%s", b01(message.ClassAdAttributeIsPrivateV1(x.n)), b01(message.ClassAdAttributeIsPrivateV2(x.n))))
		if message.ClassAdAttributeIsPrivateAny(x.n) != specIsPriv(x.n) {
			c.Violate(Violation{Property: "C09", Key: "C09:predicate:" + asciiLower(x.n)[:min(len(x.n), 12)], What: "the private-attribute predicate disagrees with the property's definition (fixed names / reserved prefix, case-insensitive)",
				Ops: []string{"isp " + hexName(x.n)}, Expected: fmt.Sprintf("private=%v for %q", specIsPriv(x.n), x.n), Observed: fmt.Sprintf("private=%v", message.ClassAdAttributeIsPrivateAny(x.n))})
		}
	}

	fs, wire, w, err := serialise(pc, ad)
	if err != nil {
		log("send", "err "+errClass(err))
		pr.cases = append(pr.cases, Case{Label: pc.label, Ops: ops, Real: real})
		c.Violate(Violation{Property: "C09", Key: "C09:send-failed", What: "serialising the ad failed", Ops: ops, Expected: "ok", Observed: err.Error()})
		return
	}
	// ServerTime: time is a parameter of the model; read it back from the plaintext
	if pc.opts&4 != 0 {
		for _, f := range fs {
			if i := bytes.Index(f.payload, []byte("ServerTime = ")); i >= 0 {
				j := i + len("ServerTime = ")
				k := j
				for k < len(f.payload) && (f.payload[k] == '-' || (f.payload[k] >= '0' && f.payload[k] <= '9')) {
					k++
				}
				log("now "+string(f.payload[j:k]), "ok")
				break
			}
		}
	}
	// attribute selection, read off the wire: the expression strings in order
	sentNames, _, wireCount := pr.wireExprs(pc, fs)
	log("filter", "ok "+showNameList(sentNames))
	log("send", "ok "+showPFrames(fs))

	optIn := pc.optIn()
	st := pc.state()
	c.Count("state:" + stateNames[st])
	c.Count("optin:" + b01(optIn))
	c.Count(fmt.Sprintf("whitelist:%v", len(pc.wl) > 0))
	c.Count(fmt.Sprintf("peer:%s", peerClass(pc.peer)))
	nPriv := 0
	typeOverPriv := false
	for _, a := range pc.attrs {
		if specIsPriv(a.name) {
			nPriv++
		}
		if (asciiLower(a.name) == "mytype" || asciiLower(a.name) == "targettype") && a.canary == "" {
			for _, b := range pc.attrs {
				if specIsPriv(b.name) && strings.Contains(a.src, b.name) {
					typeOverPriv = true
				}
			}
		}
	}
	c.Count(fmt.Sprintf("private-attrs:%d", min(nPriv, 4)))
	if typeOverPriv {
		c.Count("type-expression-over-private")
	}
	nSealed := 0
	for _, f := range fs {
		if f.sealed {
			nSealed++
		}
	}
	if st == stKeyedClear && nSealed > 0 {
		c.Count("marker-path-taken")
	}

	// ---------------- property oracle (implementation only) ----------------
	var allPlain, clearOnly []byte
	for _, f := range fs {
		allPlain = append(allPlain, f.payload...)
		allPlain = append(allPlain, 0xff)
		if !f.sealed {
			clearOnly = append(clearOnly, f.raw...)
			clearOnly = append(clearOnly, 0xff)
		}
	}
	viol := func(key, what, exp, obs string) {
		if pr.perKey == nil {
			pr.perKey = map[string]int{}
		}
		pr.perKey[key]++
		c.Count("violation:" + key)
		if pr.perKey[key] > 4 { // keep room for other kinds of failure among the recorded ones
			return
		}
		c.Violate(Violation{Property: "C09", Key: key, What: what, Ops: append(append([]string{}, ops...), "# "+pc.describe()), Expected: exp, Observed: obs})
	}
	sentSet := map[string]bool{}
	for _, n := range sentNames {
		sentSet[n] = true
	}
	for _, a := range pc.attrs {
		want := pc.expectSent(a)
		priv := specIsPriv(a.name)
		if !want && priv {
			reason := "default-deny"
			if optIn {
				reason = "v2-to-old-peer"
				if len(pc.wl) > 0 && !inStrs(a.name, pc.wl) {
					reason = "not-whitelisted"
				}
			}
			where := "attribute"
			if a.canary != "" && (bytes.Contains(wire, []byte(a.canary)) || bytes.Contains(allPlain, []byte(a.canary))) {
				if !sentSet[a.name] {
					where = "type-trailer-or-elsewhere"
				}
				viol("C09:value-on-wire:"+reason+":"+where, "the value of a private attribute that must be withheld occurs in the emitted bytes",
					fmt.Sprintf("canary %s of %q absent from every byte written (options=%d optIn=%v peer=%s)", a.canary, a.name, pc.opts, optIn, peerClass(pc.peer)),
					"canary found; plaintext strings: "+abbrevStrs(cstrings(allPlain)))
			}
			if a.nameC != "" && !pc.mentioned(a) && (containsFold(wire, a.nameC) || containsFold(allPlain, a.nameC)) {
				viol("C09:name-on-wire:"+reason, "the name of a private attribute that must be withheld occurs in the emitted bytes",
					fmt.Sprintf("name %q absent", a.name), "name token found; plaintext strings: "+abbrevStrs(cstrings(allPlain)))
			}
			if sentSet[a.name] {
				viol("C09:attr-sent:"+reason, "a private attribute that must be withheld was serialised",
					fmt.Sprintf("%q not among the expressions sent", a.name), fmt.Sprintf("sent: %v", sentNames))
			}
		}
		if want != sentSet[a.name] && !(priv && !want) {
			viol("C09:selection:"+map[bool]string{true: "missing", false: "extra"}[want], "the set of serialised attributes differs from the statement's decision",
				fmt.Sprintf("%q sent=%v", a.name, want), fmt.Sprintf("sent: %v", sentNames))
		}
		// keyed, not encrypting: values of private attributes travel only inside protected frames
		if st == stKeyedClear && a.canary != "" && bytes.Contains(clearOnly, []byte(a.canary)) {
			viol("C09:value-in-clear:keyed-not-encrypting", "on a stream that holds a session key but is not encrypting, the value of a private attribute travelled outside the protected frames",
				fmt.Sprintf("canary %s of %q only inside AES-GCM frames", a.canary, a.name), "found in a cleartext frame: "+abbrevStrs(cstrings(clearOnly)))
		}
		if st == stKeyedEnc && a.canary != "" && bytes.Contains(wire, []byte(a.canary)) {
			viol("C09:value-in-clear:encrypting", "cleartext of a private attribute on an encrypting stream", "only ciphertext on the wire", "canary in the raw bytes")
		}
	}
	// twin: without the opt-in the bytes must not depend on the private attributes at all
	if !optIn {
		var pub []pattr
		for _, a := range pc.attrs {
			if !specIsPriv(a.name) {
				pub = append(pub, a)
			}
		}
		if tad, err := buildAd(pub); err == nil {
			tfs, twire, _, terr := serialise(pc, tad)
			same := terr == nil && showPFrames(tfs) == showPFrames(fs)
			if same && !pc.keyed {
				same = bytes.Equal(twire, wire)
			}
			if !same {
				viol("C09:twin-differs", "without the opt-in the emitted bytes depend on the ad's private attributes (non-interference broken)",
					"same frames as the ad without its private attributes: "+abbrevStrs(cstrings(planeOf(tfs))), "got: "+abbrevStrs(cstrings(allPlain)))
			}
		}
	}

	// ---------------- receiver: real GetClassAdRaw vs the model, real GetClassAd vs the ad sent ----------------
	if pc.opts&1 == 0 { // with NoTypes the receiver's two type reads belong to the caller's next fields
		w.bc.Feed(wire)
		rm := message.NewMessageFromStream(w.bs)
		txt, rerr := rm.GetClassAdRaw(bg)
		log("recv", renderRaw(txt, rerr, wireCount, len(w.bc.In)))
		// reconstruction by GetClassAd on a second pair of endpoints fed the same plaintext (fresh IV)
		pr.reconstruct(pc, ad, wire, viol)
		pr.malformed(pc, fs, &ops, &real)
	}
	nontrivial := nPriv > 0
	c.Distinct(strings.Join(ops, "\n"), nontrivial)
	pr.cases = append(pr.cases, Case{Label: pc.label, Ops: ops, Real: real})
	if len(c.Res.Samples) < 6 && (nPriv > 0 && (st == stKeyedClear && optIn || len(c.Res.Samples) < 2)) {
		c.Sample(map[string]any{"case": pc.describe(), "ops": abbreviate(ops), "real": abbreviate(real)})
	}
}

func planeOf(fs []pframe) []byte {
	var b []byte
	for _, f := range fs {
		b = append(b, f.payload...)
		b = append(b, 0xff)
	}
	return b
}

func abbrevStrs(ss []string) string {
	var out []string
	for _, s := range ss {
		if len(s) > 90 {
			s = s[:90] + "…"
		}
		out = append(out, strconv.Quote(s))
	}
	r := strings.Join(out, " ")
	if len(r) > 900 {
		r = r[:900] + "…"
	}
	return r
}

func peerClass(v *message.HTCondorVersion) string {
	if v == nil {
		return "unknown"
	}
	if specTooOld(v) {
		return "old"
	}
	return "new"
}

func (pc *pcase) describe() string {
	var as []string
	for _, a := range pc.attrs {
		as = append(as, a.name+" = "+a.src)
	}
	p := "nil"
	if pc.peer != nil {
		p = fmt.Sprintf("%d.%d.%d", pc.peer.Major, pc.peer.Minor, pc.peer.Patch)
	}
	s := strings.Join(as, "; ")
	if len(s) > 1500 {
		s = s[:1500] + "…"
	}
	return fmt.Sprintf("%s: ad [%s] Options=%d Whitelist=%q EncryptedAttrs=%q PeerVersion=%s stream=%s", pc.label, s, pc.opts, pc.wl, pc.enc, p, stateNames[pc.state()])
}

func showNameList(ns []string) string {
	var parts []string
	for _, n := range ns {
		parts = append(parts, orc.ShowBytes([]byte(n)))
	}
	return "[" + strings.Join(parts, ",") + "]"
}

// wireExprs reads the expression strings off the frames (independent decoder): count, optional
// ServerTime, expressions (a marker is followed by the real expression in the protected frames).
func (pr *privRun) wireExprs(pc *pcase, fs []pframe) (names, exprs []string, count int) {
	// string mode: length-prefixed when IsEncrypted() — for the marker path the protected part is
	// length-prefixed and the rest is not.
	var clear, sealed []byte
	for _, f := range fs {
		if f.sealed {
			sealed = append(sealed, f.payload...)
		} else {
			clear = append(clear, f.payload...)
		}
	}
	readL := func(b *[]byte) (string, bool) {
		if len(*b) < 8 {
			return "", false
		}
		n := int(binary.BigEndian.Uint64((*b)[:8]))
		if n < 1 || len(*b) < 8+n {
			return "", false
		}
		s := string((*b)[8 : 8+n-1])
		*b = (*b)[8+n:]
		return s, true
	}
	readC := func(b *[]byte) (string, bool) {
		i := bytes.IndexByte(*b, 0)
		if i < 0 {
			return "", false
		}
		s := string((*b)[:i])
		*b = (*b)[i+1:]
		return s, true
	}
	main := &clear
	mainL := pc.encrypt
	if pc.state() == stKeyedEnc {
		main = &sealed
	}
	if len(*main) < 8 {
		return nil, nil, 0
	}
	n := int(int64(binary.BigEndian.Uint64((*main)[:8])))
	*main = (*main)[8:]
	rd := func() (string, bool) {
		if mainL {
			return readL(main)
		}
		return readC(main)
	}
	for i := 0; i < n; i++ {
		s, ok := rd()
		if !ok {
			break
		}
		if s == "ZKM" && pc.state() == stKeyedClear {
			s, ok = readL(&sealed)
			if !ok {
				break
			}
		}
		count++
		if i == 0 && pc.opts&4 != 0 && strings.HasPrefix(s, "ServerTime = ") {
			continue
		}
		exprs = append(exprs, s)
		if k := strings.Index(s, "="); k >= 0 {
			// (the name is what precedes the first '='; blanks around it are not part of it — the
			// property does not fix the spacing of the rendering)
			names = append(names, strings.TrimSpace(s[:k]))
		} else {
			names = append(names, s)
		}
	}
	return names, exprs, count
}

// renderRaw renders the result of the real GetClassAdRaw in the oracle's vocabulary.
func renderRaw(txt string, err error, nExprs int, unread int) string {
	if err != nil {
		return "err " + privErrClass(err)
	}
	lines := strings.Split(strings.TrimSuffix(txt, "\n"), "\n")
	if txt == "" {
		lines = nil
	}
	if nExprs > len(lines) {
		nExprs = len(lines)
	}
	var es []string
	for _, l := range lines[:nExprs] {
		es = append(es, orc.ShowBytes([]byte(l)))
	}
	mt, tt := "-", "-"
	for _, l := range lines[nExprs:] {
		if strings.HasPrefix(l, "MyType = ") {
			if s, e := strconv.Unquote(strings.TrimPrefix(l, "MyType = ")); e == nil {
				mt = orc.ShowBytes([]byte(s))
			}
		}
		if strings.HasPrefix(l, "TargetType = ") {
			if s, e := strconv.Unquote(strings.TrimPrefix(l, "TargetType = ")); e == nil {
				tt = orc.ShowBytes([]byte(s))
			}
		}
	}
	left := 0
	if unread > 0 {
		left = 1
	}
	return fmt.Sprintf("ok n=%d e=[%s] mt=%s tt=%s left=%d", nExprs, strings.Join(es, ","), mt, tt, left)
}

func okOrClass(err error) string {
	if err == nil {
		return "ok"
	}
	return privErrClass(err)
}

func privErrClass(err error) string {
	m := err.Error()
	if strings.Contains(m, "is not a type name") {
		return "typename"
	}
	return errClass(err)
}

// reconstruct: the peer's GetClassAd must give back every attribute that was to be sent, with the
// same expression, and none that was to be withheld.
func (pr *privRun) reconstruct(pc *pcase, ad *classad.ClassAd, wire []byte, viol func(key, what, exp, obs string)) {
	pr.c.Planned("privacy-receiver-reconstructions", 1)
	w, err := newPWorld(pc.keyed, pc.encrypt, nil) // a fresh receiver: it learns the IV from the first protected frame
	if err != nil {
		pr.c.Res.Notes = append(pr.c.Res.Notes, "privacy: receiver world could not be set up: "+errClass(err))
		return
	}
	pr.c.Ran("privacy-receiver-reconstructions", 1)
	w.bc.Feed(wire)
	got, gerr := message.NewMessageFromStream(w.bs).GetClassAd(bg)
	unread := len(w.bc.In)
	// EVERY receiver reassembles what an honest sender produced, in every stream state (on a keyed,
	// not encrypting stream the secret travels in its own protected frame right after a cleartext frame
	// that ends with the marker): the raw/text receiver, the capped parsing receiver, and the skipping
	// reader, which must consume exactly the bytes the others consume. Implementation observables only.
	for _, rcv := range []string{"GetClassAdRaw", "GetClassAdWithMaxSize", "SkipClassAdRaw"} {
		pr.c.Planned("privacy-receiver-reconstructions", 1)
		w2, err := newPWorld(pc.keyed, pc.encrypt, nil)
		if err != nil {
			continue
		}
		pr.c.Ran("privacy-receiver-reconstructions", 1)
		w2.bc.Feed(wire)
		m2 := message.NewMessageFromStream(w2.bs)
		var rerr error
		var txt string
		var ad2 *classad.ClassAd
		switch rcv {
		case "GetClassAdRaw":
			txt, rerr = m2.GetClassAdRaw(bg)
		case "GetClassAdWithMaxSize":
			ad2, rerr = m2.GetClassAdWithMaxSize(bg, 2*len(wire)+4096)
		case "SkipClassAdRaw":
			rerr = m2.SkipClassAdRaw(bg)
		}
		pr.c.Count("receiver:" + rcv + ":" + stateNames[pc.state()])
		if (rerr == nil) != (gerr == nil) {
			viol("C09:receivers-disagree:"+rcv+":"+stateNames[pc.state()], "one receiver reassembles the ad an honest sender produced and another fails on the same bytes",
				fmt.Sprintf("GetClassAd: %s", okOrClass(gerr)), fmt.Sprintf("%s: %s", rcv, okOrClass(rerr)))
			continue
		}
		if rerr != nil {
			continue // both fail: reported below as receiver-failed
		}
		if u := len(w2.bc.In); u != unread {
			viol("C09:receivers-consume-different-bytes:"+rcv+":"+stateNames[pc.state()], "two receivers of the same ad leave different numbers of bytes unread on the connection", fmt.Sprint(unread), fmt.Sprint(u))
		}
		for _, a := range pc.attrs {
			if !pc.expectSent(a) || !specIsPriv(a.name) || a.canary == "" {
				continue
			}
			switch {
			case rcv == "GetClassAdRaw" && !strings.Contains(txt, a.canary):
				viol("C09:receiver-lost-attr:"+rcv+":"+stateNames[pc.state()], "a private attribute that was sent is missing from what the raw receiver reassembled", fmt.Sprintf("value of %q present", a.name), "absent")
			case rcv == "GetClassAdWithMaxSize":
				if ge, ok := ad2.Lookup(a.name); !ok || !strings.Contains(ge.String(), a.canary) {
					viol("C09:receiver-lost-attr:"+rcv+":"+stateNames[pc.state()], "a private attribute that was sent is missing from what the capped receiver reassembled", fmt.Sprintf("value of %q present", a.name), fmt.Sprintf("present=%v", ok))
				}
			}
		}
	}
	if gerr != nil {
		viol("C09:receiver-failed:"+stateNames[pc.state()], "the peer could not reassemble the ad", "GetClassAd succeeds", gerr.Error())
		return
	}
	for _, a := range pc.attrs {
		ln := asciiLower(a.name)
		if ln == "mytype" || ln == "targettype" {
			continue // the type trailer overrides these on the receiving side
		}
		want := pc.expectSent(a)
		ge, ok := got.Lookup(a.name)
		if want && !ok {
			viol("C09:receiver-lost-attr:"+stateNames[pc.state()], "an attribute that was sent is missing from the reassembled ad", fmt.Sprintf("%q present", a.name), "absent; got "+got.StringWithPrivate())
			continue
		}
		if !want && ok {
			viol("C09:receiver-has-withheld-attr", "an attribute that must be withheld reached the peer", fmt.Sprintf("%q absent", a.name), "present: "+ge.String())
			continue
		}
		if want {
			se, _ := ad.Lookup(a.name)
			if se.String() != ge.String() {
				// a re-rendering difference of the parser is C08's concern; a lost canary is ours
				if a.canary != "" && !strings.Contains(ge.String(), a.canary) {
					viol("C09:receiver-value-differs:"+stateNames[pc.state()], "a private attribute's value did not survive", se.String(), ge.String())
				} else {
					pr.c.Count("note:rerendered-value")
				}
			}
		}
	}
}

// malformed: the receiver on streams an honest sender would not produce, model vs implementation.
// `frames` hands the model the same frames the real receiver is fed.
func (pr *privRun) malformed(pc *pcase, fs []pframe, ops, real *[]string) {
	c := pr.c
	if c.Rng.Intn(3) != 0 {
		return
	}
	log := func(op, r string) { *ops = append(*ops, op); *real = append(*real, r) }
	type variant struct {
		name string
		fs   []pframe
	}
	var vs []variant
	// the same plaintext runs, cut at other places by an independent reference sender
	vs = append(vs, variant{"recut", recutFrames(c, fs)})
	if len(fs) > 1 {
		vs = append(vs, variant{"truncated", append([]pframe{}, fs[:len(fs)-1]...)})
	}
	for i, f := range fs {
		if f.sealed && pc.state() == stKeyedClear {
			// the protected frame after the marker is missing
			x := append(append([]pframe{}, fs[:i]...), fs[i+1:]...)
			vs = append(vs, variant{"secret-dropped", x})
			// the secret arrives unprotected
			y := append([]pframe{}, fs...)
			y[i].sealed = false
			vs = append(vs, variant{"secret-in-clear", y})
			break
		}
	}
	v := vs[c.Rng.Intn(len(vs))]
	c.Count("malformed:" + v.name)
	w, err := newPWorld(pc.keyed, pc.encrypt, nil)
	if err != nil {
		return
	}
	var ref *refcodec.Dir
	if pc.keyed {
		ref, _ = refcodec.NewDir(privKey, [32]byte{}, [32]byte{})
		copy(ref.BaseIV[:], randBytes(c, 16))
	}
	var specs []string
	sealedInClearMode := false
	for _, f := range v.fs {
		flag := byte(0)
		if f.eom {
			flag = 1
		}
		if f.sealed && ref != nil {
			w.bc.Feed(ref.Seal(flag, f.payload).Bytes())
		} else {
			w.bc.Feed(refcodec.Frame{Flag: flag, Len: uint32(len(f.payload)), Body: f.payload}.Bytes())
		}
		specs = append(specs, fmt.Sprintf("%s/%s/%s", orc.Payload(f.payload), b01(f.eom), b01(f.sealed && ref != nil)))
		_ = sealedInClearMode
	}
	log("frames "+strings.Join(specs, " "), "ok")
	txt, rerr := message.NewMessageFromStream(w.bs).GetClassAdRaw(bg)
	n := 0
	if rerr == nil {
		// expression count as the receiver saw it: first 8 payload bytes
		var first []byte
		for _, f := range v.fs {
			first = append(first, f.payload...)
			if len(first) >= 8 {
				break
			}
		}
		if len(first) >= 8 {
			n = int(int64(binary.BigEndian.Uint64(first[:8])))
		}
	}
	log("recv", renderRaw(txt, rerr, n, len(w.bc.In)))
}

// recutFrames re-cuts every maximal run of equally protected frames at random positions (the last
// frame of a run stays non-empty; the end-of-message flag stays on the very last frame).
func recutFrames(c *Ctx, fs []pframe) []pframe {
	var out []pframe
	i := 0
	for i < len(fs) {
		j := i
		var run []byte
		for j < len(fs) && fs[j].sealed == fs[i].sealed {
			run = append(run, fs[j].payload...)
			j++
		}
		last := j == len(fs)
		var cuts []int
		for k := 0; k < c.Rng.Intn(3); k++ {
			if len(run) > 1 {
				cuts = append(cuts, c.Rng.Intn(len(run)))
			}
		}
		sort.Ints(cuts)
		pos := 0
		for _, cut := range cuts {
			out = append(out, pframe{payload: run[pos:cut], sealed: fs[i].sealed})
			pos = cut
		}
		out = append(out, pframe{payload: run[pos:], sealed: fs[i].sealed, eom: last && fs[len(fs)-1].eom})
		i = j
	}
	return out
}

func runPrivacy(c *Ctx) error {
	c.Res.Rule = "ads mixing public attributes, every fixed private name and the reserved prefix in random case variants, near-miss names, nested ads, MyType/TargetType as literals and as expressions (also over private attributes), unique canary values and name tokens x option bits 0..63 (+ stray high bits) x whitelist shapes (none / subset / naming the private attributes / other spellings) x EncryptedAttrs x peer versions around 9.9.0 x stream state (no key / keyed+encrypting / keyed not encrypting / flag only); the full option matrix on a 4-attribute ad first; serialised by the real PutClassAdWithOptions+FinishMessage on real streams over a recording connection, protected frames opened by refcodec; frames, attribute selection, predicates, version comparison and GetClassAdRaw (as sent, re-cut, truncated, secret dropped / in clear) compared with the Lean model; property oracle on the implementation: canary search over all bytes and plaintexts, twin serialisation without the private attributes, cleartext-only search on keyed non-encrypting streams, reconstruction by the real GetClassAd; distinct by op-sequence hash; non-trivial = the ad carries a private attribute"
	g := &pgen{c: c}
	pr := &privRun{c: c}
	// every case variant of every fixed name and of the reserved prefix (with and without a
	// suffix), plus near misses: the predicates against the statement's definition and the model
	{
		var ops, real []string
		check := func(n string) {
			v1, v2 := message.ClassAdAttributeIsPrivateV1(n), message.ClassAdAttributeIsPrivateV2(n)
			ops = append(ops, "isp "+hexName(n))
			real = append(real, fmt.Sprintf("ok v1=%s v2=%s", b01(v1), b01(v2)))
			if v1 != specIsV1(n) || v2 != specIsV2(n) || message.ClassAdAttributeIsPrivateAny(n) != specIsPriv(n) {
				c.Violate(Violation{Property: "C09", Key: "C09:predicate:" + asciiLower(n)[:min(len(n), 12)], What: "the private-attribute predicate disagrees with the property's definition (fixed names / reserved prefix, case-insensitive)",
					Ops: []string{"isp " + hexName(n)}, Expected: fmt.Sprintf("v1=%v v2=%v for %q", specIsV1(n), specIsV2(n), n), Observed: fmt.Sprintf("v1=%v v2=%v", v1, v2)})
			}
			c.Count("predicate-names")
		}
		variants := func(base string, f func(string)) {
			var idx []int
			for i := 0; i < len(base); i++ {
				if base[i] >= 'a' && base[i] <= 'z' {
					idx = append(idx, i)
				}
			}
			for m := 0; m < 1<<uint(len(idx)); m++ {
				b := []byte(base)
				for k, i := range idx {
					if m>>uint(k)&1 == 1 {
						b[i] -= 32
					}
				}
				f(string(b))
			}
		}
		for _, n := range specV1 {
			variants(n, check)
		}
		variants(specV2Prefix, func(p string) { check(p); check(p + "X"); check(p[:len(p)-1]); check("x" + p) })
		for _, n := range nearMiss {
			check(n)
			check(asciiLower(n))
		}
		check("")
		pr.cases = append(pr.cases, Case{Label: "predicates", Ops: ops, Real: real})
		c.Distinct("predicates", true)
	}
	// boundary set: the type trailer is evaluated, in the clear, outside the filters — type
	// expressions over private attributes in every stream state, with and without the opt-in
	for st := 0; st < 3; st++ {
		for _, opts := range []int{0, 32, 34, 33} {
			for _, peer := range []*message.HTCondorVersion{nil, message.NewHTCondorVersion(9, 8, 0)} {
				for shape := 0; shape < 3; shape++ {
					g.caseNo++
					g.canNo = 0
					c1, c2 := g.canary("v"), g.canary("v")
					pc := &pcase{label: fmt.Sprintf("types:s%d:o%d:p%v:%d", st, opts, peer != nil, shape), opts: opts, peer: peer, keyed: st != 0, encrypt: st == 1}
					pc.attrs = []pattr{{name: "Name", src: "\"slot1\""}, {name: "ClaimId", src: "\"" + c1 + "\"", canary: c1}, {name: "_condor_privKey", src: "\"" + c2 + "\"", canary: c2}}
					switch shape {
					case 0:
						pc.attrs = append(pc.attrs, pattr{name: "MyType", src: "ClaimId"})
					case 1:
						pc.attrs = append(pc.attrs, pattr{name: "MyType", src: "\"Machine\""}, pattr{name: "TargetType", src: "strcat(\"t\", _condor_privKey)"})
					case 2:
						pc.attrs = append(pc.attrs, pattr{name: "MyType", src: "Name"}, pattr{name: "TargetType", src: "claimid"})
					}
					c.Count("kind:type-trailer")
					pr.runCase(pc)
				}
			}
		}
	}
	stride := c.Pick(3, 1)
	ms := matrixCases(g, stride)
	for _, pc := range ms {
		c.Count("kind:matrix")
		pr.runCase(pc)
	}
	n := c.Pick(6000, 900000)
	for i := 0; i < n; i++ {
		big := i%c.Pick(400, 200) == 7
		pc := g.genCase(fmt.Sprintf("gen:%d", i), big)
		c.Count("kind:generated")
		if big {
			c.Count("kind:multiframe")
		}
		pr.runCase(pc)
		if len(pr.cases) >= 2000 {
			if err := diffBatch(c, "privacy", pr.cases, nil); err != nil {
				return err
			}
			pr.cases = nil
		}
	}
	// boundary sizes of a private expression on the marker path: just under / over the flush
	// threshold (an empty protected frame precedes it) and over 1 MiB (split across frames)
	for _, sz := range []int{16375 - 40, 16384, 40000, c.Pick(70000, 1100000)} {
		g.caseNo++
		cn := g.canary("v")
		pc := &pcase{label: fmt.Sprintf("bigsecret:%d", sz), opts: 32, keyed: true,
			attrs: []pattr{{name: "Name", src: "\"n\""}, {name: "ClaimId", src: "\"" + cn + strings.Repeat("k", sz) + "\"", canary: cn}, {name: "MyType", src: "\"Machine\""}}}
		c.Count("kind:bigsecret")
		pr.runCase(pc)
	}
	// several ads through ONE Message while the stream's crypto mode changes between them: the
	// decision "this private attribute goes under the secret marker" belongs to the moment the ad
	// is written, not to the Message (property oracle only: canaries in clear frames)
	for i := 0; i < c.Pick(200, 4000); i++ {
		pr.multiAd(g, i)
	}
	pr.scopedTypes(g)
	if err := diffBatch(c, "privacy", pr.cases, nil); err != nil {
		return err
	}
	return nil
}

// multiAd serialises 2–4 ads with opted-in private attributes through one Message on a keyed
// stream, switching the stream between encrypting and not encrypting before each ad (and
// sometimes while the Message already exists), with a message boundary after each ad or only at
// the end. Oracle (C09, third sentence): on a stream that holds a session key the value of a
// private attribute never occurs in a frame that travelled unprotected; and the receiver,
// switched the same way, reassembles every ad.
func (pr *privRun) multiAd(g *pgen, idx int) {
	c := pr.c
	defer func() {
		if r := recover(); r != nil {
			c.Violate(Violation{Property: "C13", Key: "C13:panic:privacy-multi", What: fmt.Sprintf("panic while serialising several ads through one Message: %v", r), Ops: []string{fmt.Sprintf("multi:%d", idx)}, Expected: "no panic", Observed: fmt.Sprint(r)})
		}
	}()
	// planned vs run: the case counts as run when it reached a verdict (a violation, or the scan of the wire)
	c.Planned("privacy-multi-ad-cases", 1)
	judged := false
	defer func() {
		if judged {
			c.Ran("privacy-multi-ad-cases", 1)
		}
	}()
	w, err := newPWorld(true, c.Rng.Intn(2) == 0, nil)
	if err != nil {
		return
	}
	m := message.NewMessageForStream(w.as)
	nAds := 2 + c.Rng.Intn(3)
	perAdEOM := c.Rng.Intn(2) == 0
	var ops []string
	var canaries []string
	var modes []bool
	ops = append(ops, fmt.Sprintf("# multi:%d one Message, keyed stream, %d ads, message boundary %s", idx, nAds, map[bool]string{true: "after each ad", false: "at the end"}[perAdEOM]))
	for k := 0; k < nAds; k++ {
		encNow := c.Rng.Intn(2) == 0
		if k == 1 {
			encNow = !modes[0] // the second ad always sees the other mode than the first
		}
		w.as.SetEncrypted(encNow)
		modes = append(modes, encNow)
		g.caseNo++
		g.canNo = 0
		cn := g.canary("v")
		canaries = append(canaries, cn)
		name := []string{"ClaimId", "Capability", "_condor_privTok", "TransferKey", "claimid"}[c.Rng.Intn(5)]
		ad, err := buildAd([]pattr{{name: "Name", src: fmt.Sprintf("\"slot%d\"", k)}, {name: name, src: "\"" + cn + "\"", canary: cn}, {name: "MyType", src: "\"Machine\""}})
		if err != nil {
			return
		}
		ops = append(ops, fmt.Sprintf("chan 1 %s", b01(encNow)), fmt.Sprintf("put-ad#%d IncludePrivate Name=slot%d %s=%q", k, k, name, cn))
		if err := m.PutClassAdWithOptions(bg, ad, &message.PutClassAdConfig{Options: message.PutClassAdIncludePrivate}); err != nil {
			judged = true
			c.Violate(Violation{Property: "C09", Key: "C09:multi:send-failed", What: "serialising an ad through a Message that already carried one failed", Ops: ops, Expected: "ok", Observed: err.Error()})
			return
		}
		if perAdEOM || k == nAds-1 {
			// the bytes buffered for this ad leave under the mode it was written in
			if err := m.FinishMessage(bg); err != nil {
				judged = true
				c.Violate(Violation{Property: "C09", Key: "C09:multi:finish-failed", What: "FinishMessage failed", Ops: ops, Expected: "ok", Observed: err.Error()})
				return
			}
			ops = append(ops, "finish")
			if k != nAds-1 {
				m = pickMessage(c, m, w)
			}
		} else if modes[k] {
			// nothing may linger in the buffer across a switch from encrypting to clear: an
			// application that changes the mode mid-message flushes first (FlushFrame)
			if err := m.FlushFrame(bg, false); err != nil {
				return
			}
			ops = append(ops, "flush")
		}
	}
	fs, err := w.split(w.ac.AllOut)
	judged = true
	if err != nil {
		c.Violate(Violation{Property: "C09", Key: "C09:multi:wire-unparseable", What: "the bytes written do not parse as frames", Ops: ops, Expected: "frames", Observed: err.Error()})
		return
	}
	ops = append(ops, "# wire: "+abbrevStrs([]string{showPFrames(fs)}))
	for k, cn := range canaries {
		for _, f := range fs {
			if !f.sealed && bytes.Contains(f.payload, []byte(cn)) {
				if multiViolations++; multiViolations > 2 {
					c.Count("violations_not_listed:C09:multi:secret-in-clear-frame")
					continue
				}
				c.Violate(Violation{Property: "C09", Key: "C09:multi:secret-in-clear-frame", What: fmt.Sprintf("ad #%d of one Message: the value of an opted-in private attribute travelled in an unprotected frame although the stream holds a session key (stream was %s when the ad was written; the first ad of the Message was written while it was %s)",
					k, map[bool]string{true: "encrypting", false: "not encrypting"}[modes[k]], map[bool]string{true: "encrypting", false: "not encrypting"}[modes[0]]), Ops: ops,
					Expected: "the value only inside protected frames", Observed: "cleartext frame contains " + cn})
			}
		}
	}
	c.Distinct(strings.Join(ops, "\n"), true)
	c.Count("kind:multi-ad")
}

var multiViolations int

// scopedTypes: the type trailer is EVALUATED; an expression in it may reach, through the TARGET or
// PARENT scope of the ad, a private attribute of ANOTHER ad (the match candidate, the enclosing
// ad). The serialised ad itself may hold no private attribute at all. Oracle: the canary value of
// the other ad's private attribute does not occur in the emitted bytes (nor in any plaintext).
func (pr *privRun) scopedTypes(g *pgen) {
	c := pr.c
	for _, scope := range []string{"TARGET", "PARENT"} {
		for _, own := range []bool{false, true} {
			for st := 0; st < 3; st++ {
				for _, opts := range []int{0, 32} {
					g.caseNo++
					g.canNo = 0
					cn, cown := g.canary("v"), g.canary("v")
					other, err := buildAd([]pattr{{name: "Name", src: "\"other\""}, {name: "ClaimId", src: "\"" + cn + "\"", canary: cn}})
					if err != nil {
						return
					}
					attrs := []pattr{{name: "Name", src: "\"slot1\""}, {name: "MyType", src: scope + ".ClaimId"}, {name: "TargetType", src: "strcat(\"t\", " + scope + ".ClaimId)"}}
					if own {
						attrs = append(attrs, pattr{name: "Capability", src: "\"" + cown + "\"", canary: cown})
					}
					ad, err := buildAd(attrs)
					if err != nil {
						return
					}
					if scope == "TARGET" {
						ad.SetTarget(other)
					} else {
						ad.SetParent(other)
					}
					pc := &pcase{label: fmt.Sprintf("scoped-types:%s:own-private=%v:s%d:o%d", scope, own, st, opts), opts: opts, keyed: st != 0, encrypt: st == 1}
					fs, wire, _, err := serialise(pc, ad)
					if err != nil {
						continue
					}
					ops := []string{"# " + pc.label, fmt.Sprintf("# ad: Name=\"slot1\"; MyType=%s.ClaimId; TargetType=strcat(\"t\",%s.ClaimId)%s;  %s ad: ClaimId=%q", scope, scope, map[bool]string{true: "; Capability=<private>", false: ""}[own], scope, cn),
						fmt.Sprintf("opt %d", opts), fmt.Sprintf("chan %s %s", b01(pc.keyed), b01(pc.encrypt)), "send -> " + abbrevStrs([]string{showPFrames(fs)})}
					leak := bytes.Contains(wire, []byte(cn))
					for _, f := range fs {
						if bytes.Contains(f.payload, []byte(cn)) {
							leak = true
						}
					}
					c.Distinct(pc.label, true)
					c.Count("kind:scoped-types")
					// a PUBLIC attribute of the scope still reaches the trailer (the evaluation scopes are kept)
					if opts == 0 && !own {
						pub, err := buildAd([]pattr{{name: "Name", src: "\"slot1\""}, {name: "MyType", src: scope + ".Name"}})
						if err == nil {
							if scope == "TARGET" {
								pub.SetTarget(other)
							} else {
								pub.SetParent(other)
							}
							if pfs, _, _, err := serialise(pc, pub); err == nil {
								found := false
								for _, f := range pfs {
									if bytes.Contains(f.payload, []byte("other\x00")) {
										found = true
									}
								}
								if !found {
									c.Violate(Violation{Property: "C09", Key: "C09:type-trailer-scope-lost:" + scope, What: "MyType = " + scope + ".Name (a public attribute of the scope ad) no longer evaluates: the receiver would not reassemble the sender's type name", Ops: ops,
										Expected: "MyType \"other\" in the trailer", Observed: abbrevStrs([]string{showPFrames(pfs)})})
								}
							}
						}
					}
					if leak {
						c.Violate(Violation{Property: "C09", Key: "C09:type-trailer-scope:" + scope, What: fmt.Sprintf("the evaluated type trailer carries the value of a private attribute of the ad's %s scope (another ad's ClaimId) — without any opt-in for it", scope), Ops: ops,
							Expected: "the private value occurs nowhere in the emitted bytes", Observed: "canary " + cn + " found"})
					}
				}
			}
		}
	}
}

// pickMessage: after a message boundary the application either keeps using the same Message
// object or makes a new one on the same stream
func pickMessage(c *Ctx, m *message.Message, w *pworld) *message.Message {
	if c.Rng.Intn(2) == 0 {
		return message.NewMessageForStream(w.as)
	}
	return m
}
