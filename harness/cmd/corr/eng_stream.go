package main

import (
	"bytes"
	"encoding/binary"
	"encoding/hex"
	"fmt"
	"os"
	"strings"

	"cedarverif/harness/internal/orc"
	"cedarverif/harness/internal/refcodec"
)

func init() {
	register(Engine{"framing", runFraming})
	register(Engine{"tamper", runTamper})
	register(Engine{"gcmformat", runGcmFormat})
	register(Engine{"handoff", runHandoff})
}

const MiB = 1 << 20

func fillBytes(n int, b byte) []byte { return bytes.Repeat([]byte{b}, n) }

func randBytes(c *Ctx, n int) []byte {
	b := make([]byte, n)
	for i := range b {
		b[i] = byte(c.Rng.Intn(256))
	}
	return b
}

// boundary-weighted sizes for C01
func pickSize(c *Ctx, allowHuge bool) int {
	r := c.Rng.Intn(100)
	switch {
	case r < 25:
		return c.Rng.Intn(12)
	case r < 40:
		return 4090 + c.Rng.Intn(12)
	case r < 50:
		return c.Rng.Intn(300)
	case r < 60:
		return 8185 + c.Rng.Intn(12)
	case r < 72:
		return 16380 + c.Rng.Intn(10)
	case r < 80:
		return c.Rng.Intn(20000)
	case r < 84 && allowHuge:
		return MiB - 40 + c.Rng.Intn(44)
	default:
		return c.Rng.Intn(64)
	}
}

func payloadOf(c *Ctx, n int) []byte {
	if n > 64 {
		return fillBytes(n, byte(0x61+c.Rng.Intn(20)))
	}
	return randBytes(c, n)
}

// prelude exchanges a few cleartext frames each way (so the handshake digests are non-trivial).
func prelude(c *Ctx, w *sworld, max int) {
	k := c.Rng.Intn(max + 1)
	for i := 0; i < k; i++ {
		from := "A"
		if c.Rng.Intn(2) == 0 {
			from = "B"
		}
		to := w.peer(from).name
		n := 1 + c.Rng.Intn(40)
		if c.Rng.Intn(6) == 0 {
			n = 0
		}
		_ = w.send(from, 1, randBytes(c, n))
		_, _, _ = w.recvf(to)
	}
}

/* ---------------------------------------------------------------- framing (C01) */

type c01msg struct{ data []byte }

func runFraming(c *Ctx) error {
	c.Res.Rule = "random + boundary-weighted message sequences (0, 4 KiB flush threshold ±, 16 KiB ±, 1 MiB minus/plus the 16/32-byte GCM overhead), each assembled by SendMessage / SendPartialMessage+SendMessage / WriteMessage*+EndMessage in random compositions (every composition for messages ≤ 6 bytes), plaintext and AES-GCM, received by ReceiveCompleteMessage or StartMessageRead/ReadMessageBytes/EndMessageRead or Message.GetRemainingBytes; + runs of 2-5 messages whose last frame is EMPTY (partials + empty final SendMessage, buffered writer flushed by its last write, typed Message flushed right before FinishMessage, wholly empty messages, empty partial frames) followed by further messages, plain and AES-GCM, read mostly through the typed layer; + AES-GCM sessions restored through NewStreamWithCryptoState whose base IV word is within 5 frames of 2^32 (nonce word wraps mid-session), 3-9 messages in both directions, every sending style (single, partials, buffered, typed layer) × every receive API; distinct by op-sequence hash; non-trivial = ≥2 frames on the wire or a size within 64 bytes of a limit"
	var cases []Case
	n := c.Pick(700, 12000)
	// exhaustive compositions of short messages (all ways to cut m bytes into writes), both modes
	maxComp := c.Pick(5, 8)
	for enc := 0; enc < 2; enc++ {
		for m := 0; m <= maxComp; m++ {
			for mask := 0; mask < 1<<uint(max(m-1, 0)); mask++ {
				cs := framingComposition(c, enc == 1, m, mask)
				cases = append(cases, cs)
			}
		}
	}
	// the 1 MiB band, both modes, every size from limit-34 .. limit+1 on the first and on a later frame
	for enc := 0; enc < 2; enc++ {
		for d := -34; d <= 1; d++ {
			if !c.Thorough() && d%3 != 0 && d != -33 && d != -32 && d != -17 && d != -16 && d != -31 && d != -15 && d != 1 && d != 0 {
				continue
			}
			for later := 0; later < 2; later++ {
				cases = append(cases, framingBand(c, enc == 1, MiB+d, later == 1))
			}
		}
	}
	for i := 0; i < n; i++ {
		cases = append(cases, framingRandom(c, i))
	}
	// messages whose LAST frame is empty (the end-of-message mark travels alone), followed by further
	// messages: boundaries must survive through every receive API, the typed layer above all
	for i := 0; i < c.Pick(120, 1500); i++ {
		cases = append(cases, framingEmptyEOM(c, i))
	}
	// sessions whose base IV word sits just below 2^32 (the IV is 16 random bytes: any word is possible),
	// so that IV word + frame counter passes 2^32 in mid-session: several messages each way
	for i := 0; i < c.Pick(60, 600); i++ {
		cases = append(cases, framingWrap(c, i))
	}
	// accumulated size: ONE message of 1-3 MiB (only a single frame is bounded by MaxMessageSize)
	// assembled from many partial sends / buffered writes / by the typed layer, position-dependent
	// content, received through each receive API
	modes := []string{"partials", "writes", "typed"}
	if c.Thorough() {
		for enc := 0; enc < 2; enc++ {
			for mi := range modes {
				for api := 0; api < 3; api++ {
					cases = append(cases, framingBig(c, enc == 1, modes[mi], api, MiB+c.Rng.Intn(2*MiB)))
				}
			}
		}
	} else {
		r := int(c.Seed)
		cases = append(cases, framingBig(c, r%2 == 1, "partials", 0, MiB+MiB/4+c.Rng.Intn(MiB/2)))
		cases = append(cases, framingBig(c, r%2 == 0, "writes", 1, MiB+MiB/4+c.Rng.Intn(MiB/2)))
		cases = append(cases, framingBig(c, true, "typed", 2, 2*MiB+c.Rng.Intn(MiB/2)))
		cases = append(cases, framingBig(c, c.Rng.Intn(2) == 1, modes[(r+1)%3], (r+2)%3, MiB+c.Rng.Intn(MiB)))
	}
	return diffBatch(c, "stream", cases, nil)
}

// bigChunks cuts `total` bytes into many pieces: a run of small ones first (boundary-weighted around
// the 4 KiB flush threshold), then pieces of 100 KiB .. maxChunk, with a few small ones in between.
func bigChunks(c *Ctx, total, maxChunk int) []int {
	var out []int
	left := total
	take := func(n int) {
		if n > left {
			n = left
		}
		if n > 0 {
			out = append(out, n)
			left -= n
		}
	}
	for i := 0; i < 12+c.Rng.Intn(12); i++ {
		take(1 + pickSize(c, false)%6000)
	}
	for left > 0 {
		switch c.Rng.Intn(6) {
		case 0:
			take(1 + c.Rng.Intn(5000))
		case 1:
			take(maxChunk)
		default:
			take(100*1024 + c.Rng.Intn(maxChunk-100*1024))
		}
	}
	return out
}

func framingBig(c *Ctx, enc bool, mode string, api int, total int) Case {
	w := framingSetup(c, enc)
	if !enc && c.Rng.Intn(4) != 0 {
		// a plaintext session freezes its handshake digests once established (security layer)
		w.finalize("A")
		w.finalize("B")
	}
	seed := c.Rng.Intn(1 << 20)
	msg := patBytes(seed, 0, total)
	w.pat = &patState{seed: seed, msg: msg}
	ok := true
	switch mode {
	case "partials":
		ch := bigChunks(c, total, MiB-40)
		off := 0
		for i, n := range ch {
			fl := 0
			if i == len(ch)-1 {
				fl = 1
			}
			if w.send("A", fl, msg[off:off+n]) != nil {
				ok = false
				break
			}
			off += n
		}
	case "writes":
		w.start("A")
		ch := bigChunks(c, total, 512*1024)
		off := 0
		for _, n := range ch {
			if w.write("A", msg[off:off+n]) != nil {
				ok = false
				break
			}
			off += n
		}
		if ok && w.end("A") != nil {
			ok = false
		}
	default:
		if w.typedBytes("A", msg) != nil {
			ok = false
		}
	}
	w.pat = nil
	c.Count("kind:big:" + mode + ":" + modeOf(w) + ":" + []string{"recvc", "incr", "mrest"}[api])
	var sent [][]byte
	if ok {
		sent = append(sent, msg)
	} else {
		// "of any sizes the sender accepts": every piece here is far below the frame limit, and a message
		// has no size limit of its own
		c.Violate(Violation{Property: "C01", Key: "C01:sender-rejects-big-message:" + mode + ":" + modeOf(w), What: "the sender refused a piece of a multi-MiB message although every frame is within the frame limit",
			Ops: append([]string{}, w.ops...), Expected: "accepted", Observed: w.real[len(w.real)-1]})
	}
	return framingFinish(c, w, fmt.Sprintf("big %s total=%d enc=%v api=%d", mode, total, enc, api), sent, true, api)
}

func framingFinish(c *Ctx, w *sworld, label string, sent [][]byte, nontrivial bool, forceAPI ...int) Case {
	// receive everything the sender's application sent; property oracle = exact equality
	api := c.Rng.Intn(3)
	if len(forceAPI) > 0 {
		api = forceAPI[0]
		if api == 2 {
			api = 3 // typed layer: Message.GetRemainingBytes
		}
	}
	for i, m := range sent {
		if w.dead {
			break
		}
		var got []byte
		var err error
		if api == 3 {
			got, err = w.mrest("B")
		} else if api == 0 || (api == 2 && i%2 == 0) {
			got, err = w.recvc("B")
		} else {
			err = w.startread("B")
			for err == nil {
				k := 1 + c.Rng.Intn(5000)
				if len(m) > 100000 {
					k = 300000 + c.Rng.Intn(500000)
				}
				var d []byte
				d, err = w.read("B", k)
				got = append(got, d...)
				if isEOM(err) { // end of this message: the reader need not know lengths in advance
					err = nil
					break
				}
			}
			if err == nil {
				err = w.endread("B")
			}
		}
		if err != nil {
			c.Violate(Violation{Property: "C01", Key: "C01:recv-rejects-accepted:" + modeOf(w) + ":" + errKind(err),
				What: "a message the sender accepted was rejected by the cedar receiver", Ops: append([]string{}, w.ops...),
				Expected: fmt.Sprintf("message %d of %d bytes delivered", i, len(m)), Observed: err.Error()})
			break
		}
		if !bytes.Equal(got, m) {
			c.Violate(Violation{Property: "C01", Key: "C01:bytes-differ:" + modeOf(w),
				What: "received message differs from what was sent", Ops: append([]string{}, w.ops...),
				Expected: orc.ShowBytes(m), Observed: orc.ShowBytes(got)})
			break
		}
	}
	if !w.dead {
		if _, err := w.recvc("B"); err == nil {
			c.Violate(Violation{Property: "C01", Key: "C01:extra-message", What: "receiver produced a message that was never sent",
				Ops: append([]string{}, w.ops...), Expected: "eof", Observed: "a message"})
		}
	}
	w.finish()
	key := strings.Join(w.ops, "\n")
	c.Distinct(key, nontrivial)
	c.Count("mode:" + modeOf(w))
	cs := Case{Label: label, Ops: w.ops, Real: w.real}
	if nontrivial {
		c.Sample(map[string]any{"label": label, "ops": abbreviate(w.ops), "real": abbreviate(w.real)})
	}
	return cs
}

func abbreviate(l []string) []string {
	out := make([]string, 0, len(l))
	for i, s := range l {
		if i >= 14 {
			out = append(out, fmt.Sprintf("… (%d more)", len(l)-i))
			break
		}
		if len(s) > 160 {
			s = s[:160] + "…"
		}
		out = append(out, s)
	}
	return out
}

func modeOf(w *sworld) string {
	if w.a.key != nil {
		return "enc"
	}
	return "plain"
}

func framingSetup(c *Ctx, enc bool) *sworld {
	w := newWorld()
	if enc {
		prelude(c, w, 2)
		w.key("A", 7)
		w.key("B", 7)
	}
	return w
}

// framingSetupWrap: both ends continue an established AES-GCM session (NewStreamWithCryptoState) whose
// base IVs have a leading word within a few frames of 2^32 and whose counters are small: the nonce
// word of each direction wraps after 0..5 more frames while the frame counter is nowhere near its limit.
func framingSetupWrap(c *Ctx) *sworld {
	w := newWorld()
	var ivA, ivB [16]byte
	copy(ivA[:], randBytes(c, 16))
	copy(ivB[:], randBytes(c, 16))
	ca, cb := uint32(1+c.Rng.Intn(3)), uint32(1+c.Rng.Intn(3))
	// word + counter of the NEXT frame is 2^32 - r, r in 0..4 (r = 0: the next frame is the one that wraps)
	binary.BigEndian.PutUint32(ivA[:4], uint32(0x100000000-uint64(c.Rng.Intn(5))-uint64(ca)))
	binary.BigEndian.PutUint32(ivB[:4], uint32(0x100000000-uint64(c.Rng.Intn(5))-uint64(cb)))
	fa := &blobFields{flags: 1 | 4 | 8, key: keyBytes(7), eiv: ivA, div: ivB, ectr: ca, dctr: cb, fs: make([]byte, 32), fr: make([]byte, 32)}
	fb := &blobFields{flags: 1 | 4 | 8, key: keyBytes(7), eiv: ivB, div: ivA, ectr: cb, dctr: ca, fs: make([]byte, 32), fr: make([]byte, 32)}
	_ = w.importBlob("A", buildBlob(fa))
	_ = w.importBlob("B", buildBlob(fb))
	return w
}

// framingWrap: 3-9 messages, either direction at random, each assembled by one of the sending styles
// (single frame, explicit partial frames, buffered writes, the typed layer) and read by one of the
// receive APIs (ReceiveCompleteMessage, StartMessageRead/ReadMessageBytes/EndMessageRead,
// Message.GetRemainingBytes), on a session whose nonce words wrap past 2^32 on the way.
func framingWrap(c *Ctx, idx int) Case {
	w := framingSetupWrap(c)
	nm := 3 + c.Rng.Intn(7)
	for i := 0; i < nm && !w.dead; i++ {
		from := "A"
		if c.Rng.Intn(2) == 0 {
			from = "B"
		}
		to := w.peer(from).name
		var msg []byte
		ok := true
		style := c.Rng.Intn(4)
		switch style {
		case 0:
			msg = payloadOf(c, pickSize(c, false))
			ok = w.send(from, 1, msg) == nil
		case 1:
			for j := 0; j < 1+c.Rng.Intn(3) && ok; j++ {
				d := payloadOf(c, pickSize(c, false)%300)
				ok = w.send(from, 0, d) == nil
				msg = append(msg, d...)
			}
			if ok {
				d := payloadOf(c, c.Rng.Intn(40))
				ok = w.send(from, 1, d) == nil
				msg = append(msg, d...)
			}
		case 2:
			w.start(from)
			for j := 0; j < 1+c.Rng.Intn(4) && ok; j++ {
				d := payloadOf(c, pickSize(c, false))
				ok = w.write(from, d) == nil
				msg = append(msg, d...)
			}
			ok = ok && w.end(from) == nil
		default:
			msg = payloadOf(c, pickSize(c, false))
			ok = w.typedBytes(from, msg) == nil
		}
		if !ok {
			c.Violate(Violation{Property: "C01", Key: "C01:sender-rejects:wrap-iv", What: "the sender refused a message of ordinary size on a session whose nonce word is near 2^32",
				Ops: append([]string{}, w.ops...), Expected: "accepted", Observed: w.real[len(w.real)-1]})
			break
		}
		api := c.Rng.Intn(3)
		var got []byte
		var err error
		switch api {
		case 0:
			got, err = w.recvc(to)
		case 1:
			got, err = w.mrest(to)
		default:
			err = w.startread(to)
			for err == nil {
				var d []byte
				d, err = w.read(to, 1+c.Rng.Intn(5000))
				got = append(got, d...)
				if isEOM(err) {
					err = w.endread(to)
					break
				}
			}
		}
		c.Count("wrap-iv:" + []string{"single", "partials", "writes", "typed"}[style] + ":" + []string{"recvc", "mrest", "incr"}[api])
		if err != nil {
			c.Violate(Violation{Property: "C01", Key: "C01:recv-rejects-accepted:wrap-iv:" + errKind(err),
				What: "a message the sender accepted was rejected by the cedar receiver (session whose IV word + counter passes 2^32)", Ops: append([]string{}, w.ops...),
				Expected: fmt.Sprintf("message %d of %d bytes delivered", i, len(msg)), Observed: "error class " + errKind(err)})
			break
		}
		if !bytes.Equal(got, msg) {
			c.Violate(Violation{Property: "C01", Key: "C01:bytes-differ:wrap-iv",
				What: "received message differs from what was sent", Ops: append([]string{}, w.ops...),
				Expected: orc.ShowBytes(msg), Observed: orc.ShowBytes(got)})
			break
		}
	}
	w.finish()
	c.Distinct(strings.Join(w.ops, "\n"), true)
	c.Count("kind:wrap-iv")
	c.Count("mode:enc")
	if idx == 0 {
		c.Sample(map[string]any{"label": "wrap-iv", "ops": abbreviate(w.ops), "real": abbreviate(w.real)})
	}
	return Case{Label: fmt.Sprintf("wrap-iv#%d", idx), Ops: w.ops, Real: w.real}
}

// framingEmptyEOM: 2-5 messages in a row; most of them end in a frame that carries the end-of-message
// flag and NO payload — which ordinary sender chunking produces: explicit partial frames followed by an
// empty final SendMessage, a buffered writer whose last WriteMessage crossed the flush threshold (so
// EndMessage has nothing left), a typed Message flushed right before FinishMessage, a wholly empty
// message. Read back through the typed layer (Message.GetRemainingBytes; two cases in three) or one of
// the stream-level receive APIs; oracle: same messages, same boundaries, nothing extra.
func framingEmptyEOM(c *Ctx, idx int) Case {
	enc := idx%2 == 1
	w := framingSetup(c, enc)
	if enc && c.Rng.Intn(6) == 0 {
		w = framingSetupWrap(c)
	}
	nm := 2 + c.Rng.Intn(4)
	var sent [][]byte
	small := func() []byte { return randBytes(c, 1+c.Rng.Intn(12)) }
	for i := 0; i < nm; i++ {
		var msg []byte
		ok := true
		style := c.Rng.Intn(6)
		if i == 0 {
			style = idx / 2 % 5 // the first message always ends in an empty frame, every style in turn
		}
		switch style {
		case 0: // explicit partial frames, then an empty final frame
			for j := 0; j < c.Rng.Intn(3)+1 && ok; j++ {
				d := small()
				if c.Rng.Intn(5) == 0 {
					d = payloadOf(c, pickSize(c, false))
				}
				ok = w.send("A", 0, d) == nil
				msg = append(msg, d...)
			}
			ok = ok && w.send("A", 1, nil) == nil
		case 1: // buffered writer: the last write reaches the threshold and flushes; EndMessage sends an empty frame
			w.start("A")
			if c.Rng.Intn(2) == 0 {
				d := small()
				ok = w.write("A", d) == nil
				msg = append(msg, d...)
			}
			d := payloadOf(c, 4096-len(msg)+c.Rng.Intn(3)*c.Rng.Intn(50))
			ok = ok && w.write("A", d) == nil
			msg = append(msg, d...)
			ok = ok && w.end("A") == nil
		case 2: // typed message, flushed right before FinishMessage
			var chunks [][]byte
			for j := 0; j < 1+c.Rng.Intn(3); j++ {
				d := small()
				chunks = append(chunks, d)
				msg = append(msg, d...)
			}
			ok = w.typedChunks("A", chunks) == nil
		case 3: // a wholly empty message (one empty end-of-message frame)
			switch c.Rng.Intn(3) {
			case 0:
				ok = w.send("A", 1, nil) == nil
			case 1:
				w.start("A")
				ok = w.end("A") == nil
			default:
				ok = w.typedChunks("A", nil) == nil
			}
		case 4: // empty partial frames in the middle, empty final frame
			d := small()
			ok = w.send("A", 0, nil) == nil && w.send("A", 0, d) == nil && w.send("A", 0, nil) == nil && w.send("A", 1, nil) == nil
			msg = d
		default: // an ordinary message in between
			msg = small()
			ok = w.send("A", 1, msg) == nil
		}
		if !ok {
			c.Violate(Violation{Property: "C01", Key: "C01:sender-rejects:empty-final-frame:" + modeOf(w), What: "the sender refused a small message whose last frame is empty",
				Ops: append([]string{}, w.ops...), Expected: "accepted", Observed: w.real[len(w.real)-1]})
			break
		}
		if msg == nil {
			msg = []byte{}
		}
		sent = append(sent, msg)
		c.Count(fmt.Sprintf("empty-eom:style%d", style))
	}
	api := 2 // typed layer
	if idx%3 == 2 {
		api = c.Rng.Intn(2)
	}
	c.Count("kind:empty-eom")
	return framingFinish(c, w, fmt.Sprintf("empty-eom#%d enc=%v", idx, enc), sent, true, api)
}

func framingComposition(c *Ctx, enc bool, m, mask int) Case {
	w := framingSetup(c, enc)
	data := randBytes(c, m)
	// cut points given by mask bits; each piece is a WriteMessage, then EndMessage
	start := 0
	for i := 1; i < m; i++ {
		if mask&(1<<uint(i-1)) != 0 {
			_ = w.write("A", data[start:i])
			start = i
		}
	}
	_ = w.write("A", data[start:])
	_ = w.end("A")
	c.Count("kind:composition")
	return framingFinish(c, w, fmt.Sprintf("composition m=%d mask=%d enc=%v", m, mask, enc), [][]byte{data}, m >= 2)
}

func framingBand(c *Ctx, enc bool, size int, later bool) Case {
	w := framingSetup(c, enc)
	var sent [][]byte
	if later {
		d := []byte{1, 2, 3}
		if w.send("A", 1, d) == nil {
			sent = append(sent, d)
		}
	}
	d := fillBytes(size, 0x42)
	if w.send("A", 1, d) == nil {
		sent = append(sent, d)
	}
	c.Count("kind:band")
	return framingFinish(c, w, fmt.Sprintf("band size=%d enc=%v later=%v", size, enc, later), sent, true)
}

func framingRandom(c *Ctx, idx int) Case {
	enc := c.Rng.Intn(2) == 1
	w := framingSetup(c, enc)
	if enc && c.Rng.Intn(5) == 0 {
		w = framingSetupWrap(c) // the same histories on a session whose nonce word wraps
		c.Count("random:on-wrap-session")
	}
	nm := 1 + c.Rng.Intn(4)
	var sent [][]byte
	frames := 0
	near := false
	huge := c.Rng.Intn(40) == 0
	for i := 0; i < nm && !w.dead; i++ {
		var msg []byte
		ok := true
		switch c.Rng.Intn(3) {
		case 0: // single frame
			n := pickSize(c, huge)
			near = near || nearLimit(n)
			d := payloadOf(c, n)
			if w.send("A", 1, d) != nil {
				ok = false
			}
			msg = d
			frames++
		case 1: // explicit partial frames
			k := c.Rng.Intn(4)
			for j := 0; j < k && ok; j++ {
				n := pickSize(c, false)
				near = near || nearLimit(n)
				d := payloadOf(c, n)
				if w.send("A", 0, d) != nil {
					ok = false
				}
				msg = append(msg, d...)
				frames++
			}
			if ok {
				n := pickSize(c, false)
				d := payloadOf(c, n)
				if w.send("A", 1, d) != nil {
					ok = false
				}
				msg = append(msg, d...)
				frames++
			}
		default: // buffered writes
			w.start("A")
			k := 1 + c.Rng.Intn(5)
			for j := 0; j < k && ok; j++ {
				n := pickSize(c, false)
				near = near || nearLimit(n)
				d := payloadOf(c, n)
				if w.write("A", d) != nil {
					ok = false
				}
				msg = append(msg, d...)
			}
			if ok && w.end("A") != nil {
				ok = false
			}
			frames += 2
		}
		if !ok {
			// sender refused: nothing of this message may count; stop the case here
			break
		}
		sent = append(sent, msg)
	}
	c.Count("kind:random")
	return framingFinish(c, w, fmt.Sprintf("random#%d", idx), sent, frames >= 2 || near)
}

func nearLimit(n int) bool {
	for _, l := range []int{4096, 16384, MiB} {
		if n > l-64 && n < l+64 {
			return true
		}
	}
	return false
}

/* ---------------------------------------------------------------- tamper (C02) */

type fault struct {
	kind string
	i, j int
	arg  int
}

func (f fault) String() string { return fmt.Sprintf("%s(%d,%d,%d)", f.kind, f.i, f.j, f.arg) }

// applyFault edits the honest byte stream.
func applyFault(stream []byte, frames []refcodec.Frame, f fault) []byte {
	join := func(fs []refcodec.Frame) []byte {
		var b []byte
		for _, x := range fs {
			b = append(b, x.Bytes()...)
		}
		return b
	}
	cp := append([]refcodec.Frame{}, frames...)
	switch f.kind {
	case "bitflip":
		b := append([]byte{}, stream...)
		if f.i < len(b) {
			b[f.i] ^= 1 << uint(f.arg%8)
		}
		return b
	case "drop":
		if f.i < len(cp) {
			cp = append(cp[:f.i], cp[f.i+1:]...)
		}
		return join(cp)
	case "dup":
		if f.i < len(cp) {
			cp = append(cp[:f.i+1], cp[f.i:]...)
		}
		return join(cp)
	case "swap":
		if f.i+1 < len(cp) {
			cp[f.i], cp[f.i+1] = cp[f.i+1], cp[f.i]
		}
		return join(cp)
	case "replay": // frame i again at position j
		if f.i < len(cp) && f.j <= len(cp) {
			x := cp[f.i]
			cp = append(cp[:f.j], append([]refcodec.Frame{x}, cp[f.j:]...)...)
		}
		return join(cp)
	case "cut": // stream ends arg bytes early
		if f.arg < len(stream) {
			return append([]byte{}, stream[:len(stream)-f.arg]...)
		}
		return nil
	case "shorten": // frame i loses its last arg bytes and its header is re-written to match
		if f.i < len(cp) {
			x := cp[f.i]
			k := f.arg
			if k > len(x.Body) {
				k = len(x.Body)
			}
			x.Body = x.Body[:len(x.Body)-k]
			x.Len = uint32(len(x.Body))
			cp[f.i] = x
		}
		return join(cp)
	case "stripiv": // first frame without its IV prefix (header re-written)
		if len(cp) > 0 && len(cp[0].Body) >= 16 {
			x := cp[0]
			x.Body = x.Body[16:]
			x.Len = uint32(len(x.Body))
			cp[0] = x
		}
		return join(cp)
	case "ivshift": // frame i presented as a first frame: IV prefix = base IV advanced by i
		if f.i < len(cp) && f.i > 0 && len(cp[0].Body) >= 16 {
			iv := append([]byte{}, cp[0].Body[:16]...)
			binary.BigEndian.PutUint32(iv[:4], binary.BigEndian.Uint32(iv[:4])+uint32(f.i))
			x := cp[f.i]
			x.Body = append(iv, x.Body...)
			x.Len = uint32(len(x.Body))
			return join(append([]refcodec.Frame{x}, cp...))
		}
		return join(cp)
	case "forge": // forged frame: flag j, length arg, at position i
		body := bytes.Repeat([]byte{0xa5}, f.arg)
		x := refcodec.Frame{Flag: byte(f.j), Len: uint32(f.arg), Body: body}
		if f.i <= len(cp) {
			cp = append(cp[:f.i], append([]refcodec.Frame{x}, cp[f.i:]...)...)
		}
		return join(cp)
	case "flag": // flip the end flag of frame i
		if f.i < len(cp) {
			cp[f.i].Flag ^= 1
		}
		return join(cp)
	case "setflag": // end flag of frame i rewritten to arg (2..10: values the receivers accept in a header; 11, 255: invalid)
		if f.i < len(cp) {
			cp[f.i].Flag = byte(f.arg)
		}
		return join(cp)
	}
	return stream
}

// wireSpec renders a (tampered) frame in the oracle's `wire` vocabulary relative to the honest frames.
func wireSpec(sent []sentFrame, base int, g refcodec.Frame) string {
	for i := base; i < len(sent); i++ {
		h := sent[i]
		if !h.enc {
			continue
		}
		idx := i
		mod := ""
		if g.Flag != h.f.Flag {
			mod = fmt.Sprintf("/f%d", g.Flag)
		}
		ct := h.f.Body
		if h.hasIV {
			ct = h.f.Body[16:]
		}
		if bytes.Equal(g.Body, h.f.Body) {
			return fmt.Sprintf("h%d%s", idx, mod)
		}
		if bytes.Equal(g.Body, ct) {
			return fmt.Sprintf("h%d/noiv%s", idx, mod)
		}
		if len(g.Body) >= 16 && bytes.Equal(g.Body[16:], ct) {
			var iv [16]byte
			copy(iv[:], g.Body[:16])
			return fmt.Sprintf("h%d/iv:%s%s", idx, ivStr(iv), mod)
		}
	}
	if len(g.Body) > 64 {
		return fmt.Sprintf("r%d:fill:%d:00", g.Flag, len(g.Body))
	}
	return fmt.Sprintf("r%d:%s", g.Flag, orc.Payload(g.Body))
}

func runTamper(c *Ctx) error {
	c.Res.Rule = "honest AES-GCM transcripts (1–4 messages, single/multi-frame, either direction, with/without cleartext prelude) × single faults (every bit of the byte stream for the short transcripts; every frame dropped/duplicated/swapped/replayed/shortened/cut; IV stripped or shifted; forged frames of length 0,1,15,16,17,40 with either flag at every position; end-flag flips) + random 2–3-fault combinations; + reflection (the receiving endpoint's own protected frames fed back to it at any position, IV kept / stripped / the first frame's IV put in front, with no, different and byte-identical cleartext exchanged each way before the key); + transcripts whose nonce word passes 2^32 (streams restored from a crypto-state blob) with every frame dropped/duplicated/swapped/replayed; every fault presented to EVERY receive path (ReceiveCompleteMessage, Message.GetRemainingBytes, StartMessageRead/ReadMessageBytes/EndMessageRead, ReceiveFrame, GetSecret), end flags 0..10 and invalid ones rewritten/forged, transcripts of secrets (PutSecret/GetSecret with encryption switched off around them); + honest transcripts with NO fault whose payload is at the size limit of a protected frame (every size MaxMessageSize-40 .. MaxMessageSize+1, as the first IV-bearing frame of a direction and as a later one, through SendMessage / SendPartialMessage / WriteMessage+EndMessage / WriteFrame / the typed layer / PutSecret, position-dependent content, followed by another message, read through every message-level receive API and compared byte for byte); the harness is the on-path editor between two real keyed streams; distinct by (transcript, fault list); non-trivial = the tampered byte stream differs from the honest one"
	var cases []Case
	nT := c.Pick(3, 10)
	nS := c.Pick(1, 3) // transcripts of secrets (PutSecret with encryption switched off around them)
	for t := 0; t < nT+nS; t++ {
		seedMsgs := tamperTranscript(c, t)
		if t >= nT {
			seedMsgs = tamperSecretTranscript(c, t-nT)
		}
		// build the honest stream once to enumerate faults
		probe := tamperRun(c, seedMsgs, nil, false, tamperProbeAPI(seedMsgs))
		honest, frames := probe.honest, probe.frames
		var faults [][]fault
		// every bit of short transcripts (quick: every byte, 2 bits; thorough: all 8)
		bits := []int{0, 7}
		if c.Thorough() {
			bits = []int{0, 1, 2, 3, 4, 5, 6, 7}
		}
		if len(honest) <= c.Pick(220, 600) {
			for o := 0; o < len(honest); o++ {
				for _, b := range bits {
					faults = append(faults, []fault{{kind: "bitflip", i: o, arg: b}})
				}
			}
		} else {
			for k := 0; k < c.Pick(150, 1200); k++ {
				faults = append(faults, []fault{{kind: "bitflip", i: c.Rng.Intn(len(honest)), arg: c.Rng.Intn(8)}})
			}
		}
		for i := range frames {
			faults = append(faults, []fault{{kind: "drop", i: i}}, []fault{{kind: "dup", i: i}}, []fault{{kind: "swap", i: i}},
				[]fault{{kind: "flag", i: i}}, []fault{{kind: "ivshift", i: i}})
			for j := 0; j <= len(frames); j++ {
				faults = append(faults, []fault{{kind: "replay", i: i, j: j}})
			}
			for _, k := range []int{1, 15, 16, 17} {
				faults = append(faults, []fault{{kind: "shorten", i: i, arg: k}})
			}
			// every other end-flag value a header may carry (2..10 pass the receivers' header check and
			// mean "end of message" to readNextFrame / the typed layer), plus two invalid ones
			for v := 2; v <= 11; v++ {
				faults = append(faults, []fault{{kind: "setflag", i: i, arg: v}})
			}
			faults = append(faults, []fault{{kind: "setflag", i: i, arg: 255}})
		}
		for _, k := range []int{1, 4, 5, 16, 21} {
			faults = append(faults, []fault{{kind: "cut", arg: k}})
		}
		faults = append(faults, []fault{{kind: "stripiv"}})
		for pos := 0; pos <= len(frames); pos++ {
			for _, fl := range []int{0, 1, 2, 3, 4, 5, 6, 7, 8, 9, 10} {
				for _, ln := range []int{0, 1, 15, 16, 17, 40} {
					if fl >= 2 && ln != 0 && ln != 16 && !c.Thorough() {
						continue
					}
					faults = append(faults, []fault{{kind: "forge", i: pos, j: fl, arg: ln}})
				}
			}
		}
		kinds := []string{"bitflip", "drop", "dup", "swap", "replay", "shorten", "forge", "flag", "cut", "setflag"}
		for k := 0; k < c.Pick(100, 1500); k++ {
			var fs []fault
			for q := 0; q < 2+c.Rng.Intn(2); q++ {
				kd := kinds[c.Rng.Intn(len(kinds))]
				f := fault{kind: kd, i: c.Rng.Intn(len(frames) + 1), j: c.Rng.Intn(len(frames) + 1), arg: c.Rng.Intn(20)}
				if kd == "bitflip" {
					f.i = c.Rng.Intn(len(honest))
				}
				if kd == "forge" {
					f.j = c.Rng.Intn(2)
					if c.Rng.Intn(3) == 0 {
						f.j = 2 + c.Rng.Intn(9)
					}
				}
				if kd == "setflag" {
					f.arg = 2 + c.Rng.Intn(10)
				}
				fs = append(fs, f)
			}
			faults = append(faults, fs)
		}
		cases = append(cases, probe.cs)
		if seedMsgs.secret {
			// secrets are only readable through GetSecret (crypto is off on both ends around them)
			for _, fs := range faults {
				if fs[0].kind != "bitflip" || c.Rng.Intn(3) == 0 {
					cases = append(cases, tamperRun(c, seedMsgs, fs, true, "getsecret").cs)
				}
			}
			continue
		}
		for _, a := range tamperAPIs[1:] {
			cases = append(cases, tamperRun(c, seedMsgs, nil, true, a).cs) // honest transcript through every API
		}
		for _, fs := range faults {
			r := tamperRun(c, seedMsgs, fs, true, "recvc")
			cases = append(cases, r.cs)
			// the same fault seen through every other receive path: the typed layer
			// (Message.GetRemainingBytes), the incremental API (StartMessageRead/ReadMessageBytes/
			// EndMessageRead -> readNextFrame), plain ReceiveFrame (what GetFile uses) and GetSecret.
			// All of them for frame-level faults; a sample of them for the (many) bit flips.
			for _, a := range tamperAPIs[1:] {
				if fs[0].kind != "bitflip" || c.Rng.Intn(8) == 0 {
					cases = append(cases, tamperRun(c, seedMsgs, fs, true, a).cs)
				}
			}
		}
	}
	// nonce word wrap: equal-length single-frame messages around the point where base word + counter
	// passes 2^32, with every frame dropped / duplicated / swapped / replayed
	for _, dir := range []bool{true, false} {
		sp := tamperSpec{dirAB: dir, wrap: true}
		for i := 0; i < 5; i++ {
			sp.msgs = append(sp.msgs, [][]byte{randBytes(c, 9)})
		}
		probe := tamperRun(c, sp, nil, false, "recvc")
		cases = append(cases, probe.cs)
		for i := range probe.frames {
			fl := [][]fault{{{kind: "drop", i: i}}, {{kind: "dup", i: i}}, {{kind: "swap", i: i}}}
			for j := 0; j <= len(probe.frames); j++ {
				fl = append(fl, []fault{{kind: "replay", i: i, j: j}})
			}
			for _, fs := range fl {
				cases = append(cases, tamperRun(c, sp, fs, true, "recvc").cs)
				c.Count("wrap-iv")
			}
		}
	}
	// no attacker at all: honest transcripts whose frames are as large as a protected frame can be.
	// Every payload size from MaxMessageSize-40 to MaxMessageSize+1 (the band in which tag and IV push
	// the wire form over the receiver's bound), as the FIRST protected frame of the direction (IV on
	// board) and as a later one, through every sending API, read through every message-level receive API
	{
		apis := tamperNearMaxSendAPIs
		k := 0
		for d := -40; d <= 1; d++ {
			for later := 0; later < 2; later++ {
				for ai, sa := range apis {
					k++
					if !c.Thorough() {
						// quick: the edges of the two bands exactly, every API at each; the rest of the band rotates
						edge := d == -33 || d == -32 || d == -31 || d == -17 || d == -16 || d == -15 || d == 0
						if edge {
							if (d+40+later+ai+int(c.Seed))%2 != 0 && sa != "send1" {
								continue
							}
						} else if (k+int(c.Seed))%5 != 0 {
							continue
						}
					}
					cases = append(cases, tamperNearMax(c, MiB+d, later == 1, sa, tamperAPIs[k%3], k%4 != 0))
				}
			}
		}
	}
	// reflection: an endpoint's own outgoing protected frames fed back to it
	for i := 0; i < c.Pick(120, 1500); i++ {
		cases = append(cases, reflectRun(c, i))
	}
	norm := func(s string) string {
		if strings.HasPrefix(s, "err ") {
			return "err"
		}
		return s
	}
	return diffBatch(c, "stream", cases, norm)
}

// reflectRun: both endpoints send; the on-path party feeds B frames that B itself emitted (IV
// prefix kept, stripped, or — for a later frame — the first frame's IV prefix put in front), at the
// start of the direction or after some honest frames from A. Nothing of it may be delivered.
func reflectRun(c *Ctx, idx int) Case {
	w := newWorld()
	// 0: nothing in clear before the key; 4: the SAME bytes each way — in both cases the two
	// transcript digests are equal and the first-frame AAD is symmetric
	prelude := c.Rng.Intn(5)
	hello := randBytes(c, 1+c.Rng.Intn(10))
	if prelude >= 1 {
		_ = w.send("A", 1, hello)
		_, _, _ = w.recvf("B")
	}
	if prelude == 4 {
		_ = w.send("B", 1, hello)
		_, _, _ = w.recvf("A")
	} else if prelude >= 2 {
		_ = w.send("B", 1, randBytes(c, 1+c.Rng.Intn(10)))
		_, _, _ = w.recvf("A")
	}
	w.key("A", 9)
	w.key("B", 9)
	b := w.ep("B")
	baseOwn := len(b.sent)
	// B's own traffic (delivered honestly to A or not at all; irrelevant to B's receive side)
	nOwn := 1 + c.Rng.Intn(3)
	var ownMsgs [][]byte
	for i := 0; i < nOwn; i++ {
		m := randBytes(c, c.Rng.Intn(20))
		ownMsgs = append(ownMsgs, m)
		_ = w.send("B", 1, m)
	}
	ownBytes := append([]byte{}, w.pending["A"]...)
	ownFrames, _ := refcodec.ParseFrames(ownBytes)
	w.pending["A"] = nil
	// honest frames from A
	a := w.ep("A")
	baseA := len(a.sent)
	nA := c.Rng.Intn(3)
	var msgs [][]byte
	for i := 0; i < nA; i++ {
		m := randBytes(c, c.Rng.Intn(20))
		msgs = append(msgs, m)
		_ = w.send("A", 1, m)
	}
	honest := append([]byte{}, w.pending["B"]...)
	hFrames, _ := refcodec.ParseFrames(honest)
	w.pending["B"] = nil
	// the wire B sees: k honest frames, then a reflected own frame, then the rest
	k := 0
	if len(hFrames) > 0 {
		k = c.Rng.Intn(len(hFrames) + 1)
	}
	j := c.Rng.Intn(len(ownFrames))
	g := ownFrames[j]
	variant := pick(c, []string{"asis", "asis", "noiv", "firstiv"})
	spec := fmt.Sprintf("o%d", baseOwn+j)
	switch variant {
	case "noiv":
		if j == 0 && len(g.Body) >= 16 {
			g.Body = g.Body[16:]
			g.Len = uint32(len(g.Body))
			spec += "/noiv"
		}
	case "firstiv":
		if j > 0 && len(ownFrames[0].Body) >= 16 {
			var iv [16]byte
			copy(iv[:], ownFrames[0].Body[:16])
			g.Body = append(append([]byte{}, iv[:]...), g.Body...)
			g.Len = uint32(len(g.Body))
			spec += "/iv:" + ivStr(iv)
		}
	}
	var wire []byte
	var specs []string
	for i := 0; i < k; i++ {
		wire = append(wire, hFrames[i].Bytes()...)
		specs = append(specs, wireSpec(a.sent, baseA, hFrames[i]))
	}
	wire = append(wire, g.Bytes()...)
	specs = append(specs, spec)
	for i := k; i < len(hFrames); i++ {
		wire = append(wire, hFrames[i].Bytes()...)
		specs = append(specs, wireSpec(a.sent, baseA, hFrames[i]))
	}
	b.c.Feed(wire)
	w.log("wire B "+strings.Join(specs, " "), "ok")
	var delivered [][]byte
	for i := 0; i < len(msgs)+2; i++ {
		m, err := w.recvc("B")
		if err != nil {
			break
		}
		delivered = append(delivered, m)
	}
	// property oracle C02: what B's application receives is a prefix of what A's application sent,
	// and nothing at or after the reflected frame
	bad := ""
	if len(delivered) > k {
		bad = fmt.Sprintf("%d messages delivered although a reflected frame sits at position %d", len(delivered), k)
	}
	for i := range delivered {
		if i >= len(msgs) || !bytes.Equal(delivered[i], msgs[i]) {
			bad = fmt.Sprintf("message %d is not what the peer sent (an endpoint's own frame was accepted back)", i)
			break
		}
	}
	cls := "distinct-digests"
	if prelude == 0 || prelude == 4 {
		cls = "equal-digests"
	}
	c.Count("reflect:" + cls + ":" + variant)
	if bad != "" {
		c.Violate(Violation{Property: "C02", Key: "C02:reflect:" + cls + ":" + variant + fmt.Sprintf(":own-frame-%d-at-%d", j, k), What: bad,
			Ops: append([]string{}, w.ops...), Expected: fmt.Sprintf("at most %d messages, all from the peer", k), Observed: fmt.Sprintf("%d delivered", len(delivered))})
	}
	w.finish()
	c.Distinct(fmt.Sprintf("reflect|%d|%d|%d|%d|%s|%d", prelude, nOwn, nA, j, variant, k), true)
	_ = ownMsgs
	return Case{Label: fmt.Sprintf("reflect#%d", idx), Ops: w.ops, Real: w.real}
}

// the ways an application puts one near-maximal payload on the wire: SendMessage; SendPartialMessage
// then a short final frame; the buffered writer (one WriteMessage flushes it as a partial frame,
// EndMessage closes the message); Stream.WriteFrame with and without end-of-message (what the typed
// layer calls); the typed layer itself (Message.PutBytes + FinishMessage, which cuts frames that just
// fit a protected frame); PutSecret
var tamperNearMaxSendAPIs = []string{"send1", "send0", "write", "wframe1", "wframe0", "typed", "secret"}

// tamperNearMax: C02's first sentence with NO on-path party — "everything the receiver hands to the
// application is an exact in-order prefix of what the sender's application sent, with message boundaries
// intact" — on payloads at the size limit of a protected frame. Whatever the sender ACCEPTED must arrive
// byte for byte (position-dependent content), followed by the next message, and nothing else.
func tamperNearMax(c *Ctx, size int, later bool, sendAPI, recvAPI string, dirAB bool) Case {
	w := newWorld()
	from, to := "A", "B"
	if !dirAB {
		from, to = "B", "A"
	}
	if c.Rng.Intn(2) == 0 {
		_ = w.send("A", 1, []byte("hello"))
		_, _, _ = w.recvf("B")
		_ = w.send("B", 1, []byte("world!"))
		_, _, _ = w.recvf("A")
	}
	w.key("A", 9)
	w.key("B", 9)
	if sendAPI == "secret" {
		recvAPI = "getsecret"
	}
	var expect [][]byte
	if later {
		m := randBytes(c, 1+c.Rng.Intn(9))
		m[len(m)-1] |= 1 // (GetSecret strips one trailing NUL)
		if w.send(from, 1, m) == nil {
			expect = append(expect, m)
		}
	}
	seed := c.Rng.Intn(1 << 20)
	msg := patBytes(seed, 0, size)
	whole := msg
	w.pat = &patState{seed: seed, msg: msg}
	accepted, panicked := false, false
	func() {
		defer func() {
			if p := recover(); p != nil {
				w.dead, panicked = true, true
				c.Violate(Violation{Property: "C02", Key: "C02:honest-nearmax:sender-panic:" + sendAPI, What: "the sender panicked on an honest payload near the frame size limit; nothing of it can be delivered as sent",
					Ops: append(append([]string{}, w.ops...), fmt.Sprintf("# then: %s of %d bytes", sendAPI, size)), Expected: "the payload is sent as it is, or refused with an error", Observed: fmt.Sprint("panic: ", p)})
			}
		}()
		switch sendAPI {
		case "send1":
			accepted = w.send(from, 1, msg) == nil
		case "send0":
			tail := randBytes(c, 1+c.Rng.Intn(5))
			if w.send(from, 0, msg) == nil {
				accepted = w.send(from, 1, tail) == nil
				whole = append(append([]byte{}, msg...), tail...)
			}
		case "write":
			w.start(from)
			if w.write(from, msg) == nil {
				accepted = w.end(from) == nil
			}
		case "wframe1":
			accepted = w.writeFrame(from, msg, true) == nil
		case "wframe0":
			tail := randBytes(c, c.Rng.Intn(5))
			if w.writeFrame(from, msg, false) == nil {
				accepted = w.writeFrame(from, tail, true) == nil
				whole = append(append([]byte{}, msg...), tail...)
			}
		case "typed":
			accepted = w.typedBytes(from, msg) == nil
		case "secret":
			// a secret is a string: constant text, size counts the NUL PutSecret appends
			w.pat = nil
			sec := fillBytes(size-1, byte(0x41+c.Rng.Intn(20)))
			accepted = w.secret(from, sec) == nil
			whole = sec
		}
	}()
	w.pat = nil
	if accepted {
		expect = append(expect, whole)
	}
	c.Count("nearmax:" + sendAPI + ":accepted=" + b01(accepted) + ":later=" + b01(later))
	// the next message: a lost boundary or missing bytes of the big one would show here at the latest
	if !w.dead {
		m := randBytes(c, 1+c.Rng.Intn(9))
		m[len(m)-1] |= 1
		if w.send(from, 1, m) == nil {
			expect = append(expect, m)
		}
	}
	var delivered [][]byte
	for i := 0; i < len(expect)+2 && !w.dead; i++ {
		var m []byte
		var err error
		switch recvAPI {
		case "mrest":
			m, err = w.mrest(to)
		case "getsecret":
			m, err = w.getsecret(to)
		case "incr":
			err = w.startread(to)
			for err == nil {
				var d []byte
				d, err = w.read(to, 200000+c.Rng.Intn(300000))
				m = append(m, d...)
				if isEOM(err) {
					err = w.endread(to)
					break
				}
			}
		default:
			m, err = w.recvc(to)
		}
		if err != nil {
			break
		}
		delivered = append(delivered, m)
	}
	bad, obs := "", ""
	for i := range delivered {
		if i >= len(expect) {
			bad, obs = "extra", fmt.Sprintf("%d messages delivered, %d sent", len(delivered), len(expect))
			break
		}
		if !bytes.Equal(delivered[i], expect[i]) {
			bad = "altered"
			obs = fmt.Sprintf("message %d: %d bytes delivered, %d sent", i, len(delivered[i]), len(expect[i]))
			for j := 0; j < len(delivered[i]) && j < len(expect[i]); j++ {
				if delivered[i][j] != expect[i][j] {
					obs += fmt.Sprintf("; first difference at offset %d", j)
					break
				}
			}
			break
		}
	}
	if bad == "" && len(delivered) < len(expect) && !panicked {
		bad, obs = "honest", fmt.Sprintf("only %d of %d messages of an untouched transcript were delivered", len(delivered), len(expect))
	}
	if bad != "" {
		c.Violate(Violation{Property: "C02", Key: "C02:honest-nearmax:" + sendAPI + ":" + recvAPI + ":" + bad,
			What: "with no on-path party at all, what the receiver handed over is not what the sender's application sent (payload at the size limit of a protected frame)",
			Ops:  append([]string{}, w.ops...), Expected: fmt.Sprintf("%d messages, byte for byte", len(expect)), Observed: obs})
	}
	w.finish()
	c.Distinct(fmt.Sprintf("nearmax|%d|%v|%s|%s|%v", size, later, sendAPI, recvAPI, dirAB), true)
	c.Count("api:" + recvAPI)
	return Case{Label: fmt.Sprintf("nearmax size=%d later=%v send=%s recv=%s", size, later, sendAPI, recvAPI), Ops: w.ops, Real: w.real}
}

type tamperSpec struct {
	seed    int64
	dirAB   bool
	prelude int
	wrap    bool       // both ends restored from a crypto-state blob whose base IV word is 2 below 2^32
	secret  bool       // every message is one PutSecret, sent and read with encryption switched off on both ends
	msgs    [][][]byte // message → frames
}

// the receive paths of a keyed stream the adversarial wire is presented to. Message level: recvc =
// ReceiveCompleteMessage, mrest = Message.GetRemainingBytes (typed layer, ReadFrame), incr =
// StartMessageRead + ReadMessageBytes* + EndMessageRead (readNextFrame). Frame level: recvp =
// ReceiveFrame (what GetFile and GetSecret sit on), getsecret = GetSecret.
var tamperAPIs = []string{"recvc", "mrest", "incr", "recvp", "getsecret"}

func tamperFrameLevel(api string) bool { return api == "recvp" || api == "getsecret" }

func tamperProbeAPI(sp tamperSpec) string {
	if sp.secret {
		return "getsecret"
	}
	return "recvc"
}

func tamperTranscript(c *Ctx, t int) tamperSpec {
	sp := tamperSpec{dirAB: t%3 != 2, prelude: t % 2}
	nm := 1 + t%3
	if t >= 3 {
		nm = 1 + c.Rng.Intn(4)
	}
	for i := 0; i < nm; i++ {
		nf := 1 + c.Rng.Intn(3)
		if t == 0 {
			nf = 1
		}
		if t == 1 && i == nm-1 {
			nf = 2 + c.Rng.Intn(2) // the last message of this transcript is multi-frame: losing its tail truncates a message
		}
		var fr [][]byte
		for j := 0; j < nf; j++ {
			n := c.Rng.Intn(12)
			if t >= 3 && c.Rng.Intn(3) == 0 {
				n = c.Rng.Intn(200)
			}
			if t == 1 && i == nm-1 && j == 0 {
				n = 1 + c.Rng.Intn(11)
			}
			fr = append(fr, randBytes(c, n))
		}
		sp.msgs = append(sp.msgs, fr)
	}
	return sp
}

func tamperSecretTranscript(c *Ctx, t int) tamperSpec {
	sp := tamperSpec{dirAB: t%2 == 0, prelude: (t + 1) % 2, secret: true}
	nm := 2 + c.Rng.Intn(3)
	for i := 0; i < nm; i++ {
		n := c.Rng.Intn(14)
		if i == 1 {
			n = 0 // the empty secret: one NUL on the wire
		}
		sp.msgs = append(sp.msgs, [][]byte{randBytes(c, n)})
	}
	return sp
}

type tamperResult struct {
	cs     Case
	honest []byte
	frames []refcodec.Frame
}

// stripOneNul: what GetSecret does to a frame's payload
func stripOneNul(b []byte) []byte {
	if len(b) > 0 && b[len(b)-1] == 0 {
		return b[:len(b)-1]
	}
	return b
}

func tamperRun(c *Ctx, sp tamperSpec, fs []fault, count bool, api string) tamperResult {
	w := newWorld()
	from, to := "A", "B"
	if !sp.dirAB {
		from, to = "B", "A"
	}
	if sp.wrap {
		// the leading IV word passes 2^32 after two frames: base word + counter must WRAP, every frame
		// keeps a nonce of its own (a clamp or a saturating add would make later frames share one)
		var ivA, ivB [16]byte
		copy(ivA[:], []byte{0xff, 0xff, 0xff, 0xfe, 1, 2, 3, 4, 5, 6, 7, 8, 9, 10, 11, 12})
		copy(ivB[:], []byte{0xff, 0xff, 0xff, 0xfd, 21, 22, 23, 24, 25, 26, 27, 28, 29, 30, 31, 32})
		fa := &blobFields{flags: 1 | 4 | 8, key: keyBytes(9), eiv: ivA, div: ivB, ectr: 1, dctr: 1, fs: make([]byte, 32), fr: make([]byte, 32)}
		fb := &blobFields{flags: 1 | 4 | 8, key: keyBytes(9), eiv: ivB, div: ivA, ectr: 1, dctr: 1, fs: make([]byte, 32), fr: make([]byte, 32)}
		_ = w.importBlob("A", buildBlob(fa))
		_ = w.importBlob("B", buildBlob(fb))
	} else {
		if sp.prelude > 0 {
			_ = w.send("A", 1, []byte("hello"))
			_, _, _ = w.recvf("B")
			_ = w.send("B", 1, []byte("world!"))
			_, _, _ = w.recvf("A")
		}
		w.key("A", 9)
		w.key("B", 9)
	}
	if sp.secret {
		w.crypto("A", false)
		w.crypto("B", false)
	}
	src := w.ep(from)
	base := len(src.sent)
	// what the sender's application sent, in the units the chosen API hands over: whole messages, or
	// (ReceiveFrame / GetSecret: no end flag is returned) the payload of every frame
	var msgs [][]byte
	for _, m := range sp.msgs {
		var whole []byte
		for j, fr := range m {
			fl := 0
			if j == len(m)-1 {
				fl = 1
			}
			if sp.secret {
				_ = w.secret(from, fr)
			} else {
				_ = w.send(from, fl, fr)
			}
			whole = append(whole, fr...)
			switch {
			case api == "recvp":
				msgs = append(msgs, fr)
			case api == "getsecret" && sp.secret:
				msgs = append(msgs, fr) // PutSecret appended the NUL GetSecret strips
			case api == "getsecret":
				msgs = append(msgs, stripOneNul(fr))
			}
		}
		if !tamperFrameLevel(api) {
			msgs = append(msgs, whole)
		}
	}
	honest := append([]byte{}, w.pending[to]...)
	frames, _ := refcodec.ParseFrames(honest)
	tampered := honest
	for _, f := range fs {
		fr, _ := refcodec.ParseFrames(tampered)
		tampered = applyFault(tampered, fr, f)
	}
	changed := !bytes.Equal(tampered, honest)
	// the wire the model sees: complete frames of the tampered stream, classified against honest bodies
	tf, _ := refcodec.ParseFrames(tampered)
	var specs []string
	for _, g := range tf {
		specs = append(specs, wireSpec(src.sent, base, g))
	}
	w.pending[to] = nil
	w.ep(to).c.Feed(tampered)
	w.log(strings.TrimRight("wire "+to+" "+strings.Join(specs, " "), " "), "ok")
	// first affected unit: the message (frame, for the frame-level APIs) containing the first frame at
	// which the wire deviates
	firstBad := len(msgs)
	if changed {
		k := 0
		for k < len(tf) && k < len(frames) && bytes.Equal(tf[k].Bytes(), frames[k].Bytes()) {
			k++
		}
		if tamperFrameLevel(api) {
			firstBad = k
		} else {
			// message index of frame k
			idx, acc := 0, 0
			for mi, m := range sp.msgs {
				if k < acc+len(m) {
					idx = mi
					break
				}
				acc += len(m)
				idx = mi + 1
			}
			firstBad = idx
		}
	}
	var delivered [][]byte
	for i := 0; i < len(msgs)+3; i++ {
		var m []byte
		var err error
		switch api {
		case "mrest":
			m, err = w.mrest(to)
		case "recvp":
			m, err = w.recvp(to)
		case "getsecret":
			m, err = w.getsecret(to)
		case "incr":
			// the application neither knows the length in advance nor looks at anything but what the
			// three calls return: bytes until end-of-message, then EndMessageRead must agree
			err = w.startread(to)
			for err == nil {
				var d []byte
				d, err = w.read(to, 1+c.Rng.Intn(40))
				m = append(m, d...)
				if isEOM(err) {
					err = w.endread(to)
					break
				}
			}
		default:
			m, err = w.recvc(to)
		}
		if err != nil {
			break
		}
		delivered = append(delivered, m)
	}
	// property oracle C02: delivered is an exact prefix, and stops at or before the first affected message
	unit := "message"
	if tamperFrameLevel(api) {
		unit = "frame"
	}
	bad := ""
	if len(delivered) > len(msgs) {
		bad = "extra " + unit + " delivered"
	} else {
		for i := range delivered {
			if !bytes.Equal(delivered[i], msgs[i]) {
				bad = fmt.Sprintf("%s %d altered", unit, i)
				break
			}
		}
	}
	if bad == "" && len(delivered) > firstBad {
		bad = fmt.Sprintf("%s %d delivered although the wire was tampered with at or before it", unit, firstBad)
	}
	if bad == "" && !changed && len(delivered) != len(msgs) {
		// not the adversary's doing: the honest transcript must arrive completely through every API (C01's
		// claim; reported here because a receive path that fails closed on honest traffic makes the C02
		// verdicts of that path vacuous)
		bad = fmt.Sprintf("honest: only %d of %d %ss of an untouched transcript were delivered", len(delivered), len(msgs), unit)
	}
	if bad != "" {
		var fk []string
		for _, f := range fs {
			fk = append(fk, f.kind)
		}
		c.Violate(Violation{Property: "C02", Key: "C02:" + api + ":" + strings.Join(fk, "+") + ":" + strings.SplitN(bad, " ", 2)[0],
			What: bad, Ops: append([]string{}, w.ops...), Expected: fmt.Sprintf("a prefix of %d sent %ss, at most %d of them", len(msgs), unit, firstBad),
			Observed: fmt.Sprintf("%d delivered; faults=%v", len(delivered), fs)})
	}
	w.finish()
	if count {
		key := fmt.Sprintf("%v|%v|%s", sp, fs, api)
		c.Count("api:" + api)
		c.Distinct(key, changed)
		if len(fs) > 0 {
			c.Count("fault:" + fs[0].kind)
		}
		if len(fs) > 1 {
			c.Count("multi-fault")
		}
		if sp.secret {
			c.Count("secret-transcript")
		}
		c.Count(fmt.Sprintf("delivered:%d", len(delivered)))
		if changed && c.Rng.Intn(400) == 0 {
			c.Sample(map[string]any{"faults": fmt.Sprint(fs), "ops": abbreviate(w.ops), "real": abbreviate(w.real)})
		}
	}
	return tamperResult{cs: Case{Label: fmt.Sprintf("tamper %s %v", api, fs), Ops: w.ops, Real: w.real}, honest: honest, frames: frames}
}

/* ---------------------------------------------------------------- gcmformat (C12) */

func runGcmFormat(c *Ctx) error {
	drawnIVs = nil
	c.Res.Rule = "all base IVs drawn by SetSymmetricKey during the run pairwise distinct, also in their last 12 bytes, every byte position varying; every (key, 16-byte nonce) pair of the run used once across endpoints, directions and sessions; send histories: cleartext prelude of every shape (none, one way, both ways, empty frames), SetSymmetricKey on both ends, interleaved sends in both directions (sizes incl. 0), secrets sent with encryption toggled off, counters started near 2^32 through NewStreamWithCryptoState and driven to the limit through every sending API (SendMessage, SendPartialMessage, WriteMessage flush, EndMessage, PutSecret with encryption on/off, typed Message FlushFrame/FinishMessage), the refusal checked on the bytes really written to the connection; socket write failures injected into the connection (timeout error / other error / short write, after every k bytes of the frame, on the first IV-bearing frame and on later ones, keyed and imported sessions incl. nonce word / counter near 2^32, through every sending API) with the application sending on afterwards through every API: every later frame opens by refcodec at the next counter value, never under a value a sealed-but-lost frame consumed, the IV is never announced again; every emitted frame is opened by the independent refcodec (nonce = base IV + counter in the leading word, IV on first frame only, AAD = [digests] header) and refcodec-built frames are fed to the real receiver; distinct by op-sequence hash; non-trivial = ≥1 sealed frame"
	var cases []Case
	n := c.Pick(500, 8000)
	for i := 0; i < n; i++ {
		cases = append(cases, gcmHistory(c, i))
	}
	for i := 0; i < c.Pick(120, 600); i++ {
		cases = append(cases, gcmNearWrap(c, i))
	}
	for i := 0; i < c.Pick(150, 2000); i++ {
		cases = append(cases, gcmRefSender(c, i))
	}
	// a socket write that FAILS mid-frame (deadline, short write) and a sender that keeps sending
	for i := 0; i < c.Pick(260, 2500); i++ {
		cases = append(cases, gcmWriteFail(c, i))
	}
	checkDrawnIVs(c)
	return diffBatch(c, "stream", cases, nil)
}

// checkDrawnIVs is the IV-freshness half of the C12 property oracle, on the base IVs that all
// SetSymmetricKey calls of the run drew (read back from the wire: both directions of every session,
// re-keying included). "Fresh" is crypto/rand's in the model, so this is judged on the implementation only:
//   - no two draws are the same 16 bytes;
//   - no two draws agree in their LAST 12 bytes: the nonce is the base IV with only its leading 32-bit
//     word advanced by the frame counter, and both directions of a session (and every session resumed
//     under one key) share the key, so two IVs with equal tails yield the same (key, nonce) pair as soon
//     as word+counter line up — the freshness the format needs lives in the tail;
//   - the draws look drawn: every one of the 16 byte positions takes many different values over the run
//     (a constant position, a partly random IV such as rand.Read(iv[:4]), a time- or counter-derived IV
//     or one derived from the key are not fresh). The bound is far below what uniform bytes give
//     (>= 64 distinct values per position expected ~250 for >= 400 draws), so it never fires by chance.
func checkDrawnIVs(c *Ctx) {
	seenIV := map[[16]byte]string{}
	seenTail := map[[12]byte]string{}
	dupIV, dupTail := false, false
	for _, d := range drawnIVs {
		if prev, dup := seenIV[d.iv]; dup && !dupIV {
			dupIV = true
			c.Violate(Violation{Property: "C12", Key: "C12:base-iv-repeated", What: "two key installations (two directions of a session, or two sessions) used the same base IV: with one key per session this repeats key/nonce pairs",
				Ops: append(append([]string{}, d.ops...), "# the next send carries the IV of: "+d.where, "# same IV as: "+prev), Expected: "a fresh random IV per SetSymmetricKey call", Observed: fmt.Sprintf("IV %x twice", d.iv)})
		}
		seenIV[d.iv] = d.where
		var t [12]byte
		copy(t[:], d.iv[4:])
		if prev, dup := seenTail[t]; dup && !dupTail && !dupIV {
			dupTail = true
			c.Violate(Violation{Property: "C12", Key: "C12:base-iv-tail-repeated", What: "two key installations drew base IVs that agree in their last 12 bytes: only the leading 32-bit word separates their nonce sequences, and the frame counter is added to exactly that word — under the one key both directions of a session share, the (key, nonce) pairs coincide once word+counter line up",
				Ops: append(append([]string{}, d.ops...), "# the next send carries the IV of: "+d.where, "# same tail as: "+prev), Expected: "base IVs whose 12-byte tails are pairwise distinct (16 fresh random bytes per SetSymmetricKey call)", Observed: fmt.Sprintf("tail %x twice (IVs differ at most in the leading word)", t)})
		}
		seenTail[t] = d.where
	}
	n := len(drawnIVs)
	minDistinct := 0
	if n >= 400 {
		minDistinct = 64
	} else if n >= 64 {
		minDistinct = n / 8
	}
	if minDistinct > 0 && !dupIV {
		for pos := 0; pos < 16; pos++ {
			vals := map[byte]bool{}
			for _, d := range drawnIVs {
				vals[d.iv[pos]] = true
			}
			if len(vals) < minDistinct {
				w0, w1 := drawnIVs[0], drawnIVs[n-1]
				c.Violate(Violation{Property: "C12", Key: "C12:base-iv-not-random", What: fmt.Sprintf("byte %d of the base IV takes only %d different value(s) over %d key installations: the IV is not 16 fresh random bytes", pos, len(vals), n),
					Ops:      []string{"# " + w0.where + fmt.Sprintf(": IV %x", w0.iv), "# " + w1.where + fmt.Sprintf(": IV %x", w1.iv)},
					Expected: fmt.Sprintf("every byte position takes >= %d different values over %d draws (uniform bytes give far more)", minDistinct, n),
					Observed: fmt.Sprintf("position %d: %d distinct value(s)", pos, len(vals))})
				break
			}
		}
	}
	c.Count(fmt.Sprintf("base-ivs-drawn:%d-all-distinct:%v-tails-distinct:%v", n/100*100, len(seenIV) == n, len(seenTail) == n))
}

// every (key, full 16-byte nonce) pair under which the reference decryptor opened a frame emitted by a
// REAL stream during this engine run — all endpoints, directions, sessions and hand-offs of the run
var runNonces = map[[20]byte]string{}

func gcmHistory(c *Ctx, idx int) Case {
	w := newWorld()
	switch c.Rng.Intn(4) {
	case 0:
	case 1:
		_ = w.send("A", 1, randBytes(c, 1+c.Rng.Intn(30)))
		_, _, _ = w.recvf("B")
	case 2:
		_ = w.send("B", 1, randBytes(c, c.Rng.Intn(30)))
		_, _, _ = w.recvf("A")
	default:
		prelude(c, w, 4)
	}
	w.key("A", 3)
	w.key("B", 3)
	sealed := 0
	steps := 1 + c.Rng.Intn(10)
	for i := 0; i < steps && !w.dead; i++ {
		from := "A"
		if c.Rng.Intn(2) == 0 {
			from = "B"
		}
		to := w.peer(from).name
		switch c.Rng.Intn(6) {
		case 0: // secret with crypto toggled off on both ends
			w.crypto(from, false)
			w.crypto(to, false)
			sec := randBytes(c, c.Rng.Intn(20))
			sec = bytes.ReplaceAll(sec, []byte{0}, []byte{1})
			if w.secret(from, sec) == nil {
				sealed++
				got, err := w.getsecret(to)
				if err == nil && !bytes.Equal(got, sec) {
					c.Violate(Violation{Property: "C12", Key: "C12:secret-differs", What: "secret not recovered", Ops: w.ops, Expected: hex.EncodeToString(sec), Observed: hex.EncodeToString(got)})
				}
			}
			w.crypto(from, true)
			w.crypto(to, true)
		case 1: // multi-frame
			_ = w.send(from, 0, randBytes(c, c.Rng.Intn(50)))
			_ = w.send(from, 1, randBytes(c, c.Rng.Intn(50)))
			sealed += 2
			_, _ = w.recvc(to)
		default:
			n := c.Rng.Intn(80)
			if c.Rng.Intn(5) == 0 {
				n = 0
			}
			if w.send(from, 1, randBytes(c, n)) == nil {
				sealed++
			}
			_, _, _ = w.recvf(to)
		}
	}
	checkOpenable(c, w)
	w.finish()
	c.Distinct(strings.Join(w.ops, "\n"), sealed > 0)
	c.Count("kind:history")
	if idx < 2 {
		c.Sample(map[string]any{"ops": abbreviate(w.ops), "real": abbreviate(w.real)})
	}
	return Case{Label: fmt.Sprintf("gcm-history#%d", idx), Ops: w.ops, Real: w.real}
}

// checkOpenable is the C12 property oracle: the independent decryptor opened every protected frame,
// and no (key, nonce) pair repeats within a direction.
func checkOpenable(c *Ctx, w *sworld) {
	for i, r := range w.real {
		if strings.Contains(r, "UNOPENABLE") {
			c.Violate(Violation{Property: "C12", Key: "C12:unopenable", What: "a protected frame cannot be opened by the reference implementation of the documented format",
				Ops: append([]string{}, w.ops[:i+1]...), Expected: "frame opens under nonce=IV+counter, AAD=[digests]header", Observed: r})
			return
		}
	}
	// "no key/nonce pair is used twice": across BOTH endpoints of the session (they share one key) and
	// across every other session of the run keyed alike — the full 16-byte nonce, not only its leading word
	for _, e := range []*sep{w.a, w.b} {
		for _, sf := range e.sent {
			if !sf.opened {
				continue
			}
			var id [20]byte
			binary.BigEndian.PutUint32(id[:4], uint32(sf.keyID))
			copy(id[4:], sf.nonce[:])
			here := fmt.Sprintf("endpoint %s, op %d", e.name, sf.opIdx)
			if prev, dup := runNonces[id]; dup {
				upto := sf.opIdx + 1
				if upto > len(w.ops) {
					upto = len(w.ops)
				}
				c.Violate(Violation{Property: "C12", Key: "C12:key-nonce-pair-reused", What: "two protected frames were sealed under the same key and the same 16-byte nonce (other direction of the session, or another session under the same key)",
					Ops: append(append([]string{}, w.ops[:upto]...), "# same (key, nonce) earlier: "+prev), Expected: "every (key, nonce) pair used once",
					Observed: fmt.Sprintf("key %d nonce %x at %s and at %s", sf.keyID, sf.nonce, prev, here)})
				return
			}
			runNonces[id] = fmt.Sprintf("%s of case #%d", here, c.Res.Evaluations)
		}
	}
	for _, e := range []*sep{w.a, w.b} {
		seen := map[string]int{}
		for i, r := range w.real {
			if !strings.HasPrefix(w.ops[i], "send "+e.name) && !strings.HasPrefix(w.ops[i], "secret "+e.name) &&
				!strings.HasPrefix(w.ops[i], "write "+e.name) && !strings.HasPrefix(w.ops[i], "end "+e.name) {
				continue
			}
			for _, part := range strings.Split(r, " ") {
				if j := strings.Index(part, ",n="); j >= 0 && strings.Contains(part, ",ct,") {
					rest := part[j+3:]
					nonce := rest[:strings.Index(rest, ",")]
					k := part[strings.Index(part, ",k=")+3:]
					k = k[:strings.Index(k, ",")]
					id := k + "/" + nonce
					if prev, dup := seen[id]; dup {
						c.Violate(Violation{Property: "C12", Key: "C12:nonce-reuse", What: "a key/nonce pair was used twice in one direction",
							Ops: append([]string{}, w.ops[:i+1]...), Expected: "pairwise distinct nonces", Observed: fmt.Sprintf("nonce %s at ops %d and %d", nonce, prev, i)})
						return
					}
					seen[id] = i
				}
			}
		}
	}
}

// the sending APIs of a stream, each used so that an accepted call puts exactly ONE frame on the wire:
// SendMessage, SendPartialMessage, the buffered writer flushing at the 4 KiB threshold (WriteMessage ->
// flushPartialFrame), the buffered writer's EndMessage, PutSecret (encryption on, and switched off around
// it), and the typed layer (Message.PutBytes + FlushFrame(false) / FinishMessage -> WriteFrame)
var wrapAPIs = []string{"send1", "send0", "wflush", "wend", "secret", "secret-off", "typed0", "typed1"}

// emitVia sends one frame's worth of data through the named API; returns the error of the call that
// would put the frame on the wire.
func (w *sworld) emitVia(c *Ctx, n, api string) error {
	small := randBytes(c, c.Rng.Intn(10))
	switch api {
	case "send1":
		return w.send(n, 1, small)
	case "send0":
		return w.send(n, 0, small)
	case "wflush":
		w.start(n)
		return w.write(n, fillBytes(4096+c.Rng.Intn(8), byte(0x61+c.Rng.Intn(20))))
	case "wend":
		w.start(n)
		if err := w.write(n, small); err != nil {
			return err
		}
		return w.end(n)
	case "secret":
		return w.secret(n, bytes.ReplaceAll(small, []byte{0}, []byte{1}))
	case "secret-off":
		w.crypto(n, false)
		err := w.secret(n, bytes.ReplaceAll(small, []byte{0}, []byte{1}))
		w.crypto(n, true)
		return err
	case "typed0":
		return w.typedFrame(n, small, false)
	default: // typed1
		return w.typedFrame(n, small, true)
	}
}

func gcmNearWrap(c *Ctx, idx int) Case {
	w := newWorld()
	start := uint32(0xffffffff - uint32(c.Rng.Intn(4)))
	var iv, ivB [16]byte
	copy(iv[:], randBytes(c, 16))
	copy(ivB[:], randBytes(c, 16))
	if c.Rng.Intn(2) == 0 {
		binary.BigEndian.PutUint32(iv[:4], 0xfffffffe) // nonce word wraps while the counter does not
	}
	fa := &blobFields{flags: 1 | 4 | 8, key: keyBytes(5), eiv: iv, div: ivB, ectr: start, dctr: 1, fs: make([]byte, 32), fr: make([]byte, 32)}
	fb := &blobFields{flags: 1 | 4 | 8, key: keyBytes(5), eiv: ivB, div: iv, ectr: 1, dctr: start, fs: make([]byte, 32), fr: make([]byte, 32)}
	_ = w.importBlob("A", buildBlob(fa))
	_ = w.importBlob("B", buildBlob(fb))
	// the first cases walk every API up to the limit on its own; the rest mix them
	only := ""
	if idx < 2*len(wrapAPIs) {
		only = wrapAPIs[idx%len(wrapAPIs)]
		if idx < len(wrapAPIs) {
			start = 0xffffffff // the very next frame is the one that must be refused
			fa.ectr, fb.dctr = start, start
			w = newWorld()
			_ = w.importBlob("A", buildBlob(fa))
			_ = w.importBlob("B", buildBlob(fb))
		}
	}
	pickAPI := func() string {
		if only != "" {
			return only
		}
		return wrapAPIs[c.Rng.Intn(len(wrapAPIs))]
	}
	a := w.ep("A")
	// the counter the next frame would use = start + frames REALLY put on the connection so far (counted
	// on the connection, not inferred from the API used: when a buffered write flushes is the library's
	// business — a call that only buffers consumes no counter value and cannot be refused)
	ctr := uint64(start)
	framesIn := func(b []byte) int { fr, _ := refcodec.ParseFrames(b); return len(fr) }
	for i := 0; i < 5; i++ {
		api := pickAPI()
		before := len(a.c.AllOut)
		err := w.emitVia(c, "A", api)
		wrote := a.c.AllOut[before:]
		if err != nil {
			if ctr != 0xffffffff {
				c.Violate(Violation{Property: "C12", Key: "C12:early-refusal:" + api, What: "send refused before the counter limit", Ops: append([]string{}, w.ops...), Expected: "ok", Observed: err.Error()})
				break
			}
			if len(wrote) != 0 {
				c.Violate(Violation{Property: "C12", Key: "C12:refused-send-wrote-bytes:" + api, What: "the call that refused to send at the counter limit nevertheless wrote bytes to the connection", Ops: append([]string{}, w.ops...), Expected: "nothing written", Observed: fmt.Sprintf("%d bytes written by the refused call", len(wrote))})
			}
			// the refusal is permanent, whatever API the caller tries next: NOTHING reaches the connection
			// any more (a counter that wrapped on a refused attempt would start again at the base IV — the
			// nonce of the session's first frame). Judged on the bytes on the connection itself: the world
			// discards the output of a failed call, and a call that merely buffers may well return nil.
			for k := 0; k < 4; k++ {
				api2 := wrapAPIs[c.Rng.Intn(len(wrapAPIs))]
				before := len(a.c.AllOut)
				err2 := w.emitVia(c, "A", api2)
				if n := len(a.c.AllOut) - before; n != 0 {
					c.Violate(Violation{Property: "C12", Key: "C12:refusal-not-permanent:" + api2, What: "after refusing to send at the counter limit the stream sent a later frame (the counter wrapped)", Ops: append([]string{}, w.ops...), Expected: "nothing written after the refusal", Observed: fmt.Sprintf("attempt %d (%s) after the refusal: err=%v, %d bytes written to the connection", k+1, api2, err2, n)})
					break
				}
			}
			break
		}
		n := framesIn(wrote)
		if n > 0 && ctr+uint64(n) > 0xffffffff {
			c.Violate(Violation{Property: "C12", Key: "C12:counter-wrap:" + api, What: "stream sent a frame at/after the counter limit instead of refusing (through " + api + ")", Ops: append([]string{}, w.ops...), Expected: "err counterMax", Observed: fmt.Sprintf("ok, %d frame(s) / %d bytes written", n, len(wrote))})
			break
		}
		ctr += uint64(n)
		for j := 0; j < n && err == nil; j++ {
			if api == "secret-off" {
				w.crypto("B", false)
				_, err = w.getsecret("B")
				w.crypto("B", true)
			} else {
				_, _, err = w.recvf("B")
			}
		}
		if err != nil {
			break
		}
	}
	checkOpenable(c, w)
	w.finish()
	c.Distinct(strings.Join(w.ops, "\n"), true)
	c.Count("kind:nearwrap")
	if only != "" {
		c.Count("nearwrap-api:" + only)
	}
	if idx == 0 {
		c.Sample(map[string]any{"ops": abbreviate(w.ops), "real": abbreviate(w.real)})
	}
	return Case{Label: fmt.Sprintf("gcm-nearwrap#%d", idx), Ops: w.ops, Real: w.real}
}

// refOpenAt: does the protected frame f open, by the documented format, as the frame with counter ctr
// of a direction with base IV `base` (first: with the two handshake digests in the associated data)?
func refOpenAt(key []byte, digSelf, digPeer [32]byte, base [16]byte, ctr uint32, first bool, f refcodec.Frame) bool {
	d, err := refcodec.NewDir(key, digSelf, digPeer)
	if err != nil {
		return false
	}
	d.BaseIV, d.HaveIV, d.Counter, d.First = base, true, ctr, first
	_, err = d.Open(f)
	return err == nil
}

// gcmWriteFail: the write of one protected frame fails on the socket — after k bytes of the frame, for
// every k; with a timeout error, another error, or a short write without error; the connection stays
// open — and the application goes on sending on the same stream through every sending API. Judged with
// the reference codec on the bytes that reached the connection (C12: "no key/nonce pair is used twice
// in a direction ... the base IV transmitted with the first frame only"): the frame whose write failed
// was SEALED, under (key, base IV + n), and any part of it may be in an observer's hands; so
//   - every later frame opens as frame n+1, n+2, ... of the direction (one counter value per sealed frame),
//   - none of them opens under a counter value an earlier sealed frame — the lost one included — used,
//   - none of them announces the base IV again.
//
// The model is told the history up to the failing call (it has no notion of a failing connection).
func gcmWriteFail(c *Ctx, idx int) Case {
	w := newWorld()
	imported := c.Rng.Intn(3) == 0
	if imported {
		var iv, ivB [16]byte
		copy(iv[:], randBytes(c, 16))
		copy(ivB[:], randBytes(c, 16))
		start := uint32(1 + c.Rng.Intn(5))
		switch c.Rng.Intn(4) {
		case 0:
			binary.BigEndian.PutUint32(iv[:4], 0xffffffff-uint32(c.Rng.Intn(4))) // the nonce word wraps around the lost frame
		case 1:
			start = 0xffffffff - uint32(1+c.Rng.Intn(4)) // the lost frame takes one of the last counter values
		}
		fa := &blobFields{flags: 1 | 4 | 8, key: keyBytes(5), eiv: iv, div: ivB, ectr: start, dctr: 1, fs: make([]byte, 32), fr: make([]byte, 32)}
		fb := &blobFields{flags: 1 | 4 | 8, key: keyBytes(5), eiv: ivB, div: iv, ectr: 1, dctr: start, fs: make([]byte, 32), fr: make([]byte, 32)}
		_ = w.importBlob("A", buildBlob(fa))
		_ = w.importBlob("B", buildBlob(fb))
	} else {
		if c.Rng.Intn(2) == 0 {
			prelude(c, w, 3)
		}
		w.key("A", 5)
		w.key("B", 5)
	}
	a := w.ep("A")
	// frames before the failure (none: the lost frame is the direction's first, the one carrying the IV)
	pre := c.Rng.Intn(4)
	if idx%3 == 0 && !imported {
		pre = 0
	}
	for i := 0; i < pre && !w.dead; i++ {
		api := wrapAPIs[c.Rng.Intn(len(wrapAPIs))]
		before := len(a.c.AllOut)
		if w.emitVia(c, "A", api) != nil {
			break
		}
		fr, _ := refcodec.ParseFrames(a.c.AllOut[before:])
		for range fr {
			if api == "secret-off" {
				w.crypto("B", false)
				_, _ = w.getsecret("B")
				w.crypto("B", true)
			} else {
				_, _, _ = w.recvf("B")
			}
		}
	}
	w.finish()
	modelOps, modelReal := append([]string{}, w.ops...), append([]string{}, w.real...)
	if w.dead || a.dir == nil {
		c.Distinct(strings.Join(w.ops, "\n"), false)
		return Case{Label: fmt.Sprintf("gcm-writefail#%d (setup only)", idx), Ops: modelOps, Real: modelReal}
	}
	// the failing write: k bytes of the frame get out
	failAPI := wrapAPIs[idx%len(wrapAPIs)]
	keep := (idx / len(wrapAPIs)) % 56 // every k over header, IV, ciphertext and tag of a short frame
	var ferr error
	how := "timeout"
	switch c.Rng.Intn(4) {
	case 0:
		how, ferr = "io-error", fmt.Errorf("write: connection timed out")
	case 1:
		how, ferr = "short-write", nil
		if keep > 20 || failAPI == "wflush" {
			keep = -(1 + c.Rng.Intn(20)) // counted from the end of the frame
		}
	default:
		ferr = os.ErrDeadlineExceeded
	}
	if failAPI == "wflush" && keep >= 0 && c.Rng.Intn(2) == 0 {
		keep = 21 + c.Rng.Intn(4100) // a long frame: anywhere in its ciphertext
	}
	d := a.dir
	lostCtr, lostFirst, hadIV := d.Counter, d.First, d.HaveIV
	a.c.FailNext, a.c.FailKeep, a.c.FailErr, a.c.FailedWrote = true, keep, ferr, nil
	failsBefore := a.c.Failed
	w.log(fmt.Sprintf("# the next write on A's connection lets %d bytes through and fails (%s)", keep, how), "ok")
	err := w.emitVia(c, "A", failAPI)
	a.c.FailNext = false
	cut := a.c.Failed > failsBefore
	c.Count("writefail:api:" + failAPI)
	c.Count("writefail:how:" + how)
	if !cut {
		// no frame was handed to the connection (refused at the counter limit): nothing was lost
		c.Count("writefail:no-write-happened")
	} else {
		if err == nil {
			c.Count("writefail:call-returned-nil")
		}
		got := a.c.FailedWrote
		// the lost frame consumed counter value lostCtr, whatever part of it is on the wire
		ivKnown := hadIV
		if !hadIV && len(got) >= 21 {
			copy(d.BaseIV[:], got[5:21])
			d.HaveIV, ivKnown = true, true
		}
		d.Counter, d.First = lostCtr+1, false
		switch {
		case len(got) < 5:
			c.Count("writefail:cut-in:header")
		case !hadIV && len(got) < 21:
			c.Count("writefail:cut-in:iv")
		default:
			c.Count("writefail:cut-in:ciphertext")
		}
		if !ivKnown {
			a.dir = nil // nobody can open what follows; judged below by search
		}
		key := a.key
		violated := false
		// the application keeps sending, through every API
		for i := 0; i < 2+c.Rng.Intn(4) && !violated; i++ {
			api := wrapAPIs[c.Rng.Intn(len(wrapAPIs))]
			if i == 0 && c.Rng.Intn(2) == 0 {
				api = failAPI // the same call again: a retry
			}
			before := len(a.c.AllOut)
			expect := d.Counter
			_ = w.emitVia(c, "A", api)
			frames, _ := refcodec.ParseFrames(a.c.AllOut[before:])
			for _, f := range frames {
				if violated {
					break
				}
				report := func(k, what, obs string) {
					violated = true
					c.Violate(Violation{Property: "C12", Key: "C12:" + k + ":" + api, What: what, Ops: append([]string{}, w.ops...),
						Expected: fmt.Sprintf("the frame after a sealed-but-lost frame (counter %d) opens as frame %d of the direction, without IV", lostCtr, expect), Observed: obs})
				}
				if ivKnown {
					// under a counter value some earlier sealed frame used?  (the lost one, or one before it)
					lo := uint32(0)
					if lostCtr > 3 {
						lo = lostCtr - 3
					}
					for ctr := lo; ctr <= lostCtr && !violated; ctr++ {
						for _, first := range []bool{false, true} {
							if refOpenAt(key, d.DigSelf, d.DigPeer, d.BaseIV, ctr, first, f) {
								report("nonce-reused-after-failed-write", "after a write failure the stream sealed a frame under a (key, nonce) pair that an earlier frame — sealed, and partly on the wire — already used",
									fmt.Sprintf("frame opens under base IV + %d", ctr))
							}
							if len(f.Body) >= 32 && bytes.Equal(f.Body[:16], d.BaseIV[:]) {
								g := refcodec.Frame{Flag: f.Flag, Len: f.Len, Body: f.Body[16:]}
								if refOpenAt(key, d.DigSelf, d.DigPeer, d.BaseIV, ctr, first, g) {
									report("nonce-reused-after-failed-write", "after a write failure the stream announced its base IV again and sealed a frame under a (key, nonce) pair that an earlier frame — sealed, and partly on the wire — already used",
										fmt.Sprintf("frame carries the base IV and opens under base IV + %d", ctr))
								}
							}
						}
					}
					if !violated && lostFirst == false && len(f.Body) >= 32 && bytes.Equal(f.Body[:16], d.BaseIV[:]) {
						report("iv-reannounced-after-failed-write", "the base IV was transmitted again with a later frame", "frame starts with the base IV")
					}
				} else if len(f.Body) >= 32 {
					// the IV never got out completely. A later frame that announces an IV and opens under it at
					// a counter value already consumed is the lost frame's (key, nonce) again
					var x [16]byte
					copy(x[:], f.Body[:16])
					g := refcodec.Frame{Flag: f.Flag, Len: f.Len, Body: f.Body[16:]}
					for ctr := uint32(0); ctr <= lostCtr && !violated; ctr++ {
						for _, first := range []bool{false, true} {
							if refOpenAt(key, d.DigSelf, d.DigPeer, x, ctr, first, g) {
								report("nonce-reused-after-failed-write", "the first frame of the direction was sealed and its write failed; a later frame announces the base IV (again) and is sealed under a counter value already consumed",
									fmt.Sprintf("frame announces IV %x and opens under it + %d", x, ctr))
							}
						}
					}
				}
			}
		}
	}
	checkOpenable(c, w)
	c.Distinct(strings.Join(w.ops, "\n"), cut)
	c.Count("kind:writefail")
	if idx == 0 {
		c.Sample(map[string]any{"ops": abbreviate(w.ops), "real": abbreviate(w.real)})
	}
	return Case{Label: fmt.Sprintf("gcm-writefail#%d", idx), Ops: modelOps, Real: modelReal}
}

// gcmRefSender: the sender is the reference codec, the receiver the real stream (impl_accepts_ref).
func gcmRefSender(c *Ctx, idx int) Case {
	w := newWorld()
	// cleartext prelude sent by the reference side by hand
	var clearAB, clearBA []byte
	anyAB, anyBA := false, false
	np := c.Rng.Intn(3)
	for i := 0; i < np; i++ {
		d := randBytes(c, 1+c.Rng.Intn(20))
		f := refcodec.Frame{Flag: 1, Len: uint32(len(d)), Body: d}
		clearAB = append(clearAB, f.Bytes()...)
		anyAB = true
		w.pending["B"] = append(w.pending["B"], f.Bytes()...)
		w.a.sent = append(w.a.sent, sentFrame{f: f})
		w.log(fmt.Sprintf("send A 1 %s", orc.Payload(d)), fmt.Sprintf("ok F(1,%d,raw,%s)", len(d), orc.ShowBytes(d)))
		_, _, _ = w.recvf("B")
		if c.Rng.Intn(2) == 0 {
			_ = w.send("B", 1, randBytes(c, 1+c.Rng.Intn(20)))
			out := w.pending["A"]
			w.pending["A"] = nil
			clearBA = append(clearBA, out...)
			anyBA = true
			// model side: A consumes it
			w.log("recvf A", modelRecvEcho(out))
		}
	}
	key := keyBytes(11)
	dir, _ := refcodec.NewDir(key, refcodec.Digest(clearAB, anyAB), refcodec.Digest(clearBA, anyBA))
	copy(dir.BaseIV[:], randBytes(c, 16))
	if c.Rng.Intn(3) == 0 {
		binary.BigEndian.PutUint32(dir.BaseIV[:4], 0xffffffff-uint32(c.Rng.Intn(3)))
	}
	w.log(fmt.Sprintf("key A 11 %s", strings.Replace(ivStr(dir.BaseIV), ":", " ", 1)), "ok")
	w.key("B", 11)
	steps := 1 + c.Rng.Intn(6)
	for i := 0; i < steps && !w.dead; i++ {
		d := randBytes(c, c.Rng.Intn(60))
		if c.Rng.Intn(5) == 0 {
			d = nil
		}
		first := dir.First
		ctr := dir.Counter
		f := dir.Seal(1, d)
		ivs, aad := "iv=-", "aad=H"
		if ctr == 0 {
			ivs = "iv=" + ivStr(dir.BaseIV)
		}
		if first {
			aad = fmt.Sprintf("aad=D[%s|%s]", showDig(clearAB, anyAB), showDig(clearBA, anyBA))
		}
		nonce := binary.BigEndian.Uint32(dir.BaseIV[:4]) + ctr
		w.log(fmt.Sprintf("send A 1 %s", orc.Payload(d)),
			fmt.Sprintf("ok F(1,%d,ct,%s,n=%d,%s,k=11,%s)", f.Len, ivs, nonce, aad, orc.ShowBytes(d)))
		w.pending["B"] = append(w.pending["B"], f.Bytes()...)
		got, err := w.recvc("B")
		if err != nil {
			c.Violate(Violation{Property: "C12", Key: "C12:rejects-reference-frame", What: "the real receiver rejected a frame built by the reference implementation of the documented format",
				Ops: append([]string{}, w.ops...), Expected: "accepted", Observed: err.Error()})
		} else if !bytes.Equal(got, d) {
			c.Violate(Violation{Property: "C12", Key: "C12:reference-frame-differs", What: "plaintext differs", Ops: append([]string{}, w.ops...), Expected: orc.ShowBytes(d), Observed: orc.ShowBytes(got)})
		}
	}
	w.finish()
	c.Distinct(strings.Join(w.ops, "\n"), true)
	c.Count("kind:refsender")
	if idx == 0 {
		c.Sample(map[string]any{"ops": abbreviate(w.ops), "real": abbreviate(w.real)})
	}
	return Case{Label: fmt.Sprintf("gcm-refsender#%d", idx), Ops: w.ops, Real: w.real}
}

func modelRecvEcho(frameBytes []byte) string {
	fr, _ := refcodec.ParseFrames(frameBytes)
	if len(fr) != 1 {
		return "err eof"
	}
	return fmt.Sprintf("ok %d %s", fr[0].Flag, orc.ShowBytes(fr[0].Body))
}

/* ---------------------------------------------------------------- handoff (C15) */

func runHandoff(c *Ctx) error {
	c.Res.Rule = "traffic histories (message counts/sizes per direction, buffered and partial sends/reads), ExportCryptoState attempted at every step (boundary or not); sessions with traffic in ONE direction only (1-4 messages through every sending API) with export attempted on the sent-only and on the received-only end after each, judged by a property oracle from the protected frames the harness saw each end send and accept; import around the same connection (every buffer the harness passes to or gets from the library — the key given to SetSymmetricKey, the blob given to NewStreamWithCryptoState, the slice ExportCryptoState returned — is wiped and overwritten right after the call; every export must still carry the session key and the imported digests), chains of hand-offs on either end, further traffic with the untouched peer; plus every truncation and every single-byte corruption of one valid blob; export after a receive call consumed the leading frame(s) of a multi-frame message and then failed (unopenable frame / truncated frame / end of connection; StartMessageRead, after which the stream still holds the consumed frames): must be refused; distinct by op-sequence hash; non-trivial = export attempted after ≥1 frame in some direction"
	var cases []Case
	n := c.Pick(400, 6000)
	for i := 0; i < n; i++ {
		cases = append(cases, handoffHistory(c, i))
	}
	for i := 0; i < c.Pick(120, 1200); i++ {
		cases = append(cases, handoffOneDirection(c, i))
	}
	for i := 0; i < c.Pick(60, 600); i++ {
		cases = append(cases, handoffWrap(c, i))
	}
	cases = append(cases, handoffBlobMutations(c)...)
	// export after an inbound message was abandoned half way (property oracle on the implementation only)
	for i := 0; i < c.Pick(60, 600); i++ {
		handoffAbortedRead(c, i)
	}
	return diffBatch(c, "stream", cases, nil)
}

// handoffWrap: hand-offs on sessions whose nonce word (base IV word + frame counter) passes 2^32 on the
// way — an ordinary live state (the word is computed modulo 2^32 on both ends). "Exporting the crypto
// state ... and importing it ... yields a stream that continues the session exactly": a state the
// library itself exported must be importable, and traffic must go on both ways.
func handoffWrap(c *Ctx, idx int) Case {
	w := framingSetupWrap(c)
	talk := func(n int) {
		for i := 0; i < n && !w.dead; i++ {
			from := "A"
			if c.Rng.Intn(2) == 0 {
				from = "B"
			}
			d := randBytes(c, c.Rng.Intn(40))
			_ = w.send(from, 1, d)
			_, _ = w.recvc(w.peer(from).name)
		}
	}
	talk(4 + c.Rng.Intn(6)) // enough frames each way to pass the wrap (it lies 0-4 frames ahead)
	for hop := 0; hop < 1+c.Rng.Intn(3) && !w.dead; hop++ {
		who := "A"
		if c.Rng.Intn(2) == 0 {
			who = "B"
		}
		blob, err := tryExport(c, w, who)
		if err != nil {
			continue
		}
		if ierr := w.importBlob(who, blob); ierr != nil {
			c.Violate(Violation{Property: "C15", Key: "C15:import-refuses-exported-state:nonce-word-past-2^32",
				What:     "a state ExportCryptoState produced at a message boundary of a live session (base IV word + frame counter beyond 2^32, i.e. the nonce word has wrapped) was refused by NewStreamWithCryptoState: the session cannot be handed off",
				Ops:      append([]string{}, w.ops...), Expected: "import succeeds and the session continues", Observed: "err " + errClass(ierr)})
			break
		}
		c.Count("handoff-wrap:imported")
		talk(2 + c.Rng.Intn(3))
	}
	c.Distinct(fmt.Sprintf("handoff-wrap|%d", idx), true)
	return Case{Label: fmt.Sprintf("handoff-wrap#%d", idx), Ops: w.ops, Real: w.real}
}

// tryExport calls ExportCryptoState on `who` and applies the part of the C15 property oracle that needs
// no model: "export is refused whenever the stream ... holds any partially sent or partially consumed
// message" — judged from what the harness itself did to the endpoint (it is between StartMessageRead and
// EndMessageRead; it handed bytes to WriteMessage that are not on the wire yet).
func tryExport(c *Ctx, w *sworld, who string) ([]byte, error) {
	e := w.ep(who)
	why := ""
	switch {
	case e.inRead:
		why = "inbound-message-being-read"
	case e.bufferedOut > 0:
		why = "outbound-bytes-buffered"
	}
	blob, err := w.export(who)
	// "export is refused whenever the stream ... has not yet exchanged a protected frame in both
	// directions": judged on what the harness saw the endpoint do since its key was installed — it has
	// only SENT protected frames, only RECEIVED them, or neither
	if e.key != nil && (e.protSent == 0 || e.protRecv == 0) {
		state := "neither-direction"
		switch {
		case e.protSent > 0:
			state = "sent-only"
		case e.protRecv > 0:
			state = "received-only"
		}
		c.Count("export-before-both-directions:" + state)
		if err == nil {
			c.Violate(Violation{Property: "C15", Key: "C15:export-accepted-before-both-directions:" + state, What: "ExportCryptoState returned a blob although the stream has not yet exchanged a protected frame in both directions (" + state + ")",
				Ops: append([]string{}, w.ops...), Expected: "refused", Observed: fmt.Sprintf("a %d-byte blob (protected frames sent: %d, received: %d)", len(blob), e.protSent, e.protRecv)})
		}
	}
	if f, perr := parseBlob(blob); err == nil && perr == nil {
		// "continues the session exactly ... across any number of successive hand-offs": the session's
		// constants — the key the harness installed, and for a stream rebuilt from a blob the frozen
		// handshake digests of that blob — are what every export carries, whatever the callers did with
		// the buffers they passed in (key buffer, transfer buffer) after the calls returned
		diff := ""
		switch {
		case e.key != nil && !bytes.Equal(f.key, e.key):
			diff = "key"
		case e.imported != nil && len(e.imported.fs) > 0 && !bytes.Equal(f.fs, e.imported.fs):
			diff = "send-digest"
		case e.imported != nil && len(e.imported.fr) > 0 && !bytes.Equal(f.fr, e.imported.fr):
			diff = "recv-digest"
		}
		if diff != "" {
			c.Violate(Violation{Property: "C15", Key: "C15:exported-state-differs:" + diff, What: "the exported crypto state does not carry the session's " + diff + " (the stream's copy changed when the caller wiped a buffer it had passed to SetSymmetricKey / NewStreamWithCryptoState)",
				Ops: append([]string{}, w.ops...), Expected: "the " + diff + " of the session, as installed / as imported", Observed: "different bytes"})
		}
	}
	if err == nil && why != "" {
		c.Violate(Violation{Property: "C15", Key: "C15:export-accepted-mid-message:" + why, What: "ExportCryptoState returned a blob although the stream holds a partially sent or partially consumed message (" + why + ")",
			Ops: append([]string{}, w.ops...), Expected: "refused", Observed: fmt.Sprintf("a %d-byte blob", len(blob))})
	}
	return blob, err
}

var handoffSeq int

// handoffOneDirection: after the key, traffic flows in ONE direction only — 1-4 messages through every
// sending API, read through every receive API — and export is attempted on the end that has only sent
// and on the end that has only received, after every message; then the first message the other way, and
// export again on both ends (now legitimate: the session continues through a hand-off).
func handoffOneDirection(c *Ctx, idx int) Case {
	w := newWorldAddr()
	if c.Rng.Intn(2) == 0 {
		prelude(c, w, 3)
	}
	w.key("A", 21)
	w.key("B", 21)
	from, to := "A", "B"
	if idx%2 == 1 {
		from, to = "B", "A"
	}
	oneWay := func(from, to string) {
		api := wrapAPIs[c.Rng.Intn(len(wrapAPIs))]
		if api == "send0" || api == "typed0" || api == "wflush" {
			// a whole message: the partial frame, then its end
			_ = w.emitVia(c, from, api)
			if api == "wflush" {
				_ = w.end(from)
			} else {
				_ = w.send(from, 1, randBytes(c, c.Rng.Intn(10)))
			}
			switch c.Rng.Intn(3) {
			case 0:
				_, _ = w.recvc(to)
			case 1:
				_, _ = w.mrest(to)
			default:
				if w.startread(to) == nil {
					for {
						if _, err := w.read(to, 5000); err != nil {
							break
						}
					}
					_ = w.endread(to)
				}
			}
			w.start(from)
			return
		}
		_ = w.emitVia(c, from, api)
		switch {
		case api == "secret-off":
			w.crypto(to, false)
			_, _ = w.getsecret(to)
			w.crypto(to, true)
		case api == "secret":
			_, _ = w.getsecret(to)
		case c.Rng.Intn(2) == 0:
			_, _ = w.recvc(to)
		default:
			_, _, _ = w.recvf(to)
		}
		if api == "wend" {
			w.start(from)
		}
	}
	n := 1 + c.Rng.Intn(4)
	for i := 0; i < n && !w.dead; i++ {
		oneWay(from, to)
		if w.dead {
			break
		}
		_, _ = tryExport(c, w, from) // has only sent
		_, _ = tryExport(c, w, to)   // has only received
	}
	if !w.dead {
		oneWay(to, from)
	}
	if !w.dead {
		for _, who := range []string{from, to} {
			blob, err := tryExport(c, w, who)
			if err == nil && c.Rng.Intn(2) == 0 {
				handoffSeq++
				_ = w.importBlobAround(who, blob, fmt.Sprintf("@handoff-%d", handoffSeq))
			}
		}
		for _, x := range []string{from, to} {
			y := w.peer(x).name
			d := randBytes(c, 1+c.Rng.Intn(20))
			if w.send(x, 1, d) != nil {
				break
			}
			got, err := w.recvc(y)
			if err != nil || !bytes.Equal(got, d) {
				c.Violate(Violation{Property: "C15", Key: "C15:recv-after-handoff", What: "peer could not continue the session after the first exchange in both directions and a hand-off", Ops: append([]string{}, w.ops...), Expected: orc.ShowBytes(d), Observed: fmt.Sprint(errKind(err), " ", orc.ShowBytes(got))})
				break
			}
		}
	}
	checkOpenable(c, w)
	w.finish()
	c.Distinct(strings.Join(w.ops, "\n"), true)
	c.Count("kind:one-direction")
	return Case{Label: fmt.Sprintf("handoff-one-direction#%d", idx), Ops: w.ops, Real: w.real}
}

func handoffHistory(c *Ctx, idx int) Case {
	w := newWorldAddr()
	if c.Rng.Intn(4) != 0 {
		prelude(c, w, 3)
	}
	if c.Rng.Intn(12) == 0 {
		// export before any key
		_, _ = tryExport(c, w, "A")
	}
	w.key("A", 21)
	w.key("B", 21)
	// the session's identity as the security layer would record it after the handshake
	for _, n := range []string{"A", "B"} {
		switch c.Rng.Intn(4) {
		case 0:
			w.setauth(n, true)
		case 1:
			w.setauth(n, true)
			w.setpeer(n, pick(c, []string{"<203.0.113.9:9618?sock=collector>", "<[2001:db8::7]:9618>", "<192.0.2.7:9618>"}))
		case 2:
			w.setpeer(n, pick(c, []string{"<203.0.113.9:9618?sock=collector>", ""}))
		}
	}
	steps := 2 + c.Rng.Intn(10)
	traffic := 0
	tried := false
	handoffs := 0
	for i := 0; i < steps && !w.dead; i++ {
		from := "A"
		if c.Rng.Intn(2) == 0 {
			from = "B"
		}
		to := w.peer(from).name
		switch c.Rng.Intn(10) {
		case 0: // leave a partial outbound message, try export, then finish it
			w.start(from)
			_ = w.write(from, randBytes(c, 1+c.Rng.Intn(30)))
			_, _ = tryExport(c, w, from)
			tried = tried || traffic > 0
			_ = w.end(from)
			_, _ = tryExport(c, w, from) // sendEOM pending
			w.start(from)
			_, _ = w.recvc(to)
			traffic++
		case 1: // partially consumed inbound message
			d := randBytes(c, 2+c.Rng.Intn(30))
			_ = w.send(from, 1, d)
			if w.startread(to) == nil {
				_, _ = w.read(to, 1)
				_, _ = tryExport(c, w, to)
				tried = true
				_, _ = w.read(to, len(d))
				_ = w.endread(to)
			}
			traffic++
		case 2: // encryption switched off
			w.crypto(from, false)
			if blob, err := w.export(from); err == nil {
				// ---- property oracle C15: export is refused whenever the stream is not encrypting ----
				c.Violate(Violation{Property: "C15", Key: "C15:export-accepted-while-not-encrypting", What: "ExportCryptoState returned a blob although encryption is switched off on the stream",
					Ops: append([]string{}, w.ops...), Expected: "refused", Observed: fmt.Sprintf("a %d-byte blob", len(blob))})
			}
			w.crypto(from, true)
		case 3: // a message "in progress" of which NOTHING has been consumed yet (bytesRead = 0): possibly an
			// empty one, possibly multi-frame; export at every point of the incremental read
			var d []byte
			if c.Rng.Intn(3) != 0 {
				d = randBytes(c, 1+c.Rng.Intn(30))
			}
			if c.Rng.Intn(2) == 0 && len(d) > 1 {
				_ = w.send(from, 0, d[:len(d)/2])
				_ = w.send(from, 1, d[len(d)/2:])
			} else {
				_ = w.send(from, 1, d)
			}
			if w.startread(to) == nil {
				_, _ = tryExport(c, w, to) // inMessage, bytesRead = 0
				tried = true
				if len(d) > 0 {
					_, _ = w.read(to, len(d))
					_, _ = tryExport(c, w, to) // everything consumed, EndMessageRead not called yet
				}
				_, _ = w.read(to, 1) // end of message
				_ = w.endread(to)
			}
			traffic++
		case 4: // unread inbound bytes are waiting on the connection (a whole message, or part of one) while the
			// stream itself holds nothing: export is legitimate, and whoever continues the session reads them
			d := randBytes(c, 1+c.Rng.Intn(30))
			_ = w.send(from, 1, d)
			w.deliver(to)
			blob, err := tryExport(c, w, to)
			tried = tried || traffic > 0
			if err == nil && c.Rng.Intn(2) == 0 {
				handoffSeq++
				if w.importBlobAround(to, blob, fmt.Sprintf("@handoff-%d", handoffSeq)) == nil {
					handoffs++
				}
			}
			got, rerr := w.recvc(to)
			if err == nil && (rerr != nil || !bytes.Equal(got, d)) {
				c.Violate(Violation{Property: "C15", Key: "C15:unread-inbound-lost", What: "a message that was waiting unread on the connection when the crypto state was exported was not delivered afterwards",
					Ops: append([]string{}, w.ops...), Expected: orc.ShowBytes(d), Observed: fmt.Sprint(rerr, " ", orc.ShowBytes(got))})
			}
			traffic++
		case 5: // identity changes mid-session (re-authentication, address rewritten by the application)
			if c.Rng.Intn(2) == 0 {
				w.setauth(from, c.Rng.Intn(2) == 0)
			} else {
				w.setpeer(from, pick(c, []string{"<203.0.113.9:9618?sock=collector>", "<192.0.2.99:1>", ""}))
			}
		default:
			_ = w.send(from, 1, randBytes(c, c.Rng.Intn(40)))
			_, _ = w.recvc(to)
			traffic++
		}
		// export attempt on a random end; on success, hand off
		who := "A"
		if c.Rng.Intn(2) == 0 {
			who = "B"
		}
		if w.dead {
			break
		}
		auth0, peer0 := w.ident(who)
		blob, err := tryExport(c, w, who)
		tried = tried || traffic > 0
		if err == nil && c.Rng.Intn(3) != 0 {
			handoffSeq++
			remote := fmt.Sprintf("@handoff-%d", handoffSeq)
			if w.importBlobAround(who, blob, remote) == nil {
				handoffs++
				// ---- property oracle C15: the imported stream continues THE SAME session: it reports the
				// exporter's authentication status and the exporter's peer (not whatever the connection it was
				// rebuilt around calls its remote end). A session that never knew its peer takes the connection's. ----
				auth1, peer1 := w.ident(who)
				if auth1 != auth0 {
					c.Violate(Violation{Property: "C15", Key: "C15:identity-not-restored:authenticated", What: "the imported stream does not report the authentication status the exporting stream had",
						Ops: append([]string{}, w.ops...), Expected: fmt.Sprint(auth0), Observed: fmt.Sprint(auth1)})
				}
				wantPeer := peer0
				if peer0 == "" {
					wantPeer = "<" + remote + ">"
				}
				if peer1 != wantPeer {
					c.Violate(Violation{Property: "C15", Key: "C15:identity-not-restored:peer-address", What: "the imported stream does not report the peer address of the session that was handed over",
						Ops: append([]string{}, w.ops...), Expected: wantPeer, Observed: peer1})
				}
				c.Count("handoff-ident:auth=" + b01(auth0) + ":peer-known=" + b01(peer0 != ""))
			}
		}
	}
	// after the hand-offs both directions must still work (C15 property oracle)
	if !w.dead && handoffs > 0 {
		for _, from := range []string{"A", "B"} {
			to := w.peer(from).name
			d := randBytes(c, 1+c.Rng.Intn(20))
			if err := w.send(from, 1, d); err != nil {
				c.Violate(Violation{Property: "C15", Key: "C15:send-after-handoff", What: "send failed after a hand-off", Ops: w.ops, Expected: "ok", Observed: err.Error()})
				break
			}
			got, err := w.recvc(to)
			if err != nil || !bytes.Equal(got, d) {
				c.Violate(Violation{Property: "C15", Key: "C15:recv-after-handoff", What: "peer could not continue the session after a hand-off", Ops: w.ops, Expected: orc.ShowBytes(d), Observed: fmt.Sprint(err, " ", orc.ShowBytes(got))})
				break
			}
		}
	}
	checkOpenable(c, w)
	w.finish()
	c.Distinct(strings.Join(w.ops, "\n"), tried)
	c.Count(fmt.Sprintf("handoffs:%d", min(handoffs, 4)))
	if idx < 2 || (handoffs >= 2 && len(c.Res.Samples) < 4) {
		c.Sample(map[string]any{"ops": abbreviate(w.ops), "real": abbreviate(w.real)})
	}
	return Case{Label: fmt.Sprintf("handoff#%d", idx), Ops: w.ops, Real: w.real}
}

func handoffBlobMutations(c *Ctx) []Case {
	var cases []Case
	mk := func() (*sworld, []byte) {
		w := newWorld()
		_ = w.send("A", 1, []byte("x"))
		_, _, _ = w.recvf("B")
		w.key("A", 33)
		w.key("B", 33)
		_ = w.send("A", 1, []byte("m1"))
		_, _ = w.recvc("B")
		_ = w.send("B", 1, []byte("m2"))
		_, _ = w.recvc("A")
		blob, _ := w.export("A")
		return w, blob
	}
	_, blob := mk()
	if blob == nil {
		c.Res.Notes = append(c.Res.Notes, "handoff: could not obtain a valid blob")
		return nil
	}
	try := func(label string, mut []byte, mustReject bool) {
		w, _ := mk()
		err := w.importBlob("A", mut)
		if mustReject && err == nil {
			c.Violate(Violation{Property: "C15", Key: "C15:import-accepts:" + strings.SplitN(label, " ", 2)[0], What: "import accepted a truncated / mis-tagged / wrong-version blob",
				Ops: w.ops, Expected: "rejected", Observed: "accepted"})
		}
		w.finish()
		c.Distinct(label, true)
		c.Count("kind:blobmut")
		cases = append(cases, Case{Label: label, Ops: w.ops, Real: w.real})
	}
	for n := 0; n < len(blob); n++ {
		try(fmt.Sprintf("truncate %d", n), blob[:n], true)
	}
	for i := 0; i < len(blob); i++ {
		m := append([]byte{}, blob...)
		m[i] ^= byte(1 + c.Rng.Intn(255))
		try(fmt.Sprintf("corrupt %d", i), m, i < 6) // magic and version bytes must be rejected
	}
	try("extend 3", append(append([]byte{}, blob...), 1, 2, 3), false)
	// every other version, named: older (0), newer (2), far (0x0100, 0x0101, 0xffff) — "wrong-version blobs"
	for _, v := range []uint16{0, 2, 3, 0x0100, 0x0101, 0x7fff, 0x8001, 0xffff} {
		m := append([]byte{}, blob...)
		binary.BigEndian.PutUint16(m[4:6], v)
		try(fmt.Sprintf("version %d", v), m, true)
	}
	// mis-tagged: magic in another case, rotated, reversed, cut short, and the whole blob shifted by one
	// byte either way (a leading pad byte; the first byte lost)
	for _, mg := range []string{"cdrx", "CDRx", "cDRX", "Cdrx", "DRXC", "XCDR", "XRDC", "CDR\x00", "CDRY", "\x00CDR", "CDR ", "    "} {
		m := append([]byte{}, blob...)
		copy(m[:4], mg)
		try("magic "+hexOrDash([]byte(mg)), m, true)
	}
	try("shift +1", append([]byte{0}, blob...), true)
	try("shift +1C", append([]byte{'C'}, blob...), true)
	try("shift -1", append([]byte{}, blob[1:]...), true)
	return cases
}
