package main

// diffBatchTol: diffBatch with an engine-specific tolerance. Where the real and the model reply
// differ, tol(case, real, model) may accept the pair (returning a counter label): used to keep
// distinctions that belong to no property (error WORDING, the ORDER of independent checks) from
// breaking the correspondence, while every accept/reject/abort/identity difference still does.

import "fmt"

func diffBatchTol(c *Ctx, engine string, cases []Case, norm func(string) string, tol func(cs Case, real, model string) string) error {
	var lines []string
	for _, cs := range cases {
		lines = append(lines, cs.Ops...)
	}
	replies, err := runOracle(c, engine, lines)
	if err != nil {
		return err
	}
	if len(replies) != len(lines) {
		return fmt.Errorf("oracle returned %d replies for %d ops", len(replies), len(lines))
	}
	off := 0
	for i, cs := range cases {
		model := replies[off : off+len(cs.Ops)]
		off += len(cs.Ops)
		c.Res.TracesValidated++
		for j := range cs.Ops {
			a, b := cs.Real[j], model[j]
			if norm != nil {
				a, b = norm(a), norm(b)
			}
			if a == b {
				continue
			}
			if unclassifiedErrorMatches(a, b) {
				c.Res.Distribution["unclassified-error-text-accepted-as-error"]++
				continue
			}
			if tol != nil {
				if label := tol(cs, a, b); label != "" {
					c.Res.Distribution[label]++
					continue
				}
			}
			if len(c.Res.Mismatches) < 20 {
				c.Res.Mismatches = append(c.Res.Mismatches, Mismatch{Case: i, Label: cs.Label, Ops: cs.Ops, Real: cs.Real, Model: append([]string{}, model...), FirstDiff: j})
			} else {
				c.Res.Distribution["mismatches_not_recorded"]++
			}
			break
		}
	}
	return nil
}
