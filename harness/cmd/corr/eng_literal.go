package main

// Engine `literal` (C08, decode side): every value text over the literal alphabet goes through the
// REAL decoder (message.GetClassAd on `A = <text>`), through the external ClassAd parser
// (github.com/PelicanPlatform/classad/parser.ParseExpr — the reference reading) and through the Lean
// model (oracle engine `classad`: the transcription of parseAndInsertExpression / tryInsertLiteral /
// decodeOldClassAdString, and the declarative literal grammar LitGrammar).
//
//   property oracle (independent of the model): decoder result == parser's reading of the text;
//       where the parser rejects, the decoder must reject too, except for a lone old-ClassAd string.
//   correspondence 1: model `expr` == real decoder (the parser is a parameter of the model; the
//       harness evaluates it, exactly as refcodec evaluates the symbolic AEAD for the stream engines).
//   correspondence 2: model `gram` (LitGrammar) == parser.ParseExpr restricted to literal results —
//       this is the TEST that the declarative grammar describes the external parser.

import (
	"context"
	"encoding/binary"
	"encoding/hex"
	"errors"
	"fmt"
	"io"
	"math"
	"os"
	"strconv"
	"strings"
	"unicode/utf8"

	"github.com/PelicanPlatform/classad/ast"
	"github.com/PelicanPlatform/classad/classad"
	"github.com/PelicanPlatform/classad/parser"
	"github.com/bbockelm/cedar/message"
)

func init() { register(Engine{"literal", runLiteral}) }

// memStream is a message.StreamInterface over frames held in memory (no crypto, no secretCrypto).
type memStream struct {
	frames [][]byte
	eoms   []bool
	enc    bool
	out    [][]byte
	outEOM []bool
}

func (m *memStream) ReadFrame(ctx context.Context) ([]byte, bool, error) {
	if len(m.frames) == 0 {
		return nil, false, fmt.Errorf("failed to read frame header: %w", io.EOF)
	}
	f, e := m.frames[0], m.eoms[0]
	m.frames, m.eoms = m.frames[1:], m.eoms[1:]
	return f, e, nil
}
func (m *memStream) WriteFrame(ctx context.Context, d []byte, eom bool) error {
	m.out = append(m.out, append([]byte{}, d...))
	m.outEOM = append(m.outEOM, eom)
	return nil
}
func (m *memStream) IsEncrypted() bool { return m.enc }

// c08ErrClass maps the ClassAd layer's errors onto the model's classes before falling back to errClass.
func c08ErrClass(err error) string {
	if err == nil {
		return ""
	}
	m := err.Error()
	switch {
	case strings.HasPrefix(m, "PANIC"):
		return "panic"
	case strings.Contains(m, "failed to parse expression "):
		return "malformed"
	case strings.Contains(m, "is not a type name"):
		return "malformed"
	case strings.Contains(m, "failed to read frame header"), strings.Contains(m, "failed to read message data"):
		return errClass(err) // the connection ended (or the stream layer rejected a frame)
	case errors.Is(err, io.EOF):
		return "eom" // io.EOF from ensureData, wrapped by the ClassAd layer: the message ended
	}
	if c := errClass(err); !strings.HasPrefix(c, "other:") {
		return c
	}
	// wording the harness does not know: "an error", with no text in the compared line (diffBatch
	// accepts "other:" wherever the model also reports an error)
	return "other:"
}

// canonExpr renders an expression up to the one equivalence C08 allows: a minus sign applied to a
// numeric literal is the negative literal (the sender renders IntegerLiteral(-5) as `-5`, which the
// parser reads as -(5)). Everything else is compared structurally through the library's rendering.
func canonExpr(e ast.Expr) string {
	switch v := e.(type) {
	case *ast.IntegerLiteral:
		return "int:" + strconv.FormatInt(v.Value, 10)
	case *ast.RealLiteral:
		return fmt.Sprintf("real:%016x", math.Float64bits(v.Value))
	case *ast.StringLiteral:
		return "str:" + hexOrDash([]byte(v.Value))
	case *ast.BooleanLiteral:
		return "bool:" + b01(v.Value)
	case *ast.UnaryOp:
		if v.Op == "-" {
			switch w := v.Expr.(type) {
			case *ast.IntegerLiteral:
				return "int:" + strconv.FormatInt(-w.Value, 10)
			case *ast.RealLiteral:
				return fmt.Sprintf("real:%016x", math.Float64bits(-w.Value))
			}
		}
	}
	return "expr:" + hexOrDash([]byte(e.String()))
}

// litOf is canonExpr restricted to literal results ("none" otherwise): what LitGrammar describes.
func litOf(e ast.Expr) string {
	c := canonExpr(e)
	if strings.HasPrefix(c, "expr:") {
		return "none"
	}
	return c
}

// refOldString is the old-ClassAd reading of a lone quoted string, written from the statement in
// the code's comment (HTCondor old ClassAds: a backslash is literal, except that backslash-quote is
// a quote unless that quote closes the string). ok=false: not a lone string.
func refOldString(text string) (string, bool) {
	t := strings.TrimSpace(text)
	if len(t) < 2 || t[0] != '"' || t[len(t)-1] != '"' {
		return "", false
	}
	in := t[1 : len(t)-1]
	var out []byte
	for i := 0; i < len(in); i++ {
		switch {
		case in[i] == '\\' && i+1 < len(in) && in[i+1] == '"':
			out = append(out, '"')
			i++
		case in[i] == '"':
			return "", false
		default:
			out = append(out, in[i])
		}
	}
	return string(out), true
}

// decodeOne runs the real decoder on one expression line; returns (canonical value of attribute name, error class).
func decodeOne(line string) (name string, val string, errc string) {
	var b []byte
	b = binary.BigEndian.AppendUint64(b, 1)
	b = append(b, line...)
	b = append(b, 0, 0, 0)
	ms := &memStream{frames: [][]byte{b}, eoms: []bool{true}}
	var ad *classad.ClassAd
	var err error
	func() {
		defer func() {
			if r := recover(); r != nil {
				err = fmt.Errorf("PANIC: %v", r)
			}
		}()
		ad, err = message.NewMessageFromStream(ms).GetClassAd(bg)
	}()
	if err != nil {
		return "", "", c08ErrClass(err)
	}
	a := ad.AST()
	if a == nil || len(a.Attributes) != 1 {
		return "", fmt.Sprintf("ATTRS=%d", len(a.Attributes)), ""
	}
	return a.Attributes[0].Name, canonExpr(a.Attributes[0].Value), ""
}

func textClass(text string) string {
	t := strings.TrimSpace(text)
	if t == "" {
		return "empty"
	}
	switch c := t[0]; {
	case c == '"':
		return "string"
	case c == '-' || (c >= '0' && c <= '9'):
		if strings.Contains(t, ".") {
			return "real"
		}
		return "int"
	case c == '.':
		return "real"
	case (c >= 'a' && c <= 'z') || (c >= 'A' && c <= 'Z') || c == '_':
		return "word"
	}
	return "other"
}

// textSubClass names the syntactic feature that makes a text interesting (stable violation keys).
func textSubClass(class, text string) string {
	t := strings.TrimSpace(text)
	switch class {
	case "int":
		d := strings.TrimPrefix(t, "-")
		if len(d) > 1 && d[0] == '0' {
			return ":leading-zero"
		}
	case "real":
		switch {
		case strings.ContainsAny(t, "xX"):
			return ":hex-float"
		case strings.Contains(t, "_"):
			return ":underscore"
		case strings.HasSuffix(t, ".") || strings.Contains(t, ".e") || strings.Contains(t, ".E"):
			return ":no-digit-after-point"
		}
	case "string":
		switch {
		case !utf8.ValidString(t):
			return ":invalid-utf8"
		case len(t) >= 2 && strings.Contains(t[1:len(t)-1], "\""):
			return ":interior-quote"
		}
	case "word":
		if !isASCII(t) {
			return ":non-ascii"
		}
	}
	return ""
}

func isASCII(s string) bool {
	for i := 0; i < len(s); i++ {
		if s[i] >= 0x80 {
			return false
		}
	}
	return true
}

// normC08 resolves the model's symbolic replies with the external parser / strconv:
//
//	ok <name> lit real <neg> <texthex>            -> ok <name> real:<bits>
//	ok <name> full <texthex> old <hex> | rej      -> ok <name> <canon(parser(text))> | ok <name> str:<hex> | err malformed
//	gram real <neg> <texthex>                     -> real:<bits>
func normC08(s string) string {
	f := strings.Fields(s)
	unhex := func(h string) string {
		if h == "-" {
			return ""
		}
		b, err := hex.DecodeString(h)
		if err != nil {
			return "\x00BADHEX"
		}
		return string(b)
	}
	realBits := func(neg, h string) string {
		v, err := strconv.ParseFloat(unhex(h), 64)
		if err != nil && !strings.Contains(err.Error(), "out of range") {
			return "real:UNPARSEABLE"
		}
		if neg == "1" {
			v = -v
		}
		return fmt.Sprintf("real:%016x", math.Float64bits(v))
	}
	lit := func(g []string) (string, bool) {
		switch {
		case len(g) == 2 && g[0] == "bool":
			return "bool:" + g[1], true
		case len(g) == 2 && g[0] == "int":
			return "int:" + g[1], true
		case len(g) == 2 && g[0] == "str":
			return "str:" + g[1], true
		case len(g) == 3 && g[0] == "real":
			return realBits(g[1], g[2]), true
		}
		return "", false
	}
	switch {
	case len(f) >= 2 && f[0] == "gram":
		if r, ok := lit(f[1:]); ok {
			return r
		}
		return strings.Join(f[1:], " ")
	case len(f) >= 4 && f[0] == "ok" && f[2] == "lit":
		if r, ok := lit(f[3:]); ok {
			return "ok " + f[1] + " " + r
		}
	case len(f) >= 5 && f[0] == "ok" && f[2] == "full":
		e, err := parser.ParseExpr(unhex(f[3]))
		if err == nil {
			return "ok " + f[1] + " " + canonExpr(e)
		}
		if f[4] == "old" && len(f) == 6 {
			return "ok " + f[1] + " str:" + f[5]
		}
		return "err malformed"
	}
	return s
}

type litCase struct {
	text string
	kind string
}

var litAlphabet = []string{"0", "1", "7", "9", "+", "-", ".", "e", "x", "_", "\"", "\\", "a", "T", "é", " "}

// structured texts: the grammar of the property's quantifier plus its edges
func litStructured(c *Ctx, n int) []litCase {
	var out []litCase
	add := func(kind, s string) { out = append(out, litCase{s, kind}) }
	// booleans: every case variant, blanks, look-alikes
	blanks := [][2]string{{"", ""}, {" ", ""}, {"", " "}, {" ", " "}, {"\t", "\n"}, {"\u00a0", "\u2003"}, {"\v\f\r", ""}}
	for _, w := range []string{"true", "false"} {
		for m := 0; m < 1<<len(w); m++ {
			b := []byte(w)
			for i := range b {
				if m&(1<<i) != 0 {
					b[i] -= 32
				}
			}
			bl := blanks[c.Rng.Intn(len(blanks))]
			add("bool-case", bl[0]+string(b)+bl[1])
		}
		for _, bl := range blanks {
			add("bool-blank", bl[0]+w+bl[1])
		}
	}
	for _, s := range []string{"falſe", "FALſE", "fal\u017fe ", "trüe", "tru\u0435", "TRUE1", "truefalse", "t rue", "true true", "undefined", "error", "True()", "fa1se", "İ", "tru", "falsee", "_true", "true_"} {
		add("bool-lookalike", s)
	}
	// integers
	ints := []string{"0", "-0", "00", "007", "-007", "08", "1", "-1", "10", "9223372036854775807", "9223372036854775808", "-9223372036854775808", "-9223372036854775809",
		"18446744073709551616", "- 5", "-  9223372036854775808", "--5", "-+5", "+5", "+ 5", "5-", "5 5", "1_000", "0x10", "0b1", "0o7", "1e5", "1E5", "1e+5", "1e-5", "1e", "1e+", "0e0", "00e1",
		"5 ", " 5", "\t5\n", "5\u00a0", "(5)", "-(5)", "5;", "5]", "5//c", "5/*c*/", "١٢", "５"}
	for _, s := range ints {
		add("int-edge", s)
	}
	// reals
	reals := []string{"1.5", "-1.5", "1.", "-1.", "1.e5", "1.5e", "1.5e+", "1.5e5", "1.5E-5", "1.5e+05", ".5", "-.5", ".", "-.", "..5", "1..5", "1.5.5", "00.5", "007.25", "-00.5", "0.0", "-0.0", "0.", "-0.",
		"0x1.8p1", "0X1.8P1", "0x1p1", "0x.8p1", "0x1.8", "-0x1.8p1", "1_0.5", "1.0_5", "1_0.5e1_0", "1._5", "_1.5", "1.5_", "1.5e999", "-1.5e999", "1.5e-999", "1.7976931348623157e308", "1.7976931348623159e308",
		"4.9e-324", "2.4e-324", "1.5f", "1.5d", "1.5 ", " 1.5", "1 .5", "1. 5", "- 1.5", "-\t1.5", "1.5e 5", "1.5 e5", "Inf", "-Inf", "-Inf.", "NaN", "-nan.0", "infinity", "1.5e5.5", "1,5", "1.5,", "1.5)", "(1.5)",
		"123456789012345678901234567890.5", "0.000000000000000000000000000000000000000000000000000001", "1." + strings.Repeat("0", 40), strings.Repeat("9", 400) + ".0", "1.0e+0000000000000000000001"}
	for _, s := range reals {
		add("real-edge", s)
	}
	// strings
	strs := []string{`""`, `"a"`, `"a b"`, `" a "`, `"a" + "b"`, `"a" "b"`, `"a""b"`, `"a"  "b" "c"`, `"a" , "b"`, `"a"b"`, `"a\"b"`, `"a\\"`, `"a\"`, `"\"`, `"\\"`, `"\S"`, `"C:\dir\"`, `"C:\dir\file"`,
		`"a\nb"`, `"a\tb"`, `"\101"`, `"\0"`, `"\00"`, `"\000"`, `"\400"`, `"\377"`, `"\1234"`, `"\8"`, `"\'"`, `"'"`, `"a`, `a"`, `"`, `"""`, `""""`, `" " "`, `"a" "`, `"é"`, `"😀"`, "\"a\xffb\"", "\"\xc3\"", "\"\xe2\x82\"",
		"\"\xed\xa0\x80\"", "\"\xf4\x90\x80\x80\"", "\"\xc0\xaf\"", "\"a\xff\\n\"", "\"\xff\" \"\\t\"", "\"a\x01b\"", "\"a\x7fb\"", "\"a\nb\"", "\"a\tb\"", ` "a" `, "\t\"a\"\n", "\u00a0\"a\"\u00a0", `"a" + 1`, `"a" == "a"`, `strcat("a","b")`,
		`"a" /*c*/ "b"`, `"a"//`, `("a")`, `"\"" "\""`, `"a\" + \"b"`, `"x = y"`, `"a=b" + "c"`}
	for _, s := range strs {
		add("string-edge", s)
	}
	// expressions the full parser owns
	exprs := []string{"a", "a + 1", "1 + 1", "-a", "!true", "{1, 2}", "[a = 1]", "[a = 1; b = \"x\"]", "f(1, \"x\")", "a.b", "a[1]", "a ?: b", "a ? 1 : 2", "MY.x", "TARGET.y > 3 && z", "1 < 2", "x =?= undefined", "x =!= error",
		"1 == 1", "a = b", "", " ", "=", "1 =", "#", "1 #", "@", "a b", "1 2", "{", "}", "[", "]", "(", ")", "((1))", "1 +", "+ 1", "1 - -1", "1--1", "'quoted name'", "'a' + 1", "time()", "1 /* c */", "1 // c", "/* c */ 1"}
	for _, s := range exprs {
		add("expr-edge", s)
	}
	// grammar-generated numbers and strings, then single-symbol mutations of them
	digits := func(k int) string {
		var b strings.Builder
		for i := 0; i < k; i++ {
			b.WriteByte(byte('0' + c.Rng.Intn(10)))
		}
		return b.String()
	}
	for i := 0; i < n; i++ {
		var s string
		kind := "gen-int"
		switch c.Rng.Intn(4) {
		case 0:
			s = digits(1 + c.Rng.Intn(20))
			if c.Rng.Intn(3) == 0 {
				s = "-" + s
			}
		case 1:
			kind = "gen-real"
			s = digits(1+c.Rng.Intn(4)) + "." + digits(c.Rng.Intn(4))
			if c.Rng.Intn(2) == 0 {
				s += []string{"e", "E"}[c.Rng.Intn(2)] + []string{"", "+", "-"}[c.Rng.Intn(3)] + digits(c.Rng.Intn(4))
			}
			if c.Rng.Intn(3) == 0 {
				s = "-" + s
			}
		case 2:
			kind = "gen-string"
			parts := []string{"a", "B", " ", `\"`, `\\`, `\n`, `\t`, `\101`, `\7`, "é", "中", "😀", "\x01", "\x7f", "\xff", "\xc3", "'", "=", "+", `"`, `\`, `\S`, `\0`}
			k := c.Rng.Intn(6)
			var b strings.Builder
			b.WriteByte('"')
			for j := 0; j < k; j++ {
				w := c.Rng.Intn(len(parts))
				if w >= len(parts)-4 && c.Rng.Intn(3) != 0 { // the syntax breakers are rarer
					w = c.Rng.Intn(len(parts) - 4)
				}
				b.WriteString(parts[w])
			}
			b.WriteByte('"')
			s = b.String()
			if c.Rng.Intn(8) == 0 {
				s += []string{" ", ""}[c.Rng.Intn(2)] + `"z"`
			}
		default:
			kind = "gen-random"
			k := 6 + c.Rng.Intn(7)
			var b strings.Builder
			for j := 0; j < k; j++ {
				b.WriteString(litAlphabet[c.Rng.Intn(len(litAlphabet))])
			}
			s = b.String()
		}
		if c.Rng.Intn(3) == 0 && len(s) > 0 { // one mutation: insert / delete / replace a symbol
			p := c.Rng.Intn(len(s) + 1)
			sym := litAlphabet[c.Rng.Intn(len(litAlphabet))]
			switch c.Rng.Intn(3) {
			case 0:
				s = s[:p] + sym + s[p:]
			case 1:
				if p < len(s) {
					s = s[:p] + s[p+1:]
				}
			default:
				if p < len(s) {
					s = s[:p] + sym + s[p+1:]
				}
			}
			kind += "+mut"
		}
		if c.Rng.Intn(6) == 0 {
			s = []string{" ", "\t", "  "}[c.Rng.Intn(3)] + s + []string{" ", "", "\n"}[c.Rng.Intn(3)]
		}
		add(kind, s)
	}
	return out
}

func runLiteral(c *Ctx) error {
	const prop = "C08"
	c.Res.Rule = "value texts: EVERY string over the 16-symbol literal alphabet {0 1 7 9 + - . e x _ \" \\ a T é space} up to length 4 (quick) / 5 (thorough), every case variant of true/false with blanks and look-alikes, integer/real/string/expression edge lists, grammar-generated numbers and quoted strings (escapes, octal, controls, UTF-8, invalid UTF-8, adjacent strings) with single-symbol mutations, random alphabet strings of length 6–12; each decoded by the REAL message.GetClassAd as `A = <text>`, read by the external parser (reference), by the model's decoder and by the model's LitGrammar; distinct by text; non-trivial = the text reaches a literal shortcut or the old-string fallback (starts with digit, '-', quote or is a boolean word) "
	var cases []litCase
	maxLen := c.Pick(4, 5)
	if strings.Contains(c.Replay, "len6") {
		maxLen = 6
	}
	// exhaustive part
	var rec func(prefix string, left int)
	rec = func(prefix string, left int) {
		cases = append(cases, litCase{prefix, fmt.Sprintf("exhaustive-len%d", utf8.RuneCountInString(prefix))})
		if left == 0 {
			return
		}
		for _, a := range litAlphabet {
			rec(prefix+a, left-1)
		}
	}
	rec("", maxLen)
	cases = append(cases, litStructured(c, c.Pick(20000, 300000))...)

	var ccases []Case
	seenText := map[string]bool{}
	perKey := map[string]int{}
	for i, lc := range cases {
		if seenText[lc.text] {
			continue
		}
		seenText[lc.text] = true
		text := lc.text
		line := "A = " + text
		// reference reading
		ref, perr := parser.ParseExpr(text)
		refCanon, refLit := "REJECT", "none"
		if perr == nil {
			refCanon, refLit = canonExpr(ref), litOf(ref)
		}
		// real decoder
		name, got, errc := decodeOne(line)
		class := textClass(text)
		realReply := "err " + errc
		if errc == "" {
			realReply = "ok " + hexOrDash([]byte(name)) + " " + got
		}
		viol := func(kind, exp, obs string) {
			key := "C08:" + kind + ":" + class + textSubClass(class, text)
			if perKey[key]++; perKey[key] > 2 {
				return
			}
			c.Violate(Violation{Property: prop, Key: key,
				What:     fmt.Sprintf("decoding `A = %s`: %s", strconv.QuoteToASCII(text), kind),
				Ops:      []string{"expr " + hexOrDash([]byte(line)), "# text=" + strconv.QuoteToASCII(text)},
				Expected: exp, Observed: obs})
		}
		switch {
		case errc == "panic":
			c.Violate(Violation{Property: "C13", Key: "C13:classad-decode-panic", What: "GetClassAd panicked", Ops: []string{"expr " + hexOrDash([]byte(line))}, Expected: "clean result", Observed: "panic"})
			viol("decoder-panics", refCanon, "panic")
		case perr == nil && errc != "":
			viol("decoder-rejects-what-parser-accepts", refCanon, "err "+errc)
		case perr == nil && got != refCanon:
			viol("shortcut-differs-from-parser", refCanon, got)
		case perr != nil && errc == "":
			if old, ok := refOldString(text); ok {
				if got != "str:"+hexOrDash([]byte(old)) {
					viol("old-string-fallback-differs", "str:"+hexOrDash([]byte(old)), got)
				}
				c.Count("branch:old-string-fallback")
			} else {
				viol("shortcut-accepts-what-parser-rejects", "rejected (parser: "+c08FirstLine(perr.Error())+")", got)
			}
		}
		if errc == "" && name != "A" {
			viol("attribute-name", "A", name)
		}
		// distribution
		c.Count("kind:" + lc.kind)
		c.Count("class:" + class)
		switch {
		case perr != nil:
			c.Count("parser:reject")
		case refLit == "none":
			c.Count("parser:expression")
		default:
			c.Count("parser:literal-" + refLit[:strings.Index(refLit, ":")])
		}
		if errc != "" {
			c.Count("decoder:err-" + errc)
		} else {
			c.Count("decoder:ok")
		}
		c.Distinct(text, class == "string" || class == "int" || class == "real" || strings.HasPrefix(refLit, "bool"))
		if i%50000 == 17 || (len(c.Res.Samples) < 3 && strings.HasSuffix(lc.kind, "edge") && c.Rng.Intn(40) == 0) {
			c.Sample(map[string]any{"text": text, "parser": refCanon, "decoder": realReply})
		}
		// correspondence ops
		cs := Case{Label: "text " + strconv.QuoteToASCII(text), Ops: []string{"expr " + hexOrDash([]byte(line))}, Real: []string{realReply}}
		// LitGrammar describes literal tokens and blanks; comments and the ';' the parser's record
		// wrapper tolerates after an expression are outside it
		if !strings.ContainsAny(text, "/;") {
			cs.Ops = append(cs.Ops, "gram "+hexOrDash([]byte(text)))
			cs.Real = append(cs.Real, "gram "+refLit)
		}
		ccases = append(ccases, cs)
		if len(ccases) >= 200000 {
			if os.Getenv("C08_NOMODEL") == "" {
				if err := diffBatch(c, "classad", ccases, normC08); err != nil {
					return err
				}
			}
			ccases = nil
		}
	}
	if os.Getenv("C08_NOMODEL") != "" {
		return nil
	}
	return diffBatch(c, "classad", ccases, normC08)
}

func c08FirstLine(s string) string {
	if i := strings.IndexByte(s, '\n'); i >= 0 {
		return s[:i]
	}
	return s
}
