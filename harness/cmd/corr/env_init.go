package main

import (
	"fmt"
	"os"
	"syscall"
)

// The harness compares modes of what it and the library create (C18: the FS server requires exactly
// 0700, the engine places directories with 0755/0750/...; token and key files are written 0600):
// the caller's umask must not decide a verdict. Fixed for the whole process, before any engine runs.
func init() { syscall.Umask(0o022) }

// scratchPrefix: scratch directories under <root>/.work carry the process id (`<name>-p<pid>-…`), so
// that the driver can sweep what a killed run left behind (check: sweep_stale) without guessing.
func scratchPrefix(name string) string { return fmt.Sprintf("%s-p%d-", name, os.Getpid()) }
