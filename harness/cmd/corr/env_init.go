package main

import "syscall"

// The harness compares modes of what it and the library create (C18: the FS server requires exactly
// 0700, the engine places directories with 0755/0750/...; token and key files are written 0600):
// the caller's umask must not decide a verdict. Fixed for the whole process, before any engine runs.
func init() { syscall.Umask(0o022) }
