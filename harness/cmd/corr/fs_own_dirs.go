package main

// FS authentication makes the client create a directory under /tmp whose name the server chose and
// sent over the connection. A handshake the harness cuts short may leave such a directory behind,
// so the engines clean up after themselves. They must clean up ONLY what is theirs: several checks
// run at the same time (C03/C10 hs, C04 relay, C18 fspath, C19 stall, the library's own tests) and
// all of them use /tmp/FS_*. "Theirs" is decided by the wire: a directory belongs to this process
// exactly when its name crossed one of this process's own connections. Nothing here globs /tmp.
//
//   - every in-memory pipe (bufpipe) feeds the process-wide recorder through bufpipe.WriteHook;
//   - a real socket is wrapped with ownFS.wrap(conn);
//   - stallFSDirs() (the name the engines already use) returns the recorded directories that exist
//     now, so the existing pattern `before := stallFSDirs(); ...; remove what is new` touches no
//     directory of anybody else;
//   - ownFS.cleanup() removes every recorded directory that is still there (empty directories only:
//     os.Remove).

import (
	"bytes"
	"net"
	"os"
	"regexp"
	"sort"
	"sync"

	"cedarverif/harness/internal/bufpipe"
)

// a path string as the message layer sends it: the bytes and a terminating NUL
var (
	fsOwnRe   = regexp.MustCompile(`/tmp/FS_[A-Za-z0-9._:\-]{1,400}\x00`)
	fsOwnMark = []byte("/tmp/FS_")
)

type fsOwnRecorder struct {
	mu    sync.Mutex
	names map[string]bool
}

var ownFS = &fsOwnRecorder{names: map[string]bool{}}

func init() { bufpipe.WriteHook = ownFS.see }

// see scans one chunk of a direction (tail = the bytes just before it, for names cut by a chunk boundary).
func (r *fsOwnRecorder) see(tail, p []byte) {
	if !bytes.Contains(p, fsOwnMark) {
		// the mark may straddle the boundary, or a name begun in the tail may end in p
		if len(tail) == 0 {
			return
		}
		z := bytes.IndexByte(p, 0)
		if z < 0 || z > 410 {
			return
		}
		k := bytes.LastIndexByte(tail, 0) // the tail's unterminated end starts after its last NUL
		if bytes.IndexByte(tail[k+1:], '/') < 0 {
			return
		}
	}
	buf := p
	if len(tail) > 0 {
		buf = append(append(make([]byte, 0, len(tail)+len(p)), tail...), p...)
	}
	for _, m := range fsOwnRe.FindAll(buf, -1) {
		r.add(string(m[:len(m)-1]))
	}
}

func (r *fsOwnRecorder) add(name string) {
	r.mu.Lock()
	r.names[name] = true
	r.mu.Unlock()
}

func (r *fsOwnRecorder) all() []string {
	r.mu.Lock()
	defer r.mu.Unlock()
	out := make([]string, 0, len(r.names))
	for n := range r.names {
		out = append(out, n)
	}
	sort.Strings(out)
	return out
}

// existing: the recorded names that are directories right now.
func (r *fsOwnRecorder) existing() map[string]bool {
	out := map[string]bool{}
	for _, n := range r.all() {
		if st, err := os.Lstat(n); err == nil && st.IsDir() {
			out[n] = true
		}
	}
	return out
}

// cleanup removes every recorded directory that is still there and empty; returns how many.
func (r *fsOwnRecorder) cleanup() (removed int) {
	for d := range r.existing() {
		if os.Remove(d) == nil {
			removed++
		}
	}
	return
}

// stallFSDirs: the FS directories of THIS process (names seen on its own wire) that exist now.
func stallFSDirs() map[string]bool { return ownFS.existing() }

// fsRecConn feeds a recorder with what passes over a real connection (both directions).
type fsRecConn struct {
	net.Conn
	rec          *fsOwnRecorder
	mu           sync.Mutex
	rtail, wtail []byte
}

func keepTail(t, p []byte) []byte {
	t = append(t, p...)
	if len(t) > bufpipe.TailLen {
		t = append([]byte{}, t[len(t)-bufpipe.TailLen:]...)
	}
	return t
}

func (c *fsRecConn) Read(p []byte) (int, error) {
	n, err := c.Conn.Read(p)
	if n > 0 {
		c.mu.Lock()
		c.rec.see(c.rtail, p[:n])
		if c.rec != ownFS {
			ownFS.see(c.rtail, p[:n])
		}
		c.rtail = keepTail(c.rtail, p[:n])
		c.mu.Unlock()
	}
	return n, err
}

func (c *fsRecConn) Write(p []byte) (int, error) {
	c.mu.Lock()
	c.rec.see(c.wtail, p)
	if c.rec != ownFS {
		ownFS.see(c.wtail, p)
	}
	c.wtail = keepTail(c.wtail, p)
	c.mu.Unlock()
	return c.Conn.Write(p)
}

// wrap: a connection whose traffic is recorded by r (and always by the process-wide recorder).
func (r *fsOwnRecorder) wrap(c net.Conn) net.Conn { return &fsRecConn{Conn: c, rec: r} }
