package main

// C17, "once the handshake is over a stream may be written by one goroutine while another reads from
// it", in the one stream state the other workloads leave out: the stream HOLDS a session key but is
// not currently encrypting (C09's state: SetCryptoMode(false) after a keyed handshake). There a
// secret is sent by switching encryption on for one frame and off again -- and that switch is ONE
// flag read by both directions.

import (
	"context"
	"fmt"
	"sync"
	"time"

	"cedarverif/harness/internal/bufpipe"

	"github.com/bbockelm/cedar/stream"
)

const keyedPlainGroup = "stream-secret-keyed-plain"
const keyedPlainKey = "C17:keyed-plain-secret-toggle:"

// wlSecretKeyedPlain: A sends secrets (goroutine 1) while it receives the peer's ordinary messages
// (goroutine 2); the peer B sends those messages (3) and receives the secrets (4). Each goroutine
// touches one direction of one stream only.
func wlSecretKeyedPlain(c *Ctx, out *raceWorkerOut) {
	rounds := c.Pick(40, 300)
	per := 25
	for r := 0; r < rounds; r++ {
		ca, cb := bufpipe.Pair("10.0.0.1:1111", "10.0.0.2:9618")
		A, B := stream.NewStream(ca), stream.NewStream(cb)
		_ = A.SetSymmetricKey(keyBytes(7))
		_ = B.SetSymmetricKey(keyBytes(7))
		A.SetCryptoMode(false)
		B.SetCryptoMode(false)
		ctx, cancel := context.WithTimeout(context.Background(), 10*time.Second)
		var wg sync.WaitGroup
		var mu sync.Mutex
		bad := map[string]string{}
		fail := func(who string, err error) {
			mu.Lock()
			if _, ok := bad[who]; !ok {
				bad[who] = errClass(err)
			}
			mu.Unlock()
			cancel() // the round is over: let the other goroutines return
		}
		wg.Add(4)
		go func() {
			defer wg.Done()
			for i := 0; i < per; i++ {
				if err := A.PutSecret(ctx, "secret"); err != nil {
					fail("A-put-secret", err)
					return
				}
			}
		}()
		go func() {
			defer wg.Done()
			for i := 0; i < per; i++ {
				m, err := A.ReceiveCompleteMessage(ctx)
				if err != nil {
					fail("A-receive-plain", err)
					return
				}
				if string(m) != "plain" {
					fail("A-receive-plain", fmt.Errorf("wrong payload"))
					return
				}
			}
		}()
		go func() {
			defer wg.Done()
			for i := 0; i < per; i++ {
				if err := B.SendMessage(ctx, []byte("plain")); err != nil {
					fail("B-send-plain", err)
					return
				}
			}
		}()
		go func() {
			defer wg.Done()
			for i := 0; i < per; i++ {
				s, err := B.GetSecret(ctx)
				if err != nil {
					fail("B-get-secret", err)
					return
				}
				if s != "secret" {
					fail("B-get-secret", fmt.Errorf("wrong payload"))
					return
				}
			}
		}()
		wg.Wait()
		cancel()
		ca.Close()
		cb.Close()
		out.count("keyed-plain-rounds")
		raceProgress.Add(1)
		if len(bad) > 0 {
			out.count("keyed-plain-rounds-disturbed")
			if len(out.Violations) == 0 {
				out.violate(Violation{Property: "C17", Key: keyedPlainKey + "direction-disturbed",
					What:     "on a stream that holds a key but is not encrypting, one goroutine sending secrets and another receiving ordinary messages on the same stream disturbed one another (the switch that protects a secret is one flag for both directions)",
					Ops:      []string{"# both ends: SetSymmetricKey, SetCryptoMode(false); A: PutSecret x25 || ReceiveCompleteMessage x25; B: SendMessage x25 || GetSecret x25", fmt.Sprintf("# round %d", r)},
					Expected: "every operation succeeds with the payload sent", Observed: fmt.Sprint(bad)})
			}
		}
	}
}
