package main

// token_ref.go — support code of engine `token` (C11): an independent reference of the
// IDTOKEN/AKEP2 cryptography (written from HTCondor's condor_auth_passwd description: HKDF-SHA256,
// HMAC-SHA256 signature, HMAC-SHA1 proofs), symbolic terms <-> bytes, wire encoding of the three
// messages, a single-threaded scripted peer connection, and the description of JWT segments in
// the vocabulary of the Lean oracle.

import (
	"crypto/hmac"
	"crypto/sha1"
	"crypto/sha256"
	"encoding/base64"
	"encoding/binary"
	"encoding/hex"
	"encoding/json"
	"fmt"
	"io"
	"math"
	"net"
	"strings"
	"time"

	"cedarverif/harness/internal/orc"
	"cedarverif/harness/internal/refcodec"
)

// ---- reference cryptography -------------------------------------------------------------

// seed of HTCondor's setup_seed() for K (the 256-byte "ka" array)
var tokSeedKA = [256]byte{
	62, 74, 80, 32, 71, 213, 244, 229, 220, 124, 105, 187, 82, 16, 203, 182, 22, 122, 221, 128, 132, 247, 221, 158, 243, 173, 44, 202, 113, 210, 131, 221, 17, 74, 79, 187, 123, 30, 233, 10, 223, 168, 98, 196, 67, 4, 222, 84, 115, 163, 23, 47, 115, 92, 44, 187, 110, 119, 91, 93, 64, 211, 159, 172, 232, 115, 24, 37, 35, 249, 37, 43, 98, 59, 224, 212, 177, 103, 163, 168, 4, 12, 172, 254, 233, 238, 61, 160, 44, 10, 187, 244, 217, 216, 177, 31, 137, 0, 76, 148, 57, 35, 206, 93, 149, 8, 187, 63, 4, 188, 102, 163, 250, 32, 161, 58, 65, 108, 94, 111, 78, 13, 49, 135, 212, 95, 199, 131, 53, 197, 228, 133, 219, 44, 90, 55, 23, 151, 12, 194, 110, 123, 107, 157, 25, 101, 180, 122, 103, 223, 119, 163, 31, 34, 240, 138, 108, 11, 165, 112, 151, 162, 26, 156, 167, 198, 4, 36, 247, 39, 57, 171, 92, 185, 21, 164, 24, 91, 209, 9, 130, 142, 53, 228, 33, 8, 171, 133, 28, 8, 163, 223, 253, 224, 227, 176, 111, 61, 57, 56, 205, 173, 109, 246, 239, 154, 111, 109, 194, 203, 116, 240, 34, 133, 18, 235, 122, 61, 104, 35, 1, 6, 132, 176, 21, 193, 42, 195, 1, 76, 79, 159, 147, 142, 56, 77, 173, 30, 59, 215, 69, 255, 140, 20, 31, 215, 11, 70, 91, 168, 175, 93, 27, 152, 180, 177,
}

func refScramble(b []byte) []byte {
	db := []byte{0xde, 0xad, 0xbe, 0xef}
	out := make([]byte, len(b))
	for i := range b {
		out[i] = b[i] ^ db[i%4]
	}
	return out
}

// refHKDF32: first 32 bytes of HKDF-SHA256 (RFC 5869), by hand
func refHKDF32(ikm, salt, info []byte) []byte {
	if len(salt) == 0 {
		salt = make([]byte, sha256.Size)
	}
	ex := hmac.New(sha256.New, salt)
	ex.Write(ikm)
	prk := ex.Sum(nil)
	t := hmac.New(sha256.New, prk)
	t.Write(info)
	t.Write([]byte{1})
	return t.Sum(nil)
}

func refSign(key []byte, tok []byte) []byte {
	jk := refHKDF32(key, []byte("htcondor"), []byte("master jwt"))
	m := hmac.New(sha256.New, jk)
	m.Write(tok)
	return m.Sum(nil)
}

func refK(sig []byte, tok []byte) []byte {
	salt := append(append([]byte{}, tokSeedKA[:]...), tok...)
	return refHKDF32(sig, salt, []byte("master ka"))
}

func refMAC(k []byte, msg []byte) []byte {
	m := hmac.New(sha1.New, k)
	m.Write(msg)
	return m.Sum(nil)
}

// ---- symbolic terms -----------------------------------------------------------------------

func hx(b []byte) string {
	if len(b) == 0 {
		return "-"
	}
	return hex.EncodeToString(b)
}

type sigTerm struct {
	sign     bool
	key, tok []byte
	raw      []byte
}

func (s sigTerm) bytes() []byte {
	if s.sign {
		return refSign(s.key, s.tok)
	}
	return s.raw
}
func (s sigTerm) term() string {
	if s.sign {
		return "S." + hx(s.key) + "." + hx(s.tok)
	}
	return "R." + hx(s.raw)
}
func (s sigTerm) show() string {
	if s.sign {
		return "S." + orc.ShowBytes(s.key) + "." + orc.ShowBytes(s.tok)
	}
	return "R." + orc.ShowBytes(s.raw)
}

type keyTerm struct {
	nilKey bool
	sig    sigTerm
	tok    []byte
}

func (k keyTerm) bytes() []byte {
	if k.nilKey {
		return nil
	}
	return refK(k.sig.bytes(), k.tok)
}
func (k keyTerm) term() string {
	if k.nilKey {
		return "N"
	}
	return "D." + k.sig.term() + "." + hx(k.tok)
}
func (k keyTerm) show() string {
	if k.nilKey {
		return "N"
	}
	return "D." + k.sig.show() + "." + orc.ShowBytes(k.tok)
}

type macTerm struct {
	isRaw bool
	raw   []byte
	k     keyTerm
	msg   []byte
}

func (m macTerm) bytes() []byte {
	if m.isRaw {
		return m.raw
	}
	return refMAC(m.k.bytes(), m.msg)
}
func (m macTerm) term() string {
	if m.isRaw {
		return "R." + hx(m.raw)
	}
	return "H." + m.k.term() + "." + hx(m.msg)
}
func (m macTerm) show() string {
	if m.isRaw {
		return "R." + orc.ShowBytes(m.raw)
	}
	return "H." + m.k.show() + "." + orc.ShowBytes(m.msg)
}

// termBook: which bytes are which term (the oracle's `mac` / `seg s` tables)
type termBook struct {
	sigs map[string]sigTerm
	macs map[string]macTerm
}

func newBook() *termBook { return &termBook{sigs: map[string]sigTerm{}, macs: map[string]macTerm{}} }

func (tb *termBook) sign(key, tok []byte) sigTerm {
	s := sigTerm{sign: true, key: key, tok: tok}
	tb.sigs[string(s.bytes())] = s
	return s
}
func (tb *termBook) sigOfBytes(b []byte) sigTerm {
	if s, ok := tb.sigs[string(b)]; ok {
		return s
	}
	return sigTerm{raw: b}
}
func (tb *termBook) hmac(k keyTerm, msg []byte) macTerm {
	m := macTerm{k: k, msg: msg}
	tb.macs[string(m.bytes())] = m
	return m
}
func (tb *termBook) macOfBytes(b []byte) macTerm {
	if m, ok := tb.macs[string(b)]; ok {
		return m
	}
	return macTerm{isRaw: true, raw: b}
}

func macMsg2(cid, sid string, ra, rb []byte) []byte {
	var m []byte
	m = append(m, cid...)
	m = append(m, ' ')
	m = append(m, sid...)
	m = append(m, 0)
	m = append(m, ra...)
	return append(m, rb...)
}
func macMsg3(cid string, rb []byte) []byte {
	var m []byte
	m = append(m, cid...)
	m = append(m, 0)
	return append(m, rb...)
}

// ---- wire ---------------------------------------------------------------------------------

type wfield struct {
	kind byte // 'i' 8-byte integer, 's' NUL-terminated string, 'r' raw bytes
	i    int64
	b    []byte
}

func wI(v int64) wfield       { return wfield{kind: 'i', i: v} }
func wS(s string) wfield      { return wfield{kind: 's', b: []byte(s)} }
func wR(b []byte) wfield      { return wfield{kind: 'r', b: b} }
func wID(s string) []wfield   { return []wfield{wI(int64(len(s))), wS(s)} }
func wBlob(b []byte) []wfield { return []wfield{wI(int64(len(b))), wR(b)} }

func encFields(fs []wfield) []byte {
	var out []byte
	for _, f := range fs {
		switch f.kind {
		case 'i':
			var b [8]byte
			binary.BigEndian.PutUint64(b[:], uint64(f.i))
			out = append(out, b[:]...)
		case 's':
			out = append(out, f.b...)
			out = append(out, 0)
		case 'r':
			out = append(out, f.b...)
		}
	}
	return out
}

// wireMsg: payload bytes of one message, cut into frames at `cuts`; the last frame carries the
// end-of-message flag unless noEOM.
type wireMsg struct {
	payload []byte
	cuts    []int
	noEOM   bool
}

func (w wireMsg) frames() []refcodec.Frame {
	var fr []refcodec.Frame
	pos := 0
	for _, c := range w.cuts {
		if c < pos || c > len(w.payload) {
			continue
		}
		fr = append(fr, refcodec.Frame{Flag: 0, Len: uint32(c - pos), Body: w.payload[pos:c]})
		pos = c
	}
	flag := byte(1)
	if w.noEOM {
		flag = 0
	}
	fr = append(fr, refcodec.Frame{Flag: flag, Len: uint32(len(w.payload) - pos), Body: w.payload[pos:]})
	return fr
}
func (w wireMsg) bytes() []byte {
	var out []byte
	for _, f := range w.frames() {
		out = append(out, f.Bytes()...)
	}
	return out
}
func (w wireMsg) op() string {
	var p []string
	for _, f := range w.frames() {
		p = append(p, fmt.Sprintf("%s/%d", hx(f.Body), f.Flag))
	}
	return strings.Join(p, " ")
}

// rdr reads fields back from the payload bytes of a message the implementation sent
type rdr struct {
	b   []byte
	bad bool
}

func (r *rdr) int() int64 {
	if len(r.b) < 8 {
		r.bad = true
		return 0
	}
	v := int64(binary.BigEndian.Uint64(r.b[:8]))
	r.b = r.b[8:]
	return v
}
func (r *rdr) cstr() string {
	for i, c := range r.b {
		if c == 0 {
			s := string(r.b[:i])
			r.b = r.b[i+1:]
			return s
		}
	}
	r.bad = true
	return ""
}
func (r *rdr) idstr() string {
	n := r.int()
	s := r.cstr()
	if int64(len(s)) != n {
		r.bad = true
	}
	return s
}
func (r *rdr) blob() []byte {
	n := r.int()
	if n <= 0 {
		return nil // a non-positive length reads nothing (as the receiving side treats it)
	}
	if int64(len(r.b)) < n {
		r.bad = true
		return nil
	}
	v := r.b[:n]
	r.b = r.b[n:]
	return v
}

// payloadOfSent: the payload of the single message in `out` (frames concatenated)
func payloadOfSent(out []byte) ([]byte, bool) {
	frames, rest := refcodec.ParseFrames(out)
	if len(rest) > 0 || len(frames) == 0 {
		return nil, false
	}
	var p []byte
	for i, f := range frames {
		p = append(p, f.Body...)
		if (f.Flag != 0) != (i == len(frames)-1) {
			return nil, false
		}
	}
	return p, true
}

// ---- scripted peer connection --------------------------------------------------------------

// scriptConn is a deterministic single-threaded net.Conn: when the implementation reads and
// nothing is buffered, the peer script is asked for its next bytes (it sees what was written
// since its last turn). No bytes from the script = end of the connection.
type scriptConn struct {
	in     []byte
	out    []byte
	turn   int
	script func(turn int, written []byte) []byte
	log    [][]byte // what the implementation wrote before each turn of the script
}

func (c *scriptConn) Read(p []byte) (int, error) {
	if len(c.in) == 0 && c.script != nil {
		w := c.out
		c.out = nil
		c.log = append(c.log, w)
		more := c.script(c.turn, w)
		c.turn++
		c.in = append(c.in, more...)
	}
	if len(c.in) == 0 {
		return 0, io.EOF
	}
	n := copy(p, c.in)
	c.in = c.in[n:]
	return n, nil
}
func (c *scriptConn) Write(p []byte) (int, error) {
	c.out = append(c.out, p...)
	return len(p), nil
}
func (c *scriptConn) Close() error                       { return nil }
func (c *scriptConn) LocalAddr() net.Addr                { return nil }
func (c *scriptConn) RemoteAddr() net.Addr               { return nil }
func (c *scriptConn) SetDeadline(t time.Time) error      { return nil }
func (c *scriptConn) SetReadDeadline(t time.Time) error  { return nil }
func (c *scriptConn) SetWriteDeadline(t time.Time) error { return nil }

// ---- JWT segments in the oracle's vocabulary ---------------------------------------------------

func b64u(s string) string { return base64.RawURLEncoding.EncodeToString([]byte(s)) }

func decodeSeg(seg string) (map[string]interface{}, string) {
	b, err := base64.RawURLEncoding.DecodeString(seg)
	if err != nil {
		return nil, "b64"
	}
	var m map[string]interface{}
	if err := json.Unmarshal(b, &m); err != nil {
		return nil, "json"
	}
	return m, ""
}

// describeHdr: `seg h` line body
func describeHdr(seg string) string {
	m, e := decodeSeg(seg)
	if e != "" {
		return e
	}
	v, ok := m["kid"]
	if !ok {
		return "ok a"
	}
	if s, ok := v.(string); ok {
		return "ok s " + hx([]byte(s))
	}
	return "ok n"
}

type claimsView struct {
	err        string
	expK, iatK byte // 'a' absent 'n' number 'b' bad
	exp, iat   int64
	expF, iatF float64 // the JSON numbers before Go's int64 conversion
	nbfK       byte
	nbf        int64
	nbfF       float64
	subK       byte    // 'a' 's' 'n'
	sub        string
}

func numClaim(m map[string]interface{}, k string) (byte, int64, float64) {
	v, ok := m[k]
	if !ok {
		return 'a', 0, 0
	}
	if f, ok := v.(float64); ok {
		// a number of seconds that no int64 holds is not a timestamp (and Go's float-to-int
		// conversion of it is implementation-defined): malformed, like a string
		if f != f || f >= 9223372036854775808.0 || f < -9223372036854775808.0 {
			return 'b', 0, f
		}
		return 'n', int64(f), f
	}
	return 'b', 0, 0
}

func viewClaims(seg string) claimsView {
	m, e := decodeSeg(seg)
	if e != "" {
		return claimsView{err: e}
	}
	var cv claimsView
	cv.expK, cv.exp, cv.expF = numClaim(m, "exp")
	cv.iatK, cv.iat, cv.iatF = numClaim(m, "iat")
	cv.nbfK, cv.nbf, cv.nbfF = numClaim(m, "nbf")
	if v, ok := m["sub"]; !ok {
		cv.subK = 'a'
	} else if s, ok := v.(string); ok {
		cv.subK, cv.sub = 's', s
	} else {
		cv.subK = 'n'
	}
	return cv
}

func (cv claimsView) line() string {
	if cv.err != "" {
		return cv.err
	}
	num := func(k byte, v int64) string {
		if k == 'n' {
			return fmt.Sprintf("n:%d", v)
		}
		return string(k)
	}
	sub := string(cv.subK)
	if cv.subK == 's' {
		sub = "s:" + hx([]byte(cv.sub))
	}
	return "ok " + num(cv.expK, cv.exp) + " " + num(cv.iatK, cv.iat) + " " + sub + " " + num(cv.nbfK, cv.nbf)
}

// timeValid: the property's "unexpired, not too old" on the reference side, on the claims'
// mathematical values (whole seconds, as the token format defines them) — no int64 wrap-around.
func (cv claimsView) timeValid(now, maxAge int64) bool {
	if cv.expK == 'b' || cv.iatK == 'b' || cv.nbfK == 'b' {
		return false
	}
	// "not before": a token whose validity has not begun is not currently valid
	if cv.nbfK == 'n' && float64(now) < math.Trunc(cv.nbfF) {
		return false
	}
	if cv.expK == 'n' && float64(now) >= math.Trunc(cv.expF) {
		return false
	}
	if cv.iatK == 'n' && maxAge > 0 && float64(now)-math.Trunc(cv.iatF) > float64(maxAge) {
		return false
	}
	return true
}

func describeSig(tb *termBook, seg string) string {
	b, err := base64.RawURLEncoding.DecodeString(seg)
	if err != nil {
		return "b64"
	}
	return "ok " + tb.sigOfBytes(b).term()
}

func b64dec(s string) ([]byte, error) { return base64.RawURLEncoding.DecodeString(s) }
