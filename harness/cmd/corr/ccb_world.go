package main

// Scripted world for the `ccb` engine (property C20): the greeting grammar (what a reverse
// connection presents), peers that open such connections and watch whether the requester
// closes them, an in-memory listener for the accept loop, and scripted TCP brokers for real
// ccb.Dial calls.

import (
	"context"
	"encoding/binary"
	"errors"
	"fmt"
	"io"
	"net"
	"strings"
	"sync"
	"time"

	"cedarverif/harness/internal/bufconn"

	"github.com/PelicanPlatform/classad/classad"
	"github.com/bbockelm/cedar/ccb"
	"github.com/bbockelm/cedar/message"
	"github.com/bbockelm/cedar/security"
	cedarserver "github.com/bbockelm/cedar/server"
	"github.com/bbockelm/cedar/stream"
)

// ---------------------------------------------------------------------------------------
// greeting grammar

type ccbGreet struct {
	Class   string // closed | garbage | silent | hello
	Variant string // byte-level variety inside the class
	Cmd     int64  // hello: command integer
	Claim   string // hello: symbolic ClaimId (ID RAND EMPTY ABSENT INT PREFIX UPPER SUFFIX SPACE OLD OTHER)
	Other   int    // Claim == OTHER: launch position of the attempt whose id is presented
	Attr    string // hello: spelling of the attribute name
	Extras  bool   // hello: RequestID / MyAddress present
	Split   int    // hello: > 0 = sent as two frames, cut after Split bytes (mod length)
	Junk    []byte // garbage/random: the bytes
	Rand    string // RAND: the 40-hex id presented
}

func (g ccbGreet) String() string {
	switch g.Class {
	case "hello":
		s := fmt.Sprintf("hello/%s/cmd=%d/%s", g.Claim, g.Cmd, g.Attr)
		if g.Split > 0 {
			s += "/split"
		}
		return s
	}
	return g.Class + "/" + g.Variant
}

// claimEnv is what a peer may know when it forges a ClaimId.
type claimEnv struct {
	id    string         // the attempt's own id (an insider / the legitimate target knows it)
	old   []string       // ids of earlier requests
	other map[int]string // ids of concurrent attempts by launch position
	// what the broker's own reply named as ClaimId (proxied mode; brokerNamed=false: nothing usable)
	broker      string
	brokerNamed bool
}

// ccbReplyClaims: what a broker's proxied reply may itself say about the connect id (results forwarded
// by a broker do carry a ClaimId): nothing, the requester's own id, another id, an earlier request's,
// garbage. Only the id the requester generated may ever gate the hello.
var ccbReplyClaims = []string{"", "SAME", "RAND", "RAND", "OLD", "EMPTY", "INT", "PREFIX", "SUFFIX"}

// replyClaim resolves a reply-claim kind: the attribute value (present=false: no attribute), the string
// AdString would yield, and the model symbol.
func ccbReplyClaim(kind, rnd string, env claimEnv) (val any, present bool, str string, sym string) {
	if kind == "" {
		return nil, false, "", ""
	}
	claim := kind
	if kind == "SAME" {
		claim = "ID"
	}
	v, pr, s, sy := ccbGreet{Claim: claim, Rand: rnd}.resolve(env)
	if sy != "ID" && sy != "-" {
		sy = "brk"
	}
	return v, pr, s, sy
}

// withReplyClaim adds the reply's own ClaimId (if any) to a reply ad's attributes and to the env the
// replayed hello is rendered under; returns the suffix of the model's reply token.
func ccbWithReplyClaim(attrs map[string]any, kind, rnd string, env *claimEnv) string {
	val, present, str, sym := ccbReplyClaim(kind, rnd, *env)
	if !present {
		return ""
	}
	attrs[ccb.AttrClaimID] = val
	env.broker, env.brokerNamed = str, true
	return ":" + sym
}

// resolve returns the attribute value to send (present=false: no ClaimId at all), the string
// AdString would yield, and whether that equals the attempt's id.
func (g ccbGreet) resolve(env claimEnv) (val any, present bool, claim string, sym string) {
	switch g.Claim {
	case "ID":
		return env.id, true, env.id, "ID"
	case "RAND":
		return g.Rand, true, g.Rand, "rnd"
	case "EMPTY":
		return "", true, "", "-"
	case "ABSENT":
		return nil, false, "", "-"
	case "INT":
		return int64(4242), true, "", "-"
	case "PREFIX":
		return env.id[:len(env.id)-1], true, env.id[:len(env.id)-1], "pfx"
	case "UPPER":
		u := strings.ToUpper(env.id)
		if u == env.id {
			return env.id, true, env.id, "ID"
		}
		return u, true, u, "upr"
	case "SUFFIX":
		return env.id + "0", true, env.id + "0", "sfx"
	case "SPACE":
		return " " + env.id, true, " " + env.id, "spc"
	case "OLD":
		if len(env.old) > 0 {
			o := env.old[len(env.old)-1]
			if o != env.id {
				return o, true, o, "old"
			}
		}
		return g.Rand, true, g.Rand, "rnd"
	case "BROKER":
		// the id the broker's own reply named: a hello that presents what the PEER chose
		if env.brokerNamed {
			switch {
			case env.broker == env.id:
				return env.id, true, env.id, "ID"
			case env.broker == "":
				return "", true, "", "-"
			}
			return env.broker, true, env.broker, "brk"
		}
		return g.Rand, true, g.Rand, "rnd"
	case "OTHER":
		if o, ok := env.other[g.Other]; ok && o != env.id {
			return o, true, o, fmt.Sprintf("@P%d", g.Other)
		}
		return g.Rand, true, g.Rand, "rnd"
	}
	return g.Rand, true, g.Rand, "rnd"
}

// helloWire renders command integer + ClassAd as one CEDAR message (the library's own encoder
// on a recording connection), optionally re-cut into two frames.
func helloWire(cmd int64, ad *classad.ClassAd, split int) []byte {
	bc := bufconn.New()
	s := stream.NewStream(bc)
	msg := message.NewMessageForStream(s)
	_ = msg.PutInt64(bg, cmd)
	_ = msg.PutClassAdWithOptions(bg, ad, &message.PutClassAdConfig{Options: message.PutClassAdIncludePrivate})
	_ = msg.FinishMessage(bg)
	out := append([]byte{}, bc.AllOut...)
	if split <= 0 || len(out) < 7 || out[0] != 1 || int(binary.BigEndian.Uint32(out[1:5])) != len(out)-5 {
		return out
	}
	body := out[5:]
	cut := 1 + split%(len(body)-1)
	fr := func(end byte, b []byte) []byte {
		h := []byte{end, 0, 0, 0, 0}
		binary.BigEndian.PutUint32(h[1:], uint32(len(b)))
		return append(h, b...)
	}
	return append(fr(0, body[:cut]), fr(1, body[cut:])...)
}

func controlAdWire(ad *classad.ClassAd) []byte {
	bc := bufconn.New()
	s := stream.NewStream(bc)
	_ = ccb.WriteControlAd(bg, s, ad)
	return append([]byte{}, bc.AllOut...)
}

// wire returns the bytes the peer sends and what it does afterwards:
// after = "open" (keep the connection), "close" (close it), "half" (shut down the write side).
// matching = a well-formed CCB_REVERSE_CONNECT hello whose ClaimId is exactly the attempt's id.
func (g ccbGreet) wire(env claimEnv) (b []byte, after string, tok string, matching bool) {
	switch g.Class {
	case "closed":
		switch g.Variant {
		case "midheader":
			return []byte{1, 0, 0}, "close", "closed", false
		case "midbody":
			return []byte{1, 0, 0, 0, 100, 0, 0, 0, 0, 0, 0, 0, 69, 1, 2}, "close", "closed", false
		case "partialframe":
			return []byte{0, 0, 0, 0, 8, 0, 0, 0, 0, 0, 0, 0, 69}, "close", "closed", false
		}
		return nil, "close", "closed", false
	case "silent":
		switch g.Variant {
		case "halfheader":
			return []byte{1, 0}, "open", "silent", false
		case "halfbody":
			ad := classad.New()
			_ = ad.Set("ClaimId", env.id)
			w := helloWire(int64(ccb.CommandReverseConnect), ad, 0)
			return w[:len(w)-5], "open", "silent", false
		}
		return nil, "open", "silent", false
	case "garbage":
		switch g.Variant {
		case "badflag":
			return []byte{0x7f, 0, 0, 0, 4, 1, 2, 3, 4}, "open", "garbage", false
		case "toolarge":
			return []byte{1, 0xff, 0xff, 0xff, 0xff}, "open", "garbage", false
		case "shortint":
			return []byte{1, 0, 0, 0, 3, 1, 2, 3}, "open", "garbage", false
		case "notad":
			return []byte{1, 0, 0, 0, 20, 0, 0, 0, 0, 0, 0, 0, 69, 0xff, 0xfe, 'j', 'u', 'n', 'k', 0, 0xff, 0xff, 0xff, 0xff, 0x01}, "open", "garbage", false
		case "http":
			return []byte("GET / HTTP/1.1\r\nHost: x\r\n\r\n"), "open", "garbage", false
		case "intonly":
			return []byte{1, 0, 0, 0, 8, 0, 0, 0, 0, 0, 0, 0, 69}, "open", "garbage", false
		case "controlad":
			// a control ad (no command integer) carrying the right id
			ad := classad.New()
			_ = ad.Set("ClaimId", env.id)
			return controlAdWire(ad), "half", "garbage", false
		}
		return g.Junk, "half", "garbage", false
	}
	// hello
	val, present, claim, sym := g.resolve(env)
	ad := classad.New()
	attr := g.Attr
	if attr == "" {
		attr = "ClaimId"
	}
	if present {
		_ = ad.Set(attr, val)
	}
	if g.Extras || !present {
		_ = ad.Set("RequestID", "17")
		_ = ad.Set("MyAddress", "<10.1.2.3:4567>")
	}
	matching = claim == env.id && g.Cmd == int64(ccb.CommandReverseConnect)
	return helloWire(g.Cmd, ad, g.Split), "open", fmt.Sprintf("h:%d:%s", g.Cmd, sym), matching
}

// ---------------------------------------------------------------------------------------
// a connection opened by a scripted peer

type ccbPeerConn struct {
	Idx        int
	G          ccbGreet
	Tok        string // model token of what was actually sent
	Matching   bool
	Refused    bool // the listener did not take the connection
	SelfClosed bool // the peer closed its own end
	conn       net.Conn
	closedCh   chan struct{}
	mu         sync.Mutex
	rx         []byte
	At         time.Time
	Start      time.Time // just before connecting
}

func newCcbPeer(idx int, g ccbGreet) *ccbPeerConn {
	return &ccbPeerConn{Idx: idx, G: g, closedCh: make(chan struct{})}
}

func (p *ccbPeerConn) watch() {
	go func() {
		buf := make([]byte, 256)
		for {
			n, err := p.conn.Read(buf)
			if n > 0 {
				p.mu.Lock()
				p.rx = append(p.rx, buf[:n]...)
				p.mu.Unlock()
			}
			if err != nil {
				close(p.closedCh)
				return
			}
		}
	}()
}

// closedWithin reports whether the requester's side of the connection went away.
func (p *ccbPeerConn) closedWithin(d time.Duration) bool {
	if p.Refused || p.SelfClosed {
		return true
	}
	select {
	case <-p.closedCh:
		return true
	case <-time.After(d):
		return false
	}
}

func (p *ccbPeerConn) received() []byte {
	p.mu.Lock()
	defer p.mu.Unlock()
	return append([]byte{}, p.rx...)
}

func (p *ccbPeerConn) shut() {
	if p.conn != nil {
		_ = p.conn.Close()
	}
}

// send plays the greeting on an established connection.
func (p *ccbPeerConn) send(env claimEnv) {
	b, after, tok, matching := p.G.wire(env)
	p.Tok, p.Matching = tok, matching
	p.At = time.Now()
	if after == "close" {
		p.SelfClosed = true
		if len(b) > 0 {
			_ = p.conn.SetWriteDeadline(time.Now().Add(ccbIOBound))
			_, _ = p.conn.Write(b)
		}
		_ = p.conn.Close()
		close(p.closedCh)
		return
	}
	p.watch()
	if len(b) > 0 {
		_ = p.conn.SetWriteDeadline(time.Now().Add(ccbIOBound))
		_, _ = p.conn.Write(b)
	}
	if after == "half" {
		if t, ok := p.conn.(*net.TCPConn); ok {
			_ = t.CloseWrite()
		}
	}
}

// ---------------------------------------------------------------------------------------
// in-memory listener (accept-loop layer)

type memListener struct {
	ch     chan net.Conn
	closed chan struct{}
	once   sync.Once
}

func newMemListener(n int) *memListener {
	return &memListener{ch: make(chan net.Conn, n+1), closed: make(chan struct{})}
}

func (l *memListener) Accept() (net.Conn, error) {
	select {
	case <-l.closed:
		return nil, net.ErrClosed
	default:
	}
	select {
	case c := <-l.ch:
		return c, nil
	case <-l.closed:
		return nil, net.ErrClosed
	}
}

// Close also resets whatever still sits in the backlog, as the kernel does for a TCP listener.
func (l *memListener) Close() error {
	l.once.Do(func() {
		close(l.closed)
		for {
			select {
			case c := <-l.ch:
				_ = c.Close()
			default:
				return
			}
		}
	})
	return nil
}

type memAddr struct{}

func (memAddr) Network() string { return "mem" }
func (memAddr) String() string  { return "mem" }

func (l *memListener) Addr() net.Addr { return memAddr{} }

// pipePeer opens an in-memory connection to l and plays g on it. net.Pipe is unbuffered, so the
// greeting is written from a goroutine; a reader that closes early just makes the write fail.
func pipePeer(l *memListener, idx int, g ccbGreet, env claimEnv) *ccbPeerConn {
	cl, sv := net.Pipe()
	p := newCcbPeer(idx, g)
	p.conn = cl
	b, after, tok, matching := g.wire(env)
	p.Tok, p.Matching, p.At = tok, matching, time.Now()
	l.ch <- sv
	if after == "close" && len(b) == 0 {
		p.SelfClosed = true
		_ = cl.Close()
		close(p.closedCh)
		return p
	}
	if after == "close" || after == "half" {
		// no half-close on a pipe: the peer writes, then closes its end
		p.SelfClosed = true
		go func() {
			_, _ = cl.Write(b)
			_ = cl.Close()
			close(p.closedCh)
		}()
		return p
	}
	p.watch()
	if len(b) > 0 {
		go func() { _, _ = cl.Write(b) }()
	}
	return p
}

// ---------------------------------------------------------------------------------------
// scripted TCP brokers for real ccb.Dial

func ccbSec(version string) *security.SecurityConfig {
	return &security.SecurityConfig{
		AuthMethods:    []security.AuthMethod{},
		Authentication: security.SecurityNever,
		Encryption:     security.SecurityNever,
		Integrity:      security.SecurityNever,
		RemoteVersion:  version,
		// a private cache per config: loopback ports are recycled across scenarios, and a cached
		// session for "127.0.0.1:port" would otherwise be resumed against a different scripted broker
		SessionCache: security.NewSessionCache(),
	}
}

const (
	ccbVerStreaming   = "$CondorVersion: 25.13.0 2026-06-21 BuildID: verif $"
	ccbVerNoStreaming = "$CondorVersion: 25.12.2 2026-05-01 BuildID: verif $"
)

// one step of a standard-mode broker script
type ccbStep struct {
	Kind  string // arrive | reply | race | pause
	G     ccbGreet
	Reply string // success | failure | noresult | close
	Msg   string
	First string // race: which of {arrive, reply} is issued first
}

type ccbPlan struct {
	Kind    string // std | proxy | nested | down | dead
	Steps   []ccbStep
	Version string
	PReply  string // proxy: ok | fail | unsup | close | junk
	PMsg    string
	PHello  ccbGreet
	PClaim  string // proxy: a ClaimId the reply ad itself carries (ccbReplyClaims), "" = none
	PRand   string
}

type ccbLogEntry struct {
	At   time.Time
	Ops  []string // model ops (without the "att <a>" prefix)
	Peer int      // index of the connection an `arrive` op is about, else -1
}

type ccbBroker struct {
	Pos  int // position in the contact list handed to Dial
	Plan ccbPlan
	w    *ccbDialWorld
	ln   net.Listener
	addr string
	srv  *cedarserver.Server

	mu         sync.Mutex
	tcpAt      time.Time
	contacted  bool
	gotReq     bool
	reqAt      time.Time
	id         string
	myAddr     string
	streamReq  bool
	route      string
	ccbid      string
	peers      []*ccbPeerConn
	log        []ccbLogEntry
	brokerConn net.Conn
	scriptDone chan struct{}
	kept       []net.Conn
	serves     []chan struct{} // one per accepted connection: closed when ServeConn (and the script in it) is over
}

type ccbDialWorld struct {
	brokers  []*ccbBroker
	ctx      context.Context
	cancel   context.CancelFunc
	dialDone chan struct{}
	old      []string
	mu       sync.Mutex
	ip       string // this scenario's private loopback address
}

func (w *ccbDialWorld) otherIDs() map[int]string {
	m := map[int]string{}
	for _, b := range w.brokers {
		b.mu.Lock()
		if b.gotReq {
			m[b.Pos] = b.id // keyed by contact position here; translated to launch position later
		}
		b.mu.Unlock()
	}
	return m
}

func (b *ccbBroker) logOps(at time.Time, ops ...string) { b.logPeer(at, -1, ops...) }

func (b *ccbBroker) logPeer(at time.Time, peer int, ops ...string) {
	b.mu.Lock()
	b.log = append(b.log, ccbLogEntry{At: at, Ops: ops, Peer: peer})
	b.mu.Unlock()
}

func (b *ccbBroker) contact() string { return b.addr + "#7" }

func newCcbBroker(w *ccbDialWorld, pos int, plan ccbPlan) (*ccbBroker, error) {
	ln, err := net.Listen("tcp", w.ip+":0")
	if err != nil {
		return nil, err
	}
	b := &ccbBroker{Pos: pos, Plan: plan, w: w, ln: ln, addr: ln.Addr().String(), scriptDone: make(chan struct{})}
	ver := plan.Version
	if ver == "" {
		ver = ccbVerStreaming
	}
	b.srv = cedarserver.New(ccbSec(ver))
	b.srv.Handle(ccb.CommandRequest, b.handle)
	go func() {
		for {
			conn, err := ln.Accept()
			if err != nil {
				return
			}
			b.mu.Lock()
			if !b.contacted {
				b.contacted = true
				b.tcpAt = time.Now()
			}
			b.kept = append(b.kept, conn)
			b.mu.Unlock()
			switch plan.Kind {
			case "down":
				_ = conn.Close()
			case "dead":
				// hold it open, never answer
			default:
				done := make(chan struct{})
				b.mu.Lock()
				b.serves = append(b.serves, done)
				b.mu.Unlock()
				go func() {
					defer close(done)
					_ = b.srv.ServeConn(w.ctx, conn)
				}()
			}
		}
	}()
	return b, nil
}

// quiesce is called once Dial has returned: no further connection is taken, and every script
// that was started (or was about to start) has run to its end.
func (b *ccbBroker) quiesce(d time.Duration) {
	_ = b.ln.Close()
	deadline := time.Now().Add(d)
	b.mu.Lock()
	sv := append([]chan struct{}{}, b.serves...)
	b.mu.Unlock()
	for _, ch := range sv {
		select {
		case <-ch:
		case <-time.After(time.Until(deadline)):
		}
	}
}

func (b *ccbBroker) stop() {
	_ = b.ln.Close()
	b.mu.Lock()
	for _, c := range b.kept {
		_ = c.Close()
	}
	for _, p := range b.peers {
		p.shut()
	}
	b.mu.Unlock()
}

// ccbDialWait: generous upper bound for "the dial ends / the library closes this connection"; every
// wait returns as soon as the awaited event happens.
const ccbDialWait = 6 * time.Second

func (w *ccbDialWorld) waitDial(d time.Duration) bool {
	select {
	case <-w.dialDone:
		return true
	case <-time.After(d):
		return false
	}
}

func (b *ccbBroker) handle(ctx context.Context, c *cedarserver.Conn) error {
	defer close(b.scriptDone)
	ad, err := ccb.ReadControlAd(ctx, c.Stream)
	if err != nil {
		return err
	}
	sreq, _ := ccb.AdBool(ad, ccb.AttrCCBStreamingRequired)
	b.mu.Lock()
	b.gotReq, b.reqAt = true, time.Now()
	b.id = ccb.AdString(ad, ccb.AttrClaimID)
	b.myAddr = strings.Trim(ccb.AdString(ad, ccb.AttrMyAddress), "<>")
	b.streamReq = sreq
	b.route = ccb.AdString(ad, ccb.AttrCCBRoute)
	b.ccbid = ccb.AdString(ad, ccb.AttrCCBID)
	b.brokerConn = c.Stream.GetConnection()
	b.mu.Unlock()
	if b.Plan.Kind == "proxy" || b.Plan.Kind == "nested" {
		b.runProxy(ctx, c)
	} else {
		b.runStd(ctx, c)
	}
	return cedarserver.KeepOpen()
}

func (b *ccbBroker) env() claimEnv {
	return claimEnv{id: b.id, old: b.w.old, other: b.w.otherIDs()}
}

func (b *ccbBroker) arrive(g ccbGreet) *ccbPeerConn {
	p := newCcbPeer(0, g)
	b.mu.Lock()
	p.Idx = len(b.peers)
	b.peers = append(b.peers, p)
	b.mu.Unlock()
	env := b.env()
	if g.Claim == "OTHER" {
		// give the other attempt a moment to reach its broker
		for i := 0; i < 40; i++ {
			if _, ok := env.other[g.Other]; ok {
				break
			}
			time.Sleep(2 * time.Millisecond)
			env = b.env()
		}
	}
	p.Start = time.Now()
	conn, err := net.DialTimeout("tcp", b.myAddr, ccbIOBound)
	if err != nil {
		p.Refused = true
		_, _, p.Tok, p.Matching = g.wire(env)
		p.At = time.Now()
		return p
	}
	p.conn = conn
	p.send(env)
	return p
}

func (b *ccbBroker) sendReply(c *cedarserver.Conn, kind, msg string) string {
	switch kind {
	case "success":
		_ = ccb.WriteControlAd(bg, c.Stream, ccb.NewAd(map[string]any{ccb.AttrResult: true}))
		return "reply success"
	case "failure":
		_ = ccb.WriteControlAd(bg, c.Stream, ccb.NewAd(map[string]any{ccb.AttrResult: false, ccb.AttrErrorString: msg}))
		return "reply failure:" + dashIfEmpty(msg)
	case "noresult":
		_ = ccb.WriteControlAd(bg, c.Stream, ccb.NewAd(map[string]any{ccb.AttrErrorString: msg}))
		return "reply failure:" + dashIfEmpty(msg)
	case "close":
		_ = c.Stream.GetConnection().Close()
		return "reply readerr"
	}
	return ""
}

func dashIfEmpty(s string) string {
	if s == "" {
		return "-"
	}
	return s
}

// runStd plays a standard-mode script. Steps that should make the dial return wait for it, so
// the order of events the requester sees is the order of the script (except inside `race`).
func (b *ccbBroker) runStd(ctx context.Context, c *cedarserver.Conn) {
	blocked := false // a silent connection occupies the accept loop
	replied := false
	for _, st := range b.Plan.Steps {
		switch st.Kind {
		case "pause":
			time.Sleep(3 * time.Millisecond)
		case "arrive":
			p := b.arrive(st.G)
			b.logPeer(p.Start, p.Idx, "arrive "+p.Tok, "pick accept")
			switch {
			case p.Refused, p.SelfClosed:
			case st.G.Class == "silent":
				blocked = true
			case p.Matching && !blocked:
				b.w.waitDial(ccbDialWait)
			case !blocked:
				p.closedWithin(ccbDialWait)
			}
		case "reply":
			if replied {
				continue
			}
			replied = true
			at := time.Now()
			op := b.sendReply(c, st.Reply, st.Msg)
			b.logOps(at, op, "pick reply")
			if st.Reply != "success" {
				b.w.waitDial(ccbDialWait)
			} else {
				time.Sleep(2 * time.Millisecond)
			}
		case "race":
			// the matching hello and the failure reply are issued back to back
			at := time.Now()
			if st.First == "reply" {
				op := b.sendReply(c, "failure", st.Msg)
				p := b.arrive(st.G)
				b.logPeer(at, p.Idx, "RACE", op, "arrive "+p.Tok)
			} else {
				p := b.arrive(st.G)
				op := b.sendReply(c, "failure", st.Msg)
				b.logPeer(at, p.Idx, "RACE", op, "arrive "+p.Tok)
			}
			replied = true
			b.w.waitDial(ccbDialWait)
		}
	}
}

// runProxy plays reply + replayed hello on the request socket.
func (b *ccbBroker) runProxy(ctx context.Context, c *cedarserver.Conn) {
	conn := c.Stream.GetConnection()
	p := newCcbPeer(0, b.Plan.PHello)
	p.conn = conn
	b.mu.Lock()
	b.peers = append(b.peers, p)
	b.mu.Unlock()
	at := time.Now()
	env := b.env()
	claimTok := ""
	defer func() { b.logOps(at, "PRX", ccbProxyReplyTok(b.Plan)+claimTok, p.Tok) }()
	switch b.Plan.PReply {
	case "ok":
		attrs := map[string]any{ccb.AttrResult: true}
		claimTok = ccbWithReplyClaim(attrs, b.Plan.PClaim, b.Plan.PRand, &env)
		_ = ccb.WriteControlAd(bg, c.Stream, ccb.NewAd(attrs))
	case "fail":
		attrs := map[string]any{ccb.AttrResult: false, ccb.AttrErrorString: b.Plan.PMsg}
		claimTok = ccbWithReplyClaim(attrs, b.Plan.PClaim, b.Plan.PRand, &env)
		_ = ccb.WriteControlAd(bg, c.Stream, ccb.NewAd(attrs))
	case "unsup":
		_ = ccb.WriteControlAd(bg, c.Stream, ccb.NewAd(map[string]any{ccb.AttrResult: false, ccb.AttrCCBStreamingUnsupported: true, ccb.AttrName: "oldbroker"}))
	case "close":
		p.SelfClosed = true
		close(p.closedCh)
		_ = conn.Close()
		_, _, p.Tok, _ = b.Plan.PHello.wire(b.env())
		return
	}
	p.send(env)
	if b.Plan.PReply != "ok" {
		// without a success reply the hello is never looked at: this connection is owed a close
		p.Matching = false
	}
}

func ccbProxyReplyTok(plan ccbPlan) string {
	switch plan.PReply {
	case "ok":
		return "ok"
	case "fail":
		return "fail:" + dashIfEmpty(plan.PMsg)
	case "unsup":
		return "unsup"
	}
	return "readerr"
}

// ccbErrClass maps an attempt-level error text onto the model's AErr names.
func ccbErrClass(m string) string {
	has := func(s string) bool { return strings.Contains(m, s) }
	switch {
	case has("broker failure: "):
		i := strings.Index(m, "broker failure: ")
		return "brokerFailure:" + strings.TrimSpace(m[i+len("broker failure: "):])
	case has("broker failure:"):
		return "brokerFailure:"
	case has("broker refused proxy request: "):
		i := strings.Index(m, "broker refused proxy request: ")
		return "refused:" + strings.TrimSpace(m[i+len("broker refused proxy request: "):])
	case has("broker refused proxy request:"):
		return "refused:"
	case has("proxied reverse-connect id mismatch"):
		return "idMismatch"
	case has("malformed CCB contact"):
		return "malformedContact"
	case has("required to reach a private target"):
		return "unsupported"
	case has("does not support streaming"):
		return "noStreaming"
	case has("context deadline exceeded"), has("context canceled"), has("timed out reaching"):
		return "ctx"
	case has("reading proxied reverse-connect hello"):
		return "helloRead"
	case has("reading control ad"):
		return "brokerRead"
	case has("authenticating to broker"), has("dialing broker"), has("dialing shared-port broker"):
		return "brokerDial"
	case has("accept reversed connection"):
		return "acceptFailed"
	}
	return "other" // unknown text: a class only, never the text itself
}

// ccbDialErrClass renders the error of ccb.Dial like the model's DErr.
func ccbDialErrClass(err error) string {
	m := err.Error()
	if strings.Contains(m, "dial timed out/cancelled") {
		return "err:timeout"
	}
	if i := strings.Index(m, "broker(s) failed: "); i >= 0 {
		var cls []string
		for _, line := range strings.Split(m[i+len("broker(s) failed: "):], "\n") {
			if strings.TrimSpace(line) != "" {
				cls = append(cls, ccbErrClass(line))
			}
		}
		return "err:allFailed[" + strings.Join(cls, ",") + "]"
	}
	return "err:other" // unknown text: a class only
}

var errCcbNoConn = errors.New("no connection")

// ccbIOBound: upper bound of the harness's OWN I/O steps on loopback / in-memory connections (a
// scripted peer writing its greeting, connecting to a listener of this process, finding the token at
// the far end). Each of them returns as soon as the event happens; the bound only ends a wait that
// can no longer succeed, so it is generous: a loaded machine must not turn into a finding.
const ccbIOBound = 10 * time.Second

// probeFarEnd writes a token on the returned connection and finds the scripted peer that gets it.
func probeFarEnd(conn net.Conn, peers []*ccbPeerConn, token []byte) int {
	_ = conn.SetWriteDeadline(time.Now().Add(ccbIOBound))
	if _, err := conn.Write(token); err != nil {
		return -1
	}
	deadline := time.Now().Add(ccbIOBound)
	for time.Now().Before(deadline) {
		for _, p := range peers {
			if p.conn == nil {
				continue
			}
			if strings.Contains(string(p.received()), string(token)) {
				return p.Idx
			}
		}
		time.Sleep(time.Millisecond)
	}
	return -1
}

var _ = io.EOF
