package main

import (
	"bytes"
	"context"
	"crypto/rand"
	"fmt"
	"math"
	"sort"
	"strings"
	"sync"
	"time"

	"cedarverif/harness/internal/bufpipe"

	"github.com/PelicanPlatform/classad/classad"
	"github.com/bbockelm/cedar/commands"
	"github.com/bbockelm/cedar/message"
	"github.com/bbockelm/cedar/security"
	"github.com/bbockelm/cedar/stream"
)

func init() {
	register(Engine{"resume", runResume})
}

const testCmd = 60007

type hsPair struct {
	cneg, sneg *security.SecurityNegotiation
	cerr, serr error
	cst, sst   *stream.Stream
	ca, cb     *bufpipe.Conn
	resumed    bool
}

// realPair runs a real client handshake against a real server handshake over a fresh pipe.
// The server side uses the process-global session cache (as storeSession does).
func realPair(clientConf, serverConf *security.SecurityConfig, clientAddr string) *hsPair {
	ca, cb := bufpipe.Pair(clientAddr, "10.0.0.2:9618")
	ctx, cancel := context.WithTimeout(context.Background(), 20*time.Second)
	defer cancel()
	p := &hsPair{ca: ca, cb: cb}
	p.cst, p.sst = stream.NewStream(ca), stream.NewStream(cb)
	p.sst.SetPeerAddr(clientAddr)
	var wg sync.WaitGroup
	wg.Add(1)
	go func() {
		defer wg.Done()
		sc := *serverConf
		a := security.NewAuthenticator(&sc, p.sst)
		p.sneg, p.serr = a.ServerHandshake(ctx)
		if p.serr != nil {
			cb.Close()
		}
	}()
	cc := *clientConf
	a := security.NewAuthenticator(&cc, p.cst)
	p.cneg, p.cerr = a.ClientHandshake(ctx)
	p.resumed = a.WasSessionResumed()
	if p.cerr != nil {
		ca.Close()
	}
	wg.Wait()
	return p
}

// exchange sends one message each way; returns whether both arrived intact.
func (p *hsPair) exchange() bool {
	ctx, cancel := context.WithTimeout(context.Background(), 20*time.Second)
	defer cancel()
	if p.cst.SendMessage(ctx, []byte("c2s-payload")) != nil {
		return false
	}
	m1, e := p.sst.ReceiveCompleteMessage(ctx)
	if e != nil || string(m1) != "c2s-payload" {
		return false
	}
	if p.sst.SendMessage(ctx, []byte("s2c-payload")) != nil {
		return false
	}
	m2, e := p.cst.ReceiveCompleteMessage(ctx)
	return e == nil && string(m2) == "s2c-payload"
}

func (p *hsPair) close() { p.ca.Close(); p.cb.Close() }

func srvConf(keyed bool) *security.SecurityConfig {
	c := &security.SecurityConfig{AuthMethods: toMethods([]string{"CLAIMTOBE"}), Authentication: security.SecurityRequired,
		CryptoMethods: toCiphers([]string{"AES"}), Encryption: security.SecurityOptional, Integrity: security.SecurityOptional}
	if !keyed {
		c.CryptoMethods = toCiphers([]string{"3DES"})
	}
	return c
}

func cliConf(cache *security.SessionCache, tag string) *security.SecurityConfig {
	return &security.SecurityConfig{AuthMethods: toMethods([]string{"CLAIMTOBE"}), Authentication: security.SecurityOptional,
		CryptoMethods: toCiphers([]string{"AES"}), Encryption: security.SecurityOptional, Integrity: security.SecurityOptional,
		Command: testCmd, SessionCache: cache, PeerName: "srvA", SecurityTag: tag}
}

// expireEntry replaces a cache entry by a copy whose expiration lies in the past (virtual time).
func expireEntry(cache *security.SessionCache, sid string) {
	for _, e := range cache.Snapshot() {
		if e.ID() == sid {
			cache.Store(security.NewSessionEntry(e.ID(), e.Addr(), e.KeyInfo(), e.Policy(), time.Now().Add(-2*time.Second), e.Lease(), e.Tag()))
		}
	}
}

type resumeObs struct {
	ok          bool
	reply       string // none | sidNotFound | authorized | other:<rc>
	user        string
	auth, enc   bool
	appAccepted bool
	leak        bool // the server's answer to the requester appeared in clear on the wire
	negEnc      bool     // the Encryption flag the server's handshake reported
	replyAttrs  []string // attribute names of the cleartext reply ad (sorted)
	c2s         []byte   // everything the requester wrote on this connection (request + protected application message)
}

// scriptedResume sends a hand-built resumption request, optionally keys its stream, sends one
// application message and reads the server's answer.
func scriptedResume(own *security.SessionCache, sid string, want bool, keyMode string, key []byte, fromAddr string, requireAuth bool, extra []reqAttr) resumeObs {
	var ob resumeObs
	ca, cb := bufpipe.Pair(fromAddr, "10.0.0.2:9618")
	ctx, cancel := context.WithTimeout(context.Background(), 20*time.Second)
	defer cancel()
	sst := stream.NewStream(cb)
	sst.SetPeerAddr(fromAddr)
	var wg sync.WaitGroup
	var sneg *security.SecurityNegotiation
	var serr error
	var gotApp []byte
	var appErr error
	wg.Add(1)
	go func() {
		defer wg.Done()
		sc := *srvConf(true)
		if !requireAuth {
			sc.Authentication = security.SecurityOptional
		}
		sc.SessionCache = own
		a := security.NewAuthenticator(&sc, sst)
		sneg, serr = a.ServerHandshake(ctx)
		if serr != nil {
			cb.Close()
			return
		}
		gotApp, appErr = sst.ReceiveCompleteMessage(ctx)
		if appErr == nil {
			_ = sst.SendMessage(ctx, []byte("TOP-SECRET-ANSWER"))
		}
		cb.Close()
	}()
	cst := stream.NewStream(ca)
	ad := classad.New()
	_ = ad.Set("Command", testCmd)
	_ = ad.Set("UseSession", "YES")
	_ = ad.Set("Sid", sid)
	_ = ad.Set("ResumeResponse", want)
	_ = ad.Set("RemoteVersion", security.DefaultRemoteVersion)
	// everything else the requester chooses to say: the requester is not trusted, so nothing of
	// it may decide how (or whether) the connection is protected, or under which identity
	for _, x := range extra {
		_ = ad.Set(x.name, x.val)
	}
	out := message.NewMessageForStream(cst)
	_ = out.PutInt(ctx, commands.DC_AUTHENTICATE)
	_ = out.PutClassAd(ctx, ad)
	_ = out.FinishMessage(ctx)
	ob.reply = "none"
	if want {
		in := message.NewMessageFromStream(cst)
		if rad, err := in.GetClassAd(ctx); err == nil {
			ob.replyAttrs = append([]string{}, rad.GetAttributes()...)
			sort.Strings(ob.replyAttrs)
			rc, _ := rad.EvaluateAttrString("ReturnCode")
			switch rc {
			case "AUTHORIZED":
				ob.reply = "authorized"
			case "SID_NOT_FOUND":
				ob.reply = "sidNotFound"
			default:
				ob.reply = "other:" + rc
			}
		} else {
			ob.reply = "unreadable"
		}
	}
	switch keyMode {
	case "right":
		if key != nil {
			_ = cst.SetSymmetricKey(key)
		}
	case "wrong":
		k := make([]byte, 32)
		_, _ = rand.Read(k)
		_ = cst.SetSymmetricKey(k)
	}
	_ = cst.SendMessage(ctx, []byte("application-bytes"))
	ans, aerr := cst.ReceiveCompleteMessage(ctx)
	_ = ans
	_ = aerr
	wg.Wait()
	ca.Close()
	ob.ok = serr == nil
	if sneg != nil && serr == nil {
		ob.user, ob.auth, ob.enc = sneg.User, sneg.Authentication, sst.IsEncrypted()
		ob.negEnc = sneg.Encryption
		ob.appAccepted = appErr == nil && gotApp != nil
	}
	ob.leak = bytes.Contains(cb.Written(), []byte("TOP-SECRET-ANSWER"))
	ob.c2s = append([]byte{}, ca.Written()...)
	return ob
}

// reqAttr is one attribute a resumption request carries beside Command / UseSession / Sid /
// ResumeResponse / RemoteVersion.
type reqAttr struct {
	name string
	val  any
}

// legacyReqAttrs is what the scripted requester always sent before this dimension existed (and what
// cedar's own client sends for a session negotiated with AES).
var legacyReqAttrs = []reqAttr{{"CryptoMethods", "AES"}}

// randReqAttrs draws the attributes of a resumption request: the requester is free to put anything
// in its ad. Each group is drawn independently, so requests carry none, one or several of: a cipher
// preference (CryptoMethods ','-delimited / CryptoMethodsList '.'-delimited: AES-GCM spellings,
// non-AES names, mixed lists in either order, empty, unknown, wrongly typed), security levels
// (Encryption / Integrity / Authentication, as strings or booleans), authentication methods, identity
// and authorisation claims (User, Authenticated, ValidCommands ...), key-exchange and lifetime
// attributes, and handshake-state markers. The label names the draw (one token, for the history).
func randReqAttrs(c *Ctx) ([]reqAttr, string) {
	if c.Rng.Intn(3) == 0 {
		return legacyReqAttrs, "legacy"
	}
	ciphers := []any{"AES", "AESGCM", "aes", "3DES", "BLOWFISH", "NONE", "", "BOGUS", "3DES,AES", "AES,3DES", "BLOWFISH,3DES", " 3DES , AES", ",AES", "AES,", 7, false}
	cipherLists := []any{"AES", "AESGCM", "3DES", "BLOWFISH.3DES", "3DES.AES", "AES.3DES", "AESGCM.BLOWFISH", "BLOWFISH.3DES.AES", "", ".", ".AES", "3DES,AES", 0, true}
	levels := []any{"NO", "NEVER", "OPTIONAL", "PREFERRED", "REQUIRED", "YES", "", "no", false, true, 0}
	groups := []struct {
		names []string
		vals  []any
		odds  int // drawn with probability 1/odds
	}{
		{[]string{"CryptoMethods"}, ciphers, 2},
		{[]string{"CryptoMethodsList"}, cipherLists, 2},
		{[]string{"Encryption", "OutgoingEncryption"}, levels, 3},
		{[]string{"Integrity", "OutgoingIntegrity"}, levels, 3},
		{[]string{"Authentication", "OutgoingAuthentication"}, levels, 4},
		{[]string{"AuthMethods", "AuthMethodsList"}, []any{"CLAIMTOBE", "ANONYMOUS", "NONE", "FS,CLAIMTOBE", "TOKEN", "", 3}, 4},
		{[]string{"User", "MyRemoteUserName", "AuthenticatedName", "TriedAuthentication"}, []any{"root@evil.example", "condor@pool.example", "unauthenticated@unmapped", "", true}, 4},
		{[]string{"Authenticated", "AuthenticationSucceeded"}, []any{true, false, "YES", "NO"}, 5},
		{[]string{"ValidCommands", "LimitAuthorization"}, []any{"1,2,3,60007", "", "ADMINISTRATOR", 60007}, 6},
		{[]string{"ECDHPublicKey", "ResumeNonce", "Nonce"}, []any{"AAAA", "", "not-base64!", 1}, 6},
		{[]string{"SessionDuration", "SessionLease", "SessionExpires"}, []any{"0", "1", "99999999", 0, 99999999, -1}, 6},
		{[]string{"Enact", "NewSession", "NegotiatedSession", "SessionResumed"}, []any{"YES", "NO", true, false}, 6},
		{[]string{"TrustDomain", "Subsystem", "ServerPid", "ParentUniqueID", "ConnectSinful"}, []any{"evil.example", "SCHEDD", 1, "<10.9.9.9:4242>"}, 8},
	}
	var out []reqAttr
	var lab []string
	for _, g := range groups {
		if c.Rng.Intn(g.odds) != 0 {
			continue
		}
		a := reqAttr{pick(c, g.names), pick(c, g.vals)}
		out = append(out, a)
		lab = append(lab, fmt.Sprintf("%s:%v", a.name, a.val))
	}
	if len(out) == 0 {
		return nil, "bare"
	}
	return out, tokEsc(strings.Join(lab, "+"))
}

// remainClass: how long the server-side entry (own cache first, then the global one) has left,
// classified against the entry's OWN lease (whatever the library's default lease is): "lease" =
// it expires one lease from now.
func remainClass(own *security.SessionCache, sid string) string {
	var e *security.SessionEntry
	if own != nil {
		e, _ = own.Lookup(sid)
	}
	if e == nil {
		e, _ = security.GetSessionCache().Lookup(sid)
	}
	if e == nil {
		return "none"
	}
	if e.Expiration().IsZero() {
		return "never"
	}
	rem := time.Until(e.Expiration()).Seconds()
	lease := e.Lease().Seconds()
	switch {
	case rem <= 0:
		return "past"
	case lease > 0 && math.Abs(rem-lease) < 30:
		return "lease"
	}
	return fmt.Sprintf("other:%d", int(rem))
}

// entryTimes renders an entry's expiry and lease for the model's virtual clock (now = 1000): what is
// left of the entry's life, to the nearest second, and its lease in seconds — read from the entry
// the library created, not assumed.
func entryTimes(e *security.SessionEntry) (exp string, lease int) {
	lease = int(math.Round(e.Lease().Seconds()))
	if e.Expiration().IsZero() {
		return "never", lease
	}
	rem := int(math.Round(time.Until(e.Expiration()).Seconds()))
	if rem <= 0 {
		return "0", lease
	}
	return fmt.Sprint(1000 + rem), lease
}

func mutateSid(sid string, how string) string {
	switch how {
	case "right":
		return sid
	case "onechar":
		b := []byte(sid)
		if len(b) > 0 {
			b[len(b)-1] ^= 1
		}
		return string(b)
	case "prefix":
		if len(sid) > 1 {
			return sid[:len(sid)-1]
		}
	case "unknown":
		return "nohost:1:1:99"
	}
	return sid
}

func runResume(c *Ctx) error {
	c.Res.Rule = "histories over establish(keyed/keyless) / honest resume / expire (virtual time: entry re-stored with a past expiry) / renew / invalidate / gc on a real server cache (a third of the sessions established under an identity-mapping PostAuthPolicy; after each successful resumption the remaining lifetime of the entry is compared: it must be the lease) (a third of them against a server with its own isolated SessionCache plus the global fallback, with ostore/oinvalidate on the own cache), with scripted resumption requests against a server whose policy REQUIRES authentication or leaves it OPTIONAL (a quarter of the sessions were established without authentication): right id + right key, right id + wrong key, right id + no key, unknown id, id differing by one character, truncated id, with and without ResumeResponse, from another address; and byte-for-byte replays (whole, request only, truncated) of either direction of a recorded resumed connection into a fresh connection; distinct by history; non-trivial = the request differs from the legitimate one or the history has ≥2 ops"
	var cases []Case
	n := c.Pick(150, 2500)
	user := ""
	c.Planned("resume-histories", n)
	for i := 0; i < n; i++ {
		security.ClearSessionCache()
		ccache := security.NewSessionCache()
		var ops, real []string
		log := func(o, r string) { ops = append(ops, o); real = append(real, r) }
		log("reset", "ok")
		keyed := c.Rng.Intn(3) != 0
		estConf := srvConf(keyed)
		if c.Rng.Intn(3) == 0 {
			// the server application maps the authenticated identity (as server.FQUMapper does): the
			// session must be cached, and resumed, under the identity the handshake reported
			estConf.PostAuthPolicy = func(authUser, peerAddr string, authenticated, encrypted bool) (string, []int) {
				return "mapped-" + authUser + "@pool.example", nil
			}
			c.Count("server:identity-mapped")
		}
		// a quarter of the sessions are established WITHOUT authentication (the client refuses it, the
		// server does not insist): such a session must not be resumed by a server whose policy
		// requires authentication
		authed := c.Rng.Intn(4) != 0
		estCli := cliConf(ccache, "")
		if !authed {
			estConf.Authentication = security.SecurityOptional
			estCli.Authentication = security.SecurityNever
			c.Count("session:unauthenticated")
		}
		p := realPair(estCli, estConf, "10.0.0.1:1111")
		if p.cerr == nil && p.serr == nil && p.sneg.Authentication != authed {
			c.Res.Notes = append(c.Res.Notes, "resume: establishing handshake authenticated/unauthenticated contrary to plan")
			authed = p.sneg.Authentication
		}
		if p.cerr != nil || p.serr != nil {
			c.Res.Notes = append(c.Res.Notes, fmt.Sprintf("resume: establishing handshake failed: %v / %v", p.cerr, p.serr))
			p.close()
			continue
		}
		sid := p.sneg.SessionId
		user = p.sneg.User
		key := p.cneg.GetSharedSecret()
		p.close()
		ks := "none"
		cr := "~"
		if keyed {
			ks, cr = "1", "AES"
		}
		se0, found0 := security.GetSessionCache().Lookup(sid)
		if !found0 {
			c.Res.Notes = append(c.Res.Notes, "resume: the establishing handshake left no server-side session")
			continue
		}
		exp0, lease0 := entryTimes(se0)
		log(fmt.Sprintf("sstore %s key=%s crypto=%s user=%s auth=%s exp=%s lease=%d", tokEsc(sid), ks, cr, tokEsc(user), b01(authed), exp0, lease0), "ok")
		cuser0, cauth0 := p.cneg.User, p.cneg.Authentication // the CLIENT's view the original handshake established
		if keyed != p.cst.IsEncrypted() {
			c.Res.Notes = append(c.Res.Notes, "resume: keyed expectation not met")
		}
		alive := true
		// a third of the histories run against a server configured with its own, isolated cache
		// (SecurityConfig.SessionCache): handshake sessions still live in the global cache and are
		// reached through the fallback; `ostore` registers the session in the own cache as well.
		var own *security.SessionCache
		aliveOwn := false
		keyedOwn := false // is the copy in the own cache (taken at ostore time) one that carries a usable key
		if c.Rng.Intn(3) == 0 {
			own = security.NewSessionCache()
			c.Count("server:isolated-cache")
		}
		steps := 1 + c.Rng.Intn(5)
		if own != nil {
			steps += 2
		}
		nontrivial := steps >= 2
		for s := 0; s < steps; s++ {
			sel := c.Rng.Intn(9)
			if own != nil && c.Rng.Intn(4) == 0 {
				sel = 9 + c.Rng.Intn(2)
			}
			if c.Rng.Intn(7) == 0 {
				sel = 11
			}
			switch sel {
			case 11:
				// the stored session's key material is replaced by a variant (as an import or a store by
				// the application could leave it): only an entry with a non-empty key under an
				// AES-GCM protocol name may ever be resumed
				e, found := security.GetSessionCache().Lookup(sid)
				if !found {
					break
				}
				type kv struct {
					name   string
					ki     *security.KeyInfo
					ks, cr string
					usable bool
				}
				vs := []kv{
					{"nil", nil, "none", "~", false},
					{"data-nil/AES", &security.KeyInfo{Data: nil, Protocol: "AES"}, "none", "AES", false},
					{"data-empty/AES", &security.KeyInfo{Data: []byte{}, Protocol: "AES"}, "none", "AES", false},
					{"data/3DES", &security.KeyInfo{Data: append([]byte{}, key...), Protocol: "3DES"}, "1", "3DES", false},
					{"data/BLOWFISH", &security.KeyInfo{Data: append([]byte{}, key...), Protocol: "BLOWFISH"}, "1", "BLOWFISH", false},
					{"data/empty-protocol", &security.KeyInfo{Data: append([]byte{}, key...), Protocol: ""}, "1", "~", false},
					{"data/AESGCM", &security.KeyInfo{Data: append([]byte{}, key...), Protocol: "AESGCM"}, "1", "AESGCM", true},
					{"data/AES", &security.KeyInfo{Data: append([]byte{}, key...), Protocol: "AES"}, "1", "AES", true},
				}
				v := pick(c, vs)
				if len(key) == 0 && v.ks == "1" {
					break // the session never had key material to put back
				}
				ne := security.NewSessionEntry(e.ID(), e.Addr(), v.ki, e.Policy(), e.Expiration(), e.Lease(), e.Tag())
				security.GetSessionCache().Store(ne)
				vexp, vlease := entryTimes(ne)
				ks, cr, keyed = v.ks, v.cr, v.usable
				log(fmt.Sprintf("sstore %s key=%s crypto=%s user=%s auth=%s exp=%s lease=%d", tokEsc(sid), ks, cr, tokEsc(user), b01(authed), vexp, vlease), "ok")
				c.Count("keyinfo:" + v.name)
				nontrivial = true
			case 9:
				stored := false
				oexp, olease := "", 0
				for _, e := range security.GetSessionCache().Snapshot() {
					if e.ID() == sid && !e.IsExpired() {
						ne := security.NewSessionEntry(e.ID(), e.Addr(), e.KeyInfo(), e.Policy(), time.Now().Add(3600*time.Second), e.Lease(), e.Tag())
						own.Store(ne)
						oexp, olease = entryTimes(ne)
						stored = true
					}
				}
				if stored {
					log(fmt.Sprintf("ostore %s key=%s crypto=%s user=%s auth=%s exp=%s lease=%d", tokEsc(sid), ks, cr, tokEsc(user), b01(authed), oexp, olease), "ok")
					aliveOwn = true
					keyedOwn = keyed
				}
			case 10:
				own.Invalidate(sid)
				log("oinvalidate "+sid, "ok")
				aliveOwn = false
			case 0:
				expireEntry(security.GetSessionCache(), sid)
				log("sexpire "+sid, "ok")
				alive = false
			case 1:
				// the library renews a lease only on an entry a non-expired lookup just returned
				// (handleSessionResumption, resumeSession); the harness does the same
				if e, ok := security.GetSessionCache().LookupNonExpired(sid); ok {
					e.RenewLease()
					log("srenew "+sid, "ok")
				}
			case 2:
				security.InvalidateSession(sid)
				log("sinvalidate "+sid, "ok")
				alive = false
			case 3:
				security.InvalidateExpiredSessions()
				log("sgc", "ok")
			default:
				how := pick(c, []string{"right", "right", "right", "onechar", "unknown", "prefix"})
				want := c.Rng.Intn(3) != 0
				keyMode := pick(c, []string{"right", "right", "wrong", "none"})
				from := pick(c, []string{"10.0.0.1:1111", "10.9.9.9:4242"})
				rsid := mutateSid(sid, how)
				requireAuth := c.Rng.Intn(3) != 0 // the resuming server's policy: REQUIRED or OPTIONAL
				// what else the request says: a third of the requests are the legacy one (CryptoMethods=AES
				// only), the rest carry extra / conflicting attributes
				extra, xlab := randReqAttrs(c)
				ob := scriptedResume(own, rsid, want, keyMode, key, from, requireAuth, extra)
				var r string
				if ob.ok {
					r = fmt.Sprintf("ok reply=%s user=%s auth=%s enc=%s", ob.reply, tokEsc(ob.user), b01(ob.auth), b01(ob.enc))
				} else {
					r = fmt.Sprintf("ok reply=%s refused", ob.reply)
				}
				// the attributes ride on the op as one more token: the model's answer does not depend on it
				// (nothing the requester says beside the id decides the outcome), the implementation's must not
				op := fmt.Sprintf("sresume %s want=%s req=%s attrs=%s", rsid, b01(want), b01(requireAuth), xlab)
				log(op, r)
				if ob.ok && requireAuth && !authed {
					c.Violate(Violation{Property: "C03", Key: "C03:resumed-unauthenticated-under-required", What: "a server whose policy marks authentication REQUIRED returned success for a resumed session that was established without authentication",
						Ops: append([]string{}, ops...), Expected: "refused (SID_NOT_FOUND), the client comes back with a full handshake", Observed: r})
				}
				if how != "right" || keyMode != "right" || xlab != "legacy" {
					nontrivial = true
				}
				c.Count("req:" + how + "/" + keyMode)
				switch xlab {
				case "legacy", "bare":
					c.Count("req-attrs:" + xlab)
				default:
					c.Count("req-attrs:extra")
					for _, x := range extra {
						c.Count("req-attr:" + x.name)
					}
				}
				// ---- property oracle C06 ----
				viol := func(k, what, exp, obs string) {
					c.Violate(Violation{Property: "C06", Key: "C06:" + k, What: what, Ops: append(append([]string{}, ops...), fmt.Sprintf("# request key-mode=%s from=%s attrs=%s", keyMode, from, xlab)), Expected: exp, Observed: obs})
				}
				// the entry a request for the right id is answered from: the own cache's live copy when
				// there is one (no fallback then), else the global entry
				usableKey := keyed
				if aliveOwn {
					usableKey = keyedOwn
				}
				if ob.ok && !usableKey {
					viol("keyless-resumed", "a session without a key was resumed", "refused", r)
				}
				if ob.ok && !ob.enc {
					viol("resumed-plaintext", "a resumed connection is not protected by the session key", "stream keyed before any application byte", r)
				}
				if ob.ok && ob.negEnc != ob.enc {
					viol("resumed-encryption-flag-wrong", "the Encryption flag the server's resumed handshake reports differs from the stream's real state", fmt.Sprintf("Encryption=%v", ob.enc), fmt.Sprintf("Encryption=%v", ob.negEnc))
				}
				if want && len(ob.replyAttrs) > 0 {
					// the reply is read in clear by whoever sent the request (no key needed): beyond the
					// verdict, the session id it named and the fresh value it must carry nothing
					var extra []string
					for _, a := range ob.replyAttrs {
						switch strings.ToLower(a) {
						case "returncode", "sid", "resumenonce", "mytype", "targettype":
						default:
							extra = append(extra, a)
						}
					}
					if len(extra) > 0 {
						viol("reply-carries-session-data", "the cleartext resumption reply, readable by a requester without the key, carries attributes beyond ReturnCode, Sid, ResumeNonce", "ReturnCode, Sid, ResumeNonce only", strings.Join(extra, ","))
					}
				}
				if ob.ok && (how != "right" || !(alive || aliveOwn)) {
					viol("dead-or-unknown-resumed", "an expired / invalidated / unknown session id was resumed", "refused", r)
				}
				if !ob.ok && want && ob.reply != "sidNotFound" {
					viol("not-told", "a requester that asked for a reply was not told the session is unknown", "SID_NOT_FOUND", ob.reply)
				}
				if ob.ok && keyMode != "right" && ob.appAccepted {
					viol("app-bytes-without-key", "application data from a requester without the session key was accepted", "receive error", "accepted")
				}
				if ob.ok && ob.leak {
					viol("answer-in-clear", "data sent on a resumed connection travelled in clear", "sealed", "cleartext on the wire")
				}
				if ob.ok && how == "right" && (alive || aliveOwn) && (ob.user != user || ob.auth != authed) {
					viol("identity-lost", "resumption did not restore the identity / authentication status of the original handshake", user+"/true", fmt.Sprintf("%s/%v", ob.user, ob.auth))
				}
				if ob.ok && keyMode == "right" && ob.appAccepted && len(ob.c2s) > 0 {
					// ---- replay of a SCRIPTED (legacy-style) key-holding requester's byte stream ----
					// The cedar client always asks for a reply; a legacy peer may not (ResumeResponse=false):
					// then the server sends nothing before the protected traffic and contributes no fresh
					// value to the connection. Replay what this legitimate requester wrote, byte for byte,
					// into a fresh server connection while the session is still alive.
					k := "replay-c2s"
					if !want {
						k = "replay-c2s-noreply"
					}
					c.Count("scripted-" + k)
					for _, cut := range []int{len(ob.c2s), len(ob.c2s) - 1} {
						if cut > 0 && replayToServerConf(own, requireAuth, ob.c2s[:cut]) {
							viol(k, "a byte-for-byte replay of the client->server bytes of a recorded resumed connection (scripted requester holding the key, reply requested: "+b01(want)+") was accepted by a fresh server connection as application data",
								"receive error on the fresh connection", fmt.Sprintf("application data delivered (bytes [0:%d] of %d replayed)", cut, len(ob.c2s)))
							break
						}
					}
				}
				if ob.ok && how == "right" {
					// a successful resumption puts the session on its lease: it now expires one lease
					// from now (not later), however long the original duration was
					cls := remainClass(own, sid)
					log("sremain "+sid, "ok "+cls)
					if cls != "lease" {
						viol("lease-not-applied", "after a successful resumption the session does not expire one lease from now", "remaining lifetime = the entry's lease", cls)
					}
				}
			}
		}
		// honest resumption through the real client, when the session should still be usable
		if authed && ((aliveOwn && keyedOwn) || (!aliveOwn && alive && keyed)) && c.Rng.Intn(2) == 0 {
			sc2 := srvConf(true)
			sc2.SessionCache = own
			p2 := realPair(cliConf(ccache, ""), sc2, "10.0.0.1:1111")
			okx := p2.cerr == nil && p2.serr == nil && p2.resumed
			if okx {
				if !p2.exchange() {
					c.Violate(Violation{Property: "C06", Key: "C06:honest-resume-no-traffic", What: "after a successful resumption the two sides could not exchange messages (different keys?)", Ops: ops, Expected: "messages both ways", Observed: "failed"})
				}
				if p2.sneg.User != user || !p2.sneg.Authentication {
					c.Violate(Violation{Property: "C06", Key: "C06:honest-resume-identity", What: "server lost identity/authentication on resumption", Ops: ops, Expected: user, Observed: p2.sneg.User})
				}
				if p2.cneg.Authentication != cauth0 || p2.cneg.User != cuser0 {
					c.Violate(Violation{Property: "C06", Key: "C06:client-status-lost", What: "client side of a resumed session does not report the identity / authentication status the original handshake established", Ops: ops, Expected: fmt.Sprintf("Authentication=%v user=%q", cauth0, cuser0), Observed: fmt.Sprintf("Authentication=%v user=%q", p2.cneg.Authentication, p2.cneg.User)})
				}
				if p2.cneg.Encryption != p2.cst.IsEncrypted() || p2.sneg.Encryption != p2.sst.IsEncrypted() {
					c.Violate(Violation{Property: "C06", Key: "C06:resumed-encryption-flag-wrong", What: "after a resumption the Encryption flag a side reports differs from its stream's real state", Ops: ops,
						Expected: fmt.Sprintf("client %v server %v", p2.cst.IsEncrypted(), p2.sst.IsEncrypted()), Observed: fmt.Sprintf("client %v server %v", p2.cneg.Encryption, p2.sneg.Encryption)})
				}
				if !p2.cst.IsEncrypted() || !p2.sst.IsEncrypted() {
					c.Violate(Violation{Property: "C06", Key: "C06:resumed-plaintext", What: "after an honest resumption a side's stream is not protected by the session key", Ops: ops, Expected: "both streams keyed", Observed: fmt.Sprintf("client %v server %v", p2.cst.IsEncrypted(), p2.sst.IsEncrypted())})
				}
				log(fmt.Sprintf("sresume %s want=1", tokEsc(sid)), fmt.Sprintf("ok reply=authorized user=%s auth=%s enc=%s", tokEsc(p2.sneg.User), b01(p2.sneg.Authentication), b01(p2.sst.IsEncrypted())))
				// ---- replay: record this connection's bytes and replay them into fresh connections ----
				c2s := append([]byte{}, p2.ca.Written()...)
				s2c := append([]byte{}, p2.cb.Written()...)
				p2.close()
				for _, cut := range []int{len(c2s), len(c2s) - 1, len(c2s) / 2} {
					if cut <= 0 {
						continue
					}
					if replayToServer(c2s[:cut]) {
						c.Violate(Violation{Property: "C06", Key: "C06:replay-c2s", What: "a byte-for-byte replay of a recorded resumed connection was accepted by a fresh server connection as application data",
							Ops: append(append([]string{}, ops...), fmt.Sprintf("# replay client->server bytes [0:%d] of %d", cut, len(c2s))), Expected: "receive error", Observed: "application data delivered"})
						break
					}
				}
				for _, cut := range []int{len(s2c), len(s2c) - 1, len(s2c) / 2} {
					if cut <= 0 {
						continue
					}
					if replayToClient(ccache, s2c[:cut]) {
						c.Violate(Violation{Property: "C06", Key: "C06:replay-s2c", What: "a byte-for-byte replay of a recorded server side of a resumed connection was accepted by a fresh client connection as application data",
							Ops: append(append([]string{}, ops...), fmt.Sprintf("# replay server->client bytes [0:%d] of %d", cut, len(s2c))), Expected: "receive error", Observed: "application data delivered"})
						break
					}
				}
				c.Count("replay")
			} else {
				c.Violate(Violation{Property: "C06", Key: "C06:honest-resume-failed", What: "the legitimate client could not resume a live keyed session", Ops: ops, Expected: "resumed", Observed: fmt.Sprintf("cerr=%v serr=%v resumed=%v", p2.cerr, p2.serr, p2.resumed)})
				p2.close()
			}
		}
		c.Distinct(strings.Join(ops, "\n"), nontrivial)
		c.Count(fmt.Sprintf("keyed:%v", keyed))
		if i < 3 {
			c.Sample(map[string]any{"ops": ops, "real": real})
		}
		cases = append(cases, Case{Label: fmt.Sprintf("resume#%d", i), Ops: ops, Real: real})
		c.Ran("resume-histories", 1)
	}
	security.ClearSessionCache()
	return diffBatch(c, "sc", cases, nil)
}

const replayBound = 10 * time.Second

// replayToServer feeds recorded client bytes to a fresh server connection; true = app data delivered.
func replayToServer(rec []byte) bool { return replayToServerConf(nil, true, rec) }

// replayToServerConf: the same against a server with the given own cache and authentication requirement.
func replayToServerConf(own *security.SessionCache, requireAuth bool, rec []byte) bool {
	ca, cb := bufpipe.Pair("10.0.0.1:1111", "10.0.0.2:9618")
	// event-driven: the recording is followed by EOF (CloseWrite below), so no read ever waits for a
	// peer; the bound only ends a run that hangs for a reason of its own and must be generous -- a
	// short one turns "accepted" into "refused" on a loaded machine and the replay oracle goes blind
	ctx, cancel := context.WithTimeout(context.Background(), replayBound)
	defer cancel()
	defer ca.Close()
	defer cb.Close()
	sst := stream.NewStream(cb)
	sst.SetPeerAddr("10.0.0.1:1111")
	cb.Inject(rec)
	ca.CloseWrite() // the recording is all there is: after it the server reads EOF (it can still write its reply)
	sc := *srvConf(true)
	if !requireAuth {
		sc.Authentication = security.SecurityOptional
	}
	sc.SessionCache = own
	a := security.NewAuthenticator(&sc, sst)
	if _, err := a.ServerHandshake(ctx); err != nil {
		return false
	}
	m, err := sst.ReceiveCompleteMessage(ctx)
	return err == nil && m != nil
}

// replayToClient lets a real client try to resume against a "server" that only replays recorded bytes.
func replayToClient(ccache *security.SessionCache, rec []byte) bool {
	ca, cb := bufpipe.Pair("10.0.0.1:1111", "10.0.0.2:9618")
	ctx, cancel := context.WithTimeout(context.Background(), replayBound) // see replayToServerConf
	defer cancel()
	defer ca.Close()
	defer cb.Close()
	cst := stream.NewStream(ca)
	ca.Inject(rec)
	cb.CloseWrite() // the recording is all there is: after it the client reads EOF (it can still write)
	cc := *cliConf(ccache, "")
	a := security.NewAuthenticator(&cc, cst)
	if _, err := a.ClientHandshake(ctx); err != nil {
		return false
	}
	// the client would first send its request; then read what the "server" says
	_ = cst.SendMessage(ctx, []byte("c2s-payload"))
	m, err := cst.ReceiveCompleteMessage(ctx)
	return err == nil && m != nil
}
