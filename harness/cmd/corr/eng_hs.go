package main

import (
	"bytes"
	"context"
	"crypto/ecdh"
	"crypto/rand"
	"crypto/sha256"
	"encoding/base64"
	"fmt"
	"io"
	"net"
	"os"
	"path/filepath"
	"strings"
	"sync"
	"time"

	"cedarverif/harness/internal/refcodec"

	"github.com/PelicanPlatform/classad/classad"
	"github.com/bbockelm/cedar/commands"
	"github.com/bbockelm/cedar/message"
	"github.com/bbockelm/cedar/security"
	"github.com/bbockelm/cedar/stream"
	"golang.org/x/crypto/hkdf"
)

func init() {
	register(Engine{"hsadv", runHsAdv})
	register(Engine{"matrix", runMatrix})
}

var levels = []string{"REQUIRED", "PREFERRED", "OPTIONAL", "NEVER"}

func strOrTilde(s string) string {
	if s == "" {
		return "~"
	}
	return s
}

func joinOrDash(l []string) string {
	if len(l) == 0 {
		return "-"
	}
	o := make([]string, len(l))
	for i, s := range l {
		o[i] = strOrTilde(s)
	}
	return strings.Join(o, ",")
}

func intsOrDash(l []int64) string {
	if len(l) == 0 {
		return "-"
	}
	o := make([]string, len(l))
	for i, v := range l {
		o[i] = fmt.Sprint(v)
	}
	return strings.Join(o, ",")
}

func toMethods(l []string) []security.AuthMethod {
	var o []security.AuthMethod
	for _, s := range l {
		o = append(o, security.AuthMethod(s))
	}
	return o
}

func toCiphers(l []string) []security.CryptoMethod {
	var o []security.CryptoMethod
	for _, s := range l {
		o = append(o, security.CryptoMethod(s))
	}
	return o
}

// deriveKey mirrors the documented key schedule: HKDF-SHA256(secret, salt "htcondor", info "keygen"), 32 bytes.
func deriveKey(priv *ecdh.PrivateKey, peerB64 string) ([]byte, error) {
	raw, err := base64.StdEncoding.DecodeString(peerB64)
	if err != nil {
		return nil, err
	}
	pub, err := ecdh.P256().NewPublicKey(raw)
	if err != nil {
		return nil, err
	}
	sec, err := priv.ECDH(pub)
	if err != nil {
		return nil, err
	}
	k := make([]byte, 32)
	if _, err := io.ReadFull(hkdf.New(sha256.New, sec, []byte("htcondor"), []byte("keygen")), k); err != nil {
		return nil, err
	}
	return k, nil
}

func keyAttr(kind string) (string, *ecdh.PrivateKey) {
	switch kind {
	case "good":
		p, _ := ecdh.P256().GenerateKey(rand.Reader)
		return base64.StdEncoding.EncodeToString(p.PublicKey().Bytes()), p
	case "bad":
		return "AAAA", nil
	}
	return "", nil
}

const bitClaimToBe, bitPassword, bitFS = 2, 512, 4

/* ------------------------------------------------------------ scripted server (client under test) */

type postScript struct {
	sealed         bool
	rc             *string
	sid, user, vc  string
}

type srvScript struct {
	rc        *string
	auth, enc string
	methods   []string
	ciphers   []string
	key       string
	replies   []int64
	ok        []string
	hasKey    *int64
	keyRec    bool // a non-zero hasKey is followed by a well-formed key record in the same message
	post      *postScript
	fsPath    string // what a scripted FS exchange names (always refused by the client)
}

type peerLog struct {
	mu       sync.Mutex
	ranOK    []string // exchanges this scripted peer completed successfully with the endpoint under test
	ranAny   []string
	key      []byte
	postSeen string
}

func contains(l []string, s string) bool {
	for _, x := range l {
		if x == s {
			return true
		}
	}
	return false
}

func runScriptedServer(ctx context.Context, conn net.Conn, sc srvScript, lg *peerLog) {
	defer conn.Close()
	st := stream.NewStream(conn)
	in := message.NewMessageFromStream(st)
	if _, err := in.GetInt(ctx); err != nil {
		return
	}
	clientAd, err := in.GetClassAd(ctx)
	if err != nil {
		return
	}
	clientKey, _ := clientAd.EvaluateAttrString("ECDHPublicKey")
	ad := classad.New()
	if sc.rc != nil {
		_ = ad.Set("ReturnCode", *sc.rc)
	}
	first := func(l []string) string {
		if len(l) == 0 {
			return ""
		}
		return l[0]
	}
	_ = ad.Set("AuthMethods", first(sc.methods))
	_ = ad.Set("AuthMethodsList", strings.Join(sc.methods, ","))
	_ = ad.Set("CryptoMethods", first(sc.ciphers))
	_ = ad.Set("CryptoMethodsList", strings.Join(sc.ciphers, ","))
	_ = ad.Set("Authentication", sc.auth)
	_ = ad.Set("Encryption", sc.enc)
	_ = ad.Set("Integrity", "NO")
	_ = ad.Set("RemoteVersion", security.DefaultRemoteVersion)
	_ = ad.Set("NegotiatedSession", true)
	_ = ad.Set("Enact", "NO")
	pub, priv := keyAttr(sc.key)
	if pub != "" {
		_ = ad.Set("ECDHPublicKey", pub)
	}
	out := message.NewMessageForStream(st)
	if out.PutClassAd(ctx, ad) != nil || out.FinishMessage(ctx) != nil {
		return
	}
	authed := false
	if sc.auth == "YES" {
		for _, r := range sc.replies {
			m := message.NewMessageFromStream(st)
			if _, err := m.GetInt(ctx); err != nil {
				return
			}
			o := message.NewMessageForStream(st)
			if o.PutInt64(ctx, r) != nil || o.FinishMessage(ctx) != nil {
				return
			}
			if r > 0 && r&bitClaimToBe != 0 {
				// CLAIMTOBE, server side: [status, user] -> [ack]. A deviating server that answers
				// with several bits is ready to play CLAIMTOBE if the client (wrongly) starts it.
				cm := message.NewMessageFromStream(st)
				status, err := cm.GetInt(ctx)
				if err != nil {
					return
				}
				if status == 1 {
					if _, err := cm.GetString(ctx); err != nil {
						return
					}
				}
				ok := contains(sc.ok, "CLAIMTOBE") && status == 1
				ack := message.NewMessageForStream(st)
				v := 0
				if ok {
					v = 1
				}
				if ack.PutInt(ctx, v) != nil || ack.FinishMessage(ctx) != nil {
					return
				}
				lg.mu.Lock()
				lg.ranAny = append(lg.ranAny, "CLAIMTOBE")
				if ok {
					lg.ranOK = append(lg.ranOK, "CLAIMTOBE")
				}
				lg.mu.Unlock()
				if ok {
					authed = true
					break
				}
			} else if r == bitFS {
				// FS, server side, FAILING: [path] -> [client result] -> [server result -1]. The path is
				// one the client must refuse (empty, or not under the FS base directory), so nothing is
				// created anywhere; the exchange runs to its end and fails, and the client retries with
				// the method removed from its mask.
				pm := message.NewMessageForStream(st)
				if pm.PutString(ctx, sc.fsPath) != nil || pm.FinishMessage(ctx) != nil {
					return
				}
				cr := message.NewMessageFromStream(st)
				if _, err := cr.GetInt(ctx); err != nil {
					return
				}
				vm := message.NewMessageForStream(st)
				if vm.PutInt(ctx, -1) != nil || vm.FinishMessage(ctx) != nil {
					return
				}
				lg.mu.Lock()
				lg.ranAny = append(lg.ranAny, "FS")
				lg.mu.Unlock()
			}
		}
		if !authed {
			// nothing succeeded: wait for the client to give up (it closes)
			m := message.NewMessageFromStream(st)
			_, _ = m.GetInt(ctx)
			return
		}
		if sc.hasKey == nil {
			return
		}
		hk := message.NewMessageForStream(st)
		if hk.PutInt64(ctx, *sc.hasKey) != nil {
			return
		}
		if *sc.hasKey != 0 && sc.keyRec {
			// key length, protocol, duration, input length, then that many bytes (the wrapped key)
			for _, v := range []int64{24, 3, 0, 24} {
				if hk.PutInt64(ctx, v) != nil {
					return
				}
			}
			if hk.PutBytes(ctx, fillBytes(24, 0x4b)) != nil {
				return
			}
		}
		if hk.FinishMessage(ctx) != nil {
			return
		}
		if *sc.hasKey != 0 && !sc.keyRec {
			return
		}
	}
	if sc.post == nil {
		return
	}
	if sc.post.sealed {
		if priv == nil || clientKey == "" {
			return
		}
		k, err := deriveKey(priv, clientKey)
		if err != nil {
			return
		}
		if st.SetSymmetricKey(k) != nil {
			return
		}
		lg.mu.Lock()
		lg.key = k
		lg.mu.Unlock()
	}
	pa := classad.New()
	if sc.post.rc != nil {
		_ = pa.Set("ReturnCode", *sc.post.rc)
	}
	_ = pa.Set("Sid", sc.post.sid)
	_ = pa.Set("User", sc.post.user)
	_ = pa.Set("ValidCommands", sc.post.vc)
	_ = pa.Set("SessionDuration", 60)
	_ = pa.Set("SessionLease", 30)
	po := message.NewMessageForStream(st)
	if po.PutClassAd(ctx, pa) != nil || po.FinishMessage(ctx) != nil {
		return
	}
	// stay until the client is done
	m := message.NewMessageFromStream(st)
	_, _ = m.GetInt(ctx)
}

type clientCfg struct {
	auth, enc, integ string
	methods, ciphers []string
	tweak            func(*security.SecurityConfig) // credentials (token file, trust domain ...)
}

func (c clientCfg) secConfig(cache *security.SessionCache) *security.SecurityConfig {
	conf := &security.SecurityConfig{
		AuthMethods: toMethods(c.methods), Authentication: security.SecurityLevel(c.auth),
		CryptoMethods: toCiphers(c.ciphers), Encryption: security.SecurityLevel(c.enc), Integrity: security.SecurityLevel(c.integ),
		Command: 60007, SessionCache: cache, PeerName: "",
	}
	if c.tweak != nil {
		c.tweak(conf)
	}
	return conf
}

func outcomeLine(neg *security.SecurityNegotiation, st *stream.Stream, ranOK []string) string {
	method := "-"
	if neg.Authentication {
		method = string(neg.NegotiatedAuth)
	}
	ran := "-"
	if len(ranOK) > 0 {
		ran = strings.Join(ranOK, ",")
	}
	return fmt.Sprintf("ok auth=%s enc=%s method=%s keyed=%s ran=%s", b01(neg.Authentication), b01(neg.Encryption), method, b01(st.IsEncrypted()), ran)
}

// runClientCase: real ClientHandshake against a scripted server.
func runClientCase(c *Ctx, cfg clientCfg, sc srvScript) Case {
	ca, cb, tap := tappedPair("10.0.0.1:1111", "10.0.0.2:9618", "")
	ctx, cancel := context.WithTimeout(context.Background(), hsScriptTimeout)
	defer cancel()
	lg := &peerLog{}
	done := make(chan struct{})
	go func() { defer close(done); runScriptedServer(ctx, cb, sc, lg) }()
	st := stream.NewStream(ca)
	a := security.NewAuthenticator(cfg.secConfig(security.NewSessionCache()), st)
	neg, err := a.ClientHandshake(ctx)
	lg.mu.Lock()
	ranOK := append([]string{}, lg.ranOK...)
	ranAny := append([]string{}, lg.ranAny...)
	skey := lg.key
	lg.mu.Unlock()
	var real string
	rcs, hks, post := "none", "none", "none"
	if sc.rc != nil {
		rcs = strOrTilde(*sc.rc)
	}
	if sc.hasKey != nil {
		hks = fmt.Sprint(*sc.hasKey)
		if *sc.hasKey != 0 && sc.keyRec {
			hks += "r"
		}
	}
	if sc.post != nil {
		prc := "none"
		if sc.post.rc != nil {
			prc = strOrTilde(*sc.post.rc)
		}
		post = fmt.Sprintf("%s:%s:%s:%s:%s", b01(sc.post.sealed), prc, strOrTilde(sc.post.sid), strOrTilde(sc.post.user), strOrTilde(sc.post.vc))
	}
	op := fmt.Sprintf("client auth=%s enc=%s integ=%s methods=%s ciphers=%s key=1 tok=0 rc=%s sauth=%s senc=%s smethods=%s sciphers=%s skey=%s replies=%s ok=%s haskey=%s post=%s",
		strOrTilde(cfg.auth), strOrTilde(cfg.enc), strOrTilde(cfg.integ), joinOrDash(cfg.methods), joinOrDash(cfg.ciphers),
		rcs, strOrTilde(sc.auth), strOrTilde(sc.enc), joinOrDash(sc.methods), joinOrDash(sc.ciphers), sc.key,
		intsOrDash(sc.replies), joinOrDash(sc.ok), hks, post)
	if err != nil {
		real = "err " + hsErrClass(err)
	} else {
		real = outcomeLine(neg, st, ranOK)
		// ---- property oracle C03 (client role) ----
		viol := func(key, what, exp, obs string) {
			c.Violate(Violation{Property: "C03", Key: "C03:client:" + key, What: what, Ops: []string{op}, Expected: exp, Observed: obs})
		}
		own := func(m string) bool { return contains(cfg.methods, m) }
		if cfg.auth == "REQUIRED" {
			okOwn := false
			for _, m := range ranOK {
				if own(m) {
					okOwn = true
				}
			}
			if !okOwn {
				viol("required-auth-not-run", "handshake succeeded for a client whose policy REQUIRES authentication although no method it listed completed on the wire",
					"an own-listed method ran successfully", fmt.Sprintf("exchanges completed: %v; reported auth=%v method=%s", ranOK, neg.Authentication, neg.NegotiatedAuth))
			}
		}
		if (cfg.enc == "REQUIRED" || cfg.integ == "REQUIRED") && !st.IsEncrypted() {
			viol("required-enc-plaintext", "handshake succeeded for a client whose policy REQUIRES encryption/integrity on a plaintext stream",
				"stream AES-GCM protected", "stream.IsEncrypted()=false")
		}
		if neg.Encryption != st.IsEncrypted() {
			viol("reported-enc", "reported encryption flag differs from the stream's real state", fmt.Sprint(st.IsEncrypted()), fmt.Sprint(neg.Encryption))
		}
		if neg.Authentication != (len(ranOK) > 0) {
			viol("reported-auth", "reported authentication flag differs from what ran on the wire", fmt.Sprint(len(ranOK) > 0), fmt.Sprint(neg.Authentication))
		} else if neg.Authentication && string(neg.NegotiatedAuth) != ranOK[len(ranOK)-1] {
			viol("reported-method", "reported method is not the one that ran", ranOK[len(ranOK)-1], string(neg.NegotiatedAuth))
		}
		for _, m := range ranAny {
			if !own(m) {
				viol("unoffered-method-run", "the client ran an authentication method it never listed", fmt.Sprint(cfg.methods), m)
			}
		}
		if st.IsEncrypted() && skey != nil && !bytes.Equal(neg.GetSharedSecret(), skey) {
			viol("key-mismatch", "client and server derived different keys", "same key", "different")
		}
		trafficAfterHandshake(ctx, st, tap, 0, neg.GetSharedSecret(), cfg.enc == "REQUIRED" || cfg.integ == "REQUIRED", canaryC2S, viol)
	}
	ca.Close()
	<-done
	return Case{Label: "client", Ops: []string{op}, Real: []string{real}}
}

func hsErrClass(err error) string { return "x" } // handshake errors are compared as ok/err only

/* ------------------------------------------------------------ scripted client (server under test) */

type cliScript struct {
	auth, enc string
	methods   []string
	ciphers   []string
	key       string
	masks     []int64
	ok        []string
	user      string
	// which command the request names: cmdSet=false is the fixed request of the older cases
	// (Command=60007, no AuthCommand); otherwise each attribute is sent iff non-nil
	cmdSet    bool
	cmd, acmd *int64
}

// pcEntry: the policy a server serves one command under (ServerConfigForCommand).
type pcEntry struct {
	cmd              int64
	auth, enc, integ string
	methods          []string
}

type serverCfg struct {
	auth, enc, integ string
	methods, ciphers []string
	tweak            func(*security.SecurityConfig)
	perCmd           []pcEntry // per-command policies; the fields above are then the connection's default policy
	// policy: a long-lived server policy OBJECT shared by several connections. Each connection works on
	// a shallow copy (`connConfig := *s.SecurityConfig`, as server.ServeConn and SecurityManager do), so
	// slices and maps inside are shared with the policy and with every other connection's copy.
	policy *security.SecurityConfig
}

// policyOf: the server's OWN policy for a command -- the entry of the table, else the default.
func (cfg serverCfg) policyOf(cmd int64) (auth, enc, integ string, methods []string) {
	for _, e := range cfg.perCmd {
		if e.cmd == cmd {
			return e.auth, e.enc, e.integ, e.methods
		}
	}
	return cfg.auth, cfg.enc, cfg.integ, cfg.methods
}

func optIntStr(p *int64) string {
	if p == nil {
		return "none"
	}
	return fmt.Sprint(*p)
}

type cliObs struct {
	settled          chan struct{} // closed when the scripted client has processed everything the server sent
	denied           bool
	advAuth, advEnc  string
	ranOK            []string
	ranAny           []string
	postReadable     bool
	key              []byte
}

func runScriptedClient(ctx context.Context, conn net.Conn, sc cliScript, ob *cliObs, mu *sync.Mutex) {
	defer conn.Close()
	var once sync.Once
	settle := func() { once.Do(func() { close(ob.settled) }) }
	defer settle()
	st := stream.NewStream(conn)
	ad := classad.New()
	_ = ad.Set("AuthMethods", strings.Join(sc.methods, ","))
	_ = ad.Set("CryptoMethods", strings.Join(sc.ciphers, ","))
	_ = ad.Set("Authentication", sc.auth)
	_ = ad.Set("Encryption", sc.enc)
	_ = ad.Set("Integrity", "OPTIONAL")
	if !sc.cmdSet {
		_ = ad.Set("Command", 60007)
	} else {
		if sc.cmd != nil {
			_ = ad.Set("Command", *sc.cmd)
		}
		if sc.acmd != nil {
			_ = ad.Set("AuthCommand", *sc.acmd)
		}
	}
	_ = ad.Set("RemoteVersion", security.DefaultRemoteVersion)
	_ = ad.Set("NegotiatedSession", true)
	_ = ad.Set("NewSession", "YES")
	_ = ad.Set("OutgoingNegotiation", "PREFERRED")
	_ = ad.Set("Enact", "NO")
	pub, priv := keyAttr(sc.key)
	if pub != "" {
		_ = ad.Set("ECDHPublicKey", pub)
	}
	out := message.NewMessageForStream(st)
	if out.PutInt(ctx, commands.DC_AUTHENTICATE) != nil || out.PutClassAd(ctx, ad) != nil || out.FinishMessage(ctx) != nil {
		return
	}
	in := message.NewMessageFromStream(st)
	sad, err := in.GetClassAd(ctx)
	if err != nil {
		return
	}
	mu.Lock()
	ob.advAuth, _ = sad.EvaluateAttrString("Authentication")
	ob.advEnc, _ = sad.EvaluateAttrString("Encryption")
	if rc, ok := sad.EvaluateAttrString("ReturnCode"); ok && rc != "" && rc != "AUTHORIZED" {
		ob.denied = true
	}
	mu.Unlock()
	if ob.denied {
		return
	}
	if ob.advAuth == "YES" {
		authed := false
		gaveUp := false
		for _, mk := range sc.masks {
			o := message.NewMessageForStream(st)
			if o.PutInt64(ctx, mk) != nil || o.FinishMessage(ctx) != nil {
				return
			}
			if mk == 0 {
				// gave up -- but stay connected and keep following the protocol, in case the
				// server carries on regardless
				gaveUp = true
				break
			}
			rm := message.NewMessageFromStream(st)
			r, err := rm.GetInt(ctx)
			if err != nil {
				return
			}
			if r == bitClaimToBe {
				good := contains(sc.ok, "CLAIMTOBE")
				cm := message.NewMessageForStream(st)
				if good {
					_ = cm.PutInt(ctx, 1)
					_ = cm.PutString(ctx, sc.user)
				} else {
					_ = cm.PutInt(ctx, 0)
				}
				if cm.FinishMessage(ctx) != nil {
					return
				}
				if !good {
					continue
				}
				am := message.NewMessageFromStream(st)
				ack, err := am.GetInt(ctx)
				if err != nil {
					return
				}
				if ack == 1 {
					mu.Lock()
					ob.ranOK = append(ob.ranOK, "CLAIMTOBE")
					mu.Unlock()
					authed = true
					break
				}
			} else if r == bitFS {
				// FS, client side, FAILING: [path] -> [result -1] -> [server result]
				pm := message.NewMessageFromStream(st)
				if _, err := pm.GetString(ctx); err != nil {
					return
				}
				cr := message.NewMessageForStream(st)
				if cr.PutInt(ctx, -1) != nil || cr.FinishMessage(ctx) != nil {
					return
				}
				vm := message.NewMessageFromStream(st)
				v, err := vm.GetInt(ctx)
				if err != nil {
					return
				}
				mu.Lock()
				ob.ranAny = append(ob.ranAny, "FS")
				if v == 0 {
					ob.ranOK = append(ob.ranOK, "FS") // the server accepted an exchange the client declared failed
					authed = true
				}
				mu.Unlock()
				if authed {
					break
				}
			}
		}
		if !authed && !gaveUp {
			return
		}
		if authed {
			km := message.NewMessageFromStream(st)
			if _, err := km.GetInt(ctx); err != nil {
				return
			}
		}
	}
	serverKey, _ := sad.EvaluateAttrString("ECDHPublicKey")
	negCrypto, _ := sad.EvaluateAttrString("CryptoMethods")
	if priv != nil && serverKey != "" && negCrypto == "AES" {
		if k, err := deriveKey(priv, serverKey); err == nil {
			if st.SetSymmetricKey(k) == nil {
				mu.Lock()
				ob.key = k
				mu.Unlock()
			}
		}
	}
	pm := message.NewMessageFromStream(st)
	if _, err := pm.GetClassAd(ctx); err == nil {
		mu.Lock()
		ob.postReadable = true
		mu.Unlock()
	}
	settle()
	// keep the connection until the server side has returned
	w := message.NewMessageFromStream(st)
	_, _ = w.GetInt(ctx)
}

func runServerCase(c *Ctx, cfg serverCfg, sc cliScript) Case {
	ca, cb, tap := tappedPair("10.0.0.1:1111", "10.0.0.2:9618", "")
	ctx, cancel := context.WithTimeout(context.Background(), hsScriptTimeout)
	defer cancel()
	ob := &cliObs{settled: make(chan struct{})}
	var mu sync.Mutex
	done := make(chan struct{})
	go func() { defer close(done); runScriptedClient(ctx, ca, sc, ob, &mu) }()
	st := stream.NewStream(cb)
	st.SetPeerAddr("10.0.0.1:1111")
	conf := &security.SecurityConfig{
		AuthMethods: toMethods(cfg.methods), Authentication: security.SecurityLevel(cfg.auth),
		CryptoMethods: toCiphers(cfg.ciphers), Encryption: security.SecurityLevel(cfg.enc), Integrity: security.SecurityLevel(cfg.integ),
	}
	a := security.NewAuthenticator(conf, st)
	if len(cfg.perCmd) > 0 {
		// a server that serves different commands under different policies (as server.ServeConn wires it:
		// a private copy of the command's policy per connection, nil = the default policy)
		a.ServerConfigForCommand = func(command int) *security.SecurityConfig {
			for _, e := range cfg.perCmd {
				if e.cmd == int64(command) {
					return &security.SecurityConfig{
						AuthMethods: toMethods(e.methods), Authentication: security.SecurityLevel(e.auth),
						CryptoMethods: toCiphers(cfg.ciphers), Encryption: security.SecurityLevel(e.enc), Integrity: security.SecurityLevel(e.integ),
					}
				}
			}
			return nil
		}
	}
	neg, err := a.ServerHandshake(ctx)
	op := fmt.Sprintf("server auth=%s enc=%s integ=%s methods=%s ciphers=%s key=1 cauth=%s cenc=%s cmethods=%s cciphers=%s ckey=%s masks=%s ok=%s user=%s",
		strOrTilde(cfg.auth), strOrTilde(cfg.enc), strOrTilde(cfg.integ), joinOrDash(cfg.methods), joinOrDash(cfg.ciphers),
		strOrTilde(sc.auth), strOrTilde(sc.enc), joinOrDash(sc.methods), joinOrDash(sc.ciphers), sc.key, intsOrDash(sc.masks), joinOrDash(sc.ok), strOrTilde(sc.user))
	sentCmd := int64(60007) // what the request names as its command (absent: the zero value)
	if sc.cmdSet {
		sentCmd = 0
		if sc.cmd != nil {
			sentCmd = *sc.cmd
		}
	}
	if len(cfg.perCmd) > 0 {
		var es []string
		for _, e := range cfg.perCmd {
			es = append(es, fmt.Sprintf("%d:%s:%s:%s:%s", e.cmd, strOrTilde(e.auth), strOrTilde(e.enc), strOrTilde(e.integ), joinOrDash(e.methods)))
		}
		cs, as := optIntStr(sc.cmd), optIntStr(sc.acmd)
		if !sc.cmdSet {
			cs, as = "60007", "none"
		}
		op += fmt.Sprintf(" pc=%s cmd=%s acmd=%s", strings.Join(es, "/"), cs, as)
	}
	var real string
	if err != nil {
		cb.Close()
		<-done
		mu.Lock()
		if ob.denied {
			yn := func(s string) string {
				if s == "YES" {
					return "1"
				}
				return "0"
			}
			real = fmt.Sprintf("denied auth=%s enc=%s", yn(ob.advAuth), yn(ob.advEnc))
		} else {
			real = "err x"
		}
		mu.Unlock()
	} else {
		select {
		case <-ob.settled:
		case <-time.After(3 * time.Second): // only reached when the scripted client is stuck, which no script is
		}
		mu.Lock()
		ranOK := append([]string{}, ob.ranOK...)
		ckey := ob.key
		mu.Unlock()
		real = outcomeLine(neg, st, ranOK) + " user=" + strOrTilde(neg.User)
		kp := "C03:server:"
		if len(cfg.perCmd) > 0 {
			kp = "C03:server:percmd:"
		}
		viol := func(key, what, exp, obs string) {
			c.Violate(Violation{Property: "C03", Key: kp + key, What: what, Ops: []string{op}, Expected: exp, Observed: obs})
		}
		// "its own policy": with per-command policies, the policy of the command this handshake is FOR --
		// the command the server reports as negotiated (and a dispatching server goes on to run). From
		// here on cfg is that policy.
		forCmd := sentCmd
		if neg.ClientConfig != nil {
			forCmd = int64(neg.ClientConfig.Command)
		}
		dflt := cfg
		cfg.auth, cfg.enc, cfg.integ, cfg.methods = dflt.policyOf(forCmd)
		if len(dflt.perCmd) > 0 {
			// the request named sentCmd as its command: that command's policy binds as well (the two
			// coincide unless the server reports another command than the one it was asked for)
			if a2, e2, i2, _ := dflt.policyOf(sentCmd); forCmd != sentCmd {
				if a2 == "REQUIRED" && len(ranOK) == 0 {
					viol("required-auth-not-run", fmt.Sprintf("request for command %d (policy: authentication REQUIRED) succeeded, reported as command %d, and no authentication exchange completed", sentCmd, forCmd), "a method ran", "none")
				}
				if (e2 == "REQUIRED" || i2 == "REQUIRED") && !st.IsEncrypted() {
					viol("required-enc-plaintext", fmt.Sprintf("request for command %d (policy: encryption/integrity REQUIRED) succeeded, reported as command %d, on a plaintext stream", sentCmd, forCmd), "stream AES-GCM protected", "stream.IsEncrypted()=false")
				}
			}
		}
		if cfg.auth == "REQUIRED" && len(ranOK) == 0 {
			viol("required-auth-not-run", fmt.Sprintf("server whose policy for the negotiated command (%d) marks authentication REQUIRED returned success although no authentication exchange completed", forCmd), "a method ran", "none")
		}
		if (cfg.enc == "REQUIRED" || cfg.integ == "REQUIRED") && !st.IsEncrypted() {
			viol("required-enc-plaintext", "server with encryption/integrity REQUIRED returned success on a plaintext stream", "stream AES-GCM protected", "stream.IsEncrypted()=false")
		}
		if neg.Encryption != st.IsEncrypted() {
			viol("reported-enc", "reported encryption flag differs from the stream's real state", fmt.Sprint(st.IsEncrypted()), fmt.Sprint(neg.Encryption))
		}
		if neg.Authentication != (len(ranOK) > 0) {
			viol("reported-auth", "reported authentication flag differs from what ran on the wire", fmt.Sprint(len(ranOK) > 0), fmt.Sprint(neg.Authentication))
		} else if neg.Authentication {
			if string(neg.NegotiatedAuth) != ranOK[len(ranOK)-1] {
				viol("reported-method", "reported method is not the one that ran", ranOK[len(ranOK)-1], string(neg.NegotiatedAuth))
			}
			if !contains(cfg.methods, string(neg.NegotiatedAuth)) {
				viol("unoffered-method-run", "server ran a method it does not list", fmt.Sprint(cfg.methods), string(neg.NegotiatedAuth))
			}
		}
		if st.IsEncrypted() && ckey != nil && !bytes.Equal(neg.GetSharedSecret(), ckey) {
			viol("key-mismatch", "client and server derived different keys", "same key", "different")
		}
		trafficAfterHandshake(ctx, st, tap, 1, neg.GetSharedSecret(), cfg.enc == "REQUIRED" || cfg.integ == "REQUIRED", canaryS2C, viol)
		cb.Close()
		<-done
	}
	return Case{Label: "server", Ops: []string{op}, Real: []string{real}}
}

/* ------------------------------------------------------------ hsadv engine (C03) */

func pick[T any](c *Ctx, l []T) T { return l[c.Rng.Intn(len(l))] }

func randMethodList(c *Ctx) []string {
	pool := []string{"CLAIMTOBE", "PASSWORD", "NONE", "BOGUS", "TOKEN"}
	n := 1 + c.Rng.Intn(3)
	perm := c.Rng.Perm(len(pool))
	var out []string
	for _, i := range perm[:n] {
		out = append(out, pool[i])
	}
	return out
}

func sp(s string) *string { return &s }
func ip(v int64) *int64   { return &v }

// quietStdout: the library prints diagnostics of failing FS / TOKEN exchanges on stdout.
func quietStdout() func() {
	so := os.Stdout
	dn, err := os.OpenFile(os.DevNull, os.O_WRONLY, 0)
	if err != nil {
		return func() {}
	}
	os.Stdout = dn
	return func() { os.Stdout = so; dn.Close() }
}

func runHsAdv(c *Ctx) error {
	defer quietStdout()()
	c.Res.Rule = "both roles; every 4x4 local (authentication, encryption) policy plus integrity; method lists over {CLAIMTOBE, PASSWORD, NONE, BOGUS, TOKEN}; peers = the property's deviation catalogue (honest; Authentication/Encryption NO; ECDH key absent/undecodable; no common cipher; un-offered / multi-bit (also with an un-offered lowest bit) / zero / negative method bit; DENIED; clear post-auth ad on a keyed stream; sealed post-auth without agreement; missing or non-zero key message) crossed with each policy, plus random peers drawing every field independently; server role also with PER-COMMAND policies (a strict command with authentication / encryption / integrity REQUIRED, a lax command, three default policies) against requests naming Command and AuthCommand independently (equal, different, DC_AUTHENTICATE / DC_SEC_QUERY with the real command in AuthCommand, a command without entry, either absent), success judged by the policy of the command the server reports as negotiated; the scripted peer speaks raw CEDAR frames and records which exchanges completed; distinct by (config, script); non-trivial = peer deviates from honest in ≥1 field"
	var cases []Case
	honestSrv := func(cfg clientCfg) srvScript {
		return srvScript{auth: "YES", enc: "YES", methods: []string{"CLAIMTOBE"}, ciphers: []string{"AES"}, key: "good",
			replies: []int64{bitClaimToBe}, ok: []string{"CLAIMTOBE"}, hasKey: ip(0),
			post: &postScript{sealed: true, rc: sp("AUTHORIZED"), sid: "sid1", user: "alice@x", vc: "60007"}}
	}
	type dev struct {
		name string
		f    func(s *srvScript)
	}
	devs := []dev{
		{"honest", func(s *srvScript) {}},
		{"auth-NO", func(s *srvScript) { s.auth = "NO"; s.replies = nil }},
		{"enc-NO-clear", func(s *srvScript) { s.enc = "NO"; s.key = "absent"; s.post.sealed = false }},
		{"key-absent", func(s *srvScript) { s.key = "absent"; s.post.sealed = false }},
		{"key-bad", func(s *srvScript) { s.key = "bad"; s.post.sealed = false }},
		{"no-common-cipher", func(s *srvScript) { s.ciphers = []string{"BLOWFISH"}; s.post.sealed = false }},
		{"no-ciphers", func(s *srvScript) { s.ciphers = nil; s.post.sealed = false }},
		{"unoffered-claimtobe", func(s *srvScript) { s.methods = []string{"PASSWORD", "CLAIMTOBE", "BOGUS"}; s.replies = []int64{bitClaimToBe} }},
		{"password-then-claim", func(s *srvScript) { s.methods = []string{"PASSWORD", "CLAIMTOBE"}; s.replies = []int64{bitPassword, bitClaimToBe} }},
		{"multi-bit", func(s *srvScript) { s.replies = []int64{bitClaimToBe | bitPassword, bitClaimToBe} }},
		{"zero-bit", func(s *srvScript) { s.replies = []int64{0} }},
		{"negative-bit", func(s *srvScript) { s.replies = []int64{-1, bitClaimToBe} }},
		{"unknown-bit", func(s *srvScript) { s.replies = []int64{1 << 20, bitClaimToBe} }},
		{"claim-rejected", func(s *srvScript) { s.ok = nil }},
		{"denied", func(s *srvScript) { s.rc = sp("DENIED") }},
		{"rc-empty", func(s *srvScript) { s.rc = sp("") }},
		{"post-clear-on-keyed", func(s *srvScript) { s.post.sealed = false }},
		{"post-denied", func(s *srvScript) { s.post.rc = sp("DENIED") }},
		{"post-missing", func(s *srvScript) { s.post = nil }},
		{"haskey-missing", func(s *srvScript) { s.hasKey = nil }},
		{"haskey-nonzero", func(s *srvScript) { s.hasKey = ip(1) }},
		{"haskey-nonzero-with-record", func(s *srvScript) { s.hasKey = ip(1); s.keyRec = true }},
		{"auth-NO-enc-NO", func(s *srvScript) { s.auth = "NO"; s.enc = "NO"; s.replies = nil; s.key = "absent"; s.post.sealed = false }},
		{"auth-weird", func(s *srvScript) { s.auth = "REQUIRED"; s.replies = nil }},
	}
	methodShapes := [][]string{{"CLAIMTOBE"}, {"PASSWORD"}, {"PASSWORD", "CLAIMTOBE"}, {"CLAIMTOBE", "PASSWORD"}, {"NONE"}, {"TOKEN", "CLAIMTOBE"}}
	for _, au := range levels {
		for _, en := range levels {
			for mi, ms := range methodShapes {
				if !c.Thorough() && mi >= 3 && (au != "REQUIRED" && en != "REQUIRED") {
					continue
				}
				for _, integ := range []string{"OPTIONAL", "REQUIRED"} {
					if integ == "REQUIRED" && !(c.Thorough() || mi == 0) {
						continue
					}
					cfg := clientCfg{auth: au, enc: en, integ: integ, methods: ms, ciphers: []string{"AES"}}
					for _, d := range devs {
						sc := honestSrv(cfg)
						d.f(&sc)
						cs := runClientCase(c, cfg, sc)
						cases = append(cases, cs)
						c.Distinct(cs.Ops[0], d.name != "honest")
						c.Count("client-dev:" + d.name)
					}
				}
			}
		}
	}
	// a multi-bit answer whose LOWEST bit is a method the client never offered (CLAIMTOBE is the lowest
	// method bit of all): the client offers only FS, the server answers FS|CLAIMTOBE and is ready to
	// play CLAIMTOBE. Nothing may run. (FS: implemented and needs no configuration on the client.)
	for _, au := range levels {
		for _, en := range levels {
			cfg := clientCfg{auth: au, enc: en, integ: "OPTIONAL", methods: []string{"FS"}, ciphers: []string{"AES"}}
			for _, reply := range []int64{4 | bitClaimToBe, 4 | bitClaimToBe | bitPassword, 4 | 256 | bitClaimToBe} {
				sc := honestSrv(cfg)
				sc.methods = []string{"FS", "CLAIMTOBE"}
				sc.replies = []int64{reply, bitClaimToBe}
				cs := runClientCase(c, cfg, sc)
				cases = append(cases, cs)
				c.Distinct(cs.Ops[0], true)
				c.Count("client-dev:multi-bit-lowest-unoffered")
				if au == "REQUIRED" && en == "OPTIONAL" {
					c.Sample(map[string]any{"op": cs.Ops[0], "real": cs.Real[0]})
				}
			}
		}
	}
	// ---- two methods that can both be picked: the FIRST common one runs on the wire and FAILS, a
	// later one completes. What the endpoint reports must be the one that completed. ----
	fsDevs := []dev{
		{"fs-fails-then-claim", func(s *srvScript) { s.methods = []string{"FS", "CLAIMTOBE"}; s.replies = []int64{bitFS, bitClaimToBe} }},
		{"fs-fails-badpath-then-claim", func(s *srvScript) {
			s.methods = []string{"FS", "CLAIMTOBE"}
			s.replies = []int64{bitFS, bitClaimToBe}
			s.fsPath = "/etc/FS_123456"
		}},
		{"claim-then-nothing-else", func(s *srvScript) { s.methods = []string{"FS", "CLAIMTOBE"} }},
		{"fs-fails-only", func(s *srvScript) { s.methods = []string{"FS", "CLAIMTOBE"}; s.replies = []int64{bitFS} }},
		{"fs-fails-claim-rejected", func(s *srvScript) { s.methods = []string{"FS", "CLAIMTOBE"}; s.replies = []int64{bitFS, bitClaimToBe}; s.ok = nil }},
		{"fs-twice", func(s *srvScript) { s.methods = []string{"FS", "CLAIMTOBE"}; s.replies = []int64{bitFS, bitFS, bitClaimToBe} }},
		{"fs-fails-then-claim-auth-NO-enc", func(s *srvScript) {
			s.methods = []string{"CLAIMTOBE", "FS"}
			s.replies = []int64{bitFS, bitClaimToBe}
			s.enc = "NO"
			s.key = "absent"
			s.post.sealed = false
		}},
	}
	for _, au := range levels {
		for _, en := range levels {
			for _, ms := range [][]string{{"FS", "CLAIMTOBE"}, {"CLAIMTOBE", "FS"}} {
				cfg := clientCfg{auth: au, enc: en, integ: "OPTIONAL", methods: ms, ciphers: []string{"AES"}}
				for _, d := range fsDevs {
					sc := honestSrv(cfg)
					d.f(&sc)
					cs := runClientCase(c, cfg, sc)
					cases = append(cases, cs)
					c.Distinct(cs.Ops[0], true)
					c.Count("client-dev:" + d.name)
					if strings.Contains(cs.Real[0], "method=CLAIMTOBE") && len(sc.replies) > 1 {
						c.Count("client:first-method-failed-later-completed")
					}
				}
			}
		}
	}
	// server role: catalogue of client deviations
	type cdev struct {
		name string
		f    func(s *cliScript)
	}
	honestCli := func() cliScript {
		return cliScript{auth: "OPTIONAL", enc: "OPTIONAL", methods: []string{"CLAIMTOBE"}, ciphers: []string{"AES"}, key: "good",
			masks: []int64{bitClaimToBe}, ok: []string{"CLAIMTOBE"}, user: "bob"}
	}
	cdevs := []cdev{
		{"honest", func(s *cliScript) {}},
		{"auth-never", func(s *cliScript) { s.auth = "NEVER" }},
		{"enc-never", func(s *cliScript) { s.enc = "NEVER" }},
		{"auth-required", func(s *cliScript) { s.auth = "REQUIRED" }},
		{"enc-required", func(s *cliScript) { s.enc = "REQUIRED" }},
		{"key-absent", func(s *cliScript) { s.key = "absent" }},
		{"key-bad", func(s *cliScript) { s.key = "bad" }},
		{"no-common-cipher", func(s *cliScript) { s.ciphers = []string{"3DES"} }},
		{"no-methods", func(s *cliScript) { s.methods = nil; s.masks = []int64{0} }},
		{"mask-zero", func(s *cliScript) { s.masks = []int64{0} }},
		{"mask-password-then-claim", func(s *cliScript) { s.methods = []string{"PASSWORD", "CLAIMTOBE"}; s.masks = []int64{bitPassword, bitClaimToBe} }},
		{"mask-all-bits", func(s *cliScript) { s.masks = []int64{-1} }},
		{"mask-unlisted-bit", func(s *cliScript) { s.methods = []string{"PASSWORD"}; s.masks = []int64{bitClaimToBe} }},
		{"claim-fails", func(s *cliScript) { s.ok = nil; s.masks = []int64{bitClaimToBe, 0} }},
		{"masks-exhausted", func(s *cliScript) { s.masks = nil }},
		{"levels-garbage", func(s *cliScript) { s.auth = "YES"; s.enc = "" }},
	}
	srvShapes := [][]string{{"CLAIMTOBE"}, {"PASSWORD", "CLAIMTOBE"}, {"PASSWORD"}, {"NONE", "CLAIMTOBE"}}
	for _, au := range levels {
		for _, en := range levels {
			for mi, ms := range srvShapes {
				if !c.Thorough() && mi >= 2 && au != "REQUIRED" {
					continue
				}
				for _, integ := range []string{"OPTIONAL", "REQUIRED"} {
					if integ == "REQUIRED" && !(c.Thorough() || mi == 0) {
						continue
					}
					cfg := serverCfg{auth: au, enc: en, integ: integ, methods: ms, ciphers: []string{"AES"}}
					for _, d := range cdevs {
						sc := honestCli()
						d.f(&sc)
						cs := runServerCase(c, cfg, sc)
						cases = append(cases, cs)
						c.Distinct(cs.Ops[0], d.name != "honest")
						c.Count("server-dev:" + d.name)
					}
				}
			}
		}
	}
	// server role, two methods: the server's first method in the mask runs and fails, the next completes
	fsCdevs := []cdev{
		{"fs-fails-then-claim", func(s *cliScript) { s.methods = []string{"FS", "CLAIMTOBE"}; s.masks = []int64{bitFS | bitClaimToBe, bitClaimToBe} }},
		{"fs-only-mask-then-claim", func(s *cliScript) { s.methods = []string{"FS", "CLAIMTOBE"}; s.masks = []int64{bitFS, bitClaimToBe} }},
		{"claim-only-mask", func(s *cliScript) { s.methods = []string{"CLAIMTOBE", "FS"}; s.masks = []int64{bitClaimToBe} }},
		{"fs-fails-then-giveup", func(s *cliScript) { s.methods = []string{"FS", "CLAIMTOBE"}; s.masks = []int64{bitFS | bitClaimToBe, 0} }},
		{"fs-fails-claim-fails", func(s *cliScript) { s.methods = []string{"FS", "CLAIMTOBE"}; s.masks = []int64{bitFS | bitClaimToBe, bitClaimToBe, 0}; s.ok = nil }},
		{"fs-twice-then-claim", func(s *cliScript) { s.methods = []string{"FS", "CLAIMTOBE"}; s.masks = []int64{bitFS | bitClaimToBe, bitFS | bitClaimToBe, bitClaimToBe} }},
	}
	for _, au := range levels {
		for _, en := range levels {
			for _, ms := range [][]string{{"FS", "CLAIMTOBE"}, {"CLAIMTOBE", "FS"}} {
				cfg := serverCfg{auth: au, enc: en, integ: "OPTIONAL", methods: ms, ciphers: []string{"AES"}}
				for _, d := range fsCdevs {
					sc := honestCli()
					d.f(&sc)
					cs := runServerCase(c, cfg, sc)
					cases = append(cases, cs)
					c.Distinct(cs.Ops[0], true)
					c.Count("server-dev:" + d.name)
					if strings.Contains(cs.Real[0], "method=CLAIMTOBE") && ms[0] == "FS" && sc.masks[0]&bitFS != 0 {
						c.Count("server:first-method-failed-later-completed")
					}
				}
			}
		}
	}
	// ---- server role with PER-COMMAND policies (ServerConfigForCommand): one server, a strict command
	// (something REQUIRED), a lax command and a default policy; scripted clients name Command and
	// AuthCommand independently (equal, different, the DC_AUTHENTICATE / DC_SEC_QUERY forms with the
	// real command in AuthCommand, a command without an entry, either attribute absent). Success must
	// meet the policy of the command the negotiation is FOR. ----
	{
		const strictCmd, laxCmd, otherCmd = 1, 5, 77
		cbm := []string{"CLAIMTOBE"}
		stricts := []pcEntry{
			{strictCmd, "REQUIRED", "OPTIONAL", "OPTIONAL", cbm},
			{strictCmd, "OPTIONAL", "REQUIRED", "OPTIONAL", cbm},
			{strictCmd, "NEVER", "OPTIONAL", "REQUIRED", cbm},
			{strictCmd, "REQUIRED", "REQUIRED", "OPTIONAL", []string{"PASSWORD", "CLAIMTOBE"}},
		}
		laxes := []pcEntry{
			{laxCmd, "NEVER", "NEVER", "OPTIONAL", cbm},
			{laxCmd, "OPTIONAL", "OPTIONAL", "OPTIONAL", cbm},
		}
		dflts := []serverCfg{
			{auth: "OPTIONAL", enc: "OPTIONAL", integ: "OPTIONAL", methods: cbm, ciphers: []string{"AES"}},
			{auth: "REQUIRED", enc: "REQUIRED", integ: "OPTIONAL", methods: cbm, ciphers: []string{"AES"}},
			{auth: "NEVER", enc: "NEVER", integ: "NEVER", methods: cbm, ciphers: []string{"AES"}},
		}
		cmdVals := []*int64{ip(strictCmd), ip(laxCmd), ip(int64(commands.DC_AUTHENTICATE)), ip(int64(commands.DC_SEC_QUERY)), ip(otherCmd), nil}
		acmdVals := []*int64{nil, ip(strictCmd), ip(laxCmd), ip(0), ip(int64(commands.DC_SEC_QUERY)), ip(otherCmd)}
		// clients that would rather not authenticate / encrypt, and the honest one
		pcDevs := []cdev{
			{"honest", func(s *cliScript) {}},
			{"auth-never", func(s *cliScript) { s.auth = "NEVER" }},
			{"unwilling", func(s *cliScript) { s.auth = "OPTIONAL"; s.enc = "NEVER"; s.methods = []string{"NONE"}; s.masks = []int64{0}; s.key = "absent" }},
			{"enc-never-key-absent", func(s *cliScript) { s.enc = "NEVER"; s.key = "absent" }},
			{"mask-zero", func(s *cliScript) { s.masks = []int64{0} }},
		}
		for di, d0 := range dflts {
			for si, se := range stricts {
				for li, le := range laxes {
					if !c.Thorough() && (di+si+li+int(c.Seed))%2 != 0 {
						continue
					}
					cfg := d0
					cfg.perCmd = []pcEntry{se, le}
					if (si+li)%2 == 1 {
						cfg.perCmd = []pcEntry{le, se}
					}
					for _, cv := range cmdVals {
						for _, av := range acmdVals {
							for _, d := range pcDevs {
								sc := honestCli()
								d.f(&sc)
								sc.cmdSet, sc.cmd, sc.acmd = true, cv, av
								cs := runServerCase(c, cfg, sc)
								cases = append(cases, cs)
								c.Distinct(cs.Ops[0], true)
								c.Count("server-percmd:" + d.name)
								switch {
								case cv == nil:
									c.Count("server-percmd:command-absent")
								case av == nil:
									c.Count("server-percmd:authcommand-absent")
								case *cv == *av:
									c.Count("server-percmd:command=authcommand")
								case *cv == strictCmd && *av == laxCmd:
									c.Count("server-percmd:strict-command-lax-authcommand")
								case *cv == int64(commands.DC_AUTHENTICATE) || *cv == int64(commands.DC_SEC_QUERY):
									c.Count("server-percmd:dc-form-with-authcommand")
								default:
									c.Count("server-percmd:command!=authcommand")
								}
								if strings.HasPrefix(cs.Real[0], "ok ") {
									c.Count("server-percmd:success")
								}
							}
						}
					}
				}
			}
		}
	}
	// two real endpoints, two methods that can run (first one failing on the wire, or not): the
	// reported method on BOTH ends against the exchange that completed on the wire
	{
		mat, cleanup, err := hsPrepare(c)
		if err != nil {
			return err
		}
		fsBefore := stallFSDirs()
		k := 0
		for _, sh := range twoMethodShapes(mat) {
			for _, ca := range levels {
				for _, sa := range levels {
					for _, ce := range levels {
						k++
						se := levels[(k+int(c.Seed))%4]
						v := runPairCell(sh, ca, sa, ce, se, 60007)
						cases = append(cases, Case{Label: "pair " + sh.name, Ops: []string{v.op}, Real: []string{v.real}})
						c.Distinct(v.op, true)
						c.Count("pair:" + sh.name)
						if len(v.run.wire.ranAny) > 1 && len(v.run.wire.ranOK) > 0 {
							c.Count("pair:first-method-failed-later-completed")
						}
						reportedIsReal(c, "C03", "C03:pair:", sh, ca, sa, ce, se, v)
					}
				}
			}
		}
		for d := range stallFSDirs() {
			if !fsBefore[d] {
				_ = os.Remove(d)
			}
		}
		cleanup()
	}
	// random peers
	n := c.Pick(400, 8000)
	for i := 0; i < n; i++ {
		if c.Rng.Intn(2) == 0 {
			cfg := clientCfg{auth: pick(c, levels), enc: pick(c, levels), integ: pick(c, []string{"OPTIONAL", "REQUIRED", "NEVER"}), methods: randMethodList(c), ciphers: pick(c, [][]string{{"AES"}, {"AES", "3DES"}, {"3DES"}, nil})}
			sc := srvScript{auth: pick(c, []string{"YES", "NO", "YES", "", "REQUIRED"}), enc: pick(c, []string{"YES", "NO"}),
				methods: randMethodList(c), ciphers: pick(c, [][]string{{"AES"}, {"3DES", "AES"}, {"BLOWFISH"}, nil}), key: pick(c, []string{"good", "good", "absent", "bad"}),
				ok: pick(c, [][]string{{"CLAIMTOBE"}, nil}), hasKey: pick(c, []*int64{ip(0), ip(0), ip(0), nil, ip(7)}), keyRec: c.Rng.Intn(3) == 0}
			for k := c.Rng.Intn(4); k > 0; k-- {
				sc.replies = append(sc.replies, pick(c, []int64{bitClaimToBe, bitPassword, 0, 4, 2048, bitClaimToBe | bitPassword, -5, 1 << 30}))
			}
			// ciphertext fed to a client that holds no key is just garbage (outside the deviation
			// catalogue): the scripted server seals only when the client will have derived the key
			clientKeyed := sc.key == "good" && firstCommonStr(sc.ciphers, cfg.ciphers) == "AES"
			if c.Rng.Intn(8) != 0 {
				sc.post = &postScript{sealed: clientKeyed && c.Rng.Intn(4) != 0, rc: pick(c, []*string{sp("AUTHORIZED"), sp("AUTHORIZED"), nil, sp("DENIED")}), sid: "s" + fmt.Sprint(i), user: pick(c, []string{"u@d", ""}), vc: "60007"}
			}
			if c.Rng.Intn(10) == 0 {
				sc.rc = pick(c, []*string{sp("DENIED"), sp("AUTHORIZED"), sp("")})
			}
			cs := runClientCase(c, cfg, sc)
			cases = append(cases, cs)
			c.Distinct(cs.Ops[0], true)
			c.Count("client-random")
		} else {
			cfg := serverCfg{auth: pick(c, levels), enc: pick(c, levels), integ: pick(c, []string{"OPTIONAL", "REQUIRED", "NEVER"}), methods: pick(c, srvShapes), ciphers: pick(c, [][]string{{"AES"}, {"AES", "3DES"}, {"3DES"}, nil})}
			sc := cliScript{auth: pick(c, append(levels, "YES", "")), enc: pick(c, append(levels, "NO")), methods: randMethodList(c),
				ciphers: pick(c, [][]string{{"AES"}, {"3DES", "AES"}, {"BLOWFISH"}, nil}), key: pick(c, []string{"good", "good", "absent", "bad"}),
				ok: pick(c, [][]string{{"CLAIMTOBE"}, nil}), user: pick(c, []string{"eve", "root"})}
			for k := c.Rng.Intn(4); k > 0; k-- {
				sc.masks = append(sc.masks, pick(c, []int64{bitClaimToBe, bitPassword, 0, bitClaimToBe | bitPassword, -1, 1 << 30}))
			}
			if c.Rng.Intn(3) == 0 {
				// per-command policies, every field drawn independently; the request names any of the
				// commands (or none) in either attribute
				for _, k := range []int64{1, 5} {
					cfg.perCmd = append(cfg.perCmd, pcEntry{k, pick(c, levels), pick(c, levels), pick(c, []string{"OPTIONAL", "REQUIRED", "NEVER"}), pick(c, srvShapes)})
				}
				vals := []*int64{ip(1), ip(5), ip(77), ip(int64(commands.DC_AUTHENTICATE)), ip(int64(commands.DC_SEC_QUERY)), ip(0), nil}
				sc.cmdSet, sc.cmd, sc.acmd = true, pick(c, vals), pick(c, vals)
				c.Count("server-random-percmd")
			}
			cs := runServerCase(c, cfg, sc)
			cases = append(cases, cs)
			c.Distinct(cs.Ops[0], true)
			c.Count("server-random")
		}
	}
	for i, cs := range cases {
		if i%397 == 0 {
			c.Sample(map[string]any{"op": cs.Ops[0], "real": cs.Real[0]})
		}
	}
	norm := func(s string) string {
		if strings.HasPrefix(s, "err ") {
			return "err"
		}
		for _, e := range []string{"err refused", "err eof", "err malformed", "err authFail"} {
			s = strings.ReplaceAll(s, e, "err x")
		}
		return s
	}
	return diffBatch(c, "hs", cases, norm)
}

/* ------------------------------------------------------------ matrix engine (C10): two real endpoints */

type honestObs struct {
	neg *security.SecurityNegotiation
	err error
	st  *stream.Stream
}

// honest-path handshakes are bounded generously: the bound only ends a run that has already failed
const hsHonestTimeout = 8 * time.Second

// scripted peers: the bound only matters when a run has already gone wrong (every scripted peer
// closes its end when its script is over, so no case waits for the bound)
const hsScriptTimeout = 6 * time.Second

type pairRun struct {
	cl, sv  honestObs
	wire    wireAuth // what the cleartext authentication loop on the wire shows
	denied  bool     // the server's last cleartext message is an ad carrying a denial return code
	msgOK   string
	leak    string // non-empty: how application data was exposed on a stream that should be protected
	sealChk string // "-" not keyed; "ok": every protected frame opened under the session key with the documented AAD and under no other key
}

const canaryC2S, canaryS2C = "CANARY-c2s-7f3a91e4", "CANARY-s2c-b26d08c5"

// openProtected re-opens, with the independent codec, everything both ends wrote under the key:
// the post-authentication ad (first protected frame server->client) and the application messages.
// clear[d] = bytes of direction d written before its first protected frame.
func openProtected(tp *wireTap, key []byte, clearLen [2]int, dirs ...int) string {
	if len(dirs) == 0 {
		dirs = []int{0, 1}
	}
	raw := [2][]byte{tp.written(0), tp.written(1)}
	dg := func(d int) [32]byte { return refcodec.Digest(raw[d][:clearLen[d]], clearLen[d] > 0) }
	bad := append([]byte{}, key...)
	bad[len(bad)-1] ^= 1
	for _, d := range dirs {
		dir, err := refcodec.NewDir(key, dg(d), dg(1-d))
		if err != nil {
			return "key unusable: " + err.Error()
		}
		wrong, _ := refcodec.NewDir(bad, dg(d), dg(1-d))
		frames, rest := refcodec.ParseFrames(raw[d][clearLen[d]:])
		if len(rest) != 0 || len(frames) == 0 {
			return fmt.Sprintf("direction %d: no complete protected frame", d)
		}
		for i, f := range frames {
			if i == 0 {
				if _, err := wrong.Open(f); err == nil {
					return fmt.Sprintf("direction %d: first protected frame opens under a different key", d)
				}
			}
			if _, err := dir.Open(f); err != nil {
				return fmt.Sprintf("direction %d frame %d: does not open under the session key with the transcript digests", d, i)
			}
		}
	}
	return "ok"
}

// clearLens: where each direction's cleartext ends at the moment a full handshake has returned.
// The client sends nothing under the key during a full handshake; the server's last handshake
// message (the post-authentication ad) is its first protected one when a key was installed.
func clearLens(tap *wireTap, keyed bool) (cl [2]int) {
	ms := tap.messages()
	cl[0] = len(tap.written(0))
	lastSrv := -1
	for k := range ms {
		if ms[k].dir == 1 {
			lastSrv = k
		}
	}
	for k := range ms {
		if ms[k].dir == 1 && (k != lastSrv || !keyed) {
			for _, f := range ms[k].frames {
				cl[1] += 5 + len(f.Body)
			}
		}
	}
	return
}

// trafficAfterHandshake: the endpoint under test (writing direction dir) sends one application
// message carrying a canary right after its handshake returned success. On the RAW bytes it wrote:
// the canary must not be readable when the stream claims protection or the endpoint's own policy
// makes encryption/integrity REQUIRED, and every protected frame must open under the session key
// with the transcript digests as associated data -- and not under another key.
func trafficAfterHandshake(ctx context.Context, st *stream.Stream, tap *wireTap, dir int, key []byte, required bool, canary string, viol func(key, what, exp, obs string)) {
	keyed := st.IsEncrypted()
	cl := clearLens(tap, keyed)
	before := len(tap.written(dir))
	if err := st.SendMessage(ctx, []byte(canary)); err != nil {
		return // the peer is gone; nothing was sent that could be looked at
	}
	sent := tap.written(dir)[before:]
	if bytes.Contains(sent, []byte(canary)) && (keyed || required) {
		why := "the stream reports IsEncrypted()"
		if !keyed {
			why = "its policy makes encryption/integrity REQUIRED"
		}
		viol("traffic-in-clear", "application data sent right after a successful handshake is readable on the wire although "+why, "canary absent from the raw bytes", "canary present in the bytes written")
		return
	}
	if keyed {
		if len(key) != 32 {
			viol("traffic-not-sealed", "the stream is keyed but the handshake reports no 32-byte session key", "a session key", fmt.Sprintf("%d bytes", len(key)))
			return
		}
		dirs := []int{1}
		if dir == 0 {
			dirs = []int{0, 1}
		}
		if r := openProtected(tap, key, cl, dirs...); r != "ok" {
			viol("traffic-not-sealed", "traffic after the handshake is not AES-GCM protected under the session key as documented", "every frame opens under the session key (and the first one under no other key)", r)
		}
	}
}

func runHonestPairX(cc clientCfg, sc serverCfg, cmd int, clientSees string, bound time.Duration) (r pairRun) {
	ca, cb, tap := tappedPair("10.0.0.1:1111", "10.0.0.2:9618", clientSees)
	if bound == 0 {
		bound = hsHonestTimeout
	}
	ctx, cancel := context.WithTimeout(context.Background(), bound)
	defer cancel()
	cst, sst := stream.NewStream(ca), stream.NewStream(cb)
	sst.SetPeerAddr("10.0.0.1:1111")
	var wg sync.WaitGroup
	wg.Add(1)
	go func() {
		defer wg.Done()
		conf := &security.SecurityConfig{AuthMethods: toMethods(sc.methods), Authentication: security.SecurityLevel(sc.auth),
			CryptoMethods: toCiphers(sc.ciphers), Encryption: security.SecurityLevel(sc.enc), Integrity: security.SecurityLevel(sc.integ)}
		if sc.tweak != nil {
			sc.tweak(conf)
		}
		if sc.policy != nil {
			connConfig := *sc.policy
			conf = &connConfig
		}
		a := security.NewAuthenticator(conf, sst)
		r.sv.neg, r.sv.err = a.ServerHandshake(ctx)
		r.sv.st = sst
		if r.sv.err != nil {
			cb.Close()
		}
	}()
	conf := cc.secConfig(security.NewSessionCache())
	conf.Command = cmd
	a := security.NewAuthenticator(conf, cst)
	r.cl.neg, r.cl.err = a.ClientHandshake(ctx)
	r.cl.st = cst
	if r.cl.err != nil {
		ca.Close()
	}
	wg.Wait()
	ms := tap.messages()
	r.wire = readAuthLoop(ms, append(append([]string{}, cc.methods...), sc.methods...))
	r.denied = r.cl.err != nil && wireDenied(ms)
	r.msgOK, r.sealChk = "-", "-"
	if r.cl.err == nil && r.sv.err == nil {
		// where each direction's cleartext ends: the client sends nothing under the key during a full
		// handshake; the server's last handshake message (the post-authentication ad) is its first
		// protected one
		clearLen := clearLens(tap, cst.IsEncrypted() || sst.IsEncrypted())
		// immediately exchange a message each way
		e1 := cst.SendMessage(ctx, []byte(canaryC2S))
		m1, e2 := sst.ReceiveCompleteMessage(ctx)
		e3 := sst.SendMessage(ctx, []byte(canaryS2C))
		m2, e4 := cst.ReceiveCompleteMessage(ctx)
		if e1 == nil && e2 == nil && e3 == nil && e4 == nil && string(m1) == canaryC2S && string(m2) == canaryS2C {
			r.msgOK = "1"
		} else {
			r.msgOK = "0"
		}
		if cst.IsEncrypted() || sst.IsEncrypted() {
			if bytes.Contains(tap.written(0), []byte(canaryC2S)) {
				r.leak = "client->server application data in clear on the wire"
			} else if bytes.Contains(tap.written(1), []byte(canaryS2C)) {
				r.leak = "server->client application data in clear on the wire"
			}
			if key := r.sv.neg.GetSharedSecret(); len(key) == 32 && r.msgOK == "1" {
				r.sealChk = openProtected(tap, key, clearLen)
			} else {
				r.sealChk = "no 32-byte session key reported"
			}
		}
	}
	ca.Close()
	cb.Close()
	return
}

// hsMaterial: credentials for the shapes in which more than one method can actually run.
type hsMaterial struct {
	*stallMaterial
	badTokenFile string // same header and claims as the good token, signed with a key the server does not hold
}

func hsPrepare(c *Ctx) (*hsMaterial, func(), error) {
	work, err := os.MkdirTemp(fsWorkDir(c), "hs-")
	if err != nil {
		return nil, nil, err
	}
	sm, err := stallPrepare(work)
	if err != nil {
		os.RemoveAll(work)
		return nil, nil, err
	}
	m := &hsMaterial{stallMaterial: sm, badTokenFile: filepath.Join(work, "bad.jwt")}
	good, err := os.ReadFile(sm.tokenFile)
	if err == nil {
		parts := strings.Split(strings.TrimSpace(string(good)), ".")
		if len(parts) == 3 {
			h := sha256.Sum256([]byte("not the pool key" + parts[0] + parts[1]))
			err = os.WriteFile(m.badTokenFile, []byte(parts[0]+"."+parts[1]+"."+base64.RawURLEncoding.EncodeToString(h[:])+"\n"), 0o600)
		} else {
			err = fmt.Errorf("unexpected token shape")
		}
	}
	if err != nil {
		os.RemoveAll(work)
		return nil, nil, err
	}
	return m, func() { os.RemoveAll(work) }, nil
}

func (m *hsMaterial) cliToken(file string) func(*security.SecurityConfig) {
	return func(conf *security.SecurityConfig) {
		conf.TokenFile, conf.TrustDomain, conf.IssuerKeys = file, "example.com", []string{"POOL"}
	}
}

func (m *hsMaterial) srvToken() func(*security.SecurityConfig) {
	return func(conf *security.SecurityConfig) {
		conf.TrustDomain, conf.TokenPoolSigningKeyFile, conf.TokenSigningKeyDir = "example.com", m.poolKeyFile, m.keyDir
	}
}

// pairShape: one method/cipher/credential shape for two real endpoints.
type pairShape struct {
	name     string
	cm, sm   []string
	cc, scs  []string
	ci, si   string   // integrity levels ("" = OPTIONAL)
	ok       []string // methods whose exchange succeeds between these two parties
	bound    time.Duration // 0 = hsHonestTimeout
	nat      bool     // the client reaches the server through an address translator (FS then fails: the path names another endpoint)
	ct, st   func(*security.SecurityConfig)
	policy   *security.SecurityConfig // the server side is a connection of this long-lived policy object (sm/scs/levels describe it)
}

func (sh pairShape) integ() (string, string) {
	ci, si := sh.ci, sh.si
	if ci == "" {
		ci = "OPTIONAL"
	}
	if si == "" {
		si = "OPTIONAL"
	}
	return ci, si
}

func twoMethodShapes(m *hsMaterial) []pairShape {
	aes := []string{"AES"}
	return []pairShape{
		{name: "fs-fails-claim", cm: []string{"FS", "CLAIMTOBE"}, sm: []string{"FS", "CLAIMTOBE"}, cc: aes, scs: aes, ok: []string{"CLAIMTOBE"}, nat: true},
		{name: "token-bad-claim", cm: []string{"TOKEN", "CLAIMTOBE"}, sm: []string{"TOKEN", "CLAIMTOBE"}, cc: aes, scs: aes, ok: []string{"CLAIMTOBE"}, ct: m.cliToken(m.badTokenFile), st: m.srvToken()},
		{name: "token-good-first", cm: []string{"CLAIMTOBE", "TOKEN"}, sm: []string{"TOKEN", "CLAIMTOBE"}, cc: aes, scs: aes, ok: []string{"TOKEN", "CLAIMTOBE"}, ct: m.cliToken(m.tokenFile), st: m.srvToken()},
		{name: "claim-before-token", cm: []string{"TOKEN", "CLAIMTOBE"}, sm: []string{"CLAIMTOBE", "TOKEN"}, cc: aes, scs: aes, ok: []string{"TOKEN", "CLAIMTOBE"}, ct: m.cliToken(m.tokenFile), st: m.srvToken()},
		// the ONLY common method cannot complete between these two parties: no mutually usable method exists
		{name: "fs-fails-only", cm: []string{"FS"}, sm: []string{"FS"}, cc: aes, scs: aes, ok: nil, nat: true},
	}
}

type pairVerdict struct {
	op, real string
	run      pairRun
}

// runPairCell runs one cell (levels x shape) and renders it for the model.
func runPairCell(sh pairShape, ca, sa, ce, se string, cmd int) pairVerdict {
	ci, si := sh.integ()
	cc := clientCfg{auth: ca, enc: ce, integ: ci, methods: sh.cm, ciphers: sh.cc, tweak: sh.ct}
	sc := serverCfg{auth: sa, enc: se, integ: si, methods: sh.sm, ciphers: sh.scs, tweak: sh.st, policy: sh.policy}
	sees := ""
	if sh.nat {
		sees = "192.0.2.77:9618"
	}
	r := runHonestPairX(cc, sc, cmd, sees, sh.bound)
	op := fmt.Sprintf("honest cauth=%s cenc=%s cinteg=%s cmethods=%s cciphers=%s sauth=%s senc=%s sinteg=%s smethods=%s sciphers=%s ok=%s user=u",
		ca, ce, ci, joinOrDash(sh.cm), joinOrDash(sh.cc), sa, se, si, joinOrDash(sh.sm), joinOrDash(sh.scs), joinOrDash(sh.ok))
	ran := "?" // the authentication loop on the wire could not be followed
	if r.wire.parsed {
		shown := append([]string{}, r.wire.ranOK...)
		for i, m := range shown {
			// the wire shows the method bit; where the bit has two spellings use the one the server lists
			for _, own := range sh.sm {
				if own != m && canonMethod(own) == m {
					shown[i] = own
					break
				}
			}
		}
		ran = joinDash(shown)
	}
	side := func(o honestObs) string {
		if o.err != nil {
			return "err x"
		}
		m := "-"
		if o.neg.Authentication {
			m = string(o.neg.NegotiatedAuth)
		}
		return fmt.Sprintf("ok auth=%s enc=%s method=%s keyed=%s ran=%s", b01(o.neg.Authentication), b01(o.neg.Encryption), m, b01(o.st.IsEncrypted()), ran)
	}
	users := "-"
	if r.cl.err == nil && r.sv.err == nil {
		switch {
		case r.cl.neg.User == r.sv.neg.User:
			users = "same"
		case r.sv.neg.User == "" && r.cl.neg.User == "unauthenticated@unmapped":
			users = "anon"
		default:
			users = "differ"
		}
	}
	real := fmt.Sprintf("client[%s] server[%s] denied=%s users=%s", side(r.cl), side(r.sv), b01(r.denied), users)
	return pairVerdict{op: op, real: real, run: r}
}

// reportedIsReal: the C03 clauses on reported outcome, for both real endpoints of a successful
// honest handshake, against what the wire shows.
func reportedIsReal(c *Ctx, prop, keyPrefix string, sh pairShape, ca, sa, ce, se string, v pairVerdict) {
	r := v.run
	if r.cl.err != nil || r.sv.err != nil {
		return
	}
	viol := func(key, what, exp, obs string) {
		c.Violate(Violation{Property: prop, Key: keyPrefix + key, What: what, Ops: []string{v.op}, Expected: exp, Observed: obs})
	}
	if !r.wire.parsed {
		return // rendered as ran=? : a correspondence mismatch, not a verdict on the property
	}
	ci, si := sh.integ()
	for _, e := range []struct {
		role              string
		o                 honestObs
		auth, enc, integ  string
		own               []string
	}{{"client", r.cl, ca, ce, ci, sh.cm}, {"server", r.sv, sa, se, si, sh.sm}} {
		wireAuthd := len(r.wire.ranOK) > 0
		if e.o.neg.Authentication != wireAuthd {
			viol(e.role+":reported-auth", "reported authentication flag differs from what completed on the wire", fmt.Sprint(wireAuthd), fmt.Sprint(e.o.neg.Authentication))
		} else if wireAuthd && canonMethod(string(e.o.neg.NegotiatedAuth)) != r.wire.ranOK[len(r.wire.ranOK)-1] {
			viol(e.role+":reported-method", "the method the endpoint reports is not the one whose exchange completed on the wire (exchanges begun: "+joinDash(r.wire.ranAny)+")",
				r.wire.ranOK[len(r.wire.ranOK)-1], string(e.o.neg.NegotiatedAuth))
		}
		if e.auth == "REQUIRED" && !(wireAuthd && containsCanon(e.own, r.wire.ranOK[len(r.wire.ranOK)-1])) {
			viol(e.role+":required-auth-not-run", "success under authentication REQUIRED although no own-listed method completed on the wire", "an own-listed method completed", joinDash(r.wire.ranOK))
		}
		if e.o.neg.Encryption != e.o.st.IsEncrypted() {
			viol(e.role+":reported-enc", "reported encryption flag differs from the stream's real state", fmt.Sprint(e.o.st.IsEncrypted()), fmt.Sprint(e.o.neg.Encryption))
		}
		if (e.enc == "REQUIRED" || e.integ == "REQUIRED") && !e.o.st.IsEncrypted() {
			viol(e.role+":required-enc-plaintext", "success under encryption/integrity REQUIRED on a plaintext stream", "protected", "plaintext")
		}
	}
	if r.leak != "" {
		viol("traffic-in-clear", "application data sent after a handshake that installed a key is readable on the wire", "canary absent from the raw bytes", r.leak)
	}
	if r.sealChk != "-" && r.sealChk != "ok" {
		viol("traffic-not-sealed", "traffic after the handshake is not AES-GCM protected under the session key as documented", "every frame opens under the session key (and the first one under no other key)", r.sealChk)
	}
}

// c10Judge: the property oracle of C10 for ONE handshake of two real endpoints -- the decision table
// written from the property text -- applied to the cell as if it stood alone (history plays no part in
// the property: the same configurations give the same outcome whatever the endpoints did before).
// history: the ops of the handshakes that preceded this one on the same server policy object (replay).
func c10Judge(c *Ctx, sh pairShape, ca, sa, ce, se string, v pairVerdict, history []string) {
	cl, sv, denied, msgOK, op, real := v.run.cl, v.run.sv, v.run.denied, v.run.msgOK, v.op, v.real
	ops := append(append([]string{}, history...), op)
	// ---- property oracle C10: the decision table written from the property text ----
	common := "" // first method in the server's order that both list and that can actually run
	for _, m := range sh.sm {
		if contains(sh.cm, m) && contains(sh.ok, m) && m != "PASSWORD" && m != "NONE" {
			common = m
			break
		}
	}
	listed := "" // first implemented method both sides LIST (whether or not it can complete between them)
	for _, m := range sh.sm {
		if contains(sh.cm, m) && m != "PASSWORD" && m != "NONE" {
			listed = m
			break
		}
	}
	// the only failure is discovered while the exchanges run: a commonly listed method exists, none completes
	runtimeOnly := listed != "" && common == ""
	cipher := false
	for _, x := range sh.scs {
		if contains(sh.cc, x) {
			cipher = true
		}
	}
	req := func(a, b string) bool { return a == "REQUIRED" || b == "REQUIRED" }
	nev := func(a, b string) bool { return a == "NEVER" || b == "NEVER" }
	pref := func(a, b string) bool { return a == "PREFERRED" || b == "PREFERRED" }
	wantAuth := req(ca, sa) || (!nev(ca, sa) && pref(ca, sa) && common != "")
	encOn := req(ce, se) || (!nev(ce, se) && pref(ce, se) && cipher)
	fail := (req(ca, sa) && nev(ca, sa)) || (req(ce, se) && nev(ce, se)) || (req(ca, sa) && common == "") || (req(ce, se) && !cipher)
	ci, sig := sh.integ()
	// integrity REQUIRED is not a row of the property's table: with no common cipher such a
	// handshake cannot succeed; the table is then silent (compared with the model only)
	integStuck := (ci == "REQUIRED" || sig == "REQUIRED") && !cipher
	viol := func(key, what, exp, obs string) {
		if len(history) > 0 {
			what += fmt.Sprintf(" [handshake %d on one server policy object; the earlier ones are the first ops]", len(history)+1)
		}
		c.Violate(Violation{Property: "C10", Key: "C10:" + key, What: what, Ops: ops, Expected: exp, Observed: obs})
	}
	if fail {
		if cl.err == nil || sv.err == nil {
			viol("should-fail:"+sh.name, "handshake succeeded although one side requires what the other forbids / a required feature has no common method", "failure with explicit denial", real)
		} else if !denied && !(runtimeOnly && !(req(ca, sa) && nev(ca, sa)) && !(req(ce, se) && (nev(ce, se) || !cipher))) {
			// (when every commonly listed method fails while it RUNS, it is the client that gives up --
			// it sends the final 0 and holds the per-method errors -- so it is not left with a bare close)
			viol("bare-close:"+sh.name, "handshake failed without an explicit denial reaching the client (the server's last message on the wire is not an ad carrying a denial return code)", "DENIED response on the wire", "none")
		}
	} else if integStuck {
		if cl.err == nil && sv.err == nil {
			viol("integ-required-off:"+sh.name, "integrity REQUIRED, no common cipher, yet the handshake succeeded", "failure", real)
		}
	} else {
		if (cl.err != nil || sv.err != nil) && runtimeOnly && pref(ca, sa) {
			// nobody requires authentication, somebody prefers it, the commonly listed methods all fail on
			// the wire: no mutually usable method exists, so by the table the handshake goes on unauthenticated
			viol("preferred-auth-fails-late:"+sh.name, "authentication is only PREFERRED, every commonly listed method failed while it ran (no mutually usable method), and the handshake failed instead of continuing unauthenticated", fmt.Sprintf("success (auth=false, enc>=%v)", encOn), fmt.Sprintf("client failed=%v / server failed=%v", cl.err != nil, sv.err != nil))
		} else if cl.err != nil || sv.err != nil {
			viol("should-succeed:"+sh.name, "handshake failed although the policy table says it succeeds", fmt.Sprintf("success (auth=%v, enc>=%v)", wantAuth, encOn), fmt.Sprintf("client failed=%v / server failed=%v", cl.err != nil, sv.err != nil))
		} else {
			if cl.neg.Authentication != sv.neg.Authentication || cl.neg.Encryption != sv.neg.Encryption {
				viol("disagree-flags:"+sh.name, "endpoints report different authentication/encryption outcomes", "equal", real)
			}
			if sv.neg.Authentication && cl.neg.Authentication && cl.neg.NegotiatedAuth != sv.neg.NegotiatedAuth {
				viol("disagree-method:"+sh.name, "endpoints report different authentication methods", string(sv.neg.NegotiatedAuth), string(cl.neg.NegotiatedAuth))
			}
			if sv.neg.Authentication && cl.neg.Authentication && cl.neg.User != sv.neg.User {
				viol("disagree-user:"+sh.name, "endpoints report different authenticated identities", "equal", "different")
			}
			if sv.neg.Authentication != wantAuth {
				viol("auth-table:"+sh.name, "authentication ran/did not run contrary to the policy table", fmt.Sprint(wantAuth), fmt.Sprint(sv.neg.Authentication))
			}
			if v.run.wire.parsed && (len(v.run.wire.ranOK) > 0) != wantAuth {
				viol("auth-table-wire:"+sh.name, "an authentication exchange completed / did not complete on the wire contrary to the policy table", fmt.Sprint(wantAuth), joinDash(v.run.wire.ranOK))
			}
			if (req(ce, se) || ci == "REQUIRED" || sig == "REQUIRED") && !(cl.st.IsEncrypted() && sv.st.IsEncrypted()) {
				viol("enc-required-off:"+sh.name, "encryption/integrity required by one side but the stream is not protected", "encrypted", real)
			}
			if cl.neg.SessionId != sv.neg.SessionId {
				viol("sid:"+sh.name, "session identifiers differ", sv.neg.SessionId, cl.neg.SessionId)
			}
			if !bytes.Equal(cl.neg.GetSharedSecret(), sv.neg.GetSharedSecret()) {
				viol("key:"+sh.name, "endpoints hold different keys", "same", "different")
			}
			if msgOK != "1" {
				viol("no-traffic:"+sh.name, "endpoints could not exchange messages both ways right after the handshake", "messages both ways", "failed")
			}
		}
	}
	// reported outcome = what happened on the wire, on both ends (also a C10 matter: "both
	// endpoints report the same authentication and encryption outcome")
	reportedIsReal(c, "C10", "C10:"+sh.name+":", sh, ca, sa, ce, se, v)
}


// matrixSequences: 2-3 handshakes, one after the other, against ONE server policy object (every
// connection a shallow copy of it, as a serving daemon makes them). The property's table knows no
// history: each handshake is compared with the model and judged by the table as if it were alone.
// Sequences mix a handshake whose FIRST common method fails on the wire (bad token, FS through an
// address translator) with handshakes that need exactly that method, and with plain ones.
func matrixSequences(c *Ctx, mat *hsMaterial) (cases []Case) {
	aes := []string{"AES"}
	type step struct {
		name string
		cm   []string
		ok   []string // methods that can complete between this client and the server
		nat  bool
		ct   func(*security.SecurityConfig)
	}
	steps := map[string]step{
		"badtoken+claim": {"badtoken+claim", []string{"TOKEN", "CLAIMTOBE"}, []string{"CLAIMTOBE"}, false, mat.cliToken(mat.badTokenFile)},
		"token-only":     {"token-only", []string{"TOKEN"}, []string{"TOKEN", "CLAIMTOBE"}, false, mat.cliToken(mat.tokenFile)},
		"token+claim":    {"token+claim", []string{"CLAIMTOBE", "TOKEN"}, []string{"TOKEN", "CLAIMTOBE"}, false, mat.cliToken(mat.tokenFile)},
		"claim-only":     {"claim-only", []string{"CLAIMTOBE"}, []string{"TOKEN", "CLAIMTOBE"}, false, nil},
		"fs-nat+claim":   {"fs-nat+claim", []string{"FS", "CLAIMTOBE"}, []string{"CLAIMTOBE"}, true, nil},
		"fs-only":        {"fs-only", []string{"FS"}, []string{"FS", "CLAIMTOBE", "TOKEN"}, false, nil},
		"fs+claim":       {"fs+claim", []string{"FS", "CLAIMTOBE"}, []string{"FS", "CLAIMTOBE", "TOKEN"}, false, nil},
	}
	type family struct {
		sm   []string
		seqs [][]string
	}
	fams := []family{
		{[]string{"TOKEN", "CLAIMTOBE"}, [][]string{{"badtoken+claim", "token-only"}, {"badtoken+claim", "token+claim", "claim-only"}, {"token-only", "badtoken+claim", "token-only"}, {"badtoken+claim", "badtoken+claim", "token+claim"}}},
		{[]string{"CLAIMTOBE", "TOKEN"}, [][]string{{"badtoken+claim", "token-only"}, {"claim-only", "token-only", "badtoken+claim"}}},
		{[]string{"FS", "CLAIMTOBE"}, [][]string{{"fs-nat+claim", "fs-only"}, {"fs-nat+claim", "fs+claim", "claim-only"}, {"fs-only", "fs-nat+claim", "fs-only"}}},
		{[]string{"FS", "TOKEN", "CLAIMTOBE"}, [][]string{{"fs-nat+claim", "badtoken+claim", "token-only"}, {"badtoken+claim", "fs-nat+claim", "fs-only"}}},
	}
	k := int(c.Seed)
	for _, fam := range fams {
		for _, sa := range levels {
			for _, seq := range fam.seqs {
				k++
				se := levels[k%4]
				if !c.Thorough() && sa == "NEVER" && k%2 == 0 {
					continue
				}
				// the policy object lives as long as the sequence
				policy := &security.SecurityConfig{AuthMethods: toMethods(fam.sm), Authentication: security.SecurityLevel(sa),
					CryptoMethods: toCiphers(aes), Encryption: security.SecurityLevel(se), Integrity: security.SecurityOptional}
				mat.srvToken()(policy)
				var history []string
				for i, sn := range seq {
					st := steps[sn]
					ca := []string{"REQUIRED", "PREFERRED", "OPTIONAL", "REQUIRED"}[(k+i)%4]
					ce := levels[(k+2*i)%4]
					sh := pairShape{name: "seq:" + st.name, cm: st.cm, sm: fam.sm, cc: aes, scs: aes, ok: st.ok, nat: st.nat, ct: st.ct, st: mat.srvToken(), policy: policy}
					v := runPairCell(sh, ca, sa, ce, se, []int{60007, 0, security.NoCommand}[(k+i)%3])
					cases = append(cases, Case{Label: fmt.Sprintf("sequence step %d/%d %s", i+1, len(seq), st.name), Ops: []string{v.op}, Real: []string{v.real}})
					c.Distinct(strings.Join(append(append([]string{}, history...), v.op), " ; "), true)
					c.Count("sequence-step:" + st.name)
					if i > 0 {
						c.Count("sequence:handshake-after-others-on-one-policy-object")
					}
					if len(v.run.wire.ranAny) > 1 {
						c.Count("sequence:first-method-failed-on-the-wire")
					}
					c10Judge(c, sh, ca, sa, ce, se, v, history)
					history = append(history, v.op)
				}
				c.Count("sequences")
			}
		}
	}
	return
}

func runMatrix(c *Ctx) error {
	c.Res.Rule = "two real cedar endpoints over an in-memory duplex pipe with a wire tap: the full 4^4 matrix of (client auth, server auth, client enc, server enc) levels x method-list shapes (equal, disjoint, overlapping in both orders, empty on either side, containing the unimplemented PASSWORD, PASSWORD only, both SCITOKENS and IDTOKENS, and four shapes where TWO methods can run: the first common one failing on the wire (FS through an address translator, TOKEN with a token signed by another key) or succeeding) x cipher lists (common / none / the same two ciphers in opposite orders on the two sides: the server's order decides) x integrity levels (OPTIONAL; REQUIRED on either side with and without a common cipher; NEVER), the client's command rotating over a real command, command 0 and none (auth-only); plus SEQUENCES of 2-3 handshakes against ONE long-lived server policy object (each connection a shallow copy of it), mixing a handshake whose first common method fails on the wire with handshakes that need exactly that method, each compared and judged as if it were alone; after success a canary message is exchanged each way; which method completed is read from the wire; outcome compared with the Lean model honestRun and with the property's decision table; exhaustive over the matrix for each shape; non-trivial = always (each cell distinct)"
	defer quietStdout()()
	mat, cleanup, err := hsPrepare(c)
	if err != nil {
		return err
	}
	defer cleanup()
	fsBefore := stallFSDirs()
	defer func() {
		for d := range stallFSDirs() {
			if !fsBefore[d] {
				_ = os.Remove(d)
			}
		}
	}()
	var cases []Case
	aes := []string{"AES"}
	cb := []string{"CLAIMTOBE"}
	shapes := []pairShape{
		{name: "same", cm: cb, sm: cb, cc: aes, scs: aes, ok: cb},
		{name: "pw-only", cm: []string{"PASSWORD"}, sm: []string{"PASSWORD"}, cc: aes, scs: aes, ok: cb},
		{name: "disjoint", cm: cb, sm: []string{"PASSWORD"}, cc: aes, scs: aes, ok: cb},
		{name: "pw-first", cm: []string{"CLAIMTOBE", "PASSWORD"}, sm: []string{"PASSWORD", "CLAIMTOBE"}, cc: aes, scs: aes, ok: cb},
		{name: "no-cipher", cm: cb, sm: cb, cc: aes, scs: []string{"3DES"}, ok: cb},
		// both sides list the same two ciphers in opposite orders: the SERVER's order decides (AES here)
		{name: "cipher-order", cm: cb, sm: cb, cc: []string{"3DES", "AES"}, scs: []string{"AES", "3DES"}, ok: cb},
	}
	two := twoMethodShapes(mat)
	extra := []pairShape{
		{name: "empty-server", cm: cb, sm: nil, cc: aes, scs: aes, ok: cb},
		{name: "integ-req-client", cm: cb, sm: cb, cc: aes, scs: aes, ci: "REQUIRED", ok: cb},
		{name: "integ-req-server-no-cipher", cm: cb, sm: cb, cc: aes, scs: []string{"3DES"}, si: "REQUIRED", ok: cb},
		{name: "integ-never", cm: cb, sm: cb, cc: aes, scs: aes, ci: "NEVER", si: "NEVER", ok: cb},
		{name: "sci-and-id", bound: 3 * time.Second, cm: []string{"SCITOKENS", "IDTOKENS"}, sm: []string{"IDTOKENS", "SCITOKENS"}, cc: aes, scs: aes, ok: []string{"IDTOKENS"}, ct: mat.cliToken(mat.tokenFile), st: mat.srvToken()},
	}
	if c.Thorough() {
		shapes = append(shapes, two...)
		shapes = append(shapes, extra...)
		shapes = append(shapes,
			pairShape{name: "empty-client", cm: nil, sm: cb, cc: aes, scs: aes, ok: cb},
			pairShape{name: "none-listed", cm: []string{"NONE", "CLAIMTOBE"}, sm: []string{"NONE"}, cc: aes, scs: aes, ok: cb},
			pairShape{name: "order2", cm: []string{"PASSWORD", "CLAIMTOBE"}, sm: []string{"CLAIMTOBE", "PASSWORD"}, cc: []string{"3DES", "AES"}, scs: aes, ok: cb},
			pairShape{name: "integ-req-server", cm: cb, sm: cb, cc: aes, scs: aes, si: "REQUIRED", ok: cb},
			pairShape{name: "integ-req-client-no-cipher", cm: cb, sm: cb, cc: aes, scs: []string{"3DES"}, ci: "REQUIRED", ok: cb},
		)
	}
	// quick tier: the added shapes run on a quarter of the matrix each (a different quarter per
	// shape and seed), the five base shapes on all of it
	sparse := map[string]bool{}
	if !c.Thorough() {
		for _, sh := range append(append([]pairShape{}, two...), extra...) {
			shapes = append(shapes, sh)
			sparse[sh.name] = true
		}
	}
	cellNo := 0
	for si, sh := range shapes {
		for _, ca := range levels {
			for _, sa := range levels {
				for _, ce := range levels {
					for _, se := range levels {
						cellNo++
						if sparse[sh.name] && (cellNo+si+int(c.Seed))%4 != 0 {
							continue
						}
						// the command dimension of the quantifier: a real command, command 0, and an
						// auth-only handshake that carries none
						cmd := []int{60007, 0, security.NoCommand}[cellNo%3]
						v := runPairCell(sh, ca, sa, ce, se, cmd)
						c.Count(fmt.Sprintf("command:%d", cmd))
						cases = append(cases, Case{Label: "honest " + sh.name, Ops: []string{v.op}, Real: []string{v.real}})
						c.Distinct(v.op, true)
						c.Count("shape:" + sh.name)
						if len(v.run.wire.ranAny) > 1 {
							c.Count("first-method-failed-on-the-wire")
						}
						c10Judge(c, sh, ca, sa, ce, se, v, nil)
					}
				}
			}
		}
	}
	cases = append(cases, matrixSequences(c, mat)...)
	for i, cs := range cases {
		if i%211 == 0 {
			c.Sample(map[string]any{"op": cs.Ops[0], "real": cs.Real[0]})
		}
	}
	norm := func(s string) string {
		// errors compared as ok/err only
		s = strings.ReplaceAll(s, "err refused", "err x")
		s = strings.ReplaceAll(s, "err eof", "err x")
		s = strings.ReplaceAll(s, "err malformed", "err x")
		s = strings.ReplaceAll(s, "err authFail", "err x")
		// a client that gives up WITHOUT a denial (at its own key set-up) closes the connection while the
		// server may or may not still be writing its last message: the server's result is then a matter
		// of scheduling, not of the protocol (the property oracle reads the server's result directly)
		if strings.HasPrefix(s, "client[err x] server[") && strings.Contains(s, "] denied=0") {
			s = "client[err x] server[?] denied=0" + s[strings.Index(s, "] denied=0")+len("] denied=0"):]
		}
		return s
	}
	return diffBatch(c, "hs", cases, norm)
}

func firstCommonStr(srv, cli []string) string {
	for _, x := range srv {
		if contains(cli, x) {
			return x
		}
	}
	return ""
}
