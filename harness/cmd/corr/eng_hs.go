package main

import (
	"bytes"
	"context"
	"crypto/ecdh"
	"crypto/rand"
	"crypto/sha256"
	"encoding/base64"
	"fmt"
	"io"
	"sort"
	"strings"
	"sync"
	"time"

	"cedarverif/harness/internal/bufpipe"

	"github.com/PelicanPlatform/classad/classad"
	"github.com/bbockelm/cedar/commands"
	"github.com/bbockelm/cedar/message"
	"github.com/bbockelm/cedar/security"
	"github.com/bbockelm/cedar/stream"
	"golang.org/x/crypto/hkdf"
)

func init() {
	register(Engine{"hsadv", runHsAdv})
	register(Engine{"matrix", runMatrix})
}

var levels = []string{"REQUIRED", "PREFERRED", "OPTIONAL", "NEVER"}

func strOrTilde(s string) string {
	if s == "" {
		return "~"
	}
	return s
}

func joinOrDash(l []string) string {
	if len(l) == 0 {
		return "-"
	}
	o := make([]string, len(l))
	for i, s := range l {
		o[i] = strOrTilde(s)
	}
	return strings.Join(o, ",")
}

func intsOrDash(l []int64) string {
	if len(l) == 0 {
		return "-"
	}
	o := make([]string, len(l))
	for i, v := range l {
		o[i] = fmt.Sprint(v)
	}
	return strings.Join(o, ",")
}

func toMethods(l []string) []security.AuthMethod {
	var o []security.AuthMethod
	for _, s := range l {
		o = append(o, security.AuthMethod(s))
	}
	return o
}

func toCiphers(l []string) []security.CryptoMethod {
	var o []security.CryptoMethod
	for _, s := range l {
		o = append(o, security.CryptoMethod(s))
	}
	return o
}

// deriveKey mirrors the documented key schedule: HKDF-SHA256(secret, salt "htcondor", info "keygen"), 32 bytes.
func deriveKey(priv *ecdh.PrivateKey, peerB64 string) ([]byte, error) {
	raw, err := base64.StdEncoding.DecodeString(peerB64)
	if err != nil {
		return nil, err
	}
	pub, err := ecdh.P256().NewPublicKey(raw)
	if err != nil {
		return nil, err
	}
	sec, err := priv.ECDH(pub)
	if err != nil {
		return nil, err
	}
	k := make([]byte, 32)
	if _, err := io.ReadFull(hkdf.New(sha256.New, sec, []byte("htcondor"), []byte("keygen")), k); err != nil {
		return nil, err
	}
	return k, nil
}

func keyAttr(kind string) (string, *ecdh.PrivateKey) {
	switch kind {
	case "good":
		p, _ := ecdh.P256().GenerateKey(rand.Reader)
		return base64.StdEncoding.EncodeToString(p.PublicKey().Bytes()), p
	case "bad":
		return "AAAA", nil
	}
	return "", nil
}

const bitClaimToBe, bitPassword = 2, 512

/* ------------------------------------------------------------ scripted server (client under test) */

type postScript struct {
	sealed         bool
	rc             *string
	sid, user, vc  string
}

type srvScript struct {
	rc        *string
	auth, enc string
	methods   []string
	ciphers   []string
	key       string
	replies   []int64
	ok        []string
	hasKey    *int64
	post      *postScript
}

type peerLog struct {
	mu       sync.Mutex
	ranOK    []string // exchanges this scripted peer completed successfully with the endpoint under test
	ranAny   []string
	key      []byte
	postSeen string
}

func contains(l []string, s string) bool {
	for _, x := range l {
		if x == s {
			return true
		}
	}
	return false
}

func runScriptedServer(ctx context.Context, conn *bufpipe.Conn, sc srvScript, lg *peerLog) {
	defer conn.Close()
	st := stream.NewStream(conn)
	in := message.NewMessageFromStream(st)
	if _, err := in.GetInt(ctx); err != nil {
		return
	}
	clientAd, err := in.GetClassAd(ctx)
	if err != nil {
		return
	}
	clientKey, _ := clientAd.EvaluateAttrString("ECDHPublicKey")
	ad := classad.New()
	if sc.rc != nil {
		_ = ad.Set("ReturnCode", *sc.rc)
	}
	first := func(l []string) string {
		if len(l) == 0 {
			return ""
		}
		return l[0]
	}
	_ = ad.Set("AuthMethods", first(sc.methods))
	_ = ad.Set("AuthMethodsList", strings.Join(sc.methods, ","))
	_ = ad.Set("CryptoMethods", first(sc.ciphers))
	_ = ad.Set("CryptoMethodsList", strings.Join(sc.ciphers, ","))
	_ = ad.Set("Authentication", sc.auth)
	_ = ad.Set("Encryption", sc.enc)
	_ = ad.Set("Integrity", "NO")
	_ = ad.Set("RemoteVersion", security.DefaultRemoteVersion)
	_ = ad.Set("NegotiatedSession", true)
	_ = ad.Set("Enact", "NO")
	pub, priv := keyAttr(sc.key)
	if pub != "" {
		_ = ad.Set("ECDHPublicKey", pub)
	}
	out := message.NewMessageForStream(st)
	if out.PutClassAd(ctx, ad) != nil || out.FinishMessage(ctx) != nil {
		return
	}
	authed := false
	if sc.auth == "YES" {
		for _, r := range sc.replies {
			m := message.NewMessageFromStream(st)
			if _, err := m.GetInt(ctx); err != nil {
				return
			}
			o := message.NewMessageForStream(st)
			if o.PutInt64(ctx, r) != nil || o.FinishMessage(ctx) != nil {
				return
			}
			if r > 0 && r&bitClaimToBe != 0 {
				// CLAIMTOBE, server side: [status, user] -> [ack]. A deviating server that answers
				// with several bits is ready to play CLAIMTOBE if the client (wrongly) starts it.
				cm := message.NewMessageFromStream(st)
				status, err := cm.GetInt(ctx)
				if err != nil {
					return
				}
				if status == 1 {
					if _, err := cm.GetString(ctx); err != nil {
						return
					}
				}
				ok := contains(sc.ok, "CLAIMTOBE") && status == 1
				ack := message.NewMessageForStream(st)
				v := 0
				if ok {
					v = 1
				}
				if ack.PutInt(ctx, v) != nil || ack.FinishMessage(ctx) != nil {
					return
				}
				lg.mu.Lock()
				lg.ranAny = append(lg.ranAny, "CLAIMTOBE")
				if ok {
					lg.ranOK = append(lg.ranOK, "CLAIMTOBE")
				}
				lg.mu.Unlock()
				if ok {
					authed = true
					break
				}
			}
		}
		if !authed {
			// nothing succeeded: wait for the client to give up (it closes)
			m := message.NewMessageFromStream(st)
			_, _ = m.GetInt(ctx)
			return
		}
		if sc.hasKey == nil {
			return
		}
		hk := message.NewMessageForStream(st)
		if hk.PutInt64(ctx, *sc.hasKey) != nil || hk.FinishMessage(ctx) != nil {
			return
		}
		if *sc.hasKey != 0 {
			return
		}
	}
	if sc.post == nil {
		return
	}
	if sc.post.sealed {
		if priv == nil || clientKey == "" {
			return
		}
		k, err := deriveKey(priv, clientKey)
		if err != nil {
			return
		}
		if st.SetSymmetricKey(k) != nil {
			return
		}
		lg.mu.Lock()
		lg.key = k
		lg.mu.Unlock()
	}
	pa := classad.New()
	if sc.post.rc != nil {
		_ = pa.Set("ReturnCode", *sc.post.rc)
	}
	_ = pa.Set("Sid", sc.post.sid)
	_ = pa.Set("User", sc.post.user)
	_ = pa.Set("ValidCommands", sc.post.vc)
	_ = pa.Set("SessionDuration", 60)
	_ = pa.Set("SessionLease", 30)
	po := message.NewMessageForStream(st)
	if po.PutClassAd(ctx, pa) != nil || po.FinishMessage(ctx) != nil {
		return
	}
	// stay until the client is done
	m := message.NewMessageFromStream(st)
	_, _ = m.GetInt(ctx)
}

type clientCfg struct {
	auth, enc, integ string
	methods, ciphers []string
}

func (c clientCfg) secConfig(cache *security.SessionCache) *security.SecurityConfig {
	return &security.SecurityConfig{
		AuthMethods: toMethods(c.methods), Authentication: security.SecurityLevel(c.auth),
		CryptoMethods: toCiphers(c.ciphers), Encryption: security.SecurityLevel(c.enc), Integrity: security.SecurityLevel(c.integ),
		Command: 60007, SessionCache: cache, PeerName: "",
	}
}

func outcomeLine(neg *security.SecurityNegotiation, st *stream.Stream, ranOK []string) string {
	method := "-"
	if neg.Authentication {
		method = string(neg.NegotiatedAuth)
	}
	ran := "-"
	if len(ranOK) > 0 {
		ran = strings.Join(ranOK, ",")
	}
	return fmt.Sprintf("ok auth=%s enc=%s method=%s keyed=%s ran=%s", b01(neg.Authentication), b01(neg.Encryption), method, b01(st.IsEncrypted()), ran)
}

// runClientCase: real ClientHandshake against a scripted server.
func runClientCase(c *Ctx, cfg clientCfg, sc srvScript) Case {
	ca, cb := bufpipe.Pair("10.0.0.1:1111", "10.0.0.2:9618")
	ctx, cancel := context.WithTimeout(context.Background(), 400*time.Millisecond)
	defer cancel()
	lg := &peerLog{}
	done := make(chan struct{})
	go func() { defer close(done); runScriptedServer(ctx, cb, sc, lg) }()
	st := stream.NewStream(ca)
	a := security.NewAuthenticator(cfg.secConfig(security.NewSessionCache()), st)
	neg, err := a.ClientHandshake(ctx)
	lg.mu.Lock()
	ranOK := append([]string{}, lg.ranOK...)
	ranAny := append([]string{}, lg.ranAny...)
	skey := lg.key
	lg.mu.Unlock()
	var real string
	rcs, hks, post := "none", "none", "none"
	if sc.rc != nil {
		rcs = strOrTilde(*sc.rc)
	}
	if sc.hasKey != nil {
		hks = fmt.Sprint(*sc.hasKey)
	}
	if sc.post != nil {
		prc := "none"
		if sc.post.rc != nil {
			prc = strOrTilde(*sc.post.rc)
		}
		post = fmt.Sprintf("%s:%s:%s:%s:%s", b01(sc.post.sealed), prc, strOrTilde(sc.post.sid), strOrTilde(sc.post.user), strOrTilde(sc.post.vc))
	}
	op := fmt.Sprintf("client auth=%s enc=%s integ=%s methods=%s ciphers=%s key=1 tok=0 rc=%s sauth=%s senc=%s smethods=%s sciphers=%s skey=%s replies=%s ok=%s haskey=%s post=%s",
		strOrTilde(cfg.auth), strOrTilde(cfg.enc), strOrTilde(cfg.integ), joinOrDash(cfg.methods), joinOrDash(cfg.ciphers),
		rcs, strOrTilde(sc.auth), strOrTilde(sc.enc), joinOrDash(sc.methods), joinOrDash(sc.ciphers), sc.key,
		intsOrDash(sc.replies), joinOrDash(sc.ok), hks, post)
	if err != nil {
		real = "err " + hsErrClass(err)
	} else {
		real = outcomeLine(neg, st, ranOK)
		// ---- property oracle C03 (client role) ----
		viol := func(key, what, exp, obs string) {
			c.Violate(Violation{Property: "C03", Key: "C03:client:" + key, What: what, Ops: []string{op}, Expected: exp, Observed: obs})
		}
		own := func(m string) bool { return contains(cfg.methods, m) }
		if cfg.auth == "REQUIRED" {
			okOwn := false
			for _, m := range ranOK {
				if own(m) {
					okOwn = true
				}
			}
			if !okOwn {
				viol("required-auth-not-run", "handshake succeeded for a client whose policy REQUIRES authentication although no method it listed completed on the wire",
					"an own-listed method ran successfully", fmt.Sprintf("exchanges completed: %v; reported auth=%v method=%s", ranOK, neg.Authentication, neg.NegotiatedAuth))
			}
		}
		if (cfg.enc == "REQUIRED" || cfg.integ == "REQUIRED") && !st.IsEncrypted() {
			viol("required-enc-plaintext", "handshake succeeded for a client whose policy REQUIRES encryption/integrity on a plaintext stream",
				"stream AES-GCM protected", "stream.IsEncrypted()=false")
		}
		if neg.Encryption != st.IsEncrypted() {
			viol("reported-enc", "reported encryption flag differs from the stream's real state", fmt.Sprint(st.IsEncrypted()), fmt.Sprint(neg.Encryption))
		}
		if neg.Authentication != (len(ranOK) > 0) {
			viol("reported-auth", "reported authentication flag differs from what ran on the wire", fmt.Sprint(len(ranOK) > 0), fmt.Sprint(neg.Authentication))
		} else if neg.Authentication && string(neg.NegotiatedAuth) != ranOK[len(ranOK)-1] {
			viol("reported-method", "reported method is not the one that ran", ranOK[len(ranOK)-1], string(neg.NegotiatedAuth))
		}
		for _, m := range ranAny {
			if !own(m) {
				viol("unoffered-method-run", "the client ran an authentication method it never listed", fmt.Sprint(cfg.methods), m)
			}
		}
		if st.IsEncrypted() && skey != nil && !bytes.Equal(neg.GetSharedSecret(), skey) {
			viol("key-mismatch", "client and server derived different keys", "same key", "different")
		}
	}
	ca.Close()
	<-done
	return Case{Label: "client", Ops: []string{op}, Real: []string{real}}
}

func hsErrClass(err error) string { return "x" } // handshake errors are compared as ok/err only

/* ------------------------------------------------------------ scripted client (server under test) */

type cliScript struct {
	auth, enc string
	methods   []string
	ciphers   []string
	key       string
	masks     []int64
	ok        []string
	user      string
}

type serverCfg struct {
	auth, enc, integ string
	methods, ciphers []string
}

type cliObs struct {
	settled          chan struct{} // closed when the scripted client has processed everything the server sent
	denied           bool
	advAuth, advEnc  string
	ranOK            []string
	postReadable     bool
	key              []byte
}

func runScriptedClient(ctx context.Context, conn *bufpipe.Conn, sc cliScript, ob *cliObs, mu *sync.Mutex) {
	defer conn.Close()
	var once sync.Once
	settle := func() { once.Do(func() { close(ob.settled) }) }
	defer settle()
	st := stream.NewStream(conn)
	ad := classad.New()
	_ = ad.Set("AuthMethods", strings.Join(sc.methods, ","))
	_ = ad.Set("CryptoMethods", strings.Join(sc.ciphers, ","))
	_ = ad.Set("Authentication", sc.auth)
	_ = ad.Set("Encryption", sc.enc)
	_ = ad.Set("Integrity", "OPTIONAL")
	_ = ad.Set("Command", 60007)
	_ = ad.Set("RemoteVersion", security.DefaultRemoteVersion)
	_ = ad.Set("NegotiatedSession", true)
	_ = ad.Set("NewSession", "YES")
	_ = ad.Set("OutgoingNegotiation", "PREFERRED")
	_ = ad.Set("Enact", "NO")
	pub, priv := keyAttr(sc.key)
	if pub != "" {
		_ = ad.Set("ECDHPublicKey", pub)
	}
	out := message.NewMessageForStream(st)
	if out.PutInt(ctx, commands.DC_AUTHENTICATE) != nil || out.PutClassAd(ctx, ad) != nil || out.FinishMessage(ctx) != nil {
		return
	}
	in := message.NewMessageFromStream(st)
	sad, err := in.GetClassAd(ctx)
	if err != nil {
		return
	}
	mu.Lock()
	ob.advAuth, _ = sad.EvaluateAttrString("Authentication")
	ob.advEnc, _ = sad.EvaluateAttrString("Encryption")
	if rc, ok := sad.EvaluateAttrString("ReturnCode"); ok && rc != "" && rc != "AUTHORIZED" {
		ob.denied = true
	}
	mu.Unlock()
	if ob.denied {
		return
	}
	if ob.advAuth == "YES" {
		authed := false
		gaveUp := false
		for _, mk := range sc.masks {
			o := message.NewMessageForStream(st)
			if o.PutInt64(ctx, mk) != nil || o.FinishMessage(ctx) != nil {
				return
			}
			if mk == 0 {
				// gave up -- but stay connected and keep following the protocol, in case the
				// server carries on regardless
				gaveUp = true
				break
			}
			rm := message.NewMessageFromStream(st)
			r, err := rm.GetInt(ctx)
			if err != nil {
				return
			}
			if r == bitClaimToBe {
				good := contains(sc.ok, "CLAIMTOBE")
				cm := message.NewMessageForStream(st)
				if good {
					_ = cm.PutInt(ctx, 1)
					_ = cm.PutString(ctx, sc.user)
				} else {
					_ = cm.PutInt(ctx, 0)
				}
				if cm.FinishMessage(ctx) != nil {
					return
				}
				if !good {
					continue
				}
				am := message.NewMessageFromStream(st)
				ack, err := am.GetInt(ctx)
				if err != nil {
					return
				}
				if ack == 1 {
					mu.Lock()
					ob.ranOK = append(ob.ranOK, "CLAIMTOBE")
					mu.Unlock()
					authed = true
					break
				}
			}
		}
		if !authed && !gaveUp {
			return
		}
		if authed {
			km := message.NewMessageFromStream(st)
			if _, err := km.GetInt(ctx); err != nil {
				return
			}
		}
	}
	serverKey, _ := sad.EvaluateAttrString("ECDHPublicKey")
	negCrypto, _ := sad.EvaluateAttrString("CryptoMethods")
	if priv != nil && serverKey != "" && negCrypto == "AES" {
		if k, err := deriveKey(priv, serverKey); err == nil {
			if st.SetSymmetricKey(k) == nil {
				mu.Lock()
				ob.key = k
				mu.Unlock()
			}
		}
	}
	pm := message.NewMessageFromStream(st)
	if _, err := pm.GetClassAd(ctx); err == nil {
		mu.Lock()
		ob.postReadable = true
		mu.Unlock()
	}
	settle()
	// keep the connection until the server side has returned
	w := message.NewMessageFromStream(st)
	_, _ = w.GetInt(ctx)
}

func runServerCase(c *Ctx, cfg serverCfg, sc cliScript) Case {
	ca, cb := bufpipe.Pair("10.0.0.1:1111", "10.0.0.2:9618")
	ctx, cancel := context.WithTimeout(context.Background(), 400*time.Millisecond)
	defer cancel()
	ob := &cliObs{settled: make(chan struct{})}
	var mu sync.Mutex
	done := make(chan struct{})
	go func() { defer close(done); runScriptedClient(ctx, ca, sc, ob, &mu) }()
	st := stream.NewStream(cb)
	st.SetPeerAddr("10.0.0.1:1111")
	conf := &security.SecurityConfig{
		AuthMethods: toMethods(cfg.methods), Authentication: security.SecurityLevel(cfg.auth),
		CryptoMethods: toCiphers(cfg.ciphers), Encryption: security.SecurityLevel(cfg.enc), Integrity: security.SecurityLevel(cfg.integ),
	}
	a := security.NewAuthenticator(conf, st)
	neg, err := a.ServerHandshake(ctx)
	op := fmt.Sprintf("server auth=%s enc=%s integ=%s methods=%s ciphers=%s key=1 cauth=%s cenc=%s cmethods=%s cciphers=%s ckey=%s masks=%s ok=%s user=%s",
		strOrTilde(cfg.auth), strOrTilde(cfg.enc), strOrTilde(cfg.integ), joinOrDash(cfg.methods), joinOrDash(cfg.ciphers),
		strOrTilde(sc.auth), strOrTilde(sc.enc), joinOrDash(sc.methods), joinOrDash(sc.ciphers), sc.key, intsOrDash(sc.masks), joinOrDash(sc.ok), strOrTilde(sc.user))
	var real string
	if err != nil {
		cb.Close()
		<-done
		mu.Lock()
		if ob.denied {
			yn := func(s string) string {
				if s == "YES" {
					return "1"
				}
				return "0"
			}
			real = fmt.Sprintf("denied auth=%s enc=%s", yn(ob.advAuth), yn(ob.advEnc))
		} else {
			real = "err x"
		}
		mu.Unlock()
	} else {
		select {
		case <-ob.settled:
		case <-time.After(300 * time.Millisecond):
		}
		mu.Lock()
		ranOK := append([]string{}, ob.ranOK...)
		ckey := ob.key
		mu.Unlock()
		real = outcomeLine(neg, st, ranOK) + " user=" + strOrTilde(neg.User)
		viol := func(key, what, exp, obs string) {
			c.Violate(Violation{Property: "C03", Key: "C03:server:" + key, What: what, Ops: []string{op}, Expected: exp, Observed: obs})
		}
		if cfg.auth == "REQUIRED" && len(ranOK) == 0 {
			viol("required-auth-not-run", "server with authentication REQUIRED returned success although no authentication exchange completed", "a method ran", "none")
		}
		if (cfg.enc == "REQUIRED" || cfg.integ == "REQUIRED") && !st.IsEncrypted() {
			viol("required-enc-plaintext", "server with encryption/integrity REQUIRED returned success on a plaintext stream", "stream AES-GCM protected", "stream.IsEncrypted()=false")
		}
		if neg.Encryption != st.IsEncrypted() {
			viol("reported-enc", "reported encryption flag differs from the stream's real state", fmt.Sprint(st.IsEncrypted()), fmt.Sprint(neg.Encryption))
		}
		if neg.Authentication != (len(ranOK) > 0) {
			viol("reported-auth", "reported authentication flag differs from what ran on the wire", fmt.Sprint(len(ranOK) > 0), fmt.Sprint(neg.Authentication))
		} else if neg.Authentication {
			if string(neg.NegotiatedAuth) != ranOK[len(ranOK)-1] {
				viol("reported-method", "reported method is not the one that ran", ranOK[len(ranOK)-1], string(neg.NegotiatedAuth))
			}
			if !contains(cfg.methods, string(neg.NegotiatedAuth)) {
				viol("unoffered-method-run", "server ran a method it does not list", fmt.Sprint(cfg.methods), string(neg.NegotiatedAuth))
			}
		}
		if st.IsEncrypted() && ckey != nil && !bytes.Equal(neg.GetSharedSecret(), ckey) {
			viol("key-mismatch", "client and server derived different keys", "same key", "different")
		}
		cb.Close()
		<-done
	}
	return Case{Label: "server", Ops: []string{op}, Real: []string{real}}
}

/* ------------------------------------------------------------ hsadv engine (C03) */

func pick[T any](c *Ctx, l []T) T { return l[c.Rng.Intn(len(l))] }

func randMethodList(c *Ctx) []string {
	pool := []string{"CLAIMTOBE", "PASSWORD", "NONE", "BOGUS", "TOKEN"}
	n := 1 + c.Rng.Intn(3)
	perm := c.Rng.Perm(len(pool))
	var out []string
	for _, i := range perm[:n] {
		out = append(out, pool[i])
	}
	return out
}

func sp(s string) *string { return &s }
func ip(v int64) *int64   { return &v }

func runHsAdv(c *Ctx) error {
	c.Res.Rule = "both roles; every 4x4 local (authentication, encryption) policy plus integrity; method lists over {CLAIMTOBE, PASSWORD, NONE, BOGUS, TOKEN}; peers = the property's deviation catalogue (honest; Authentication/Encryption NO; ECDH key absent/undecodable; no common cipher; un-offered / multi-bit (also with an un-offered lowest bit) / zero / negative method bit; DENIED; clear post-auth ad on a keyed stream; sealed post-auth without agreement; missing or non-zero key message) crossed with each policy, plus random peers drawing every field independently; the scripted peer speaks raw CEDAR frames and records which exchanges completed; distinct by (config, script); non-trivial = peer deviates from honest in ≥1 field"
	var cases []Case
	honestSrv := func(cfg clientCfg) srvScript {
		return srvScript{auth: "YES", enc: "YES", methods: []string{"CLAIMTOBE"}, ciphers: []string{"AES"}, key: "good",
			replies: []int64{bitClaimToBe}, ok: []string{"CLAIMTOBE"}, hasKey: ip(0),
			post: &postScript{sealed: true, rc: sp("AUTHORIZED"), sid: "sid1", user: "alice@x", vc: "60007"}}
	}
	type dev struct {
		name string
		f    func(s *srvScript)
	}
	devs := []dev{
		{"honest", func(s *srvScript) {}},
		{"auth-NO", func(s *srvScript) { s.auth = "NO"; s.replies = nil }},
		{"enc-NO-clear", func(s *srvScript) { s.enc = "NO"; s.key = "absent"; s.post.sealed = false }},
		{"key-absent", func(s *srvScript) { s.key = "absent"; s.post.sealed = false }},
		{"key-bad", func(s *srvScript) { s.key = "bad"; s.post.sealed = false }},
		{"no-common-cipher", func(s *srvScript) { s.ciphers = []string{"BLOWFISH"}; s.post.sealed = false }},
		{"no-ciphers", func(s *srvScript) { s.ciphers = nil; s.post.sealed = false }},
		{"unoffered-claimtobe", func(s *srvScript) { s.methods = []string{"PASSWORD", "CLAIMTOBE", "BOGUS"}; s.replies = []int64{bitClaimToBe} }},
		{"password-then-claim", func(s *srvScript) { s.methods = []string{"PASSWORD", "CLAIMTOBE"}; s.replies = []int64{bitPassword, bitClaimToBe} }},
		{"multi-bit", func(s *srvScript) { s.replies = []int64{bitClaimToBe | bitPassword, bitClaimToBe} }},
		{"zero-bit", func(s *srvScript) { s.replies = []int64{0} }},
		{"negative-bit", func(s *srvScript) { s.replies = []int64{-1, bitClaimToBe} }},
		{"unknown-bit", func(s *srvScript) { s.replies = []int64{1 << 20, bitClaimToBe} }},
		{"claim-rejected", func(s *srvScript) { s.ok = nil }},
		{"denied", func(s *srvScript) { s.rc = sp("DENIED") }},
		{"rc-empty", func(s *srvScript) { s.rc = sp("") }},
		{"post-clear-on-keyed", func(s *srvScript) { s.post.sealed = false }},
		{"post-denied", func(s *srvScript) { s.post.rc = sp("DENIED") }},
		{"post-missing", func(s *srvScript) { s.post = nil }},
		{"haskey-missing", func(s *srvScript) { s.hasKey = nil }},
		{"haskey-nonzero", func(s *srvScript) { s.hasKey = ip(1) }},
		{"auth-NO-enc-NO", func(s *srvScript) { s.auth = "NO"; s.enc = "NO"; s.replies = nil; s.key = "absent"; s.post.sealed = false }},
		{"auth-weird", func(s *srvScript) { s.auth = "REQUIRED"; s.replies = nil }},
	}
	methodShapes := [][]string{{"CLAIMTOBE"}, {"PASSWORD"}, {"PASSWORD", "CLAIMTOBE"}, {"CLAIMTOBE", "PASSWORD"}, {"NONE"}, {"TOKEN", "CLAIMTOBE"}}
	for _, au := range levels {
		for _, en := range levels {
			for mi, ms := range methodShapes {
				if !c.Thorough() && mi >= 3 && (au != "REQUIRED" && en != "REQUIRED") {
					continue
				}
				for _, integ := range []string{"OPTIONAL", "REQUIRED"} {
					if integ == "REQUIRED" && !(c.Thorough() || mi == 0) {
						continue
					}
					cfg := clientCfg{auth: au, enc: en, integ: integ, methods: ms, ciphers: []string{"AES"}}
					for _, d := range devs {
						sc := honestSrv(cfg)
						d.f(&sc)
						cs := runClientCase(c, cfg, sc)
						cases = append(cases, cs)
						c.Distinct(cs.Ops[0], d.name != "honest")
						c.Count("client-dev:" + d.name)
					}
				}
			}
		}
	}
	// a multi-bit answer whose LOWEST bit is a method the client never offered (CLAIMTOBE is the lowest
	// method bit of all): the client offers only FS, the server answers FS|CLAIMTOBE and is ready to
	// play CLAIMTOBE. Nothing may run. (FS: implemented and needs no configuration on the client.)
	for _, au := range levels {
		for _, en := range levels {
			cfg := clientCfg{auth: au, enc: en, integ: "OPTIONAL", methods: []string{"FS"}, ciphers: []string{"AES"}}
			for _, reply := range []int64{4 | bitClaimToBe, 4 | bitClaimToBe | bitPassword, 4 | 256 | bitClaimToBe} {
				sc := honestSrv(cfg)
				sc.methods = []string{"FS", "CLAIMTOBE"}
				sc.replies = []int64{reply, bitClaimToBe}
				cs := runClientCase(c, cfg, sc)
				cases = append(cases, cs)
				c.Distinct(cs.Ops[0], true)
				c.Count("client-dev:multi-bit-lowest-unoffered")
				if au == "REQUIRED" && en == "OPTIONAL" {
					c.Sample(map[string]any{"op": cs.Ops[0], "real": cs.Real[0]})
				}
			}
		}
	}
	// server role: catalogue of client deviations
	type cdev struct {
		name string
		f    func(s *cliScript)
	}
	honestCli := func() cliScript {
		return cliScript{auth: "OPTIONAL", enc: "OPTIONAL", methods: []string{"CLAIMTOBE"}, ciphers: []string{"AES"}, key: "good",
			masks: []int64{bitClaimToBe}, ok: []string{"CLAIMTOBE"}, user: "bob"}
	}
	cdevs := []cdev{
		{"honest", func(s *cliScript) {}},
		{"auth-never", func(s *cliScript) { s.auth = "NEVER" }},
		{"enc-never", func(s *cliScript) { s.enc = "NEVER" }},
		{"auth-required", func(s *cliScript) { s.auth = "REQUIRED" }},
		{"enc-required", func(s *cliScript) { s.enc = "REQUIRED" }},
		{"key-absent", func(s *cliScript) { s.key = "absent" }},
		{"key-bad", func(s *cliScript) { s.key = "bad" }},
		{"no-common-cipher", func(s *cliScript) { s.ciphers = []string{"3DES"} }},
		{"no-methods", func(s *cliScript) { s.methods = nil; s.masks = []int64{0} }},
		{"mask-zero", func(s *cliScript) { s.masks = []int64{0} }},
		{"mask-password-then-claim", func(s *cliScript) { s.methods = []string{"PASSWORD", "CLAIMTOBE"}; s.masks = []int64{bitPassword, bitClaimToBe} }},
		{"mask-all-bits", func(s *cliScript) { s.masks = []int64{-1} }},
		{"mask-unlisted-bit", func(s *cliScript) { s.methods = []string{"PASSWORD"}; s.masks = []int64{bitClaimToBe} }},
		{"claim-fails", func(s *cliScript) { s.ok = nil; s.masks = []int64{bitClaimToBe, 0} }},
		{"masks-exhausted", func(s *cliScript) { s.masks = nil }},
		{"levels-garbage", func(s *cliScript) { s.auth = "YES"; s.enc = "" }},
	}
	srvShapes := [][]string{{"CLAIMTOBE"}, {"PASSWORD", "CLAIMTOBE"}, {"PASSWORD"}, {"NONE", "CLAIMTOBE"}}
	for _, au := range levels {
		for _, en := range levels {
			for mi, ms := range srvShapes {
				if !c.Thorough() && mi >= 2 && au != "REQUIRED" {
					continue
				}
				for _, integ := range []string{"OPTIONAL", "REQUIRED"} {
					if integ == "REQUIRED" && !(c.Thorough() || mi == 0) {
						continue
					}
					cfg := serverCfg{auth: au, enc: en, integ: integ, methods: ms, ciphers: []string{"AES"}}
					for _, d := range cdevs {
						sc := honestCli()
						d.f(&sc)
						cs := runServerCase(c, cfg, sc)
						cases = append(cases, cs)
						c.Distinct(cs.Ops[0], d.name != "honest")
						c.Count("server-dev:" + d.name)
					}
				}
			}
		}
	}
	// random peers
	n := c.Pick(400, 8000)
	for i := 0; i < n; i++ {
		if c.Rng.Intn(2) == 0 {
			cfg := clientCfg{auth: pick(c, levels), enc: pick(c, levels), integ: pick(c, []string{"OPTIONAL", "REQUIRED", "NEVER"}), methods: randMethodList(c), ciphers: pick(c, [][]string{{"AES"}, {"AES", "3DES"}, {"3DES"}, nil})}
			sc := srvScript{auth: pick(c, []string{"YES", "NO", "YES", "", "REQUIRED"}), enc: pick(c, []string{"YES", "NO"}),
				methods: randMethodList(c), ciphers: pick(c, [][]string{{"AES"}, {"3DES", "AES"}, {"BLOWFISH"}, nil}), key: pick(c, []string{"good", "good", "absent", "bad"}),
				ok: pick(c, [][]string{{"CLAIMTOBE"}, nil}), hasKey: pick(c, []*int64{ip(0), ip(0), ip(0), nil, ip(7)})}
			for k := c.Rng.Intn(4); k > 0; k-- {
				sc.replies = append(sc.replies, pick(c, []int64{bitClaimToBe, bitPassword, 0, 4, 2048, bitClaimToBe | bitPassword, -5, 1 << 30}))
			}
			// ciphertext fed to a client that holds no key is just garbage (outside the deviation
			// catalogue): the scripted server seals only when the client will have derived the key
			clientKeyed := sc.key == "good" && firstCommonStr(sc.ciphers, cfg.ciphers) == "AES"
			if c.Rng.Intn(8) != 0 {
				sc.post = &postScript{sealed: clientKeyed && c.Rng.Intn(4) != 0, rc: pick(c, []*string{sp("AUTHORIZED"), sp("AUTHORIZED"), nil, sp("DENIED")}), sid: "s" + fmt.Sprint(i), user: pick(c, []string{"u@d", ""}), vc: "60007"}
			}
			if c.Rng.Intn(10) == 0 {
				sc.rc = pick(c, []*string{sp("DENIED"), sp("AUTHORIZED"), sp("")})
			}
			cs := runClientCase(c, cfg, sc)
			cases = append(cases, cs)
			c.Distinct(cs.Ops[0], true)
			c.Count("client-random")
		} else {
			cfg := serverCfg{auth: pick(c, levels), enc: pick(c, levels), integ: pick(c, []string{"OPTIONAL", "REQUIRED", "NEVER"}), methods: pick(c, srvShapes), ciphers: pick(c, [][]string{{"AES"}, {"AES", "3DES"}, {"3DES"}, nil})}
			sc := cliScript{auth: pick(c, append(levels, "YES", "")), enc: pick(c, append(levels, "NO")), methods: randMethodList(c),
				ciphers: pick(c, [][]string{{"AES"}, {"3DES", "AES"}, {"BLOWFISH"}, nil}), key: pick(c, []string{"good", "good", "absent", "bad"}),
				ok: pick(c, [][]string{{"CLAIMTOBE"}, nil}), user: pick(c, []string{"eve", "root"})}
			for k := c.Rng.Intn(4); k > 0; k-- {
				sc.masks = append(sc.masks, pick(c, []int64{bitClaimToBe, bitPassword, 0, bitClaimToBe | bitPassword, -1, 1 << 30}))
			}
			cs := runServerCase(c, cfg, sc)
			cases = append(cases, cs)
			c.Distinct(cs.Ops[0], true)
			c.Count("server-random")
		}
	}
	for i, cs := range cases {
		if i%397 == 0 {
			c.Sample(map[string]any{"op": cs.Ops[0], "real": cs.Real[0]})
		}
	}
	norm := func(s string) string {
		if strings.HasPrefix(s, "err ") {
			return "err"
		}
		return s
	}
	return diffBatch(c, "hs", cases, norm)
}

/* ------------------------------------------------------------ matrix engine (C10): two real endpoints */

type honestObs struct {
	neg *security.SecurityNegotiation
	err error
	st  *stream.Stream
}

func runHonestPair(cc clientCfg, sc serverCfg, cmd int) (cl, sv honestObs, deniedSeen bool, msgOK string) {
	ca, cb := bufpipe.Pair("10.0.0.1:1111", "10.0.0.2:9618")
	ctx, cancel := context.WithTimeout(context.Background(), 600*time.Millisecond)
	defer cancel()
	cst, sst := stream.NewStream(ca), stream.NewStream(cb)
	sst.SetPeerAddr("10.0.0.1:1111")
	var wg sync.WaitGroup
	wg.Add(1)
	go func() {
		defer wg.Done()
		conf := &security.SecurityConfig{AuthMethods: toMethods(sc.methods), Authentication: security.SecurityLevel(sc.auth),
			CryptoMethods: toCiphers(sc.ciphers), Encryption: security.SecurityLevel(sc.enc), Integrity: security.SecurityLevel(sc.integ)}
		a := security.NewAuthenticator(conf, sst)
		sv.neg, sv.err = a.ServerHandshake(ctx)
		sv.st = sst
		if sv.err != nil {
			cb.Close()
		}
	}()
	conf := cc.secConfig(security.NewSessionCache())
	conf.Command = cmd
	a := security.NewAuthenticator(conf, cst)
	cl.neg, cl.err = a.ClientHandshake(ctx)
	cl.st = cst
	if cl.err != nil {
		deniedSeen = strings.Contains(cl.err.Error(), "rejected by server")
		ca.Close()
	}
	wg.Wait()
	msgOK = "-"
	if cl.err == nil && sv.err == nil {
		// immediately exchange a message each way
		e1 := cst.SendMessage(ctx, []byte("c2s"))
		m1, e2 := sst.ReceiveCompleteMessage(ctx)
		e3 := sst.SendMessage(ctx, []byte("s2c"))
		m2, e4 := cst.ReceiveCompleteMessage(ctx)
		if e1 == nil && e2 == nil && e3 == nil && e4 == nil && string(m1) == "c2s" && string(m2) == "s2c" {
			msgOK = "1"
		} else {
			msgOK = "0"
		}
	}
	ca.Close()
	cb.Close()
	return
}

func runMatrix(c *Ctx) error {
	c.Res.Rule = "two real cedar endpoints over an in-memory duplex pipe: the full 4^4 matrix of (client auth, server auth, client enc, server enc) levels x method-list shapes (equal, disjoint, overlapping in both orders, empty, containing the unimplemented PASSWORD, PASSWORD only) x cipher lists (common / none), the client's command rotating over a real command, command 0 and none (auth-only); after success a message is exchanged each way; outcome compared with the Lean model honestRun and with the property's decision table; exhaustive over the matrix for each shape; non-trivial = always (each cell distinct)"
	var cases []Case
	type shape struct {
		name string
		cm, sm []string
		cc, scs []string
	}
	shapes := []shape{
		{"same", []string{"CLAIMTOBE"}, []string{"CLAIMTOBE"}, []string{"AES"}, []string{"AES"}},
		{"pw-only", []string{"PASSWORD"}, []string{"PASSWORD"}, []string{"AES"}, []string{"AES"}},
		{"disjoint", []string{"CLAIMTOBE"}, []string{"PASSWORD"}, []string{"AES"}, []string{"AES"}},
	}
	if c.Thorough() || true {
		shapes = append(shapes,
			shape{"pw-first", []string{"CLAIMTOBE", "PASSWORD"}, []string{"PASSWORD", "CLAIMTOBE"}, []string{"AES"}, []string{"AES"}},
			shape{"no-cipher", []string{"CLAIMTOBE"}, []string{"CLAIMTOBE"}, []string{"AES"}, []string{"3DES"}},
		)
	}
	if c.Thorough() {
		shapes = append(shapes,
			shape{"empty-client", nil, []string{"CLAIMTOBE"}, []string{"AES"}, []string{"AES"}},
			shape{"none-listed", []string{"NONE", "CLAIMTOBE"}, []string{"NONE"}, []string{"AES"}, []string{"AES"}},
			shape{"order2", []string{"PASSWORD", "CLAIMTOBE"}, []string{"CLAIMTOBE", "PASSWORD"}, []string{"3DES", "AES"}, []string{"AES"}},
		)
	}
	cellNo := 0
	for _, sh := range shapes {
		for _, ca := range levels {
			for _, sa := range levels {
				for _, ce := range levels {
					for _, se := range levels {
						cc := clientCfg{auth: ca, enc: ce, integ: "OPTIONAL", methods: sh.cm, ciphers: sh.cc}
						sc := serverCfg{auth: sa, enc: se, integ: "OPTIONAL", methods: sh.sm, ciphers: sh.scs}
						// the command dimension of the quantifier: a real command, command 0, and an
						// auth-only handshake that carries none
						cellNo++
						cl, sv, denied, msgOK := runHonestPair(cc, sc, []int{60007, 0, security.NoCommand}[cellNo%3])
						c.Count(fmt.Sprintf("command:%d", []int{60007, 0, security.NoCommand}[cellNo%3]))
						op := fmt.Sprintf("honest cauth=%s cenc=%s cinteg=OPTIONAL cmethods=%s cciphers=%s sauth=%s senc=%s sinteg=OPTIONAL smethods=%s sciphers=%s ok=CLAIMTOBE user=%s",
							ca, ce, joinOrDash(sh.cm), joinOrDash(sh.cc), sa, se, joinOrDash(sh.sm), joinOrDash(sh.scs), "~")
						side := func(o honestObs) string {
							if o.err != nil {
								return "err x"
							}
							ran := "-"
							if o.neg.Authentication {
								ran = string(o.neg.NegotiatedAuth)
							}
							m := "-"
							if o.neg.Authentication {
								m = string(o.neg.NegotiatedAuth)
							}
							return fmt.Sprintf("ok auth=%s enc=%s method=%s keyed=%s ran=%s", b01(o.neg.Authentication), b01(o.neg.Encryption), m, b01(o.st.IsEncrypted()), ran)
						}
						real := fmt.Sprintf("client[%s] server[%s] denied=%s", side(cl), side(sv), b01(denied))
						cases = append(cases, Case{Label: "honest " + sh.name, Ops: []string{op}, Real: []string{real}})
						c.Distinct(op, true)
						c.Count("shape:" + sh.name)
						// ---- property oracle C10: the decision table written from the property text ----
						common := ""
						for _, m := range sh.sm {
							if contains(sh.cm, m) && m == "CLAIMTOBE" { // the only mutually USABLE method in these shapes
								common = m
								break
							}
						}
						cipher := false
						for _, x := range sh.scs {
							if contains(sh.cc, x) {
								cipher = true
							}
						}
						req := func(a, b string) bool { return a == "REQUIRED" || b == "REQUIRED" }
						nev := func(a, b string) bool { return a == "NEVER" || b == "NEVER" }
						pref := func(a, b string) bool { return a == "PREFERRED" || b == "PREFERRED" }
						wantAuth := req(ca, sa) || (!nev(ca, sa) && pref(ca, sa) && common != "")
						encOn := req(ce, se) || (!nev(ce, se) && pref(ce, se) && cipher)
						fail := (req(ca, sa) && nev(ca, sa)) || (req(ce, se) && nev(ce, se)) || (req(ca, sa) && common == "") || (req(ce, se) && !cipher)
						viol := func(key, what, exp, obs string) {
							c.Violate(Violation{Property: "C10", Key: "C10:" + key, What: what, Ops: []string{op}, Expected: exp, Observed: obs})
						}
						if fail {
							if cl.err == nil || sv.err == nil {
								viol("should-fail:"+sh.name, "handshake succeeded although one side requires what the other forbids / a required feature has no common method", "failure with explicit denial", real)
							} else if !denied {
								viol("bare-close:"+sh.name, "handshake failed without an explicit denial reaching the client", "DENIED response", fmt.Sprint(cl.err))
							}
						} else {
							if cl.err != nil || sv.err != nil {
								viol("should-succeed:"+sh.name, "handshake failed although the policy table says it succeeds", fmt.Sprintf("success (auth=%v, enc>=%v)", wantAuth, encOn), fmt.Sprintf("client err=%v / server err=%v", cl.err, sv.err))
							} else {
								if cl.neg.Authentication != sv.neg.Authentication || cl.neg.Encryption != sv.neg.Encryption {
									viol("disagree-flags:"+sh.name, "endpoints report different authentication/encryption outcomes", "equal", real)
								}
								if sv.neg.Authentication != wantAuth {
									viol("auth-table:"+sh.name, "authentication ran/did not run contrary to the policy table", fmt.Sprint(wantAuth), fmt.Sprint(sv.neg.Authentication))
								}
								if req(ce, se) && !(cl.st.IsEncrypted() && sv.st.IsEncrypted()) {
									viol("enc-required-off:"+sh.name, "encryption required by one side but the stream is not protected", "encrypted", real)
								}
								if cl.neg.SessionId != sv.neg.SessionId {
									viol("sid:"+sh.name, "session identifiers differ", sv.neg.SessionId, cl.neg.SessionId)
								}
								if !bytes.Equal(cl.neg.GetSharedSecret(), sv.neg.GetSharedSecret()) {
									viol("key:"+sh.name, "endpoints hold different keys", "same", "different")
								}
								if msgOK != "1" {
									viol("no-traffic:"+sh.name, "endpoints could not exchange messages both ways right after the handshake", "messages both ways", "failed")
								}
							}
						}
					}
				}
			}
		}
	}
	sort.SliceStable(cases, func(i, j int) bool { return false })
	for i, cs := range cases {
		if i%211 == 0 {
			c.Sample(map[string]any{"op": cs.Ops[0], "real": cs.Real[0]})
		}
	}
	norm := func(s string) string {
		// errors compared as ok/err only
		s = strings.ReplaceAll(s, "err refused", "err x")
		s = strings.ReplaceAll(s, "err eof", "err x")
		s = strings.ReplaceAll(s, "err malformed", "err x")
		s = strings.ReplaceAll(s, "err authFail", "err x")
		return s
	}
	return diffBatch(c, "hs", cases, norm)
}

func firstCommonStr(srv, cli []string) string {
	for _, x := range srv {
		if contains(cli, x) {
			return x
		}
	}
	return ""
}
