package main

// C17 workload on one established stream: one goroutine sends while another receives.

import (
	"bytes"
	"context"
	"fmt"
	"io"
	"math/rand"
	"runtime"
	"strings"
	"sync"
	"time"

	"cedarverif/harness/internal/bufpipe"
	"cedarverif/harness/internal/orc"
	"cedarverif/harness/internal/refcodec"

	"github.com/bbockelm/cedar/stream"
)

type dirSend struct {
	kind string // frame write end start secret
	data []byte
	flag int
}

type dirRecv struct {
	kind string // frameend frame complete start read endread secret
	n    int
}

func (o dirSend) line() string {
	switch o.kind {
	case "frame":
		return fmt.Sprintf("dsend frame %s %d", orc.Payload(o.data), o.flag)
	case "write":
		return "dsend write " + orc.Payload(o.data)
	case "secret":
		return "dsend secret " + orc.Payload(o.data)
	}
	return "dsend " + o.kind
}

func (o dirRecv) line() string {
	if o.kind == "read" {
		return fmt.Sprintf("drecv read %d", o.n)
	}
	return "drecv " + o.kind
}

func dirPayload(rng *rand.Rand, secretSafe bool) []byte {
	var n int
	switch r := rng.Intn(12); {
	case r < 6:
		n = rng.Intn(24)
	case r < 9:
		n = 24 + rng.Intn(200)
	case r < 11:
		n = 4000 + rng.Intn(200) // around the 4 KiB flush threshold
	default:
		n = 0
	}
	b := make([]byte, n)
	if n > 64 {
		x := byte(1 + rng.Intn(250))
		for i := range b {
			b[i] = x
		}
		return b
	}
	for i := range b {
		b[i] = byte(1 + rng.Intn(255)) // no NUL: secrets are NUL-terminated strings
	}
	_ = secretSafe
	return b
}

// one frame B puts on A's incoming wire
type peerFrame struct {
	data   []byte
	flag   int
	secret bool
}

func wlStreamDir(c *Ctx, out *raceWorkerOut, secrets bool) {
	n := c.Pick(120, 1500)
	for i := 0; i < n; i++ {
		keyed := c.Rng.Intn(4) != 0
		ca, cb := bufpipe.Pair("10.0.0.1:1111", "10.0.0.2:9618")
		A, B := stream.NewStream(ca), stream.NewStream(cb)
		if keyed {
			_ = A.SetSymmetricKey(keyBytes(7))
			_ = B.SetSymmetricKey(keyBytes(7))
		} else {
			A.FinalizeDigests()
			B.FinalizeDigests()
		}
		var ops, real []string
		ops = append(ops, "dnew "+b01(keyed))
		real = append(real, "ok")

		// ---- what the peer sends, and how A's receiver will consume it
		var wire []peerFrame
		var recvPlan []dirRecv
		msgs := 1 + c.Rng.Intn(4)
		for m := 0; m < msgs; m++ {
			if secrets && c.Rng.Intn(2) == 0 {
				wire = append(wire, peerFrame{dirPayload(c.Rng, true), 1, true})
				recvPlan = append(recvPlan, dirRecv{"secret", 0})
				continue
			}
			nf := 1 + c.Rng.Intn(3)
			var total int
			for f := 0; f < nf; f++ {
				d := dirPayload(c.Rng, false)
				fl := 0
				if f == nf-1 {
					fl = 1
				}
				wire = append(wire, peerFrame{d, fl, false})
				total += len(d)
			}
			switch c.Rng.Intn(4) {
			case 0:
				recvPlan = append(recvPlan, dirRecv{"complete", 0})
			case 1:
				for f := 0; f < nf; f++ {
					recvPlan = append(recvPlan, dirRecv{"frameend", 0})
				}
			case 2:
				recvPlan = append(recvPlan, dirRecv{"start", 0})
				left := total
				for left > 0 {
					k := 1 + c.Rng.Intn(left+3)
					recvPlan = append(recvPlan, dirRecv{"read", k})
					if k > left {
						k = left
					}
					left -= k
				}
				if c.Rng.Intn(3) == 0 {
					recvPlan = append(recvPlan, dirRecv{"read", 5}) // at the end of the message: io.EOF, and the direction stops
				}
				recvPlan = append(recvPlan, dirRecv{"endread", 0})
			default:
				if nf == 1 {
					recvPlan = append(recvPlan, dirRecv{"frame", 0})
				} else {
					recvPlan = append(recvPlan, dirRecv{"complete", 0})
				}
			}
		}
		// misuse on the receive side now and then (the direction then stops; the sender must not notice)
		if c.Rng.Intn(6) == 0 {
			pos := c.Rng.Intn(len(recvPlan) + 1)
			bad := []dirRecv{{"endread", 0}, {"read", 3}}[c.Rng.Intn(2)]
			recvPlan = append(recvPlan[:pos], append([]dirRecv{bad}, recvPlan[pos:]...)...)
		}
		for _, pf := range wire {
			var err error
			switch {
			case pf.secret:
				err = B.PutSecret(bg, string(pf.data))
				ops = append(ops, "dpeersecret "+orc.Payload(pf.data))
			case pf.flag == 1:
				err = B.SendMessage(bg, pf.data)
				ops = append(ops, fmt.Sprintf("dpeer %s 1", orc.Payload(pf.data)))
			default:
				err = B.SendPartialMessage(bg, pf.data)
				ops = append(ops, fmt.Sprintf("dpeer %s 0", orc.Payload(pf.data)))
			}
			if err != nil {
				real = append(real, "err "+errClass(err))
			} else {
				real = append(real, "ok")
			}
		}
		// ---- what A's sender does
		var sendPlan []dirSend
		ns := 2 + c.Rng.Intn(7)
		open := false
		for s := 0; s < ns; s++ {
			switch r := c.Rng.Intn(10); {
			case r < 3 && !open:
				sendPlan = append(sendPlan, dirSend{"frame", dirPayload(c.Rng, false), c.Rng.Intn(2)})
			case r < 6:
				if !open {
					sendPlan = append(sendPlan, dirSend{"start", nil, 0})
					open = true
				}
				sendPlan = append(sendPlan, dirSend{"write", dirPayload(c.Rng, false), 0})
			case r < 8 && open:
				sendPlan = append(sendPlan, dirSend{"end", nil, 0})
				open = false
			case r < 9 && secrets && !open:
				sendPlan = append(sendPlan, dirSend{"secret", dirPayload(c.Rng, true), 0})
			default:
				if !open {
					sendPlan = append(sendPlan, dirSend{"frame", dirPayload(c.Rng, false), 1})
				} else {
					sendPlan = append(sendPlan, dirSend{"write", dirPayload(c.Rng, false), 0})
				}
			}
		}
		if open && c.Rng.Intn(4) != 0 {
			sendPlan = append(sendPlan, dirSend{"end", nil, 0})
		}
		if c.Rng.Intn(8) == 0 { // misuse: EndMessage twice / write after end
			sendPlan = append(sendPlan, dirSend{"end", nil, 0}, dirSend{"end", nil, 0}, dirSend{"write", []byte{1}, 0})
		}

		// ---- run the two directions of A concurrently
		sendRes := make([]string, len(sendPlan))
		sendFrames := make([]int, len(sendPlan)) // frames on the wire after each op
		recvRes := make([]string, len(recvPlan))
		ctx, cancel := context.WithTimeout(context.Background(), 30*time.Second) // backstop only: in-memory, nothing waits for a peer
		var wg sync.WaitGroup
		wg.Add(2)
		go func() { // sender
			defer wg.Done()
			dead := false
			for k, o := range sendPlan {
				if dead {
					sendRes[k] = "ok dead"
					sendFrames[k] = -1
					continue
				}
				var err error
				switch o.kind {
				case "frame":
					if o.flag == 1 {
						err = A.SendMessage(ctx, o.data)
					} else {
						err = A.SendPartialMessage(ctx, o.data)
					}
				case "write":
					err = A.WriteMessage(ctx, o.data)
				case "end":
					err = A.EndMessage(ctx)
				case "start":
					A.StartMessage()
				case "secret":
					err = A.PutSecret(ctx, string(o.data))
				}
				fr, _ := refcodec.ParseFrames(ca.Written())
				sendFrames[k] = len(fr)
				if err != nil {
					sendRes[k] = "err " + errClass(err)
					dead = true
				}
				if k%2 == 0 {
					runtime.Gosched()
				}
			}
		}()
		go func() { // receiver
			defer wg.Done()
			dead := false
			for k, o := range recvPlan {
				if dead {
					recvRes[k] = "ok dead"
					continue
				}
				var d []byte
				var err error
				switch o.kind {
				case "frameend":
					d, _, err = A.ReceiveFrameWithEnd(ctx)
				case "frame":
					d, err = A.ReceiveFrame(ctx)
				case "complete":
					d, err = A.ReceiveCompleteMessage(ctx)
				case "start":
					err = A.StartMessageRead(ctx)
				case "read":
					buf := make([]byte, o.n)
					var nn int
					nn, err = A.ReadMessageBytes(ctx, buf)
					d = buf[:nn]
				case "endread":
					err = A.EndMessageRead()
				case "secret":
					var s string
					s, err = A.GetSecret(ctx)
					d = []byte(s)
				}
				if err != nil {
					if err == io.EOF {
						recvRes[k] = "err eom"
					} else {
						recvRes[k] = "err " + errClass(err)
					}
					dead = true
				} else {
					recvRes[k] = "ok " + orc.ShowBytes(d)
				}
				if k%2 == 1 {
					runtime.Gosched()
				}
			}
		}()
		wg.Wait()
		cancel()
		// ---- the peer reads what A sent, frame by frame
		frames, _ := refcodec.ParseFrames(ca.Written())
		type got struct {
			d    []byte
			flag byte
		}
		var gots []got
		peerOK := true
		rctx, rcancel := context.WithTimeout(context.Background(), 30*time.Second) // backstop only: the frames are already buffered
		for range frames {
			d, fl, err := B.ReceiveFrameWithEnd(rctx)
			if err != nil {
				peerOK = false
				break
			}
			gots = append(gots, got{d, fl})
		}
		rcancel()
		ca.Close()
		cb.Close()
		// render the sender's results: frames attributed to ops by the count on the wire
		prev := 0
		var sentPayload [][]byte
		for k := range sendPlan {
			if sendFrames[k] < 0 {
				continue
			}
			var parts []string
			for f := prev; f < sendFrames[k] && f < len(gots); f++ {
				mode := "p"
				if keyed {
					mode = "c"
				}
				parts = append(parts, fmt.Sprintf("%d:%s:%s", gots[f].flag, mode, orc.ShowBytes(gots[f].d)))
				sentPayload = append(sentPayload, gots[f].d)
			}
			prev = sendFrames[k]
			if sendRes[k] == "" {
				sendRes[k] = "ok f=[" + strings.Join(parts, ",") + "]"
			}
		}
		// a seed-chosen merge of the two directions (any merge must do, by directions_independent)
		si, ri := 0, 0
		for si < len(sendPlan) || ri < len(recvPlan) {
			if ri >= len(recvPlan) || (si < len(sendPlan) && c.Rng.Intn(2) == 0) {
				ops = append(ops, sendPlan[si].line())
				real = append(real, sendRes[si])
				si++
			} else {
				ops = append(ops, recvPlan[ri].line())
				real = append(real, recvRes[ri])
				ri++
			}
		}
		out.Cases = append(out.Cases, Case{Label: fmt.Sprintf("dir#%d keyed=%v", i, keyed), Ops: ops, Real: real})
		out.eval(strings.Join(ops, "\n"), len(sendPlan) > 0 && len(recvPlan) > 0)
		out.count(fmt.Sprintf("dir-keyed:%v", keyed))
		for _, o := range sendPlan {
			out.count("dir-send:" + o.kind)
		}
		for _, o := range recvPlan {
			out.count("dir-recv:" + o.kind)
		}
		for _, r := range append(append([]string{}, sendRes...), recvRes...) {
			if strings.HasPrefix(r, "err ") {
				out.count("dir-" + strings.Replace(r, " ", ":", 1))
			}
		}
		if i == 0 {
			out.sample(map[string]any{"ops": abbreviate(ops), "real": abbreviate(real)})
		}
		// ---- property oracle, independent of the model: end to end, each direction delivers
		// exactly what was put in, whatever the other direction did meanwhile
		if !peerOK {
			out.violate(Violation{Property: "C17", Key: "C17:stream-send-corrupted", What: "frames written by the sending goroutine while another goroutine was receiving on the same stream could not be opened by the peer",
				Ops: ops, Expected: "peer opens every frame", Observed: "peer failed to receive"})
		}
		// sender: concatenation of the data handed over up to the first error == concatenation received by the peer
		var want []byte
		pending := []byte{}
		for k, o := range sendPlan {
			if strings.HasPrefix(sendRes[k], "err") || sendRes[k] == "ok dead" {
				break
			}
			switch o.kind {
			case "frame":
				want = append(want, o.data...)
			case "write":
				pending = append(pending, o.data...)
				if len(pending) >= 4096 {
					want = append(want, pending...)
					pending = pending[:0]
				}
			case "end":
				want = append(want, pending...)
				pending = pending[:0]
			case "start":
				pending = pending[:0]
			case "secret":
				want = append(want, o.data...)
				want = append(want, 0)
			}
		}
		if peerOK && !bytes.Equal(bytes.Join(sentPayload, nil), want) {
			out.violate(Violation{Property: "C17", Key: "C17:stream-direction-disturbed:send", What: "what the peer received differs from what the sending goroutine handed over while the other goroutine was receiving",
				Ops: ops, Expected: orc.ShowBytes(want), Observed: orc.ShowBytes(bytes.Join(sentPayload, nil))})
		}
	}
}
