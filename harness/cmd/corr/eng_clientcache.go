package main

import (
	"context"
	"errors"
	"fmt"
	"net"
	"regexp"
	"sort"
	"strings"
	"sync"
	"time"

	"cedarverif/harness/internal/bufpipe"
	"cedarverif/harness/internal/refcodec"

	"github.com/PelicanPlatform/classad/classad"

	"github.com/bbockelm/cedar/client"
	"github.com/bbockelm/cedar/message"
	"github.com/bbockelm/cedar/security"
	"github.com/bbockelm/cedar/server"
	"github.com/bbockelm/cedar/stream"
)

func init() { register(Engine{"clientcache", runClientCache}) }

type triple struct{ tag, addr, cmd string }

// ccHandshake: one real client handshake for (tag, addr, cmd) against a real server; `breakIt` makes
// the server drop the connection right after reading the client's first message.
func ccHandshake(cache *security.SessionCache, t triple, validCmds []int, breakIt bool, stall bool, explicitSid string, clientAuth security.SecurityLevel) (neg *security.SecurityNegotiation, resumed bool, err error) {
	neg, resumed, _, _, err = ccHandshakeDecl(cache, t, 0, validCmds, breakIt, stall, explicitSid, clientAuth)
	return
}

var ccValidRe = regexp.MustCompile(`ValidCommands\s*=\s*"([^"]*)"`)

// serverDeclared reads what the SERVER declared valid for the session from the wire: the post-auth ad
// is the server's first protected message; it is opened with the reference codec under the key the
// SERVER side holds (first-frame AAD = SHA-256 of the cleartext the server sent / received before it).
// Nothing the client computed enters. ok=false when no protected server frame could be opened.
func serverDeclared(c2s, s2c, key []byte) (string, bool) {
	if len(key) == 0 {
		return "", false
	}
	frames, _ := refcodec.ParseFrames(s2c)
	for k := len(frames) - 1; k >= 0; k-- {
		var clear []byte
		for _, f := range frames[:k] {
			clear = append(clear, f.Bytes()...)
		}
		dir, e := refcodec.NewDir(key, refcodec.Digest(clear, k > 0), refcodec.Digest(c2s, len(c2s) > 0))
		if e != nil {
			return "", false
		}
		var plain []byte
		okAll := true
		for _, f := range frames[k:] {
			o, e := dir.Open(f)
			if e != nil {
				okAll = false
				break
			}
			plain = append(plain, o.Plain...)
		}
		if !okAll {
			continue
		}
		if m := ccValidRe.FindSubmatch(plain); m != nil {
			return string(m[1]), true
		}
		return "", true // the ad carries no ValidCommands at all: nothing declared
	}
	return "", false
}

// ccHandshakeDecl is ccHandshake that also reports the server's own declaration of the commands valid
// for the new session (full handshakes only), read from the wire independently of the client.
// authCmd is the client's SecurityConfig.AuthCommand (0 = absent): the operation a wrapper command is
// about. It is NOT the command of the connection; t.cmd (SecurityConfig.Command) is.
func ccHandshakeDecl(cache *security.SessionCache, t triple, authCmd int, validCmds []int, breakIt bool, stall bool, explicitSid string, clientAuth security.SecurityLevel) (neg *security.SecurityNegotiation, resumed bool, declared string, declOK bool, err error) {
	ca, cb := bufpipe.Pair("10.0.0.1:1111", "10.0.0.2:9618")
	d := ccHonestBound
	if stall {
		d = 120 * time.Millisecond
	}
	ctx, cancel := context.WithTimeout(context.Background(), d)
	defer cancel()
	defer ca.Close()
	defer cb.Close()
	cst, sst := stream.NewStream(ca), stream.NewStream(cb)
	sst.SetPeerAddr("10.0.0.1:1111")
	var wg sync.WaitGroup
	var skey []byte // the key the SERVER side ended the handshake with
	wg.Add(1)
	go func() {
		defer wg.Done()
		if breakIt {
			m := message.NewMessageFromStream(sst)
			_, _ = m.GetInt(context.Background())
			if stall {
				// the peer goes silent: the exchange breaks by the client's own deadline
				time.Sleep(d + 60*time.Millisecond)
			}
			cb.Close()
			return
		}
		sc := *srvConf(true)
		sc.Authentication = security.SecurityOptional
		sc.PostAuthPolicy = func(authUser, peerAddr string, authenticated, encrypted bool) (string, []int) {
			return "", validCmds
		}
		a := security.NewAuthenticator(&sc, sst)
		sn, e := a.ServerHandshake(ctx)
		if e != nil {
			cb.Close()
			return
		}
		skey = append([]byte{}, sn.GetSharedSecret()...)
	}()
	var cmd int
	fmt.Sscan(t.cmd, &cmd)
	cc := &security.SecurityConfig{AuthMethods: toMethods([]string{"CLAIMTOBE"}), Authentication: clientAuth,
		CryptoMethods: toCiphers([]string{"AES"}), Encryption: security.SecurityOptional, Integrity: security.SecurityOptional,
		Command: cmd, AuthCommand: authCmd, SessionCache: cache, PeerName: t.addr, SecurityTag: t.tag, SessionID: explicitSid}
	a := security.NewAuthenticator(cc, cst)
	neg, err = a.ClientHandshake(ctx)
	resumed = a.WasSessionResumed()
	if err != nil {
		ca.Close()
	}
	wg.Wait()
	if err == nil && !resumed {
		declared, declOK = serverDeclared(ca.Written(), cb.Written(), skey)
	}
	return
}

// ccHonestBound: generous bound for an honest in-memory handshake (nothing measures time).
const ccHonestBound = 20 * time.Second

func runClientCache(c *Ctx) error {
	c.Res.Rule = "histories (2-8 steps) of real client handshakes over (tag in {none,T1,T2,srvA}) x (server address in {srvA, srvB, two sinful addresses that differ only in their ?sock= decoration, and the address srvA,srvB (contains a comma) — with tag srvA + address srvB this is the pair whose keys collided when commas were not escaped}) x (command in {60007,60008,60009}) x (the client's AuthCommand: absent, equal to the command, another command that has / has not a route to a live session under the same tag and address) against a real server whose post-auth ValidCommands vary, the client's own authentication policy drawn from PREFERRED / NEVER / REQUIRED, interleaved with server restart (session forgotten -> SID_NOT_FOUND), broken connections (peer closes) and stalled ones (peer goes silent, the client's deadline fires), client-side expiry (virtual time), explicit invalidation, InvalidateExpired, and handshakes that name a cached session explicitly by id under an arbitrary triple; after every step all 60 LookupByCommand routes are compared with the model and with a reference map (tag,addr,cmd) -> session kept by the spec rules; distinct by history; non-trivial = the history touches >=2 distinct triples"
	tags := []string{"", "T1", "T2", "srvA"}
	addrs := []string{"srvA", "srvB", "<127.0.0.1:9618?sock=schedd_1>", "<127.0.0.1:9618?sock=startd_2>", "srvA,srvB"}
	cmds := []string{"60007", "60008", "60009"}
	var all []triple
	for _, tg := range tags {
		for _, ad := range addrs {
			for _, cm := range cmds {
				all = append(all, triple{tg, ad, cm})
			}
		}
	}
	var cases []Case
	n := c.Pick(300, 4000)
	for i := 0; i < n; i++ {
		security.ClearSessionCache()
		cache := security.NewSessionCache()
		var ops, real []string
		log := func(o, r string) { ops = append(ops, o); real = append(real, r) }
		log("reset", "ok")
		ref := map[triple]string{}   // reference map kept by the spec rules
		expired := map[string]bool{} // sids expired on the client
		authOf := map[string]bool{}  // was the session established with authentication
		// what the SERVER declared valid for each session (read from the wire at the full handshake):
		// the only commands a connection may resume that session for, whatever else the client's
		// configuration (AuthCommand) names
		declaredFor := map[string]map[string]bool{}
		var dims []string // generator dimensions that do not travel in the ops (part of the distinct key)
		var sids []string
		seen := map[triple]bool{}
		steps := 2 + c.Rng.Intn(7)
		// exhaustive-ish small space in the first cases: only 2 tags x 2 addrs x 2 cmds
		small := i < n/3
		// script: a forced continuation (op codes) on forcedSid — the history shape "a session expires, a
		// by-id lookup (LookupNonExpired) drops the entry but not its mappings, then the sweep / an explicit
		// invalidation runs": the routes left behind are visible only in the RAW command map
		var script []int
		forcedSid := ""
		pickSid := func() string {
			if forcedSid != "" {
				return forcedSid
			}
			return pick(c, sids)
		}
		for s := 0; s < steps || len(script) > 0; s++ {
			k := c.Rng.Intn(11)
			if len(script) > 0 {
				k, script = script[0], script[1:]
			} else {
				forcedSid = ""
				if len(sids) > 0 && c.Rng.Intn(6) == 0 {
					forcedSid = pick(c, sids)
					script = pick(c, [][]int{{10, 9}, {10, 8}, {10, 0, 9}, {10, 9, 9}, {9, 10, 9}})
					k = 7
					c.Count("shape:expire-lookup-sweep")
				}
			}
			switch {
			case k < 6:
				t := pick(c, all)
				if small {
					t = triple{pick(c, []string{"", "T1"}), pick(c, addrs), pick(c, []string{"60007", "60008"})}
				}
				// the client's AuthCommand: absent / equal to Command / another command, with or without a
				// route to a live session under this (tag, address). The command of the connection stays t.cmd.
				routed := func(tg, ad, cm string) bool {
					sid, ok := ref[triple{tg, ad, cm}]
					return ok && !expired[sid]
				}
				authCmd, authClass := 0, "absent"
				switch c.Rng.Intn(5) {
				case 0:
				case 1:
					fmt.Sscan(t.cmd, &authCmd)
					authClass = "equal"
				default:
					wantRoute := c.Rng.Intn(3) != 0
					if wantRoute && len(ref) > 0 && c.Rng.Intn(2) == 0 {
						// aim at the class: a (tag, address) that holds a live route for some command, and a
						// connection for ANOTHER command there
						var keys []triple
						for tt, sid := range ref {
							if !expired[sid] {
								keys = append(keys, tt)
							}
						}
						sort.Slice(keys, func(a, b int) bool {
							return keys[a].tag+"\x00"+keys[a].addr+"\x00"+keys[a].cmd < keys[b].tag+"\x00"+keys[b].addr+"\x00"+keys[b].cmd
						})
						if len(keys) > 0 {
							kk := pick(c, keys)
							var others []string
							for _, cm := range cmds {
								if cm != kk.cmd {
									others = append(others, cm)
								}
							}
							t = triple{kk.tag, kk.addr, pick(c, others)}
						}
					}
					var with, without []string
					for _, cm := range cmds {
						if cm == t.cmd {
							continue
						}
						if routed(t.tag, t.addr, cm) {
							with = append(with, cm)
						} else {
							without = append(without, cm)
						}
					}
					var ac string
					switch {
					case wantRoute && len(with) > 0:
						ac = pick(c, with)
					case !wantRoute && len(without) > 0:
						ac = pick(c, without)
					default:
						ac = pick(c, append(with, without...))
					}
					fmt.Sscan(ac, &authCmd)
					authClass = "other-without-route"
					if routed(t.tag, t.addr, ac) {
						authClass = "other-with-route"
						if !routed(t.tag, t.addr, t.cmd) {
							authClass = "other-with-route:command-without"
						} else if ref[triple{t.tag, t.addr, ac}] != ref[t] {
							authClass = "other-with-route:command-routes-elsewhere"
						}
					}
				}
				c.Count("authcommand:" + authClass)
				dims = append(dims, fmt.Sprintf("%d:auth=%d", s, authCmd))
				hsNote := fmt.Sprintf("# handshake tag=%q addr=%s Command=%s AuthCommand=%d (%s)", t.tag, t.addr, t.cmd, authCmd, authClass)
				seen[t] = true
				vc := pick(c, [][]int{nil, {60007, 60008}, {60007}, {60008, 60009}})
				breakIt := c.Rng.Intn(6) == 0
				stall := breakIt && c.Rng.Intn(2) == 0
				if stall {
					c.Count("op:stall")
				}
				// what will the server answer if a resumption is attempted?
				answer := "authorized"
				if breakIt {
					answer = "broken"
				} else if sid, ok := ref[t]; ok {
					if _, found := security.GetSessionCache().LookupNonExpired(sid); !found {
						answer = "sidNotFound"
					}
				}
				// the client's own authentication policy varies: NEVER leaves an unauthenticated session in
				// the cache, REQUIRED must not ride such a session later (it does a full handshake)
				clientAuth := pick(c, []security.SecurityLevel{security.SecurityPreferred, security.SecurityPreferred, security.SecurityNever, security.SecurityRequired})
				req := clientAuth == security.SecurityRequired
				neg, resumed, declared, declOK, err := ccHandshakeDecl(cache, t, authCmd, vc, breakIt, stall, "", clientAuth)
				var r, full string
				full = "~|none|~|0|-"
				var sre *security.SessionResumptionError
				switch {
				case err == nil && resumed:
					r = fmt.Sprintf("ok resumed sid=%s keyed=%s user=%s auth=%s", neg.SessionId, b01(len(neg.GetSharedSecret()) > 0), tokEsc(neg.User), b01(neg.Authentication))
					// ---- property oracle C07 ----
					if req && !authOf[neg.SessionId] {
						c.Violate(Violation{Property: "C03", Key: "C03:client-resumed-unauthenticated-under-required", What: "a client whose policy marks authentication REQUIRED returned success by resuming a session that was established without authentication",
							Ops: append(append([]string{}, ops...), fmt.Sprintf("# handshake tag=%q addr=%s cmd=%s Authentication=REQUIRED", t.tag, t.addr, t.cmd)), Expected: "a full handshake in which authentication runs", Observed: "resumed " + neg.SessionId})
					}
					// a client resumes only for a command the server declared valid for that session: the
					// command of the connection (Command), whatever AuthCommand says
					if !declaredFor[neg.SessionId][t.cmd] {
						c.Violate(Violation{Property: "C07", Key: "C07:resumed-for-undeclared-command", What: "the client resumed a session for a connection whose command the server did not declare valid for that session",
							Ops: append(append([]string{}, ops...), hsNote), Expected: "a full handshake: the server declared session " + neg.SessionId + " valid for {" + ccSet(declaredFor[neg.SessionId]) + "} only", Observed: "resumed " + neg.SessionId + " for command " + t.cmd})
					}
					want, ok := ref[t]
					if !ok || want != neg.SessionId || expired[neg.SessionId] {
						c.Violate(Violation{Property: "C07", Key: "C07:reused-wrong-session", What: "client resumed a cached session that the reference map does not allow for this (tag, server, command)",
							Ops: append(append([]string{}, ops...), fmt.Sprintf("# handshake tag=%q addr=%s cmd=%s", t.tag, t.addr, t.cmd)), Expected: fmt.Sprintf("%q (present=%v)", want, ok), Observed: neg.SessionId})
					}
				case errors.As(err, &sre):
					// the same clause on an attempt that did not succeed: the resumption request named a
					// session for a command the server never declared valid for it
					if !declaredFor[sre.SessionID][t.cmd] {
						c.Violate(Violation{Property: "C07", Key: "C07:resumption-attempted-for-undeclared-command", What: "the client asked to resume a session for a connection whose command the server did not declare valid for that session (the attempt failed, and the session was thrown away with it)",
							Ops: append(append([]string{}, ops...), hsNote), Expected: "a full handshake: the server declared session " + sre.SessionID + " valid for {" + ccSet(declaredFor[sre.SessionID]) + "} only", Observed: "resumption of " + sre.SessionID + " attempted for command " + t.cmd})
					}
					r = "ok resume-failed sid=" + sre.SessionID
					if answer == "authorized" {
						r = "ok resume-failed-unexpectedly sid=" + sre.SessionID
					}
					// spec rule: a failed resumption drops the session and all its routes
					for tt, sid := range ref {
						if sid == sre.SessionID {
							delete(ref, tt)
						}
					}
				case err == nil:
					// The commands the session may be reused for are those the SERVER declared (the
					// post-auth ad as it travelled, opened with the reference codec under the server's
					// key) — not what the client says it understood.
					if !declOK {
						// could not read the server's ad from the wire: use what the server side was
						// configured to declare (its PostAuthPolicy's list, else the negotiated command)
						c.Count("declaration-unreadable")
						c.Res.Notes = append(c.Res.Notes, "clientcache: post-auth ad could not be opened from the wire; declaration taken from the server's configuration")
						var l []string
						for _, x := range vc {
							l = append(l, fmt.Sprint(x))
						}
						if len(l) == 0 {
							l = []string{t.cmd}
						}
						declared = strings.Join(l, ",")
					} else {
						c.Count("declaration-read-from-wire")
					}
					key := "none"
					if len(neg.GetSharedSecret()) > 0 {
						key = "1"
					}
					full = fmt.Sprintf("%s|%s|%s|%s|%s", neg.SessionId, key, tokEsc(neg.User), b01(neg.Authentication), declared)
					r = "ok full sid=" + neg.SessionId
					sids = append(sids, neg.SessionId)
					authOf[neg.SessionId] = neg.Authentication
					if canonList(neg.ValidCommands) != canonList(declared) {
						c.Violate(Violation{Property: "C07", Key: "C07:client-valid-commands-not-as-declared", What: "the set of commands the client records as valid for the new session differs from what the server declared in its post-auth ad",
							Ops: append(append([]string{}, ops...), fmt.Sprintf("# full handshake tag=%q addr=%s cmd=%s", t.tag, t.addr, t.cmd)), Expected: canonList(declared), Observed: canonList(neg.ValidCommands)})
					}
					if wantSid, ok := ref[t]; ok && !expired[wantSid] && !breakIt {
						if _, found := security.GetSessionCache().LookupNonExpired(wantSid); found {
							// a live, known session existed for exactly this triple and was not used: allowed (not a violation of C07)
							c.Count("full-although-cached")
						}
					}
					declaredFor[neg.SessionId] = map[string]bool{}
					for _, cm := range strings.Split(declared, ",") {
						cm = strings.TrimSpace(cm)
						if cm != "" {
							ref[triple{t.tag, t.addr, cm}] = neg.SessionId
							declaredFor[neg.SessionId][cm] = true
						}
					}
				default:
					r = "ok full sid=~" // full handshake attempted and failed (broken connection)
				}
				log(fmt.Sprintf("chs tag=%s addr=%s cmd=%s answer=%s req=%s full=%s", strOrTilde(t.tag), t.addr, t.cmd, answer, b01(req), full), r)
			case k == 6 && len(sids) > 0 && c.Rng.Intn(3) != 0:
				// a handshake that names a cached session by id (the pre-registered / claim-session
				// path) under an arbitrary (tag, server, command): it resumes that session whatever the
				// triple is, and must leave the routes alone — no later ordinary handshake for this
				// triple may ride a session established under another one
				sid := pick(c, sids)
				t := pick(c, all)
				answer := "authorized"
				_, clientHas := cache.LookupNonExpired(sid)
				if _, found := security.GetSessionCache().LookupNonExpired(sid); !found {
					answer = "sidNotFound"
				}
				// the client's own authentication policy varies here too: under REQUIRED a session that
				// was established without authentication must not be ridden by naming its id either
				// (the client refuses locally, the cached session stays as it is)
				cidAuth := pick(c, []security.SecurityLevel{security.SecurityPreferred, security.SecurityNever, security.SecurityRequired, security.SecurityRequired})
				cidReq := cidAuth == security.SecurityRequired
				if cidReq {
					// prefer a session that was established without authentication, when there is one
					var un []string
					for _, x := range sids {
						if !authOf[x] {
							un = append(un, x)
						}
					}
					if len(un) > 0 && c.Rng.Intn(4) != 0 {
						sid = pick(c, un)
						_, clientHas = cache.LookupNonExpired(sid)
						answer = "authorized"
						if _, found := security.GetSessionCache().LookupNonExpired(sid); !found {
							answer = "sidNotFound"
						}
					}
				}
				refusedLocally := cidReq && clientHas && !authOf[sid]
				if cidReq {
					c.Count("op:explicit-sid-required")
				}
				if refusedLocally {
					c.Count("op:explicit-sid-required-unauthenticated-session")
				}
				neg, resumed, err := ccHandshake(cache, t, nil, false, false, sid, cidAuth)
				var sre *security.SessionResumptionError
				r := "ok other"
				switch {
				case err == nil && resumed:
					r = "ok resumed sid=" + neg.SessionId
					if cidReq && !authOf[neg.SessionId] {
						c.Violate(Violation{Property: "C03", Key: "C03:client-explicit-sid-resumed-unauthenticated-under-required", What: "a client whose policy marks authentication REQUIRED returned success by resuming, through an explicit SessionID, a session that was established without authentication",
							Ops: append(append([]string{}, ops...), fmt.Sprintf("# handshake SessionID=%s tag=%q addr=%s cmd=%s Authentication=REQUIRED", sid, t.tag, t.addr, t.cmd)), Expected: "SessionResumptionError (the caller performs a full handshake, in which authentication runs)", Observed: fmt.Sprintf("resumed %s, Authentication=%v", neg.SessionId, neg.Authentication)})
					}
				case errors.As(err, &sre):
					r = "ok resume-failed sid=" + sre.SessionID
					if clientHas && !refusedLocally {
						// the server refused a session the client held: it is dropped with its routes
						for tt, x := range ref {
							if x == sid {
								delete(ref, tt)
							}
						}
					}
				}
				c.Count("op:explicit-sid")
				log(fmt.Sprintf("cid sid=%s answer=%s req=%s", sid, answer, b01(cidReq)), r)
			case k == 6 && len(sids) > 0: // server restart: forgets everything
				security.ClearSessionCache()
				log("# server restart", "")
				ops, real = ops[:len(ops)-1], real[:len(real)-1]
				c.Count("op:restart")
			case k == 7 && len(sids) > 0:
				sid := pickSid()
				expireEntry(cache, sid)
				expired[sid] = true
				log("cexpire "+sid, "ok")
			case k == 8 && len(sids) > 0:
				sid := pickSid()
				cache.Invalidate(sid)
				for tt, x := range ref {
					if x == sid {
						delete(ref, tt)
					}
				}
				log("cinvalidate "+sid, "ok")
				// ---- property oracle C07: invalidating a session removes every route to it ----
				for key, x := range security.VerifCommandMap(cache) {
					if x == sid {
						c.Violate(Violation{Property: "C07", Key: "C07:route-survives-invalidate", What: "after Invalidate(sid) the command map still holds a mapping that leads to that identifier",
							Ops: append([]string{}, ops...), Expected: "no mapping -> " + sid, Observed: key + " -> " + x})
					}
				}
			case k == 9:
				cache.InvalidateExpired()
				for tt, x := range ref {
					if expired[x] {
						delete(ref, tt)
					}
				}
				log("cgc", "ok")
				// ---- property oracle C07: after the expiry sweep no mapping leads to an identifier the cache does not hold ----
				held := map[string]bool{}
				for _, e := range cache.Snapshot() {
					held[e.ID()] = true
				}
				for key, x := range security.VerifCommandMap(cache) {
					if !held[x] {
						c.Violate(Violation{Property: "C07", Key: "C07:dangling-route-after-sweep", What: "after InvalidateExpired the command map holds a mapping that leads to an identifier the cache does not hold (an expired session whose entry a by-id lookup had already dropped keeps its routes)",
							Ops: append([]string{}, ops...), Expected: "every mapping leads to a cached session", Observed: key + " -> " + x})
					}
				}
			case k == 10 && len(sids) > 0:
				// a by-id lookup (LookupNonExpired — what the explicit-SessionID path and the server's
				// resumption path call): an expired entry is dropped on the way, its mappings are not
				sid := pickSid()
				r := "ok none"
				if e, ok := cache.LookupNonExpired(sid); ok {
					r = "ok sid=" + e.ID()
				}
				c.Count("op:lookup-by-id")
				log("cget "+sid, r)
			}
			// the RAW command map (key -> sid, sorted) against the model's: LookupByCommand cannot show a
			// mapping whose session is gone
			log("cmap", "ok"+ccRawMap(cache))
			// compare every route with the model, and with the reference map
			for _, t := range all {
				e, ok := cache.LookupByCommand(t.tag, t.addr, t.cmd)
				r := "ok none"
				if ok {
					r = "ok sid=" + e.ID()
				}
				log(fmt.Sprintf("clookup tag=%s addr=%s cmd=%s", strOrTilde(t.tag), t.addr, t.cmd), r)
				want, has := ref[t]
				if has && expired[want] {
					has = false
				}
				if ok != has || (ok && e.ID() != want) {
					c.Violate(Violation{Property: "C07", Key: "C07:route-differs-from-reference", What: "the cache routes (tag, server, command) to a session the reference map does not (or misses one it has)",
						Ops: append(append([]string{}, ops...), fmt.Sprintf("# route tag=%q addr=%s cmd=%s", t.tag, t.addr, t.cmd)), Expected: fmt.Sprintf("%q present=%v", want, has), Observed: r})
				}
			}
		}
		c.Distinct(strings.Join(ops, "\n")+"\n"+strings.Join(dims, " "), len(seen) >= 2)
		if i < 2 {
			c.Sample(map[string]any{"ops": abbreviate(ops), "real": abbreviate(real)})
		}
		cases = append(cases, Case{Label: fmt.Sprintf("clientcache#%d", i), Ops: ops, Real: real})
	}
	cases = append(cases, ccRetryCases(c)...)
	ccKeylessClient(c)
	ccSidCollision(c)
	security.ClearSessionCache()
	return diffBatch(c, "sc", cases, nil)
}

// ccRetryCases drives the PUBLIC client entry point (client.ConnectAndAuthenticateWithConfig, the
// drop-on-failure retry of the property) against a real server.Server over loopback TCP:
// full handshake -> resumption -> server restart (its session store forgotten) -> the next call must
// come back with a FULL handshake on a fresh connection (the failed resumption dropped the cached
// session and its routes), and the one after that resumes the new session. The client is configured
// with and without PeerName: a session is filed under PeerName when there is one, else under the
// address the stream is connected to — never both.
func ccRetryCases(c *Ctx) []Case {
	var cases []Case
	const cmd = 60007
	srvCfg := srvConf(true)
	srvCfg.Authentication = security.SecurityOptional
	srv := server.New(srvCfg)
	srv.Handle(cmd, func(ctx context.Context, sc *server.Conn) error { return nil })
	ln, err := net.Listen("tcp", "127.0.0.1:0")
	if err != nil {
		c.Res.Notes = append(c.Res.Notes, "clientcache/retry: cannot listen on loopback: "+err.Error())
		return nil
	}
	defer ln.Close()
	sctx, scancel := context.WithCancel(context.Background())
	defer scancel()
	go func() { _ = srv.Serve(sctx, ln) }()
	addr := ln.Addr().String()
	for i := 0; i < c.Pick(8, 60); i++ {
		security.ClearSessionCache()
		cache := security.NewSessionCache()
		peerName := ""
		if i%2 == 1 {
			peerName = fmt.Sprintf("daemon-%d.pool.example", i)
		}
		tag := pick(c, []string{"", "T1"})
		filed, other := addr, peerName // where the spec files the session, and where it must NOT be found
		if peerName != "" {
			filed, other = peerName, addr
		}
		var ops, real []string
		log := func(o, r string) { ops = append(ops, o); real = append(real, r) }
		log("reset", "ok")
		viol := func(key, what, exp, obs string) {
			c.Violate(Violation{Property: "C07", Key: "C07:" + key, What: what, Ops: append([]string{}, ops...), Expected: exp, Observed: obs})
		}
		connect := func() (*security.SecurityNegotiation, error) {
			ctx, cancel := context.WithTimeout(context.Background(), ccHonestBound)
			defer cancel()
			sec := &security.SecurityConfig{AuthMethods: toMethods([]string{"CLAIMTOBE"}), Authentication: security.SecurityPreferred,
				CryptoMethods: toCiphers([]string{"AES"}), Encryption: security.SecurityOptional, Integrity: security.SecurityOptional,
				Command: cmd, SessionCache: cache, PeerName: peerName, SecurityTag: tag}
			cl, err := client.ConnectAndAuthenticateWithConfig(ctx, &client.ClientConfig{Address: addr, Security: sec, Timeout: 10 * time.Second, ClientName: "c07"})
			if err != nil {
				return nil, err
			}
			defer cl.Close()
			return cl.GetSecurityNegotiation(), nil
		}
		chs := func(answer, full string) string {
			return fmt.Sprintf("chs tag=%s addr=%s cmd=%d answer=%s req=0 full=%s", tokEsc(tag), tokEsc(filed), cmd, answer, full)
		}
		fullOf := func(n *security.SecurityNegotiation) string {
			return fmt.Sprintf("%s|1|%s|%s|%s", tokEsc(n.SessionId), tokEsc(n.User), b01(n.Authentication), canonList(n.ValidCommands))
		}
		lookups := func(want string) {
			for _, a := range []string{filed, other} {
				if a == "" {
					continue
				}
				e, ok := cache.LookupByCommand(tag, a, fmt.Sprint(cmd))
				r := "ok none"
				if ok {
					r = "ok sid=" + tokEsc(e.ID())
				}
				log(fmt.Sprintf("clookup tag=%s addr=%s cmd=%d", tokEsc(tag), tokEsc(a), cmd), r)
				if a == filed && (!ok || e.ID() != want) {
					viol("session-filed-under-wrong-address", "after a full handshake the session is not routed under the name the client knows the server by (PeerName when set, else the address the stream is connected to)", "route ("+filed+") -> "+want, r)
				}
				if a == other && ok {
					viol("session-filed-under-wrong-address", "the session is ALSO routed under the name that does not apply (stream address although PeerName is set, or vice versa)", "no route under "+other, r)
				}
			}
		}
		// 1. full handshake
		n1, err := connect()
		if err != nil || n1 == nil || n1.SessionResumed || n1.SessionId == "" {
			c.Res.Notes = append(c.Res.Notes, fmt.Sprintf("clientcache/retry: first connection did not complete a full handshake: %v", err))
			continue
		}
		log(chs("authorized", fullOf(n1)), "ok full sid="+tokEsc(n1.SessionId))
		lookups(n1.SessionId)
		// 2. resumption
		n2, err := connect()
		if err != nil || n2 == nil {
			viol("resume-failed-unexpectedly", "the second connection to the same server for the same command and tag failed", "resumed "+n1.SessionId, fmt.Sprint(err))
			continue
		}
		if n2.SessionResumed {
			log(chs("authorized", "~|none|~|0|-"), fmt.Sprintf("ok resumed sid=%s keyed=%s user=%s auth=%s", tokEsc(n2.SessionId), b01(len(n2.GetSharedSecret()) > 0), tokEsc(n2.User), b01(n2.Authentication)))
			if n2.SessionId != n1.SessionId {
				viol("reused-wrong-session", "the client resumed another session than the one cached for this (tag, server, command)", n1.SessionId, n2.SessionId)
			}
			c.Count("retry:resumed-before-restart")
		} else {
			c.Count("retry:second-connection-not-resumed")
			log(chs("authorized", fullOf(n2)), "ok full sid="+tokEsc(n2.SessionId))
			n1 = n2
		}
		// 3. server restart: it no longer knows the session. The public entry point must come back
		// with a full handshake (failed resumption -> cached session dropped -> retry on a fresh connection).
		security.ClearSessionCache()
		c.Count("retry:server-restart")
		n3, err := connect()
		log(chs("sidNotFound", "~|none|~|0|-"), "ok resume-failed sid="+tokEsc(n1.SessionId))
		if err != nil || n3 == nil {
			log(chs("authorized", "~|none|~|0|-"), "ok no-retry")
			viol("no-full-handshake-after-failed-resumption", "after the server forgot the session, client.ConnectAndAuthenticateWithConfig did not come back with a full handshake (the drop-on-failure retry is missing or the cached session was not dropped)", "authenticated connection through a full handshake", fmt.Sprintf("error class %s", ccErrClass(err)))
		} else {
			if n3.SessionResumed || n3.SessionId == n1.SessionId {
				viol("dead-session-reused", "after the server forgot the session the client still reports it as resumed", "a new session from a full handshake", fmt.Sprintf("resumed=%v sid=%s", n3.SessionResumed, n3.SessionId))
			}
			log(chs("authorized", fullOf(n3)), "ok full sid="+tokEsc(n3.SessionId))
			if _, still := cache.Lookup(n1.SessionId); still {
				viol("failed-session-not-dropped", "the session whose resumption failed is still in the client's cache", "dropped", "present")
			}
			lookups(n3.SessionId)
			// 4. and the new session is resumable
			n4, err := connect()
			if err == nil && n4 != nil && n4.SessionResumed {
				log(chs("authorized", "~|none|~|0|-"), fmt.Sprintf("ok resumed sid=%s keyed=%s user=%s auth=%s", tokEsc(n4.SessionId), b01(len(n4.GetSharedSecret()) > 0), tokEsc(n4.User), b01(n4.Authentication)))
				if n4.SessionId != n3.SessionId {
					viol("reused-wrong-session", "the client resumed another session than the one cached for this (tag, server, command)", n3.SessionId, n4.SessionId)
				}
			} else {
				c.Count("retry:fourth-connection-not-resumed")
			}
		}
		c.Count(fmt.Sprintf("retry:peername-set:%v", peerName != ""))
		c.Distinct(strings.Join(ops, "\n"), true)
		cases = append(cases, Case{Label: fmt.Sprintf("clientcache/retry#%d", i), Ops: ops, Real: real})
	}
	return cases
}

// ccRawMap renders the cache's command map as the oracle's `cmap` does: " key->sid" sorted by key.
func ccRawMap(cache *security.SessionCache) string {
	var rows []string
	for k, v := range security.VerifCommandMap(cache) {
		rows = append(rows, k+"->"+strOrTilde(v))
	}
	sort.Strings(rows)
	var b strings.Builder
	for _, r := range rows {
		b.WriteString(" " + r)
	}
	return b.String()
}

// ccErrClass: a class for an error of the public client entry point (never its text).
func ccErrClass(err error) string {
	var sre *security.SessionResumptionError
	switch {
	case err == nil:
		return "none"
	case errors.As(err, &sre):
		return "resumption-failed"
	case errors.Is(err, context.DeadlineExceeded), errors.Is(err, context.Canceled):
		return "cancelled"
	}
	return "other"
}

// ccSet renders a set of commands sorted.
func ccSet(m map[string]bool) string {
	var o []string
	for k := range m {
		o = append(o, k)
	}
	sort.Strings(o)
	return strings.Join(o, ",")
}

// canonList: a comma-separated list as a sorted set of trimmed non-empty items.
func canonList(l string) string {
	var o []string
	seen := map[string]bool{}
	for _, x := range strings.Split(l, ",") {
		x = strings.TrimSpace(x)
		if x != "" && !seen[x] {
			seen[x] = true
			o = append(o, x)
		}
	}
	sort.Strings(o)
	return strings.Join(o, ",")
}

// ccKeylessClient: the CLIENT side of "a session without a key is never resumed". The client's cache
// holds a session whose key material is absent / empty / not an AES-GCM key (a session established
// with no common cipher, or stored that way by the application); the peer is a server that answers
// ANY resumption request with AUTHORIZED and keys nothing (a rogue or broken server). Whether the
// session is reached through its command route or named explicitly (SecurityConfig.SessionID), the
// client must not report a successful handshake on a plaintext stream: a resumed connection is
// protected by the session key or it does not exist. Implementation observables only (no model op).
func ccKeylessClient(c *Ctx) {
	type variant struct {
		name string
		ki   *security.KeyInfo
	}
	key32 := keyBytes(9)
	variants := []variant{
		{"nil", nil},
		{"data-nil/AES", &security.KeyInfo{Data: nil, Protocol: "AES"}},
		{"data-empty/AES", &security.KeyInfo{Data: []byte{}, Protocol: "AES"}},
		{"data/3DES", &security.KeyInfo{Data: key32, Protocol: "3DES"}},
		{"data/BLOWFISH", &security.KeyInfo{Data: key32, Protocol: "BLOWFISH"}},
		{"data/empty-protocol", &security.KeyInfo{Data: key32, Protocol: ""}},
	}
	for _, v := range variants {
		for _, explicit := range []bool{false, true} {
			for _, encLevel := range []security.SecurityLevel{security.SecurityOptional, security.SecurityRequired} {
				cache := security.NewSessionCache()
				pol := classad.New()
				_ = pol.Set("Authenticated", true)
				_ = pol.Set("User", "alice@pool")
				_ = pol.Set("AuthMethods", "CLAIMTOBE")
				if v.ki != nil {
					_ = pol.Set("CryptoMethods", v.ki.Protocol)
				}
				const sid = "srv:1:1:7"
				cache.Store(security.NewSessionEntry(sid, "srvA", v.ki, pol, time.Now().Add(time.Hour), 30*time.Minute, ""))
				cache.MapCommand("", "srvA", "60007", sid)
				ca, cb := bufpipe.Pair("10.0.0.1:1111", "10.0.0.2:9618")
				ctx, cancel := context.WithTimeout(context.Background(), ccHonestBound)
				var wg sync.WaitGroup
				var sawResume bool
				wg.Add(1)
				go func() {
					defer wg.Done()
					// the rogue server: read the first message; if it is a resumption request say AUTHORIZED
					sst := stream.NewStream(cb)
					m := message.NewMessageFromStream(sst)
					if _, err := m.GetInt(ctx); err != nil {
						cb.Close()
						return
					}
					ad, err := m.GetClassAd(ctx)
					if err != nil {
						cb.Close()
						return
					}
					if us, _ := ad.EvaluateAttrString("UseSession"); us != "YES" {
						cb.Close() // a full handshake: this server cannot do one
						return
					}
					sawResume = true
					r := classad.New()
					_ = r.Set("ReturnCode", "AUTHORIZED")
					_ = r.Set("Sid", sid)
					out := message.NewMessageForStream(sst)
					_ = out.PutClassAd(ctx, r)
					_ = out.FinishMessage(ctx)
					// keep the connection until the client is done
					buf := make([]byte, 64)
					_, _ = cb.Read(buf)
				}()
				cst := stream.NewStream(ca)
				cc := &security.SecurityConfig{AuthMethods: toMethods([]string{"CLAIMTOBE"}), Authentication: security.SecurityPreferred,
					CryptoMethods: toCiphers([]string{"AES"}), Encryption: encLevel, Integrity: security.SecurityOptional,
					Command: 60007, SessionCache: cache, PeerName: "srvA"}
				if explicit {
					cc.SessionID = sid
				}
				a := security.NewAuthenticator(cc, cst)
				neg, err := a.ClientHandshake(ctx)
				encrypted := cst.IsEncrypted()
				ca.Close()
				wg.Wait()
				cancel()
				path := "command-route"
				if explicit {
					path = "explicit-SessionID"
				}
				c.Count("keyless-client:" + path + ":" + v.name)
				c.Distinct(fmt.Sprintf("keyless-client|%s|%s|%s", path, v.name, encLevel), true)
				ops := []string{fmt.Sprintf("# client cache: session %s for srvA with KeyInfo %s, Authenticated=true; route (no tag, srvA, 60007) -> it", sid, v.name),
					fmt.Sprintf("# ClientHandshake via %s, Encryption=%s, against a server that answers every resumption request AUTHORIZED and installs no key", path, encLevel)}
				if err == nil && !encrypted {
					obs := fmt.Sprintf("handshake returned success, stream plaintext, resumption request sent=%v", sawResume)
					if neg != nil {
						obs += fmt.Sprintf(", Authentication=%v User=%q Encryption=%v", neg.Authentication, neg.User, neg.Encryption)
					}
					c.Violate(Violation{Property: "C06", Key: "C06:client-resumed-keyless-session:" + path, What: "the client resumed a cached session that carries no usable key: the handshake reports success (with the cached identity) on a stream that no key protects",
						Ops: ops, Expected: "no resumption: a SessionResumptionError, or a full handshake", Observed: obs})
					if encLevel == security.SecurityRequired {
						c.Violate(Violation{Property: "C03", Key: "C03:encryption-required-plaintext-after-resume:" + path, What: "a client whose policy marks encryption REQUIRED returned success from a (resumed) handshake on a plaintext stream",
							Ops: ops, Expected: "error", Observed: obs})
					}
				}
			}
		}
	}
}
