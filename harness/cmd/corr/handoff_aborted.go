package main

// handoff_aborted.go — export after an inbound message was ABANDONED half way (engine handoff, C15).
// "Export is refused whenever the stream holds any partially consumed message": a receive call that
// accepted the leading frame(s) of a multi-frame message and then failed (a frame that does not open,
// a connection that ended) leaves the stream having consumed part of a message that was never
// delivered — its receive counter is past frames whose message is unfinished.  Whoever imported such
// a state would take the remaining frames of that message for a complete message (a truncated
// delivery that authenticates).  Property oracle on the implementation only (the stream model has no
// operation for a receive that fails after consuming frames); the scenario is driven through the
// shared stream world so that the session is an ordinary keyed one with traffic both ways.

import (
	"fmt"
)

func handoffAbortedRead(c *Ctx, idx int) {
	w := newWorldAddr()
	if c.Rng.Intn(2) == 0 {
		prelude(c, w, 2)
	}
	w.key("A", 21)
	w.key("B", 21)
	// a protected frame in both directions: export is legitimate from here on
	for _, p := range [][2]string{{"A", "B"}, {"B", "A"}} {
		if w.send(p[0], 1, randBytes(c, 1+c.Rng.Intn(20))) != nil {
			return
		}
		if _, err := w.recvc(p[1]); err != nil {
			return
		}
	}
	from, to := "A", "B"
	if c.Rng.Intn(2) == 0 {
		from, to = "B", "A"
	}
	if blob, err := w.export(to); err != nil || len(blob) == 0 {
		c.Count("aborted-read:precondition-export-refused")
		return
	}
	// the leading frame(s) of a multi-frame message, then something that is not the next frame
	lead := 1 + c.Rng.Intn(3)
	for i := 0; i < lead; i++ {
		if w.send(from, 0, randBytes(c, 1+c.Rng.Intn(40))) != nil {
			return
		}
	}
	w.deliver(to)
	e := w.ep(to)
	kind := c.Rng.Intn(3)
	switch kind {
	case 0: // a frame that does not open under the session key
		n := 17 + c.Rng.Intn(40)
		e.c.Feed(append([]byte{1, 0, 0, 0, byte(n)}, randBytes(c, n)...))
	case 1: // a truncated frame, then the end of the connection
		e.c.Feed([]byte{1, 0, 0, 0, 40, 1, 2, 3}) // and nothing more: the in-memory connection reports EOF
	case 2: // the connection ends between two frames of the message (nothing more to read: EOF)
	}
	// Only StartMessageRead: it is the receive call after whose failure the stream itself still HOLDS the
	// consumed frames (its receive buffer) — the clause's wording.  ReceiveCompleteMessage drops what it
	// had accumulated and the frame-level calls hand each frame to the caller, so after their failure
	// the stream holds nothing and the clause does not speak (observed: export is then accepted; DESIGN §4 C15).
	api := 0
	err := e.s.StartMessageRead(bg)
	c.Count(fmt.Sprintf("aborted-read:kind%d:api%d", kind, api))
	c.Distinct(fmt.Sprintf("aborted|%d|%d|%d|%d", idx, kind, api, lead), true)
	if err == nil {
		c.Count("aborted-read:receive-did-not-fail")
		return
	}
	blob, xerr := e.s.ExportCryptoState()
	if xerr == nil {
		c.Violate(Violation{Property: "C15", Key: "C15:export-accepted-mid-message:inbound-message-abandoned",
			What:     "ExportCryptoState returned a blob although the stream has consumed the leading frame(s) of an inbound message that was never completed (the receive failed on a later frame): the imported state would take the rest of that message for a whole message",
			Ops:      append(append([]string{}, w.ops...), fmt.Sprintf("%d leading frame(s) of a message consumed by %s, then failure kind %d; export %s", lead, "StartMessageRead", kind, to)),
			Expected: "refused", Observed: fmt.Sprintf("a %d-byte blob", len(blob))})
	} else {
		c.Count("aborted-read:export-refused")
	}
}
