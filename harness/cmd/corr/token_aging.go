package main

// token_aging.go — the SAME token presented more than once, the clock moving between presentations
// (engine token, C11).  "Presents a currently valid token" is a statement about the moment of each
// presentation: a token the server accepted a moment ago and that has meanwhile passed its expiry or
// its maximum age (issued-at + TokenMaxAge) must be refused now, whatever the server remembers about
// it.  Every presentation is a full exchange against the real server with an honest scripted client;
// each is an ordinary server case (compared with the model at the clock of the presentation, judged
// by the engine's own oracle `server-accepts-invalid-time`), plus the explicit expectation below.

import (
	"fmt"
	"time"

	"github.com/bbockelm/cedar/security"
)

type agingTok struct {
	name  string
	spec  tokenSpec
	key   []byte
	sub   string
	later string // verdict expected at the second presentation
}

func tokenAging(c *Ctx, m *tokMat) []Case {
	var cases []Case
	kn := m.baseCfg(c)
	kn.maxAge, kn.envAge = 40, ""
	kn.ks.poolViaEnv, kn.ks.dirViaEnv = false, false
	var toks []agingTok
	// wait for the start of a second, so that the offsets below mean what they say
	for time.Now().Nanosecond() > 200_000_000 {
		time.Sleep(20 * time.Millisecond)
	}
	now := time.Now().Unix()
	present := func(t *agingTok, round int, expect string) (accepted bool) {
		w, cfg := newTokWorld(c, kn.ks, kn.maxAge, kn.envAge, kn.td)
		g := &tgen{c: c, w: w, m: m}
		k := baseServer(g, kn)
		if t.spec.claims == nil {
			switch t.name {
			case "reaches-max-age":
				g.spec.set("iat", fmt.Sprint(now-int64(kn.maxAge)+1))
			case "expires":
				g.spec.set("iat", fmt.Sprint(now))
				g.spec.set("exp", fmt.Sprint(now+2))
			case "stays-valid":
				g.spec.set("iat", fmt.Sprint(now-1))
			}
			t.spec, t.key, t.sub = g.spec, g.key, k.claimed
		}
		g.spec, g.key, k.claimed = t.spec, t.key, t.sub
		g.mint(k)
		k.label, k.expect = fmt.Sprintf("aging:%s:presentation-%d", t.name, round), expect
		before := len(c.Res.Violations)
		cs := w.serverCase(cfg, k)
		cases = append(cases, cs)
		c.Count("aging:presentation")
		_ = before
		return len(cs.Real) > 0 && len(cs.Real[len(cs.Real)-1]) >= 6 && cs.Real[len(cs.Real)-1][:6] == "accept"
	}
	toks = []agingTok{{name: "reaches-max-age", later: "reject"}, {name: "expires", later: "reject"}, {name: "stays-valid", later: "accept"}}
	firstOK := make([]bool, len(toks))
	for i := range toks {
		firstOK[i] = present(&toks[i], 1, "accept")
	}
	time.Sleep(time.Until(time.Unix(now+2, 250_000_000)))
	for i := range toks {
		acc := present(&toks[i], 2, toks[i].later)
		if firstOK[i] {
			c.Count("aging:accepted-then-" + map[bool]string{true: "accepted", false: "refused"}[acc] + ":" + toks[i].name)
		} else {
			c.Count("aging:first-presentation-refused:" + toks[i].name)
		}
	}
	security.ClearSessionCache()
	return cases
}
