package main

import (
	"strings"

	"cedarverif/harness/internal/orc"
)

func runOracle(c *Ctx, engine string, lines []string) ([]string, error) {
	return orc.Run(c.Oracle, engine, lines)
}

// errClass maps a Go error from the stream/message layers onto the model's error classes.
func errClass(err error) string {
	if err == nil {
		return ""
	}
	m := err.Error()
	has := func(s string) bool { return strings.Contains(m, s) }
	switch {
	case has("ExportCryptoState"):
		return "refused"
	case has("NewStreamWithCryptoState"):
		return "malformed"
	case has("message too large"):
		return "tooLarge"
	case has("invalid end flag"), has("unexpected end flag"):
		return "badFlag"
	case has("unauthenticated empty frame"):
		return "plainOnKeyed"
	case has("decrypt"), has("too short"), has("empty encrypted"):
		return "authFail"
	case has("hit maximum number"):
		return "counterMax"
	case has("EOF"), has("closed"):
		return "eof"
	case has("cannot write to message after"), has("already called"), has("no message currently"), has("already reading"):
		return "state"
	case has("not fully consumed"):
		return "notConsumed"
	case has("exceeds maximum allowed size"):
		return "sizeExceeded"
	case has("ExportCryptoState"):
		return "refused"
	case has("NewStreamWithCryptoState"):
		return "malformed"
	}
	return "other:" + strings.ReplaceAll(m, " ", "_")
}
