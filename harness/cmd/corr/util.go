package main

import (
	"io"
	"os"
	"strings"

	"cedarverif/harness/internal/orc"
)

func runOracle(c *Ctx, engine string, lines []string) ([]string, error) {
	if d := os.Getenv("VERIF_DUMP"); d != "" {
		_ = os.WriteFile(d, []byte(strings.Join(lines, "\n")+"\n"), 0o644)
	}
	return orc.Run(c.Oracle, engine, lines)
}

// errClass maps a Go error from the stream/message layers onto the model's error classes.
func errClass(err error) string {
	if err == nil {
		return ""
	}
	if err == io.EOF {
		return "eom" // bare io.EOF: end of the current message
	}
	m := err.Error()
	has := func(s string) bool { return strings.Contains(m, s) }
	switch {
	case has("ExportCryptoState"):
		return "refused"
	case has("NewStreamWithCryptoState"):
		return "malformed"
	case has("message too large"):
		return "tooLarge"
	case has("invalid end flag"), has("unexpected end flag"):
		return "badFlag"
	case has("unauthenticated empty frame"):
		return "plainOnKeyed"
	case has("decrypt"), has("too short"), has("empty encrypted"):
		return "authFail"
	case has("hit maximum number"):
		return "counterMax"
	case has("EOF"), has("closed"):
		return "eof"
	case has("cannot write to message after"), has("already called"), has("no message currently"), has("already reading"):
		return "state"
	case has("not fully consumed"):
		return "notConsumed"
	case has("invalid string length"), has("invalid length"), has("negative"):
		return "malformed"
	case has("exceeds maximum allowed size"):
		return "sizeExceeded"
	case has("ExportCryptoState"):
		return "refused"
	case has("NewStreamWithCryptoState"):
		return "malformed"
	case has("deadline exceeded"), has("context canceled"):
		return "cancelled"
	}
	return "other:" + strings.ReplaceAll(m, " ", "_")
}

// tokEsc renders an arbitrary string as ONE token of a model-input line: the empty string is `~`;
// the bytes the line protocol splits on (space, `|`, `=`), `~`, `%` and anything outside printable
// ASCII travel as %XX. Injective, and the model treats such tokens as opaque names, so equality of
// names is preserved on both sides.
func tokEsc(s string) string {
	if s == "" {
		return "~"
	}
	var b strings.Builder
	for i := 0; i < len(s); i++ {
		ch := s[i]
		if ch <= ' ' || ch >= 0x7f || ch == '|' || ch == '=' || ch == '~' || ch == '%' {
			b.WriteString("%" + strings.ToUpper(string("0123456789abcdef"[ch>>4])) + strings.ToUpper(string("0123456789abcdef"[ch&15])))
		} else {
			b.WriteByte(ch)
		}
	}
	return b.String()
}
