package main

import (
	"context"
	"errors"
	"io"
	"net"
	"os"
	"strings"

	"cedarverif/harness/internal/orc"
)

func runOracle(c *Ctx, engine string, lines []string) ([]string, error) {
	if d := os.Getenv("VERIF_DUMP"); d != "" {
		_ = os.WriteFile(d, []byte(strings.Join(lines, "\n")+"\n"), 0o644)
	}
	return orc.Run(c.Oracle, engine, lines)
}

// errClass maps a Go error from the stream/message layers onto the model's error classes.
//
// Identity first, text last: sentinel errors are recognised with errors.Is / errors.As wherever the
// library wraps them; the wording of a message is consulted only for classes the library expresses
// in no other way, and an unknown wording is "other:" (accepted by diffBatch wherever the model also
// reports an error). Two points of order matter:
//   - a BARE io.EOF is "end of the current message" (the library's own callers test `err == io.EOF`);
//     an io.EOF that arrives WRAPPED ("failed to read frame header: %w") is the connection ending;
//   - the letters "EOF" / "closed" inside a message are the weakest evidence there is ("failed to read
//     EOF marker: ..." is about a file marker): they are looked at after every specific class, and
//     "EOF" only as the cause at the end of the chain of messages.
func errClass(err error) string {
	if err == nil {
		return ""
	}
	if err == io.EOF {
		return "eom" // bare io.EOF: end of the current message
	}
	m := err.Error()
	has := func(s string) bool { return strings.Contains(m, s) }
	switch {
	case has("ExportCryptoState"):
		return "refused"
	case has("NewStreamWithCryptoState"):
		return "malformed"
	case has("message too large"):
		return "tooLarge"
	case has("invalid end flag"), has("unexpected end flag"):
		return "badFlag"
	case has("unauthenticated empty frame"):
		return "plainOnKeyed"
	case has("decrypt"), has("too short"), has("empty encrypted"):
		return "authFail"
	case has("hit maximum number"):
		return "counterMax"
	case has("cannot write to message after"), has("already called"), has("no message currently"), has("already reading"):
		return "state"
	case has("not fully consumed"):
		return "notConsumed"
	case has("invalid string length"), has("invalid length"), has("negative"):
		return "malformed"
	case has("exceeds maximum allowed size"):
		return "sizeExceeded"
	case errors.Is(err, context.Canceled), errors.Is(err, context.DeadlineExceeded), has("deadline exceeded"), has("context canceled"):
		return "cancelled"
	case errors.Is(err, io.EOF), errors.Is(err, io.ErrUnexpectedEOF), errors.Is(err, net.ErrClosed), errors.Is(err, io.ErrClosedPipe):
		return "eof"
	case strings.HasSuffix(m, "EOF"), has(": EOF"), has("unexpected EOF"), has("closed"):
		return "eof" // a cause wrapped without %w
	}
	return "other:" + strings.Join(strings.Fields(m), "_") // every run of white space (errors.Join puts newlines): one token
}

// tokEsc renders an arbitrary string as ONE token of a model-input line: the empty string is `~`;
// the bytes the line protocol splits on (space, `|`, `=`), `~`, `%` and anything outside printable
// ASCII travel as %XX. Injective, and the model treats such tokens as opaque names, so equality of
// names is preserved on both sides.
func tokEsc(s string) string {
	if s == "" {
		return "~"
	}
	var b strings.Builder
	for i := 0; i < len(s); i++ {
		ch := s[i]
		if ch <= ' ' || ch >= 0x7f || ch == '|' || ch == '=' || ch == '~' || ch == '%' {
			b.WriteString("%" + strings.ToUpper(string("0123456789abcdef"[ch>>4])) + strings.ToUpper(string("0123456789abcdef"[ch&15])))
		} else {
			b.WriteByte(ch)
		}
	}
	return b.String()
}
