package main

// C19, blocking calls that take no context: a SCITOKENS handshake makes the SERVER verify the
// client's token by OIDC discovery -- two HTTP requests to the issuer named in the token. The
// issuer here is a local listener that accepts connections and never answers. Once the server is
// inside that request the handshake's context is cancelled (or its deadline passes): the property
// demands a prompt return with an error and a closed connection, "no matter at which read or
// write the peer stalls" -- the stalling peer is the issuer.

import (
	"context"
	"encoding/base64"
	"encoding/json"
	"fmt"
	"net"
	"sync"
	"sync/atomic"
	"time"

	"cedarverif/harness/internal/bufpipe"

	"github.com/bbockelm/cedar/security"
	"github.com/bbockelm/cedar/stream"
)

type muteListener struct {
	ln       net.Listener
	accepted atomic.Int64
	mu       sync.Mutex
	conns    []net.Conn
}

func newMuteListener() (*muteListener, error) {
	ln, err := net.Listen("tcp", "127.0.0.1:0")
	if err != nil {
		return nil, err
	}
	m := &muteListener{ln: ln}
	go func() {
		for {
			c, err := ln.Accept()
			if err != nil {
				return
			}
			m.mu.Lock()
			m.conns = append(m.conns, c)
			m.mu.Unlock()
			m.accepted.Add(1)
			// read and discard the request; never answer
			go func() {
				buf := make([]byte, 4096)
				for {
					if _, err := c.Read(buf); err != nil {
						return
					}
				}
			}()
		}
	}()
	return m, nil
}

func (m *muteListener) close() {
	m.ln.Close()
	m.mu.Lock()
	for _, c := range m.conns {
		c.Close()
	}
	m.mu.Unlock()
}

func fakeSciToken(issuer string) string {
	hdr, _ := json.Marshal(map[string]any{"alg": "ES256", "typ": "JWT", "kid": "k1"})
	now := time.Now().Unix()
	pl, _ := json.Marshal(map[string]any{"iss": issuer, "sub": "stall", "iat": now, "exp": now + 600, "scope": "read:/"})
	sig := make([]byte, 64)
	for i := range sig {
		sig[i] = byte(i + 1)
	}
	e := base64.RawURLEncoding.EncodeToString
	return e(hdr) + "." + e(pl) + "." + e(sig)
}

// stallSciTokens runs the scenario once per schedule; returns how many runs reached the issuer.
func stallSciTokens(c *Ctx, mat *stallMaterial, seen map[string]int) {
	for _, sched := range []string{"cancel", "deadline"} {
		ml, err := newMuteListener()
		if err != nil {
			c.Res.Notes = append(c.Res.Notes, "scitokens: no local listener: "+err.Error())
			return
		}
		issuer := "http://" + ml.ln.Addr().String()
		aes := []string{"AES"}
		cli := stallConf([]string{"SCITOKENS"}, "REQUIRED", "OPTIONAL", aes)
		cli.Token, cli.CAFile, cli.ServerName = fakeSciToken(issuer), mat.cert, "cedar.test"
		srv := stallConf([]string{"SCITOKENS"}, "REQUIRED", "OPTIONAL", aes)
		srv.CertFile, srv.KeyFile = mat.cert, mat.key
		a, b := bufpipe.Pair("10.0.0.1:1111", "10.0.0.2:9618")
		sconn := newStallConn(b)
		var ctx context.Context
		var cancel context.CancelFunc
		if sched == "deadline" {
			// the deadline passes while the server waits for the issuer (reaching that point takes
			// a TLS handshake: well under the 2.5 s)
			ctx, cancel = context.WithTimeout(context.Background(), 2500*time.Millisecond)
		} else {
			ctx, cancel = context.WithCancel(context.Background())
		}
		pctx, pcancel := context.WithTimeout(context.Background(), 30*time.Second)
		cliErr := make(chan error, 1)
		go func() {
			_, err := security.NewAuthenticator(cli, stream.NewStream(a)).ClientHandshake(pctx)
			cliErr <- err
		}()
		done := make(chan error, 1)
		go func() {
			_, err := security.NewAuthenticator(srv, stream.NewStream(sconn)).ServerHandshake(ctx)
			done <- err
		}()
		// wait until the server has connected to the issuer (it is then inside the request)
		t0 := time.Now()
		reached := false
		var early error
		earlyRet := false
	wait:
		for time.Since(t0) < stallSetupBound {
			if ml.accepted.Load() > 0 {
				reached = true
				break
			}
			select {
			case early = <-done:
				earlyRet = true
				break wait
			case <-time.After(2 * time.Millisecond):
			}
		}
		op := fmt.Sprintf("hs-scitokens:server issuer-never-answers sched=%s", sched)
		if !reached {
			c.Count("scitokens:issuer-not-reached")
			if earlyRet {
				ce := "?"
				select {
				case e := <-cliErr:
					ce = fmt.Sprint(e)
				case <-time.After(time.Second):
				}
				c.Res.Notes = append(c.Res.Notes, fmt.Sprintf("scitokens (%s): the server handshake ended before contacting the issuer: %s / client: %s", sched, stallRetClass(early), ce))
			}
			cancel()
			pcancel()
			a.Close()
			b.Close()
			ml.close()
			continue
		}
		c.Count("scitokens:issuer-reached")
		c.Distinct(op, true)
		var fired time.Time
		if sched == "cancel" {
			time.Sleep(stallBlockWindow) // let it block
			fired = time.Now()
			cancel()
		} else {
			dl, _ := ctx.Deadline()
			fired = dl
		}
		var ret error
		late := false
		select {
		case ret = <-done:
		case <-time.After(time.Until(fired) + stallReturnBound):
			late = true
		}
		after := time.Since(fired)
		if late {
			stallViolate(c, seen, Violation{Property: "C19", Key: "C19:blocked-past-cancel:hs-scitokens:issuer", What: "a server handshake waiting for the token issuer (an HTTP request made without the handshake's context) did not return after its context was cancelled / its deadline passed",
				Ops: []string{op}, Expected: fmt.Sprintf("return with an error within %v of the context firing", stallReturnBound), Observed: fmt.Sprintf("still blocked %v after the context fired (the request carries its own 10 s timeout and no context)", after.Round(time.Millisecond))})
			// let it run out so that nothing leaks into the next run
			select {
			case <-done:
			case <-time.After(25 * time.Second):
			}
		} else {
			if ret == nil {
				stallViolate(c, seen, Violation{Property: "C19", Key: "C19:no-error:hs-scitokens:issuer", What: "handshake returned success after its context fired while the issuer stalled", Ops: []string{op}, Expected: "an error", Observed: "nil"})
			}
			if !waitClosed(sconn, stallCloseBound) {
				stallViolate(c, seen, Violation{Property: "C19", Key: "C19:not-closed:hs-scitokens:issuer", What: "connection left open after the handshake was cancelled while waiting for the issuer", Ops: []string{op}, Expected: "closed", Observed: "open"})
			}
			c.Count("scitokens:returned-promptly")
		}
		cancel()
		pcancel()
		a.Close()
		b.Close()
		ml.close()
	}
	// say it in the evidence, not only in DESIGN §5/§7: when no run got as far as the issuer request the
	// clause "a handshake blocked on the token issuer returns when its context fires" had NO dynamic
	// coverage in this run (two cedar ends cannot complete the SSL exchange SCITOKENS rides on, so the
	// server never asks the issuer); it then rests on the fact table no_contextless_blocking alone
	if c.Res.Distribution["scitokens:issuer-reached"] == 0 {
		c.Count("clause-without-dynamic-coverage:scitokens-issuer-stall")
		c.Res.Notes = append(c.Res.Notes, fmt.Sprintf("NOT EXERCISED DYNAMICALLY: SCITOKENS issuer stall — %d of %d scripted runs reached the issuer request (cedar<->cedar SSL cannot complete, the server handshake ends before contacting the issuer); the clause is covered only statically, by the translator fact table behind theorem no_contextless_blocking (DESIGN §5 F-C19-scitokens-noctx, §7 mut-scitokens-verify-without-context)",
			c.Res.Distribution["scitokens:issuer-reached"], c.Res.Distribution["scitokens:issuer-reached"]+c.Res.Distribution["scitokens:issuer-not-reached"]))
	}
}
