package main

// C07, clause "a client resumes a cached session only when connecting to the same server address ...
// and under the same security tag the session was established with": the session identifier under
// which the client files a session is chosen by the SERVER. A server the client talks to under
// (tag B, srvB) can hand out the identifier of a session the client already holds for (tag A, srvA);
// the routes of (tag A, srvA) must then not lead to the session established with srvB.

import (
	"bytes"
	"context"
	"fmt"
	"strconv"
	"strings"
	"sync"
	"time"

	"cedarverif/harness/internal/bufpipe"

	"github.com/PelicanPlatform/classad/classad"
	"github.com/bbockelm/cedar/message"
	"github.com/bbockelm/cedar/security"
	"github.com/bbockelm/cedar/stream"
)

// sidFull: a full handshake of a client (tag, addr, cmd) with a real server that maps every identity
// to `user` and declares `cmd` valid.
func sidFull(cache *security.SessionCache, tag, addr string, cmd int, user string) (*security.SecurityNegotiation, error) {
	ca, cb := bufpipe.Pair("10.0.0.1:1111", "10.0.0.2:9618")
	ctx, cancel := context.WithTimeout(context.Background(), ccHonestBound)
	defer cancel()
	defer ca.Close()
	defer cb.Close()
	cst, sst := stream.NewStream(ca), stream.NewStream(cb)
	sst.SetPeerAddr("10.0.0.1:1111")
	var wg sync.WaitGroup
	wg.Add(1)
	go func() {
		defer wg.Done()
		sc := *srvConf(true)
		sc.Authentication = security.SecurityOptional
		sc.SessionCache = security.NewSessionCache()
		sc.PostAuthPolicy = func(authUser, peerAddr string, authenticated, encrypted bool) (string, []int) {
			return user, []int{cmd}
		}
		a := security.NewAuthenticator(&sc, sst)
		if _, e := a.ServerHandshake(ctx); e != nil {
			cb.Close()
		}
	}()
	cc := &security.SecurityConfig{AuthMethods: toMethods([]string{"CLAIMTOBE"}), Authentication: security.SecurityPreferred,
		CryptoMethods: toCiphers([]string{"AES"}), Encryption: security.SecurityOptional, Integrity: security.SecurityOptional,
		Command: cmd, SessionCache: cache, PeerName: addr, SecurityTag: tag}
	a := security.NewAuthenticator(cc, cst)
	neg, err := a.ClientHandshake(ctx)
	if err != nil {
		ca.Close()
	}
	wg.Wait()
	if err == nil && a.WasSessionResumed() {
		return neg, fmt.Errorf("unexpectedly resumed")
	}
	return neg, err
}

// sidResumeProbe: the client connects for (tag, addr, cmd) to a peer that answers every resumption
// request AUTHORIZED and cannot do a full handshake; reports whether the client resumed, and as whom.
func sidResumeProbe(cache *security.SessionCache, tag, addr string, cmd int) (resumed bool, neg *security.SecurityNegotiation) {
	ca, cb := bufpipe.Pair("10.0.0.1:1111", "10.0.0.2:9618")
	ctx, cancel := context.WithTimeout(context.Background(), ccHonestBound)
	defer cancel()
	var wg sync.WaitGroup
	wg.Add(1)
	go func() {
		defer wg.Done()
		sst := stream.NewStream(cb)
		m := message.NewMessageFromStream(sst)
		if _, err := m.GetInt(ctx); err != nil {
			cb.Close()
			return
		}
		ad, err := m.GetClassAd(ctx)
		if err != nil {
			cb.Close()
			return
		}
		if us, _ := ad.EvaluateAttrString("UseSession"); us != "YES" {
			cb.Close()
			return
		}
		sid, _ := ad.EvaluateAttrString("Sid")
		r := classad.New()
		_ = r.Set("ReturnCode", "AUTHORIZED")
		_ = r.Set("Sid", sid)
		out := message.NewMessageForStream(sst)
		_ = out.PutClassAd(ctx, r)
		_ = out.FinishMessage(ctx)
		buf := make([]byte, 64)
		_, _ = cb.Read(buf)
	}()
	cst := stream.NewStream(ca)
	cc := &security.SecurityConfig{AuthMethods: toMethods([]string{"CLAIMTOBE"}), Authentication: security.SecurityPreferred,
		CryptoMethods: toCiphers([]string{"AES"}), Encryption: security.SecurityOptional, Integrity: security.SecurityOptional,
		Command: cmd, SessionCache: cache, PeerName: addr, SecurityTag: tag}
	a := security.NewAuthenticator(cc, cst)
	n, err := a.ClientHandshake(ctx)
	resumed = err == nil && a.WasSessionResumed()
	ca.Close()
	wg.Wait()
	return resumed, n
}

func sidCounterOf(sid string) (uint64, bool) {
	i := strings.LastIndexByte(sid, ':')
	if i < 0 {
		return 0, false
	}
	v, err := strconv.ParseUint(sid[i+1:], 10, 64)
	return v, err == nil
}

// ccSidCollision: (1) full handshake with srvA under tag A -> session S, route (A, srvA, cmd) -> S;
// optionally S expires and is looked up (the entry goes, its routes stay); (2) full handshake with
// srvB under tag B whose server hands out the SAME identifier S, as user "mallory"; (3) the client
// connects to srvA under tag A again. It must not resume the session it established with srvB.
func ccSidCollision(c *Ctx) {
	for _, variant := range []string{"live", "expired-entry-dangling-route"} {
		done := false
		for try := 0; try < 6 && !done; try++ {
			cache := security.NewSessionCache()
			nA, err := sidFull(cache, "A", "srvA", 60007, "alice@pool")
			if err != nil || nA == nil {
				continue
			}
			sid := nA.SessionId
			ctr, ok := sidCounterOf(sid)
			if !ok {
				break
			}
			keyA := append([]byte{}, nA.GetSharedSecret()...)
			if variant != "live" {
				expireEntry(cache, sid)
				cache.LookupNonExpired(sid) // what any lookup does: the expired entry is deleted, its routes are not
			}
			security.VerifSetSessionCounter(ctr - 1) // the hostile server's choice of identifier
			nB, err := sidFull(cache, "B", "srvB", 60007, "mallory@evil")
			if err != nil || nB == nil {
				continue
			}
			if nB.SessionId != sid {
				continue // the clock moved to the next second between the two handshakes: try again
			}
			done = true
			keyB := append([]byte{}, nB.GetSharedSecret()...)
			resumed, n := sidResumeProbe(cache, "A", "srvA", 60007)
			ops := []string{
				"# full handshake, tag A, server srvA, command 60007: session " + sid + " (user alice@pool)",
				"# variant: " + variant,
				"# full handshake, tag B, server srvB: that server hands out the same identifier " + sid + " (user mallory@evil)",
				"# the client connects to srvA under tag A again (peer answers AUTHORIZED to any resumption request)"}
			c.Count("sid-collision:" + variant)
			c.Distinct("sid-collision|"+variant, true)
			if resumed && n != nil && (n.User != "alice@pool" || !bytes.Equal(n.GetSharedSecret(), keyA)) {
				c.Violate(Violation{Property: "C07", Key: "C07:route-leads-to-foreign-session:" + variant,
					What:     "connecting to srvA under tag A the client resumed the session it had established with ANOTHER server under ANOTHER tag (that server handed out an identifier the client already held): identity and key of the resumed session are the other server's",
					Ops:      ops,
					Expected: "no resumption of a session established with srvB/tag B (a full handshake with srvA), or the session established with srvA",
					Observed: fmt.Sprintf("resumed as %q, key is srvB's: %v, key is srvA's: %v", n.User, bytes.Equal(n.GetSharedSecret(), keyB), bytes.Equal(n.GetSharedSecret(), keyA))})
			}
		}
		if !done {
			c.Res.Notes = append(c.Res.Notes, "sid-collision "+variant+": the colliding identifier could not be produced (clock second changed six times in a row)")
			c.Count("sid-collision-not-produced:" + variant)
		}
	}
	_ = time.Now
}
