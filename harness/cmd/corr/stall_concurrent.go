package main

// C19, concurrent handshakes: "every handshake returns promptly with an error once its context is
// cancelled or its deadline passes ... and the connection is then closed" is a statement about each
// handshake on its own -- whatever OTHER handshakes of the same process are doing. A client keeps
// per-peer state that handshakes share (the session cache: one entry per (tag, address, command)),
// so a handshake can come to depend on another one's progress.
//
// History shape: 2-3 client handshakes that share ONE session cache and ONE cache key (same tag,
// same peer name, same command). The first runs under context.Background against a real server and
// its connection stalls for good at I/O step k0 (every step of the shape's trace). While it is
// stuck there -- optionally with a second one stuck at its first step as well -- the handshake
// under test runs on its own connection against its own real server under the usual schedules
// (during / dline / guard / past-cancel / past-dline, stalled at step j of its own trace) and the
// usual three context kinds. It is judged by the same property oracle as a lone handshake: prompt
// return, an error, its connection closed, no I/O after the cancel. (No model comparison: how much
// I/O a handshake that legitimately waits for a sibling has issued is not part of the property.)

import (
	"context"
	"fmt"
	"net"
	"sync"
	"time"

	"cedarverif/harness/internal/bufpipe"

	"github.com/bbockelm/cedar/security"
	"github.com/bbockelm/cedar/stream"
)

const stallConcEnterBound = time.Second // how long the run under test is given to reach its own stalled step

// hsConcurrentSubject: the client handshake of shape sh with `inflight` other client handshakes of the
// same cache and key in flight, the first of them stalled at step k0, the others at their step 0.
func hsConcurrentSubject(sh hsShape, k0, inflight int) stallSubject {
	name := fmt.Sprintf("hs-%s:client+%dinflight@%d", sh.name, inflight, k0)
	return stallSubject{name: name, expectErr: sh.expectErr, concurrent: true, enterBound: stallConcEnterBound, setup: func() (*stallInst, error) {
		cli, srv, err := sh.mk()
		if err != nil {
			return nil, err
		}
		if cli.PeerName == "" {
			cli.PeerName = "srvShared" // the cache key of every connection: (tag, this name, command)
		}
		if cli.SessionCache == nil {
			cli.SessionCache = security.NewSessionCache()
		}
		client := func(ctx context.Context, conn net.Conn) error {
			cc := *cli // private copy of the configuration, SHARED cache
			_, err := security.NewAuthenticator(&cc, stream.NewStream(conn)).ClientHandshake(ctx)
			return err
		}
		server := func(conn net.Conn) {
			sc := *srv
			_, _ = security.NewAuthenticator(&sc, stream.NewStream(conn)).ServerHandshake(context.Background())
		}
		var wg sync.WaitGroup
		var conns []net.Conn
		release := func() {
			for _, c := range conns {
				c.Close()
			}
			done := make(chan struct{})
			go func() { wg.Wait(); close(done) }()
			select {
			case <-done:
			case <-time.After(2 * time.Second):
			}
		}
		for i := 0; i < inflight; i++ {
			a, b := bufpipe.Pair("10.0.0.1:1111", "10.0.0.2:9618")
			fsc := newStallConn(a)
			fsc.stallAt = 0
			if i == 0 {
				fsc.stallAt = k0
			}
			conns = append(conns, fsc, b)
			wg.Add(2)
			go func() { defer wg.Done(); defer func() { _ = recover() }(); server(b) }()
			go func() { defer wg.Done(); defer func() { _ = recover() }(); _ = client(context.Background(), fsc) }()
			select {
			case <-fsc.entered:
			case <-time.After(stallSetupBound):
				release()
				return nil, fmt.Errorf("in-flight handshake %d did not reach its stalled step %d", i, fsc.stallAt)
			}
		}
		return &stallInst{
			run:     client,
			peer:    server,
			cleanup: release,
		}, nil
	}}
}

// concurrentSubjects: for every client shape with a usable fault-free trace, the first handshake
// stalled at every step (quick: first, middle, last and one drawn), alone or with a second one.
func concurrentSubjects(c *Ctx, shapes []hsShape, traces map[string]string) (out []stallSubject, base map[string]string) {
	base = map[string]string{}
	for _, sh := range shapes {
		if sh.expectErr {
			continue // ends in an error of its own whatever the context does
		}
		tr, ok := traces["hs-"+sh.name+":client"]
		if !ok || len(tr) == 0 {
			continue
		}
		n := len(tr)
		ks := map[int]bool{0: true, n / 2: true, n - 1: true, c.Rng.Intn(n): true}
		for k0 := 0; k0 < n; k0++ {
			if !c.Thorough() && !ks[k0] {
				continue
			}
			inflight := 1 + (k0+int(c.Seed))%2
			sub := hsConcurrentSubject(sh, k0, inflight)
			out = append(out, sub)
			base[sub.name] = tr
		}
	}
	return
}
