package main

// eng_token.go — engine `token` (property C11): the real token client / server
// (security.PerformTokenAuthenticationDemo) against a scripted peer performing single-field
// deviations from a valid exchange, and security.VerifyIDToken on mutated tokens; compared with
// the Lean oracle (engine `token`) and checked by the property oracle on the implementation.

import (
	"errors"
	"fmt"
	"os"
	"sort"
	"strings"
	"time"

	"cedarverif/harness/internal/orc"

	"github.com/bbockelm/cedar/security"
	"github.com/bbockelm/cedar/stream"
)

func init() { register(Engine{"token", runToken}) }

// ---- key store ---------------------------------------------------------------------------------

type memCreds struct{ files map[string][]byte }

func (m memCreds) ReadCredential(path string) ([]byte, error) {
	if b, ok := m.files[path]; ok {
		return b, nil
	}
	return nil, &os.PathError{Op: "open", Path: path, Err: os.ErrNotExist}
}

type ksSpec struct {
	poolSet    bool
	pool       []byte // file contents (scrambled form); nil = unreadable
	dirSet     bool
	named      map[string][]byte // kid -> file contents
	poolViaEnv bool
	dirViaEnv  bool
}

// held: the signing key the server holds for a key id, by the property's reading (reference)
func (k ksSpec) held(kid string) []byte {
	if kid == "" || kid == "POOL" {
		if !k.poolSet || len(k.pool) == 0 {
			return nil
		}
		u := refScramble(k.pool)
		return append(append([]byte{}, u...), u...)
	}
	if !k.dirSet || strings.Contains(kid, "/") || strings.Contains(kid, "..") {
		return nil
	}
	f, ok := k.named[kid]
	if !ok || len(f) == 0 {
		return nil
	}
	return refScramble(f)
}

const vkPool = "/vk/pool"
const vkDir = "/vk/d"

type tokWorld struct {
	c    *Ctx
	tb   *termBook
	ops  []string
	real []string
	seen map[string]bool
	ks   ksSpec
}

func (w *tokWorld) log(op, r string) { w.ops = append(w.ops, op); w.real = append(w.real, r) }
func (w *tokWorld) setup(op string)  { w.log(op, "ok") }

func newTokWorld(c *Ctx, ks ksSpec, maxAge int, envMaxAge string, td string) (*tokWorld, *security.SecurityConfig) {
	w := &tokWorld{c: c, tb: newBook(), seen: map[string]bool{}, ks: ks}
	w.setup("new")
	files := map[string][]byte{}
	cfg := &security.SecurityConfig{TokenMaxAge: maxAge, TrustDomain: td}
	os.Unsetenv("SEC_TOKEN_POOL_SIGNING_KEY_FILE")
	os.Unsetenv("SEC_PASSWORD_DIRECTORY")
	os.Unsetenv("SEC_TOKEN_MAX_AGE")
	if ks.poolSet {
		if ks.poolViaEnv {
			os.Setenv("SEC_TOKEN_POOL_SIGNING_KEY_FILE", vkPool)
		} else {
			cfg.TokenPoolSigningKeyFile = vkPool
		}
		if ks.pool != nil {
			files[vkPool] = ks.pool
			w.setup("key pool " + hx(ks.pool))
		} else {
			w.setup("key pool unreadable")
		}
	}
	if ks.dirSet {
		if ks.dirViaEnv {
			os.Setenv("SEC_PASSWORD_DIRECTORY", vkDir)
		} else {
			cfg.TokenSigningKeyDir = vkDir
		}
		w.setup("key dir")
		var kids []string
		for kid := range ks.named {
			kids = append(kids, kid)
		}
		sort.Strings(kids)
		for _, kid := range kids {
			files[vkDir+"/"+kid] = ks.named[kid]
			w.setup("key named " + hx([]byte(kid)) + " " + hx(ks.named[kid]))
		}
	}
	cfg.Credentials = memCreds{files}
	env := "-"
	if envMaxAge != "" {
		os.Setenv("SEC_TOKEN_MAX_AGE", envMaxAge)
		if d, err := time.ParseDuration(envMaxAge + "s"); err == nil {
			env = fmt.Sprint(int64(d.Seconds()))
		}
	}
	w.setup(fmt.Sprintf("cfg %d %s %s", maxAge, env, hx([]byte(td))))
	return w, cfg
}

// effective max age by the documented rule (reference)
func effMaxAge(maxAge int, envMaxAge string) int64 {
	if maxAge > 0 {
		return int64(maxAge)
	}
	if envMaxAge != "" {
		if d, err := time.ParseDuration(envMaxAge + "s"); err == nil {
			return int64(d.Seconds())
		}
	}
	return 3600
}

// describe a token's segments to the oracle (once per segment and world)
func (w *tokWorld) describeToken(tok string, withSig bool) {
	parts := strings.Split(tok, ".")
	for i, p := range parts {
		kind := ""
		switch {
		case i == 0:
			kind = "h"
		case i == 1:
			kind = "p"
		case i == 2 && withSig:
			kind = "s"
		default:
			continue
		}
		key := kind + ":" + p
		if w.seen[key] {
			continue
		}
		w.seen[key] = true
		switch kind {
		case "h":
			w.setup("seg h " + hx([]byte(p)) + " " + describeHdr(p))
		case "p":
			w.setup("seg p " + hx([]byte(p)) + " " + viewClaims(p).line())
		case "s":
			w.setup("seg s " + hx([]byte(p)) + " " + describeSig(w.tb, p))
		}
	}
}

func (w *tokWorld) bindMac(m macTerm) {
	if m.isRaw {
		return
	}
	key := "m:" + string(m.bytes())
	if w.seen[key] {
		return
	}
	w.seen[key] = true
	w.setup("mac " + hx(m.bytes()) + " " + m.term())
}

// ---- error classes ------------------------------------------------------------------------------

func tokNetClass(m string) string {
	switch {
	case strings.Contains(m, "exceeds maximum allowed size"):
		return "sizeExceeded"
	case strings.HasPrefix(m, "EOF: "):
		return "eom"
	case strings.Contains(m, "EOF"), strings.Contains(m, "closed"):
		return "eof"
	}
	return "other" // unknown wording: one class, the text is not compared
}

func tokRejClass(m string) string {
	has := func(s string) bool { return strings.Contains(m, s) }
	switch {
	case has("authentication error: status"):
		return "status"
	case has("client authentication failed"), has("server rejected token"):
		return "peerError"
	case has("ID string length"):
		return "idLen"
	case has("RA length ("), has("RB length ("):
		return "nonceLen"
	case has("error checking for message completion"):
		return "noEOM"
	case has("expected EOM but more data"):
		return "trailing"
	case has("empty token received"):
		return "tokEmpty"
	case has("invalid JWT token format"), has("not a signed JWT"):
		return "tokFormat"
	case has("failed to decode JWT header"), has("failed to parse JWT header"), has("bad JWT header"):
		return "hdr"
	case has("(kid) is not a string"):
		return "kid"
	case has("failed to load signing key"), has("loading signing key"):
		return "noKey"
	case has("bad JWT signature encoding"):
		return "sigEnc"
	case has("signature verification failed"):
		return "sig"
	case has("failed to decode JWT payload"), has("failed to parse JWT payload"), has("bad JWT payload"):
		return "payload"
	case has("token has been expired"):
		return "expired"
	case has("token age ("):
		return "tooOld"
	case has("not a valid timestamp"):
		return "badTime"
	case has("is not valid before"):
		return "notYet"
	case has("subject claim is not a string"):
		return "subType"
	case has("missing required subject"):
		return "noSub"
	case has("client ID mismatch"):
		return "idMismatch"
	case has("RA mismatch"), has("RB mismatch"):
		return "nonceMismatch"
	case has("MAC verification failed"):
		return "mac"
	case has("failed to load token"):
		return "load"
	}
	return "other" // unknown wording: one class, the text is not compared
}

// tokTol: what may differ between implementation and model without breaking the correspondence.
//   - an error whose wording the harness does not know (class `other`) stands for any class of the
//     same kind (auth / net / abort): wording is part of no property;
//   - where a case deviates in SEVERAL places at once (pairs of deviations, malformed streams, the
//     refused-message-1 family) the class of a rejection may differ: which of several failing,
//     independent checks is reported first is part of no property.
// Accept vs reject, abort vs completed exchange, the recorded identity and every byte of the
// messages the implementation sends remain compared exactly.
func tokTol(cs Case, real, model string) string {
	ra, mb := strings.Fields(real), strings.Fields(model)
	if len(ra) != len(mb) {
		return ""
	}
	multi := strings.Contains(cs.Label, "pair") || strings.Contains(cs.Label, "malformed-stream") || strings.Contains(cs.Label, "refused-m1")
	kind := func(t string) (string, string, bool) {
		for _, p := range []string{"auth:", "net:"} {
			if strings.HasPrefix(t, p) {
				return p, t[len(p):], true
			}
		}
		return "", "", false
	}
	label := ""
	for i := range ra {
		if ra[i] == mb[i] {
			continue
		}
		pk, pc, ok1 := kind(ra[i])
		mk, _, ok2 := kind(mb[i])
		switch {
		case ok1 && ok2 && pk == mk && pc == "other":
			label = "unclassified-error-text-accepted-as-error"
		case ok1 && ok2 && pk == mk && pk == "auth:" && multi && i > 0 && ra[i-1] == "reject":
			if label == "" {
				label = "check-order-differs-in-multi-deviation-case"
			}
		case i > 0 && (ra[i-1] == "abort" || ra[i-1] == "reject") && mb[i-1] == ra[i-1] && ra[i] == "other":
			label = "unclassified-error-text-accepted-as-error"
		default:
			return ""
		}
	}
	return label
}

func tokVerdict(err error, user string) string {
	if err == nil {
		if user == "" {
			return "accept user=none"
		}
		return "accept user=" + orc.ShowBytes([]byte(user))
	}
	if errors.Is(err, security.ErrNetwork) || strings.Contains(err.Error(), "network communication error") {
		return "reject net:" + tokNetClass(err.Error())
	}
	return "reject auth:" + tokRejClass(err.Error())
}

// ---- messages the implementation sends -----------------------------------------------------------

type parsedM2 struct {
	ok     bool
	status int64
	id     string
	sid    string
	ra     []byte
	rb     []byte
	mac    []byte
}

func parseM2(out []byte) *parsedM2 {
	p, ok := payloadOfSent(out)
	if !ok {
		return &parsedM2{}
	}
	r := &rdr{b: p}
	m := &parsedM2{}
	m.status = r.int()
	m.id = r.idstr()
	m.sid = r.idstr()
	m.ra = r.blob()
	m.rb = r.blob()
	m.mac = r.blob()
	m.ok = !r.bad && len(r.b) == 0
	return m
}

func (w *tokWorld) showM2(m *parsedM2) string {
	if !m.ok {
		return "UNPARSABLE-M2"
	}
	return fmt.Sprintf("ok m2 %d id=%s sid=%s ra=%s rb=%s mac=%s", m.status, orc.ShowBytes([]byte(m.id)), orc.ShowBytes([]byte(m.sid)),
		orc.ShowBytes(m.ra), orc.ShowBytes(m.rb), w.tb.macOfBytes(m.mac).show())
}

type parsedM1 struct {
	ok     bool
	status int64
	id     string
	tok    string
	ra     []byte
}

func parseM1(out []byte) *parsedM1 {
	p, ok := payloadOfSent(out)
	if !ok {
		return &parsedM1{}
	}
	r := &rdr{b: p}
	m := &parsedM1{}
	m.status = r.int()
	m.id = r.idstr()
	m.tok = r.cstr()
	m.ra = r.blob()
	m.ok = !r.bad && len(r.b) == 0
	return m
}

type parsedM3 struct {
	ok     bool
	status int64
	id     string
	rb     []byte
	mac    []byte
}

func parseM3(out []byte) *parsedM3 {
	p, ok := payloadOfSent(out)
	if !ok {
		return &parsedM3{}
	}
	r := &rdr{b: p}
	m := &parsedM3{}
	m.status = r.int()
	m.id = r.idstr()
	m.rb = r.blob()
	m.mac = r.blob()
	m.ok = !r.bad && len(r.b) == 0
	return m
}

// ---- running the real server against a scripted client ----------------------------------------------

type srvCase struct {
	label  string
	expect string // "accept", "reject" or "" (no expectation by construction)
	ks     ksSpec
	maxAge int
	envAge string
	td     string

	hp     string  // token (header.payload) put on the wire
	cliTok string  // token the client holds (enters its key derivation)
	cliSig sigTerm // signature the client holds

	// message 1
	st1        int64
	claimed    string
	idLenDelta int64
	ra         []byte
	raLenDelta int64
	trail1     []byte
	noEOM1     bool
	cut1       bool
	keep1      int    // payload bytes of message 1 to keep (-1: all)
	raw1       []byte // if non-nil: message 1 payload is exactly these bytes (malformed stream)

	// message 3
	skip3       bool
	st3         int64
	id3         func(k *srvCase, m2 *parsedM2) string
	idLenDelta3 int64
	rb3         func(rb []byte) []byte
	rbLenDelta  int64
	mac3        func(w *tokWorld, k *srvCase, m2 *parsedM2, id string, rbEcho []byte) macTerm
	macLenDelta int64
	trail3      []byte
	noEOM3      bool
	cut3        bool
	keep3       int
	raw3        []byte
}

type srvResult struct {
	m2out []byte
	m2    *parsedM2
	m1    wireMsg
	m3    *wireMsg
	err   error
	user  string
	now   int64
	macs  []macTerm
}

func randCuts(c *Ctx, n int) []int {
	var cuts []int
	k := 1 + c.Rng.Intn(3)
	pos := 0
	for i := 0; i < k && pos < n; i++ {
		pos += c.Rng.Intn(n - pos + 1)
		cuts = append(cuts, pos)
	}
	return cuts
}

func (k *srvCase) buildM1(c *Ctx) wireMsg {
	var p []byte
	if k.raw1 != nil {
		p = k.raw1
	} else {
		fs := []wfield{wI(k.st1), wI(int64(len(k.claimed)) + k.idLenDelta), wS(k.claimed), wS(k.hp), wI(int64(len(k.ra)) + k.raLenDelta), wR(k.ra), wR(k.trail1)}
		p = encFields(fs)
		if k.keep1 >= 0 && k.keep1 < len(p) {
			p = p[:k.keep1]
		}
	}
	m := wireMsg{payload: p, noEOM: k.noEOM1}
	if k.cut1 {
		m.cuts = randCuts(c, len(p))
	}
	return m
}

func (k *srvCase) buildM3(w *tokWorld, m2 *parsedM2, res *srvResult) *wireMsg {
	if k.skip3 {
		return nil
	}
	var p []byte
	if k.raw3 != nil {
		p = k.raw3
	} else {
		id := k.claimed
		if m2.ok && m2.status == 0 {
			id = m2.id
		}
		if k.id3 != nil {
			id = k.id3(k, m2)
		}
		rb := m2.rb
		if k.rb3 != nil {
			rb = k.rb3(append([]byte{}, m2.rb...))
		}
		var mt macTerm
		if k.mac3 != nil {
			mt = k.mac3(w, k, m2, id, rb)
		} else {
			mt = w.tb.hmac(keyTerm{sig: k.cliSig, tok: []byte(k.cliTok)}, macMsg3(id, rb))
		}
		res.macs = append(res.macs, mt)
		mb := mt.bytes()
		fs := []wfield{wI(k.st3), wI(int64(len(id)) + k.idLenDelta3), wS(id), wI(int64(len(rb)) + k.rbLenDelta), wR(rb), wI(int64(len(mb)) + k.macLenDelta), wR(mb), wR(k.trail3)}
		p = encFields(fs)
		if k.keep3 >= 0 && k.keep3 < len(p) {
			p = p[:k.keep3]
		}
	}
	m := wireMsg{payload: p, noEOM: k.noEOM3}
	if k.cut3 {
		m.cuts = randCuts(w.c, len(p))
	}
	return &m
}

// runServer runs the real server side once (repeated if the wall-clock second changed under it)
func (w *tokWorld) runServer(cfg *security.SecurityConfig, k *srvCase) *srvResult {
	for attempt := 0; ; attempt++ {
		res := &srvResult{m2: &parsedM2{}}
		res.m1 = k.buildM1(w.c)
		conn := &scriptConn{}
		conn.script = func(turn int, written []byte) []byte {
			switch {
			case turn == 0:
				return res.m1.bytes()
			case len(written) > 0 && res.m2out == nil:
				// the server has answered: the client's next message
				res.m2out = written
				res.m2 = parseM2(written)
				res.m3 = k.buildM3(w, res.m2, res)
				if res.m3 == nil {
					return nil
				}
				return res.m3.bytes()
			}
			return nil // the server reads on without having written: nothing more comes
		}
		st := stream.NewStream(conn)
		a := security.NewAuthenticator(cfg, st)
		neg := &security.SecurityNegotiation{IsClient: false, ServerConfig: cfg, ClientConfig: &security.SecurityConfig{}}
		t0 := time.Now().Unix()
		func() {
			defer func() {
				if r := recover(); r != nil {
					res.err = fmt.Errorf("PANIC: %v", r)
				}
			}()
			res.err = a.PerformTokenAuthenticationDemo(security.AuthToken, neg)
		}()
		t1 := time.Now().Unix()
		if res.m2out == nil && len(conn.out) > 0 {
			// message 2 was written but no read followed (cannot happen: step 3 always reads)
			res.m2out = conn.out
			res.m2 = parseM2(conn.out)
		}
		res.user = neg.User
		res.now = t0
		if t0 == t1 || attempt >= 3 {
			return res
		}
	}
}

// ---- one server case: run, render, check --------------------------------------------------------

func (w *tokWorld) serverCase(cfg *security.SecurityConfig, k *srvCase) Case {
	c := w.c
	w.describeToken(k.hp, false)
	res := w.runServer(cfg, k)
	if res.m2.ok && res.m2.status == 0 {
		tokNonces.note(c, "RB", res.m2.rb, "server case "+k.label, w.ops)
	}
	// the server's own proof, as the protocol defines it, so that it can be named if it appears
	cv := viewClaims(segOf(k.hp, 1))
	if res.m2.ok && res.m2.status == 0 {
		if key := w.ks.held(kidOf(k.hp)); key != nil {
			sg := w.tb.sign(key, []byte(k.hp))
			w.tb.hmac(keyTerm{sig: sg, tok: []byte(k.hp)}, macMsg2(res.m2.id, res.m2.sid, res.m2.ra, res.m2.rb))
			// and the proof the protocol expects in message 3, whatever the scripted client sends
			// (a sloppy length field may make the server read exactly these bytes)
			res.macs = append(res.macs, w.tb.hmac(keyTerm{sig: sg, tok: []byte(k.hp)}, macMsg3(res.m2.id, res.m2.rb)))
		}
	}
	for _, m := range res.macs {
		w.bindMac(m)
	}
	rbArg := "-"
	if res.m2.ok {
		rbArg = hx(res.m2.rb)
	}
	op1 := fmt.Sprintf("srv1 %d %s %s", res.now, rbArg, res.m1.op())
	verdict := tokVerdict(res.err, res.user)
	if res.m2out == nil {
		// returned before message 2
		r := "abort " + strings.TrimPrefix(verdict, "reject net:")
		if !strings.HasPrefix(verdict, "reject net:") {
			r = "NO-M2 " + verdict
		}
		w.log(op1, r)
	} else {
		w.log(op1, w.showM2(res.m2))
		op3 := "srv3"
		if res.m3 != nil {
			op3 += " " + res.m3.op()
		}
		w.log(op3, verdict)
	}

	// ---- property oracle on the implementation (independent of the model) ----
	accepted := res.err == nil
	if res.err != nil && strings.HasPrefix(res.err.Error(), "PANIC") {
		c.Violate(Violation{Property: "C13", Key: "C13:token-server-panic", What: "the token server panicked", Ops: w.ops, Expected: "an error", Observed: res.err.Error()})
	}
	if accepted {
		now := res.now
		kid := kidOf(k.hp)
		key := w.ks.held(kid)
		bad := func(keyS, what, exp, obs string) {
			c.Violate(Violation{Property: "C11", Key: "C11:" + keyS, What: what, Ops: w.ops, Expected: exp, Observed: obs})
		}
		if key == nil {
			bad("server-accepts-unknown-key", "the server accepted a token for which it holds no signing key", "reject", verdict)
		} else if res.m3 == nil || !res.m2.ok {
			bad("server-accepts-without-message3", "the server accepted without a well-formed exchange", "reject", verdict)
		} else {
			// the proof the client must have presented: HMAC under the key derived from the signature
			// of the received token, over (subject, 0, the server's own RB)
			sigB := refSign(key, []byte(k.hp))
			m3 := parseM3raw(res.m3.payload)
			want := refMAC(refK(sigB, []byte(k.hp)), macMsg3(cv.sub, res.m2.rb))
			if cv.subK != 's' && m3 != nil {
				// no subject in the token (reported below): the proof can only be over the id of message 3
				want = refMAC(refK(sigB, []byte(k.hp)), macMsg3(m3.id, res.m2.rb))
			}
			if m3 == nil || string(m3.mac) != string(want) {
				obs := "unparsable message 3"
				if m3 != nil {
					obs = "mac=" + hx(m3.mac)
				}
				bad("server-accepts-without-proof", "the server accepted a client that did not present the MAC keyed by the token's signature over (subject, RB)", "mac="+hx(want), obs)
			}
			if m3 != nil && string(m3.rb) != string(res.m2.rb) {
				bad("server-accepts-wrong-rb-echo", "the server accepted a wrong echo of its nonce", hx(res.m2.rb), hx(m3.rb))
			}
		}
		if cv.err != "" || !cv.timeValid(now, effMaxAge(k.maxAge, k.envAge)) {
			bad("server-accepts-invalid-time", "the server accepted an expired, too old or time-less-parsable token", "reject", fmt.Sprintf("%s now=%d claims=%s", verdict, now, cv.line()))
		}
		if cv.subK != 's' || cv.sub == "" {
			bad("identity-not-from-token", "the server accepted a token without a subject; the recorded identity "+fmt.Sprintf("%q", res.user)+" comes from the client's claim", "reject (no subject in the signed token)", verdict)
		} else if res.user != strings.Split(cv.sub, "@")[0] {
			bad("identity-not-from-token", "the recorded identity is not the user part of the token's subject", strings.Split(cv.sub, "@")[0], res.user)
		}
		if k.st1 != 0 || k.st3 != 0 {
			bad("server-accepts-status", "the server accepted although the client reported a status other than OK", "reject", verdict)
		}
	}
	if k.expect == "reject" && accepted {
		c.Violate(Violation{Property: "C11", Key: "C11:server-accepts-deviation:" + k.label, What: "the server accepted an exchange deviating in: " + k.label, Ops: w.ops, Expected: "reject", Observed: verdict})
	}
	if k.expect == "accept" && !accepted {
		c.Res.Notes = append(c.Res.Notes, "server case expected to be accepted was rejected: "+k.label+" -> "+verdict)
		c.Count("unexpected-reject:server:" + k.label)
	}
	nontrivial := true
	c.Distinct("srv:"+k.label+":"+k.hp+":"+fmt.Sprint(len(res.m1.payload))+":"+verdict, nontrivial)
	c.Count("server:" + k.label)
	if accepted {
		c.Count("verdict:server-accept")
	} else {
		c.Count("verdict:server-reject")
	}
	return Case{Label: "server " + k.label, Ops: w.ops, Real: w.real}
}

func segOf(tok string, i int) string {
	p := strings.Split(tok, ".")
	if i < len(p) {
		return p[i]
	}
	return ""
}

// kidOf: the key id a token names, by the property's reading ("" / absent = POOL); "\x00bad" if none
func kidOf(tok string) string {
	m, e := decodeSeg(segOf(tok, 0))
	if e != "" {
		return "\x00/bad"
	}
	v, ok := m["kid"]
	if !ok {
		return "POOL"
	}
	s, ok := v.(string)
	if !ok {
		return "\x00/nonstring"
	}
	if s == "" {
		return "POOL"
	}
	return s
}

// parseM3raw parses what the scripted client sent (nil when it is not a well-formed message 3)
func parseM3raw(p []byte) *parsedM3 {
	r := &rdr{b: p}
	m := &parsedM3{}
	m.status = r.int()
	m.id = r.idstr()
	m.rb = r.blob()
	m.mac = r.blob()
	if r.bad || len(r.b) != 0 {
		return nil
	}
	return m
}

// ---- driver ------------------------------------------------------------------------------------------

func runOneServer(c *Ctx, m *tokMat, d srvDev, extra func(g *tgen, k *srvCase)) Case {
	kn := m.baseCfg(c)
	if d.pre != nil {
		d.pre(c, m, &kn)
	}
	w, cfg := newTokWorld(c, kn.ks, kn.maxAge, kn.envAge, kn.td)
	g := &tgen{c: c, w: w, m: m}
	k := baseServer(g, kn)
	k.label, k.expect = d.name, d.expect
	if d.mut != nil {
		d.mut(g, k)
	}
	if extra != nil {
		extra(g, k)
	}
	return w.serverCase(cfg, k)
}

func runToken(c *Ctx) error {
	c.Res.Rule = "real token server vs scripted client, real token client vs scripted server (security.PerformTokenAuthenticationDemo over a single-threaded in-memory connection; real keys through an in-memory CredentialReader; tokens minted relative to the wall clock) and security.VerifyIDToken: a valid exchange/token and ONE deviation from it per case (catalogue = the labels of the distribution: token bit flips incl. every bit of short tokens, other/unknown/unreadable/path-like keys, kid forms, exp/iat at and around the boundary, max-age sources, announced id vs sub, wrong/truncated/empty/reflected/mis-keyed proofs, nonce echoes, status codes, trailing bytes, missing EOM, truncation, frame cuts), a refused message 1 followed by the publicly computable proof, random pairs of deviations, malformed byte streams and random field sequences; distinct by label+token+verdict; every case is non-trivial (a full exchange or verification)"
	m := newTokMat(c)
	tokNonces.reset()
	tokenFreshness(c, m)
	var cases []Case
	devs := serverDeviations()
	rounds := c.Pick(12, 150)
	for r := 0; r < rounds; r++ {
		for _, d := range devs {
			cs := runOneServer(c, m, d, nil)
			if r == 0 && len(c.Res.Samples) < 2 {
				c.Sample(map[string]any{"label": cs.Label, "ops": abbreviate(cs.Ops), "real": abbreviate(cs.Real)})
			}
			cases = append(cases, cs)
		}
	}
	byName := map[string]srvDev{}
	for _, d := range devs {
		byName[d.name] = d
	}
	// a refused message 1 must stay refused: afterwards the server's key is empty and no nonce was
	// drawn, so the "proof" of message 3 is computable by anyone — only the stored error stands
	for r := 0; r < c.Pick(4, 60); r++ {
		for _, n := range []string{"exp-one-second-ago", "iat-very-old", "kid-unknown", "signed-by-unknown-key", "sub-empty-string", "sub-number", "tok-one-part",
			"tok-header-not-json", "tok-payload-not-json", "tok-empty", "m1-status-other", "m1-status-error", "m1-trailing-byte", "m1-no-eom", "ra-257", "id-length-overstated", "id-1025",
			"kid-number", "kid-path-dotdot", "pool-unreadable", "exp-string"} {
			d := byName[n]
			d.name, d.expect = "refused-m1("+n+")+public-proof", "reject"
			cases = append(cases, runOneServer(c, m, d, nullKeyM3))
		}
	}
	// two deviations at once
	for r := 0; r < c.Pick(1500, 20000); r++ {
		d1, d2 := devs[c.Rng.Intn(len(devs))], devs[c.Rng.Intn(len(devs))]
		d := srvDev{name: "pair", pre: func(c *Ctx, m *tokMat, kn *cfgKnobs) {
			if d1.pre != nil {
				d1.pre(c, m, kn)
			}
			if d2.pre != nil {
				d2.pre(c, m, kn)
			}
		}, mut: func(g *tgen, k *srvCase) {
			if d1.mut != nil {
				tryMut(func() { d1.mut(g, k) })
			}
			if d2.mut != nil {
				tryMut(func() { d2.mut(g, k) })
			}
		}}
		cs := runOneServer(c, m, d, nil)
		cs.Label = "server pair " + d1.name + " + " + d2.name
		cases = append(cases, cs)
	}
	// time claims beyond int64 (Go's float conversion; model and implementation must still agree)
	for _, raw := range []string{"1e30", "-1e30", "9.3e18", "-9.3e18", "9223372036854775807", "1e19"} {
		for _, name := range []string{"exp", "iat"} {
			raw, name := raw, name
			d := srvDev{name: "time-out-of-range", mut: func(g *tgen, k *srvCase) { g.spec.set(name, raw); g.mint(k) }}
			cases = append(cases, runOneServer(c, m, d, nil))
		}
	}
	// malformed streams: arbitrary bytes as message 1, as message 3, and random field sequences
	for r := 0; r < c.Pick(1500, 20000); r++ {
		kind := c.Rng.Intn(4)
		d := srvDev{name: "malformed-stream", expect: "reject", mut: func(g *tgen, k *srvCase) {
			rnd := func() []byte {
				if kind == 3 {
					var fs []wfield
					for i := 0; i < 1+c.Rng.Intn(7); i++ {
						switch c.Rng.Intn(3) {
						case 0:
							fs = append(fs, wI([]int64{0, -1, 1, 5, 256, 257, 1024, -7, 1 << 40}[c.Rng.Intn(9)]))
						case 1:
							fs = append(fs, wS(string(randBytes(c, c.Rng.Intn(12)))))
						default:
							fs = append(fs, wR(randBytes(c, c.Rng.Intn(30))))
						}
					}
					return encFields(fs)
				}
				return randBytes(c, c.Rng.Intn(120))
			}
			switch kind {
			case 0:
				k.raw1 = rnd()
			case 1:
				k.raw3 = rnd()
			default:
				k.raw1, k.raw3 = rnd(), rnd()
			}
			k.cut1, k.cut3 = c.Rng.Intn(2) == 0, c.Rng.Intn(2) == 0
			k.noEOM1, k.noEOM3 = c.Rng.Intn(6) == 0, c.Rng.Intn(6) == 0
		}}
		cases = append(cases, runOneServer(c, m, d, nil))
	}
	// every single bit of a short token on the wire (the client keeps the genuine signature)
	for t := 0; t < c.Pick(2, 10); t++ {
		n := 0
		for i := 0; n == 0 || i < n*8; i++ {
			i := i
			d := srvDev{name: "tok-bit", expect: "reject", mut: func(g *tgen, k *srvCase) {
				g.spec.kid = `"k1"`
				g.key = k.ks.held("k1")
				g.spec.claims = g.spec.claims[:3]
				g.mint(k)
				if n == 0 {
					n = len(k.hp)
				}
				b := []byte(k.hp)
				b[(i/8)%len(b)] ^= 1 << uint(i%8)
				k.hp = string(b)
			}}
			cases = append(cases, runOneServer(c, m, d, nil))
		}
	}
	cdevs := clientDeviations()
	for r := 0; r < rounds; r++ {
		for _, d := range cdevs {
			kn := m.baseCfg(c)
			w, _ := newTokWorld(c, kn.ks, kn.maxAge, kn.envAge, kn.td)
			g := &tgen{c: c, w: w, m: m}
			k := baseClient(g, kn)
			k.label, k.expect = d.name, d.expect
			if d.mut != nil {
				d.mut(g, k)
			}
			cs := w.clientCase(k)
			if r == 0 && len(c.Res.Samples) < 4 && d.name == "valid" {
				c.Sample(map[string]any{"label": cs.Label, "ops": abbreviate(cs.Ops), "real": abbreviate(cs.Real)})
			}
			cases = append(cases, cs)
		}
	}
	// client: two deviations at once, and malformed message 2
	for r := 0; r < c.Pick(1200, 15000); r++ {
		d1, d2 := cdevs[c.Rng.Intn(len(cdevs))], cdevs[c.Rng.Intn(len(cdevs))]
		kn := m.baseCfg(c)
		w, _ := newTokWorld(c, kn.ks, kn.maxAge, kn.envAge, kn.td)
		g := &tgen{c: c, w: w, m: m}
		k := baseClient(g, kn)
		k.label = "pair"
		if r%3 == 0 {
			k.label, k.expect = "malformed-stream", "reject"
			k.raw2 = randBytes(c, c.Rng.Intn(150))
			if c.Rng.Intn(2) == 0 {
				k.raw2 = append(encFields([]wfield{wI(0)}), k.raw2...)
			}
			k.cut2, k.noEOM2 = c.Rng.Intn(2) == 0, c.Rng.Intn(5) == 0
		} else {
			if d1.mut != nil {
				tryMut(func() { d1.mut(g, k) })
			}
			if d2.mut != nil {
				tryMut(func() { d2.mut(g, k) })
			}
		}
		cs := w.clientCase(k)
		if k.label == "pair" {
			cs.Label = "client pair " + d1.name + " + " + d2.name
		}
		cases = append(cases, cs)
	}
	for r := 0; r < rounds; r++ {
		for _, d := range verifyDeviations() {
			cases = append(cases, runOneVerify(c, m, d, nil))
		}
	}
	// every single bit of a short token (header, payload, signature and the two dots)
	for t := 0; t < c.Pick(2, 12); t++ {
		probe := runOneVerifyToken(c, m)
		for i := 0; i < len(probe)*8; i++ {
			i := i
			region := "header"
			switch strings.Count(probe[:i/8], ".") {
			case 1:
				region = "payload"
			case 2:
				region = "signature"
			}
			if probe[i/8] == '.' {
				region = "dot"
			}
			d := verDev{name: "bit-" + region, mut: func(g *tgen, kn cfgKnobs, v *verCase) {
				b := []byte(probe)
				b[i/8] ^= 1 << uint(i%8)
				v.token = string(b)
			}}
			cases = append(cases, runOneVerifyFixed(c, m, d, probe))
		}
	}
	// the same token presented twice, the clock moving in between (once per run: it costs ~2.5 s)
	cases = append(cases, tokenAging(c, m)...)
	return diffBatchTol(c, "token", cases, nil, tokTol)
}

// ---- running the real client against a scripted server -------------------------------------------

type cliCase struct {
	label    string
	expect   string
	tokenStr string // SecurityConfig.Token
	usable   bool   // the client's own pre-filter (three parts, JSON payload, not expired) lets it through
	srvSig   func(w *tokWorld, k *cliCase, m1 *parsedM1) sigTerm

	skip2       bool
	st2         int64
	idEcho      func(id string) string
	idLenDelta  int64
	sid         string
	sidLenDelta int64
	raEcho      func(ra []byte) []byte
	raLenDelta  int64
	rb          []byte
	rbLenDelta  int64
	mac2        func(w *tokWorld, k *cliCase, sg sigTerm, m1 *parsedM1, id, sid string, ra, rb []byte) macTerm
	macLenDelta int64
	trail2      []byte
	noEOM2      bool
	cut2        bool
	keep2       int
	raw2        []byte
}

type cliResult struct {
	m1out []byte
	m1    *parsedM1
	m2    *wireMsg
	m3out []byte
	err   error
	user  string
	macs  []macTerm
}

func (k *cliCase) buildM2(w *tokWorld, m1 *parsedM1, res *cliResult) *wireMsg {
	if k.skip2 {
		return nil
	}
	var p []byte
	if k.raw2 != nil {
		p = k.raw2
	} else {
		id := m1.id
		if k.idEcho != nil {
			id = k.idEcho(id)
		}
		ra := m1.ra
		if k.raEcho != nil {
			ra = k.raEcho(append([]byte{}, m1.ra...))
		}
		sg := k.srvSig(w, k, m1)
		var mt macTerm
		if k.mac2 != nil {
			mt = k.mac2(w, k, sg, m1, id, k.sid, ra, k.rb)
		} else {
			mt = w.tb.hmac(keyTerm{sig: sg, tok: []byte(m1.tok)}, macMsg2(id, k.sid, ra, k.rb))
		}
		res.macs = append(res.macs, mt)
		mb := mt.bytes()
		fs := []wfield{wI(k.st2), wI(int64(len(id)) + k.idLenDelta), wS(id), wI(int64(len(k.sid)) + k.sidLenDelta), wS(k.sid),
			wI(int64(len(ra)) + k.raLenDelta), wR(ra), wI(int64(len(k.rb)) + k.rbLenDelta), wR(k.rb), wI(int64(len(mb)) + k.macLenDelta), wR(mb), wR(k.trail2)}
		p = encFields(fs)
		if k.keep2 >= 0 && k.keep2 < len(p) {
			p = p[:k.keep2]
		}
	}
	m := wireMsg{payload: p, noEOM: k.noEOM2}
	if k.cut2 {
		m.cuts = randCuts(w.c, len(p))
	}
	return &m
}

func (w *tokWorld) runClient(k *cliCase) *cliResult {
	res := &cliResult{m1: &parsedM1{}}
	conn := &scriptConn{}
	conn.script = func(turn int, written []byte) []byte {
		if len(written) > 0 && res.m1out == nil {
			res.m1out = written
			res.m1 = parseM1(written)
			res.m2 = k.buildM2(w, res.m1, res)
			if res.m2 == nil {
				return nil
			}
			return res.m2.bytes()
		}
		return nil
	}
	cfg := &security.SecurityConfig{Token: k.tokenStr}
	st := stream.NewStream(conn)
	a := security.NewAuthenticator(cfg, st)
	neg := &security.SecurityNegotiation{IsClient: true, ClientConfig: cfg, ServerConfig: &security.SecurityConfig{}}
	func() {
		defer func() {
			if r := recover(); r != nil {
				res.err = fmt.Errorf("PANIC: %v", r)
			}
		}()
		// the client prints a diagnostic line on stdout when step 2 fails; keep the run quiet
		so := os.Stdout
		if dn, err := os.OpenFile(os.DevNull, os.O_WRONLY, 0); err == nil {
			os.Stdout = dn
			defer func() { os.Stdout = so; dn.Close() }()
		}
		res.err = a.PerformTokenAuthenticationDemo(security.AuthToken, neg)
	}()
	res.m3out = conn.out
	res.user = neg.User
	return res
}

func (w *tokWorld) showM1(m *parsedM1) string {
	if !m.ok {
		return "UNPARSABLE-M1"
	}
	return fmt.Sprintf("ok m1 %d id=%s tok=%s ra=%s", m.status, orc.ShowBytes([]byte(m.id)), orc.ShowBytes([]byte(m.tok)), orc.ShowBytes(m.ra))
}

func (w *tokWorld) showM3(m *parsedM3) string {
	if !m.ok {
		return "UNPARSABLE-M3"
	}
	return fmt.Sprintf("ok m3 %d id=%s rb=%s mac=%s", m.status, orc.ShowBytes([]byte(m.id)), orc.ShowBytes(m.rb), w.tb.macOfBytes(m.mac).show())
}

func (w *tokWorld) clientCase(k *cliCase) Case {
	c := w.c
	// the client's own pre-filter (token selection, outside the model): three parts, a JSON
	// payload, not expired by the client's clock
	k.usable = false
	if p := strings.Split(k.tokenStr, "."); len(p) == 3 {
		cv := viewClaims(p[1])
		k.usable = cv.err == "" && !(cv.expK == 'n' && float64(time.Now().Unix()) > cv.expF)
	}
	w.describeToken(k.tokenStr, true)
	res := w.runClient(k)
	if res.m1 != nil && res.m1.ok && res.m1.status == 0 {
		tokNonces.note(c, "RA", res.m1.ra, "client case "+k.label, w.ops)
	}
	if p := strings.Split(k.tokenStr, "."); len(p) == 3 && res.m2 != nil {
		// the proof the protocol expects in message 2 under the client's own signature
		if m2 := parseM2raw(res.m2.payload); m2 != nil {
			if sb, err := b64dec(p[2]); err == nil {
				res.macs = append(res.macs, w.tb.hmac(keyTerm{sig: w.tb.sigOfBytes(sb), tok: []byte(p[0] + "." + p[1])}, macMsg2(res.m1.id, m2.sid, res.m1.ra, m2.rb)))
			}
		}
	}
	for _, m := range res.macs {
		w.bindMac(m)
	}
	verdict := tokVerdict(res.err, res.user)
	if res.m1out == nil {
		w.log(fmt.Sprintf("cli0 %s %s -", hx([]byte(k.tokenStr)), b01(k.usable)), "NO-M1 "+verdict)
	} else {
		w.log(fmt.Sprintf("cli0 %s %s %s", hx([]byte(k.tokenStr)), b01(k.usable), hx(res.m1.ra)), w.showM1(res.m1))
		// what an honest client answers, so that its proof can be named when it appears
		parts := strings.Split(k.tokenStr, ".")
		if len(parts) == 3 && res.m2 != nil {
			if m2 := parseM2raw(res.m2.payload); m2 != nil {
				if sb, err := b64dec(parts[2]); err == nil {
					w.tb.hmac(keyTerm{sig: w.tb.sigOfBytes(sb), tok: []byte(parts[0] + "." + parts[1])}, macMsg3(res.m1.id, m2.rb))
				}
			}
		}
		op2 := "cli2"
		if res.m2 != nil {
			op2 += " " + res.m2.op()
		}
		if len(res.m3out) == 0 {
			r := "abort " + strings.TrimPrefix(verdict, "reject net:")
			if !strings.HasPrefix(verdict, "reject net:") {
				r = "NO-M3 " + verdict
			}
			w.log(op2, r)
		} else {
			w.log(op2, w.showM3(parseM3(res.m3out))+" ; "+verdict)
		}
	}

	// ---- property oracle on the implementation ----
	accepted := res.err == nil
	if res.err != nil && strings.HasPrefix(res.err.Error(), "PANIC") {
		c.Violate(Violation{Property: "C13", Key: "C13:token-client-panic", What: "the token client panicked", Ops: w.ops, Expected: "an error", Observed: res.err.Error()})
	}
	if accepted {
		bad := func(keyS, what, exp, obs string) {
			c.Violate(Violation{Property: "C11", Key: "C11:" + keyS, What: what, Ops: w.ops, Expected: exp, Observed: obs})
		}
		parts := strings.Split(k.tokenStr, ".")
		var m2 *parsedM2
		if res.m2 != nil {
			m2 = parseM2raw(res.m2.payload)
		}
		if len(parts) != 3 || !res.m1.ok || res.m1.status != 0 {
			bad("client-accepts-without-token", "the client reported success without having presented a token", "reject", verdict)
		} else if m2 == nil {
			bad("client-accepts-without-message2", "the client accepted without a well-formed message 2", "reject", verdict)
		} else {
			sb, _ := b64dec(parts[2])
			tok := parts[0] + "." + parts[1]
			want := refMAC(refK(sb, []byte(tok)), macMsg2(res.m1.id, m2.sid, res.m1.ra, m2.rb))
			if string(m2.mac) != string(want) {
				bad("client-accepts-without-proof", "the client accepted a server that did not present the MAC keyed by the client's token signature over (A, B, RA, RB)", "mac="+hx(want), "mac="+hx(m2.mac))
			}
			if string(m2.ra) != string(res.m1.ra) {
				bad("client-accepts-wrong-ra-echo", "the client accepted a wrong echo of its nonce", hx(res.m1.ra), hx(m2.ra))
			}
			if m2.status != 0 {
				bad("client-accepts-status", "the client accepted although the server reported a status other than OK", "reject", verdict)
			}
		}
	}
	if k.expect == "reject" && accepted {
		c.Violate(Violation{Property: "C11", Key: "C11:client-accepts-deviation:" + k.label, What: "the client accepted an exchange deviating in: " + k.label, Ops: w.ops, Expected: "reject", Observed: verdict})
	}
	if k.expect == "accept" && !accepted {
		c.Res.Notes = append(c.Res.Notes, "client case expected to be accepted was rejected: "+k.label+" -> "+verdict)
		c.Count("unexpected-reject:client:" + k.label)
	}
	c.Distinct("cli:"+k.label+":"+verdict, true)
	c.Count("client:" + k.label)
	if accepted {
		c.Count("verdict:client-accept")
	} else {
		c.Count("verdict:client-reject")
	}
	return Case{Label: "client " + k.label, Ops: w.ops, Real: w.real}
}

// parseM2raw parses what the scripted server sent (nil when it is not a well-formed message 2;
// trailing bytes are allowed: the client does not look at them)
func parseM2raw(p []byte) *parsedM2 {
	r := &rdr{b: p}
	m := &parsedM2{}
	m.status = r.int()
	m.id = r.idstr()
	m.sid = r.idstr()
	m.ra = r.blob()
	m.rb = r.blob()
	m.mac = r.blob()
	if r.bad {
		return nil
	}
	m.ok = true
	return m
}

// ---- VerifyIDToken ---------------------------------------------------------------------------------

func (w *tokWorld) verifyCase(cfg *security.SecurityConfig, kn cfgKnobs, v *verCase) Case {
	c := w.c
	trimmed := strings.TrimSpace(v.token)
	w.describeToken(trimmed, true)
	var claims *security.IDTokenClaims
	var err error
	var now int64
	for attempt := 0; attempt < 4; attempt++ {
		now = time.Now().Unix()
		func() {
			defer func() {
				if r := recover(); r != nil {
					err = fmt.Errorf("PANIC: %v", r)
				}
			}()
			claims, err = security.VerifyIDToken(v.token, cfg)
		}()
		if time.Now().Unix() == now {
			break
		}
	}
	var verdict string
	if err == nil {
		verdict = fmt.Sprintf("accept sub=%s exp=%d iat=%d", orc.ShowBytes([]byte(claims.Subject)), claims.Expiry, claims.IssuedAt)
	} else {
		verdict = "reject " + tokRejClass(err.Error())
	}
	w.log(fmt.Sprintf("verify %d %s", now, hx([]byte(v.token))), verdict)

	// ---- property oracle: accepts exactly the well-formed tokens whose signature verifies under
	// the named key and whose time claims are currently valid ----
	if err != nil && strings.HasPrefix(err.Error(), "PANIC") {
		c.Violate(Violation{Property: "C13", Key: "C13:verify-panic", What: "VerifyIDToken panicked", Ops: w.ops, Expected: "an error", Observed: err.Error()})
	}
	parts := strings.Split(trimmed, ".")
	wellFormed, sigOK, timeOK, keyHeld := false, false, false, false
	var cv claimsView
	inRange := true
	if len(parts) == 3 {
		kidS := kidOf(trimmed)
		if kidS == "\x00/nonstring" {
			kidS = "POOL" // no key named: the pool key
		}
		cv = viewClaims(parts[1])
		sb, serr := b64dec(parts[2])
		key := kn.ks.held(kidS)
		keyHeld = key != nil
		wellFormed = kidS != "\x00/bad" && cv.err == "" && serr == nil && cv.subK == 's' && cv.sub != ""
		if keyHeld && serr == nil {
			sigOK = string(sb) == string(refSign(key, []byte(parts[0]+"."+parts[1])))
		}
		if cv.err == "" {
			timeOK = cv.timeValid(now, effMaxAge(kn.maxAge, kn.envAge))
			for _, f := range []float64{cv.expF, cv.iatF} {
				if f >= 4e18 || f <= -4e18 {
					inRange = false // beyond int64: Go's float conversion is platform-defined, no claim
				}
			}
		}
	}
	should := wellFormed && keyHeld && sigOK && timeOK
	bad := func(keyS, what string) {
		c.Violate(Violation{Property: "C11", Key: "C11:" + keyS, What: what, Ops: w.ops,
			Expected: fmt.Sprintf("accept=%v (well-formed=%v key-held=%v signature=%v time=%v now=%d)", should, wellFormed, keyHeld, sigOK, timeOK, now), Observed: verdict})
	}
	if inRange {
		switch {
		case err == nil && !keyHeld:
			bad("verify-accepts-unknown-key", "VerifyIDToken accepted a token naming a key that is not held")
		case err == nil && !sigOK:
			bad("verify-accepts-bad-signature", "VerifyIDToken accepted a token whose signature does not verify under the named key")
		case err == nil && !timeOK:
			bad("verify-accepts-invalid-time", "VerifyIDToken accepted a token whose time claims are not currently valid")
		case err == nil && !wellFormed:
			bad("verify-accepts-malformed", "VerifyIDToken accepted a malformed token")
		case err != nil && should:
			bad("verify-rejects-valid", "VerifyIDToken rejected a token whose signature verifies under the named key and whose time claims are valid")
		case err == nil && (claims.Subject != cv.sub):
			bad("verify-wrong-subject", "VerifyIDToken returned a subject that is not the token's")
		}
	}
	if v.expect == "reject" && err == nil {
		c.Violate(Violation{Property: "C11", Key: "C11:verify-accepts-deviation:" + v.label, What: "VerifyIDToken accepted a token deviating in: " + v.label, Ops: w.ops, Expected: "reject", Observed: verdict})
	}
	if v.expect == "accept" && err != nil {
		c.Violate(Violation{Property: "C11", Key: "C11:verify-rejects-valid:" + v.label, What: "VerifyIDToken rejected a valid token (" + v.label + ")", Ops: w.ops, Expected: "accept", Observed: verdict})
	}
	c.Distinct("ver:"+v.label+":"+verdict[:6]+v.token, true)
	c.Count("verify:" + v.label)
	if err == nil {
		c.Count("verdict:verify-accept")
	} else {
		c.Count("verdict:verify-reject")
	}
	return Case{Label: "verify " + v.label, Ops: w.ops, Real: w.real}
}

func runOneVerify(c *Ctx, m *tokMat, d verDev, post func(g *tgen, v *verCase)) Case {
	kn := m.baseCfg(c)
	if d.pre != nil {
		d.pre(c, m, &kn)
	}
	w, cfg := newTokWorld(c, kn.ks, kn.maxAge, kn.envAge, kn.td)
	g := &tgen{c: c, w: w, m: m}
	baseServer(g, kn)
	v := &verCase{label: d.name, expect: d.expect, token: g.full()}
	if d.mut != nil {
		d.mut(g, kn, v)
	}
	if post != nil {
		post(g, v)
	}
	return w.verifyCase(cfg, kn, v)
}

// a fixed short valid token under key k1 (for the bit sweep), minted against the base key store
func runOneVerifyToken(c *Ctx, m *tokMat) string {
	kn := m.baseCfg(c)
	g := &tgen{c: c, w: &tokWorld{tb: newBook()}, m: m}
	g.spec.kid = `"k1"`
	g.key = kn.ks.held("k1")
	now := time.Now().Unix()
	g.spec.claims = [][2]string{{"sub", jstr(tokSubs[c.Rng.Intn(len(tokSubs))])}, {"iat", fmt.Sprint(now - 5)}, {"exp", fmt.Sprint(now + 3000)}}
	return g.full()
}

func runOneVerifyFixed(c *Ctx, m *tokMat, d verDev, tok string) Case {
	kn := m.baseCfg(c)
	kn.ks.poolViaEnv, kn.ks.dirViaEnv = false, false
	w, cfg := newTokWorld(c, kn.ks, kn.maxAge, kn.envAge, kn.td)
	g := &tgen{c: c, w: w, m: m}
	// name the genuine signature so that a flip leaving the decoded bytes unchanged is recognised
	p := strings.Split(tok, ".")
	w.tb.sign(kn.ks.held("k1"), []byte(p[0]+"."+p[1]))
	v := &verCase{label: d.name, token: tok}
	d.mut(g, kn, v)
	return w.verifyCase(cfg, kn, v)
}
