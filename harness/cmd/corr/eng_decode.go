package main

// Engine `decode` (property C13): every decoder entry point of the library is fed structured,
// mostly-valid inputs with one field mutated (length / count fields negative, zero, off by one,
// huge; missing terminators; premature end-of-message; wire exhausted; the in-band secret marker;
// values many times larger than a cap) plus a malformed stream, in both string modes.
//
//   * correspondence: the real message.Message / stream.Stream / handshake readers and the Lean
//     Decode model run on the same frames; results, error classes, the number of frames taken
//     from the wire, the number of string-level operations (one stream.IsEncrypted() query each —
//     that is how loop iterations of the real code are counted) and what is left of the message
//     afterwards are compared op by op.
//   * property oracle on the implementation, independent of the model: no panic; string-level
//     operations bounded by the bytes of the input (a counting stream aborts a runaway loop);
//     bytes allocated bounded by a multiple of the input; a capped reader takes no more than a
//     bounded multiple of its cap (+ one frame) from the wire and returns no value longer than
//     the cap. Inputs that can kill a process (a buffer sized from a peer integer, one stack
//     frame per partial frame) run in a child process under RLIMIT_AS / GOMEMLIMIT / SetMaxStack.

import (
	"bufio"
	"bytes"
	"context"
	"encoding/binary"
	"encoding/hex"
	"encoding/json"
	"errors"
	"fmt"
	"io"
	"os"
	"os/exec"
	"path/filepath"
	"regexp"
	"runtime"
	"runtime/debug"
	"sort"
	"strconv"
	"strings"
	"sync"
	"syscall"
	"time"

	"cedarverif/harness/internal/bufconn"
	"cedarverif/harness/internal/orc"
	"cedarverif/harness/internal/refcodec"

	"github.com/PelicanPlatform/classad/classad"
	"github.com/bbockelm/cedar/addresses"
	"github.com/bbockelm/cedar/client/sharedport"
	"github.com/bbockelm/cedar/commands"
	"github.com/bbockelm/cedar/message"
	"github.com/bbockelm/cedar/security"
	"github.com/bbockelm/cedar/stream"
	"github.com/bbockelm/cedar/version"
	"github.com/bbockelm/cedar/watch"
)

func init() {
	register(Engine{"decode", runDecode})
	register(Engine{"decodechild", runDecodeChild})
}

// ------------------------------------------------------------------ counting stream

var errWireExhausted = errors.New("c13: wire exhausted")

type spinAbort struct{ q, fr int }

type dframe struct {
	p   []byte
	eom bool
}

// dsrc is the StreamInterface the real message.Message reads from: either a list of opened frames
// (mock) or a real stream.Stream fed with the same frames on the wire. It counts.
type dsrc struct {
	frames []dframe
	pos    int
	real   *stream.Stream
	conn   *bufconn.Conn
	bounds []int // wire offset of the end of every frame (real mode)
	wire   int
	enc    bool
	key    bool
	saved  bool
	q      int // IsEncrypted queries
	fr     int // frames delivered (mock mode)
	pulled int // payload bytes delivered
	budget int
}

func (s *dsrc) ReadFrame(ctx contextT) ([]byte, bool, error) {
	if s.real != nil {
		p, e, err := s.real.ReadFrame(ctx)
		if err == nil {
			s.pulled += len(p)
		}
		return p, e, err
	}
	if s.pos >= len(s.frames) {
		return nil, false, errWireExhausted
	}
	f := s.frames[s.pos]
	s.pos++
	s.fr++
	s.pulled += len(f.p)
	if s.fr > s.budget {
		panic(spinAbort{s.q, s.fr})
	}
	return append([]byte{}, f.p...), f.eom, nil
}

func (s *dsrc) WriteFrame(ctx contextT, data []byte, isEOM bool) error {
	return errors.New("c13: read-only stream")
}

func (s *dsrc) IsEncrypted() bool {
	s.q++
	if s.q > s.budget {
		panic(spinAbort{s.q, s.fr})
	}
	if s.real != nil {
		return s.real.IsEncrypted()
	}
	return s.enc
}

func (s *dsrc) PrepareCryptoForSecret() {
	if s.real != nil {
		s.real.PrepareCryptoForSecret()
		return
	}
	s.saved = s.enc
	if s.key && !s.enc {
		s.enc = true
	}
}

func (s *dsrc) RestoreCryptoAfterSecret() {
	if s.real != nil {
		s.real.RestoreCryptoAfterSecret()
		return
	}
	s.enc = s.saved
}

func (s *dsrc) CryptoForSecretIsNoop() bool {
	if s.real != nil {
		return s.real.CryptoForSecretIsNoop()
	}
	return !s.key || s.enc
}

// framesTaken: frames the decoder took from the wire so far.
func (s *dsrc) framesTaken() int {
	if s.real == nil {
		return s.fr
	}
	consumed := s.wire - len(s.conn.In)
	n := 0
	for _, b := range s.bounds {
		if b <= consumed {
			n++
		}
	}
	return n
}

// c13Violate records at most two violations per key, so that every failing site shows up in the
// (bounded) violation list.
var c13Seen = map[string]int{}

func c13Violate(c *Ctx, v Violation) {
	c13Seen[v.Key]++
	if n := c13Seen[v.Key]; n == 1 || (n == 2 && len(c.Res.Violations) < 30) {
		c.Violate(v)
	} else {
		c.Count("violations_not_listed:" + v.Key)
	}
}

// ------------------------------------------------------------------ error classes

// the index of the expression the external parser rejected, as the library reports it; the
// wording around the number is not relied upon beyond "expression <n>" ("failed to parse
// expression 3 (expected 5 …", "cannot parse expression #3: …" both match)
var reParseIdx = regexp.MustCompile(`(?i)pars\w*\s+(?:of\s+)?expression\s+#?(\d+)`)

func decErr(err error) string {
	var se *message.ErrStringSizeExceeded
	m := err.Error()
	has := func(s string) bool { return strings.Contains(m, s) }
	switch {
	case errors.As(err, &se):
		return "sizeExceeded"
	case errors.Is(err, errWireExhausted), has("c13: wire exhausted"):
		return "eof"
	case has("invalid EOF marker"), has("invalid file size data"):
		return "malformed" // (GetFile: "EOF" here is the name of the end-of-file frame, not a read error)
	case has("failed to read frame header"), has("failed to read message data"), has("read CEDAR frame"):
		return "eof"
	case errors.Is(err, io.EOF):
		return "eom"
	case has("exceeds maximum"):
		return "sizeExceeded"
	case has("invalid string length"), has("invalid TLS data length"), has("invalid encrypted key length"):
		return "malformed"
	case has("missing '='"), has("empty attribute name"), has("failed to parse expression"), has("is not a type name"), has("length mismatch"):
		return "malformed"
	case has("unexpected CEDAR frame length"), has("-byte int payload"), has("unexpected command"):
		return "malformed"
	case has("read CEDAR frame"):
		return "eof"
	case strings.HasPrefix(m, "EOF"), has(": EOF"):
		return "eom"
	}
	if c := errClass(err); !strings.HasPrefix(c, "other:") {
		return c
	}
	// wording the harness does not know: "an error", no text in the compared line (diffBatch accepts
	// "other:" wherever the model also reports an error)
	return "other:"
}

// ------------------------------------------------------------------ one decoder under test

type dworld struct {
	c       *Ctx
	src     *dsrc
	msg     *message.Message
	ops     []string
	real    []string
	inBytes int // payload bytes of the whole input
	nframes int
	maxFr   int
	label   string
	bad     bool // a violation was recorded for this case
	tight   bool // the input has no NULL-string markers: the byte budget can be checked exactly
	nomodel bool // the operation has no counterpart in the Lean model: implementation-side oracle only
	// bytes of allocation allowed per input byte (default 64). The nested-value family sets 1024: the
	// expression parser builds an object with its own attribute table per `[a=` (3 input bytes) —
	// a large constant factor, still linear; a quadratic renderer or parser exceeds it.
	allocFactor int
}

type contextT = context.Context

func showFrames(fs []dframe) string {
	parts := make([]string, 0, len(fs))
	for _, f := range fs {
		parts = append(parts, orc.Payload(f.p)+"/"+b01(f.eom))
	}
	return strings.Join(parts, " ")
}

// transport: 0 mock, 1 real stream without a key (encrypted string mode = SetEncrypted(true)),
// 2 real stream with a session key (frames sealed by refcodec; enc and key both on)
func newDWorld(c *Ctx, label string, enc, key bool, frames []dframe, transport int) *dworld {
	w := &dworld{c: c, label: label}
	for _, f := range frames {
		w.inBytes += len(f.p)
		if len(f.p) > w.maxFr {
			w.maxFr = len(f.p)
		}
	}
	w.nframes = len(frames)
	src := &dsrc{frames: frames, enc: enc, key: key, budget: 4*w.inBytes + 8*len(frames) + 256}
	switch transport {
	case 1:
		conn := bufconn.New()
		for _, f := range frames {
			fl := byte(0)
			if f.eom {
				fl = 1
			}
			conn.Feed(refcodec.Frame{Flag: fl, Len: uint32(len(f.p)), Body: f.p}.Bytes())
			src.bounds = append(src.bounds, len(conn.In))
		}
		src.conn, src.wire = conn, len(conn.In)
		src.real = stream.NewStream(conn)
		if enc {
			src.real.SetEncrypted(true)
		}
	case 2:
		conn := bufconn.New()
		dir, _ := refcodec.NewDir(keyBytes(77), [32]byte{}, [32]byte{})
		copy(dir.BaseIV[:], randBytes(c, 16))
		for _, f := range frames {
			fl := byte(0)
			if f.eom {
				fl = 1
			}
			conn.Feed(dir.Seal(fl, f.p).Bytes())
			src.bounds = append(src.bounds, len(conn.In))
		}
		src.conn, src.wire = conn, len(conn.In)
		src.real = stream.NewStream(conn)
		_ = src.real.SetSymmetricKey(keyBytes(77))
	}
	w.src = src
	w.msg = message.NewMessageFromStream(src)
	w.log(fmt.Sprintf("new %s %s", b01(enc), b01(key)), "ok")
	w.log(strings.TrimRight("frames "+showFrames(frames), " "), "ok")
	return w
}

func (w *dworld) log(op, r string) { w.ops = append(w.ops, op); w.real = append(w.real, r) }

func (w *dworld) violate(key, what, expected, observed string) {
	w.bad = true
	c13Violate(w.c, Violation{Property: "C13", Key: key, What: what, Ops: append([]string{"# " + w.label}, w.ops...), Expected: expected, Observed: observed})
}

type opRes struct {
	val    string
	err    error
	panicV any
	spin   bool
	alloc  uint64
	pulled int
	calls  int
}

// run executes one decoding operation on the real code under the implementation-side oracle.
// entry = stable name of the entry point (violation keys), cap = its size cap (0 = none).
func (w *dworld) run(op0, entry string, cap int, f func() (string, error)) opRes {
	return w.runOp(&op0, entry, cap, f)
}

func (w *dworld) runOp(opp *string, entry string, cap int, f func() (string, error)) opRes {
	var r opRes
	q0, p0 := w.src.q, w.src.pulled
	var m0, m1 runtime.MemStats
	runtime.ReadMemStats(&m0)
	func() {
		defer func() {
			if p := recover(); p != nil {
				if _, ok := p.(spinAbort); ok {
					r.spin = true
				} else {
					r.panicV = p
				}
			}
		}()
		r.val, r.err = f()
	}()
	runtime.ReadMemStats(&m1)
	r.alloc = m1.TotalAlloc - m0.TotalAlloc
	r.pulled = w.src.pulled - p0
	r.calls = w.src.q - q0
	op := *opp
	meters := fmt.Sprintf(" f=%d q=%d", w.src.framesTaken(), w.src.q)
	switch {
	case r.spin:
		w.log(op, "err spin"+meters)
		w.violate("C13:spin:"+entry, fmt.Sprintf("%s keeps iterating after the input is exhausted (%d string-level operations, %d frames for %d input bytes): the loop is bounded by a peer-supplied count, not by the input",
			entry, w.src.q, w.src.fr, w.inBytes), "an error once the message is exhausted", fmt.Sprintf("still running after %d operations", w.src.q))
	case r.panicV != nil:
		w.log(op, "err panic"+meters)
		w.violate("C13:panic:"+entry, fmt.Sprintf("%s panicked on peer-controlled input: %v", entry, r.panicV), "an error", fmt.Sprint(r.panicV))
	case r.err != nil:
		w.log(op, "err "+decErr(r.err)+meters)
	default:
		w.log(op, "ok"+r.val+meters)
	}
	// steps: string-level operations bounded by the input
	// (the count is of stream.IsEncrypted() queries; how many of them one string costs is an internal
	// matter — the bound leaves room for several per string, the exact count is compared with the
	// model only, as a correspondence detail)
	if lim := 4*w.inBytes + 64; !r.spin && r.calls > lim {
		w.violate("C13:steps:"+entry, fmt.Sprintf("%s performed %d string-level operations on %d input bytes", entry, r.calls, w.inBytes), fmt.Sprintf("≤ %d", lim), fmt.Sprint(r.calls))
	}
	// allocation in proportion to the input
	af := 64
	if w.allocFactor > 0 {
		af = w.allocFactor
	}
	if lim := uint64(af*w.inBytes + (1 << 20)); r.alloc > lim {
		w.violate("C13:alloc:"+entry, fmt.Sprintf("%s allocated %d bytes while decoding %d input bytes", entry, r.alloc, w.inBytes), fmt.Sprintf("≤ %d", lim), fmt.Sprint(r.alloc))
	}
	// cap honoured: a capped reader stops taking frames once the cap is exceeded
	if cap > 0 && r.panicV == nil && !r.spin {
		lim := 16*cap + 64 + w.maxFr
		what := "≤ 16·cap + 64 + one frame"
		if w.tight {
			// every string is charged its length + 1 against the cap and costs at most 8 bytes of
			// length prefix; what was pulled but not consumed is less than one frame
			lim = cap + 8*r.calls + 16 + w.maxFr
			what = "≤ cap + 8 per string + 16 + one frame"
		}
		if r.pulled > lim {
			w.violate("C13:cap:"+entry, fmt.Sprintf("%s with cap %d took %d payload bytes from the wire (largest frame %d)", entry, cap, r.pulled, w.maxFr),
				fmt.Sprintf("%s = %d, then an error", what, lim), fmt.Sprint(r.pulled))
		}
	}
	return r
}

func showVal(b []byte) string { return " " + orc.ShowBytes(b) }

func (w *dworld) opInt(kind string) opRes {
	return w.run(kind, "message.GetInt", 0, func() (string, error) {
		switch kind {
		case "int32":
			v, err := w.msg.GetInt32(bg)
			return fmt.Sprintf(" %d", v), err
		case "char":
			v, err := w.msg.GetChar(bg)
			return fmt.Sprintf(" %d", v), err
		}
		v, err := w.msg.GetInt64(bg)
		return fmt.Sprintf(" %d", v), err
	})
}

func (w *dworld) opStr() opRes {
	return w.run("str", "message.GetString", 0, func() (string, error) {
		v, err := w.msg.GetString(bg)
		return showVal([]byte(v)), err
	})
}

func (w *dworld) opStrMax(cap int) opRes {
	var got string
	r := w.run(fmt.Sprintf("strmax %d", cap), "message.GetStringWithMaxSize", cap, func() (string, error) {
		v, err := w.msg.GetStringWithMaxSize(bg, cap)
		got = v
		return showVal([]byte(v)), err
	})
	if cap > 0 && len(got) > cap {
		w.violate("C13:cap-value:message.GetStringWithMaxSize", fmt.Sprintf("returned %d bytes for cap %d", len(got), cap), fmt.Sprintf("≤ %d", cap), fmt.Sprint(len(got)))
	}
	return r
}

func (w *dworld) opBytes(n int) opRes {
	return w.run(fmt.Sprintf("bytes %d", n), "message.GetBytes", 0, func() (string, error) {
		v, err := w.msg.GetBytes(bg, n)
		return showVal(v), err
	})
}

func (w *dworld) opSkipStr() opRes {
	return w.run("skipstr", "message.SkipString", 0, func() (string, error) { return "", w.msg.SkipString(bg) })
}

func (w *dworld) opAd(cap int) opRes {
	// the verdict of the external expression parser is read back from the run (model parameter)
	pf := "-"
	entry := "message.GetClassAd"
	if cap > 0 {
		entry = "message.GetClassAdWithMaxSize"
	}
	op := fmt.Sprintf("ad %d -", cap)
	return w.runOp(&op, entry, cap, func() (string, error) {
		var err error
		if cap > 0 {
			_, err = w.msg.GetClassAdWithMaxSize(bg, cap)
		} else {
			_, err = w.msg.GetClassAd(bg)
		}
		if err != nil {
			if m := reParseIdx.FindStringSubmatch(err.Error()); m != nil {
				pf = m[1]
				op = fmt.Sprintf("ad %d %s", cap, pf)
			}
		}
		return "", err
	})
}

func (w *dworld) opAdRaw() opRes {
	return w.run("adraw", "message.GetClassAdRaw", 0, func() (string, error) {
		v, err := w.msg.GetClassAdRaw(bg)
		return showVal([]byte(v)), err
	})
}

func (w *dworld) opRawBody(n int64) opRes {
	return w.run(fmt.Sprintf("rawbody %d", n), "message.GetClassAdRawBody", 0, func() (string, error) {
		v, err := w.msg.GetClassAdRawBody(bg, int(n))
		return showVal([]byte(v)), err
	})
}

func (w *dworld) opSkipAd() opRes {
	return w.run("skipad", "message.SkipClassAdRaw", 0, func() (string, error) { return "", w.msg.SkipClassAdRaw(bg) })
}

func (w *dworld) opIDStr() opRes {
	return w.run("idstr", "security.getIDString", 1024, func() (string, error) {
		v, err := security.VerifGetIDString(bg, w.msg)
		return showVal([]byte(v)), err
	})
}

func (w *dworld) opToken() opRes {
	return w.run("token", "security.getToken", 65536, func() (string, error) {
		v, err := security.VerifGetToken(bg, w.msg)
		return showVal([]byte(v)), err
	})
}

// tls / xkey read through their own Message on the real stream (transport 1)
func (w *dworld) opTLS() opRes {
	return w.run("tls", "security.receiveMessage", 0, func() (string, error) {
		v, err := security.VerifTLSReceiveMessage(bg, w.src.real, true)
		return showVal(v), err
	})
}

func (w *dworld) opXKey() opRes {
	return w.run("xkey", "security.exchangeKey", 0, func() (string, error) { return "", security.VerifExchangeKeyClient(bg, w.src.real) })
}

// rest: what is left of the message (pins down how far the decoder got). No meters.
func (w *dworld) opRest() {
	var v []byte
	var err error
	var pv any
	func() {
		defer func() { pv = recover() }()
		v, err = w.msg.GetRemainingBytes(bg)
	}()
	switch {
	case pv != nil:
		if _, ok := pv.(spinAbort); ok {
			w.log("rest", "err spin")
		} else {
			w.log("rest", "err panic")
			w.violate("C13:panic:message.GetRemainingBytes", fmt.Sprintf("GetRemainingBytes panicked: %v", pv), "an error", fmt.Sprint(pv))
		}
	case err != nil:
		w.log("rest", "err "+decErr(err))
	default:
		w.log("rest", "ok "+orc.ShowBytes(v))
	}
}

func (w *dworld) done(cases *[]Case, nontrivial bool) {
	w.c.Distinct(strings.Join(w.ops, "\n"), nontrivial)
	if w.nomodel {
		return
	}
	*cases = append(*cases, Case{Label: w.label, Ops: w.ops, Real: w.real})
}

// ------------------------------------------------------------------ message builder

type dfield struct {
	kind   string // int | str | raw
	i      int64
	s      []byte
	lenOv  *int64 // encrypted-mode length prefix override
	noTerm bool   // drop the terminator
}

func fInt(v int64) dfield  { return dfield{kind: "int", i: v} }
func fStr(s string) dfield { return dfield{kind: "str", s: []byte(s)} }
func fRaw(b []byte) dfield { return dfield{kind: "raw", s: b} }

func be8(v int64) []byte { b := make([]byte, 8); binary.BigEndian.PutUint64(b, uint64(v)); return b }

func serialize(fs []dfield, enc bool) []byte {
	var out []byte
	for _, f := range fs {
		switch f.kind {
		case "int":
			out = append(out, be8(f.i)...)
		case "raw":
			out = append(out, f.s...)
		case "str":
			body := append([]byte{}, f.s...)
			if !f.noTerm {
				body = append(body, 0)
			}
			if enc {
				l := int64(len(body))
				if f.lenOv != nil {
					l = *f.lenOv
				}
				out = append(out, be8(l)...)
			}
			out = append(out, body...)
		}
	}
	return out
}

// cutFrames cuts payload bytes into frames: k random cuts (empty frames allowed); the last frame
// carries the end-of-message flag unless noEOM (then the wire simply ends).
func cutFrames(c *Ctx, b []byte, k int, noEOM bool) []dframe {
	var cuts []int
	for i := 0; i < k; i++ {
		cuts = append(cuts, c.Rng.Intn(len(b)+1))
	}
	sort.Ints(cuts)
	var fs []dframe
	pos := 0
	for _, x := range cuts {
		fs = append(fs, dframe{p: b[pos:x]})
		pos = x
	}
	fs = append(fs, dframe{p: b[pos:], eom: !noEOM})
	return fs
}

func chunkFrames(b []byte, size int) []dframe {
	var fs []dframe
	for len(b) > size {
		fs = append(fs, dframe{p: b[:size]})
		b = b[size:]
	}
	return append(fs, dframe{p: b, eom: true})
}

var (
	dAttrs  = []string{"Foo", "Bar", "Cmd", "Machine", "X_1", "MyType", "Requirements", "ClaimId", "a"}
	dValues = []string{"0", "42", "-7", "123456789", `"abc"`, `"x y"`, `""`, "TRUE", "false", "Other", "TARGET", `"slot1@host"`}
	dBadEx  = []string{"novalue", "= 5", `A = "unterminated`, "A = 1 +", "", " ", "=", "A=", "ZKMx = 1"}
	dTypes  = []string{"Machine", "Job", "", "Scheduler", "A=B", `Q"t`, "two\nlines", "back\\slash", strings.Repeat("a", 128), strings.Repeat("a", 129), "t\xff\x80", "tab\there", "\x7f"}
	// length / count values placed in one field at a time
	dLens = []int64{-1, 0, 1, 2147483647, 2147483648, 4294967296 + 5, -2147483648, 1 << 40, 1 << 62, -1 << 63, 9223372036854775807}
)

func dExpr(c *Ctx) string {
	if c.Rng.Intn(12) == 0 {
		return dBadEx[c.Rng.Intn(len(dBadEx))]
	}
	sep := " = "
	if c.Rng.Intn(4) == 0 {
		sep = "="
	}
	return dAttrs[c.Rng.Intn(len(dAttrs))] + sep + dValues[c.Rng.Intn(len(dValues))]
}

// adFields: count, expressions (some behind a secret marker), MyType, TargetType
func adFields(c *Ctx, n int, marker bool, withCount bool) ([]dfield, int) {
	var fs []dfield
	if withCount {
		fs = append(fs, fInt(int64(n)))
	}
	content := 0
	for i := 0; i < n; i++ {
		e := dExpr(c)
		if marker && c.Rng.Intn(3) == 0 {
			fs = append(fs, fStr("ZKM"))
			content += 4
		}
		fs = append(fs, fStr(e))
		content += len(e) + 1
	}
	for j := 0; j < 2; j++ {
		t := dTypes[0]
		if c.Rng.Intn(3) == 0 {
			t = dTypes[c.Rng.Intn(len(dTypes))]
		}
		fs = append(fs, fStr(t))
		content += len(t) + 1
	}
	return fs, content
}

// mutate changes one field (or the framing) and names the mutation class.
func mutate(c *Ctx, fs []dfield, enc bool) ([]dfield, string) {
	out := append([]dfield{}, fs...)
	var ints, strs []int
	for i, f := range out {
		if f.kind == "int" {
			ints = append(ints, i)
		}
		if f.kind == "str" {
			strs = append(strs, i)
		}
	}
	switch k := c.Rng.Intn(10); {
	case k <= 1 && len(ints) > 0:
		i := ints[c.Rng.Intn(len(ints))]
		switch c.Rng.Intn(3) {
		case 0:
			out[i].i += int64(c.Rng.Intn(5) - 2)
			return out, "mut:int±"
		default:
			out[i].i = dLens[c.Rng.Intn(len(dLens))]
			return out, "mut:int-catalogue"
		}
	case k <= 4 && len(strs) > 0 && enc:
		i := strs[c.Rng.Intn(len(strs))]
		var l int64
		switch c.Rng.Intn(3) {
		case 0:
			l = int64(len(out[i].s)+1) + int64(c.Rng.Intn(7)-3)
		default:
			l = dLens[c.Rng.Intn(len(dLens))]
		}
		out[i].lenOv = &l
		return out, "mut:strlen"
	case k <= 4 && len(strs) > 0:
		i := strs[c.Rng.Intn(len(strs))]
		out[i].noTerm = true
		return out, "mut:no-terminator"
	case k == 5 && len(strs) > 0:
		i := strs[c.Rng.Intn(len(strs))]
		ins := []dfield{fStr("ZKM")}
		if c.Rng.Intn(2) == 0 {
			ins = append(ins, fStr(dExpr(c)))
		}
		out = append(out[:i], append(ins, out[i:]...)...)
		return out, "mut:marker"
	case k == 6 && len(strs) > 0:
		i := strs[c.Rng.Intn(len(strs))]
		out[i].s = []byte{0xad}
		if c.Rng.Intn(2) == 0 {
			out[i].s = append(out[i].s, []byte("A = 1")...)
		}
		return out, "mut:binnull"
	case k == 7:
		i := c.Rng.Intn(len(out))
		out = append(out[:i], out[i+1:]...)
		return out, "mut:drop-field"
	case k == 8:
		i := c.Rng.Intn(len(out) + 1)
		g := fRaw(randAscii(c, 1+c.Rng.Intn(12)))
		out = append(out[:i], append([]dfield{g}, out[i:]...)...)
		return out, "mut:insert-bytes"
	}
	return out, "valid"
}

// bytes that cannot form a valid multi-byte UTF-8 sequence and avoid the classifier's keywords
func randAscii(c *Ctx, n int) []byte {
	alpha := []byte("abxyz019 =\"\x00\x01\n\\;#[]\xff\x80\xad-")
	b := make([]byte, n)
	for i := range b {
		b[i] = alpha[c.Rng.Intn(len(alpha))]
	}
	return b
}

// frame the serialized message: random cuts, optionally truncated (premature EOM) or left
// without an end-of-message frame (wire exhausted)
func frameMsg(c *Ctx, b []byte) ([]dframe, string) {
	cls := "framing:whole"
	switch c.Rng.Intn(8) {
	case 0:
		if len(b) > 0 {
			b = b[:c.Rng.Intn(len(b))]
			cls = "framing:truncated"
		}
	case 1:
		return cutFrames(c, b, c.Rng.Intn(3), true), "framing:no-eom"
	}
	k := 0
	if c.Rng.Intn(2) == 0 {
		k = 1 + c.Rng.Intn(4)
		if cls == "framing:whole" {
			cls = "framing:cut"
		}
	}
	return cutFrames(c, b, k, false), cls
}

func pickTransport(c *Ctx, enc, key bool, huge bool) int {
	if huge {
		return 0
	}
	switch {
	case enc && key && c.Rng.Intn(4) == 0:
		return 2
	case !key && c.Rng.Intn(3) == 0:
		return 1
	}
	return 0
}

func hugeCount(fs []dfield) bool {
	for _, f := range fs {
		if f.kind == "int" && (f.i > 100000 || f.i < -100000) {
			return true
		}
	}
	return false
}

// ------------------------------------------------------------------ case families

func decodeAdCase(c *Ctx, idx int, cases *[]Case) {
	enc := c.Rng.Intn(2) == 1
	key := c.Rng.Intn(3) == 0
	if enc {
		// mostly a keyed stream; sometimes the encrypted string mode without a key (SetEncrypted)
		key = c.Rng.Intn(4) != 0
	}
	n := c.Rng.Intn(6)
	entry := []string{"ad", "adcap", "adraw", "skipad", "rawbody"}[c.Rng.Intn(5)]
	fs, content := adFields(c, n, true, entry != "rawbody")
	mut := "valid"
	if c.Rng.Intn(3) != 0 {
		fs, mut = mutate(c, fs, enc)
	}
	b := serialize(fs, enc)
	frames, fcls := frameMsg(c, b)
	huge := hugeCount(fs)
	tr := pickTransport(c, enc, key, huge)
	if tr == 0 && !enc && !key {
		// mock only: a key that is installed but off (secrets toggle encryption for one field)
		key = c.Rng.Intn(4) == 0
	}
	w := newDWorld(c, fmt.Sprintf("ad#%d %s %s %s tr=%d", idx, entry, mut, fcls, tr), enc, key, frames, tr)
	switch entry {
	case "ad":
		w.opAd(0)
	case "adcap":
		caps := []int{1, 4, 5, content - 1, content, content + 1, 2 * content, 64, 1000, 65536}
		cp := caps[c.Rng.Intn(len(caps))]
		if cp < 1 {
			cp = 1
		}
		w.opAd(cp)
	case "adraw":
		w.opAdRaw()
	case "skipad":
		w.opSkipAd()
	case "rawbody":
		cnt := int64(n)
		switch c.Rng.Intn(4) {
		case 0:
			cnt = dLens[c.Rng.Intn(len(dLens))]
		case 1:
			cnt += int64(c.Rng.Intn(3) - 1)
		}
		if cnt > 100000 && tr != 0 {
			cnt = int64(n) + 1
		}
		w.opRawBody(cnt)
	}
	w.opRest()
	c.Count("entry:" + entry)
	c.Count(mut)
	c.Count(fcls)
	c.Count(fmt.Sprintf("mode:enc=%s,key=%s", b01(enc), b01(key)))
	c.Count(fmt.Sprintf("transport:%d", tr))
	if f := strings.Fields(w.real[2]); f[0] == "err" && len(f) > 1 {
		c.Count("outcome:err:" + f[1])
	} else {
		c.Count("outcome:ok")
	}
	if idx < 3 {
		c.Sample(map[string]any{"label": w.label, "ops": abbreviate(w.ops), "real": abbreviate(w.real)})
	}
	w.done(cases, mut != "valid" || fcls != "framing:whole")
}

// typed values read one by one
func decodeTypedCase(c *Ctx, idx int, cases *[]Case) {
	enc := c.Rng.Intn(2) == 1
	key := enc && c.Rng.Intn(4) != 0
	nv := 1 + c.Rng.Intn(5)
	var fs []dfield
	type rd struct {
		kind string
		arg  int
	}
	var reads []rd
	for i := 0; i < nv; i++ {
		switch c.Rng.Intn(6) {
		case 0:
			v := dLens[c.Rng.Intn(len(dLens))]
			fs = append(fs, fInt(v))
			reads = append(reads, rd{kind: []string{"int", "int32"}[c.Rng.Intn(2)]})
		case 1:
			b := randAscii(c, 1+c.Rng.Intn(20))
			fs = append(fs, fRaw(b))
			ns := []int{len(b), len(b) + 1, len(b) - 1, 0, -1, 1 << 30, -1 << 40}
			reads = append(reads, rd{kind: "bytes", arg: ns[c.Rng.Intn(len(ns))]})
		case 2:
			fs = append(fs, fRaw([]byte{byte(c.Rng.Intn(256) & 0x7f)}))
			reads = append(reads, rd{kind: "char"})
		default:
			n := c.Rng.Intn(24)
			if c.Rng.Intn(6) == 0 {
				n = 200 + c.Rng.Intn(300)
			}
			s := bytes.ReplaceAll(randAscii(c, n), []byte{0}, []byte{'0'})
			if c.Rng.Intn(10) == 0 && len(s) > 0 {
				s[0] = 0xad
			}
			fs = append(fs, dfield{kind: "str", s: s})
			switch c.Rng.Intn(4) {
			case 0:
				caps := []int{0, -3, 1, len(s) - 1, len(s), len(s) + 1, len(s) + 2, 10 * len(s), 7}
				reads = append(reads, rd{kind: "strmax", arg: caps[c.Rng.Intn(len(caps))]})
			case 1:
				reads = append(reads, rd{kind: "skipstr"})
			default:
				reads = append(reads, rd{kind: "str"})
			}
		}
	}
	mut := "valid"
	if c.Rng.Intn(2) == 0 {
		fs, mut = mutate(c, fs, enc)
	}
	b := serialize(fs, enc)
	frames, fcls := frameMsg(c, b)
	tr := pickTransport(c, enc, key, false)
	w := newDWorld(c, fmt.Sprintf("typed#%d %s %s tr=%d", idx, mut, fcls, tr), enc, key, frames, tr)
	for _, r := range reads {
		var res opRes
		switch r.kind {
		case "int", "int32", "char":
			res = w.opInt(r.kind)
		case "bytes":
			res = w.opBytes(r.arg)
		case "str":
			res = w.opStr()
		case "strmax":
			res = w.opStrMax(r.arg)
		case "skipstr":
			res = w.opSkipStr()
		}
		c.Count("typed:" + r.kind)
		if res.panicV != nil || res.spin {
			break
		}
	}
	w.opRest()
	c.Count(mut)
	c.Count(fcls)
	c.Count(fmt.Sprintf("transport:%d", tr))
	if idx < 2 {
		c.Sample(map[string]any{"label": w.label, "ops": abbreviate(w.ops), "real": abbreviate(w.real)})
	}
	w.done(cases, len(reads) >= 2 || mut != "valid")
}

// the length-field catalogue, one entry point and one field at a time (both modes)
func decodeCatalogue(c *Ctx, cases *[]Case) {
	for _, enc := range []bool{false, true} {
		for _, v := range dLens {
			// string length prefix (encrypted mode only has one)
			if enc {
				for _, entry := range []string{"str", "strmax", "skipstr", "ad", "adcap", "adraw", "skipad"} {
					l := v
					var fs []dfield
					switch entry {
					case "str", "strmax", "skipstr":
						fs = []dfield{{kind: "str", s: []byte("hello"), lenOv: &l}, fStr("next")}
					default:
						fs = []dfield{fInt(2), {kind: "str", s: []byte("A = 1"), lenOv: &l}, fStr("B = 2"), fStr("Machine"), fStr("")}
					}
					w := newDWorld(c, fmt.Sprintf("catalogue strlen=%d %s enc", v, entry), true, true, []dframe{{p: serialize(fs, true), eom: true}}, 0)
					decodeEntry(w, entry, 64)
					w.opRest()
					c.Count("catalogue:strlen")
					w.done(cases, true)
				}
			}
			// expression count
			for _, entry := range []string{"ad", "adcap", "adraw", "skipad", "rawbody"} {
				fs := []dfield{fStr("A = 1"), fStr("B = 2"), fStr("Machine"), fStr("")}
				if entry != "rawbody" {
					fs = append([]dfield{fInt(v)}, fs...)
				}
				w := newDWorld(c, fmt.Sprintf("catalogue count=%d %s enc=%s", v, entry, b01(enc)), enc, enc, []dframe{{p: serialize(fs, enc), eom: true}}, 0)
				if entry == "rawbody" {
					w.opRawBody(v)
				} else {
					decodeEntry(w, entry, 64)
				}
				w.opRest()
				c.Count("catalogue:count")
				w.done(cases, true)
			}
			// identity string of the token exchange: announced length
			{
				fs := []dfield{fInt(v), fStr("alice@pool")}
				w := newDWorld(c, fmt.Sprintf("catalogue idlen=%d enc=%s", v, b01(enc)), enc, enc, []dframe{{p: serialize(fs, enc), eom: true}}, 0)
				w.opIDStr()
				w.opRest()
				c.Count("catalogue:idstr")
				w.done(cases, true)
			}
		}
	}
}

func decodeEntry(w *dworld, entry string, cap int) opRes {
	switch entry {
	case "str":
		return w.opStr()
	case "strmax":
		return w.opStrMax(cap)
	case "skipstr":
		return w.opSkipStr()
	case "ad":
		return w.opAd(0)
	case "adcap":
		return w.opAd(cap)
	case "adraw":
		return w.opAdRaw()
	case "skipad":
		return w.opSkipAd()
	}
	return opRes{}
}

// capped readers against inputs many times larger than the cap
func decodeOversize(c *Ctx, cases *[]Case) {
	sizes := []int{10, 100}
	if c.Thorough() {
		sizes = append(sizes, 400)
	}
	for _, enc := range []bool{false, true} {
		for _, key := range []bool{false, true} {
			if enc && !key {
				continue
			}
			for _, cap := range []int{16, 1000, 65536} {
				for _, times := range sizes {
					big := bytes.Repeat([]byte("x"), cap*times)
					if cap*times > 8<<20 {
						continue
					}
					shapes := map[string][]dfield{
						"string":        {dfield{kind: "str", s: big}, fStr("tail")},
						"expression":    {fInt(2), dfield{kind: "str", s: append([]byte("A = "), big...)}, fStr("B = 2"), fStr("Machine"), fStr("")},
						"secret":        {fInt(2), fStr("ZKM"), dfield{kind: "str", s: append([]byte("A = "), big...)}, fStr("B = 2"), fStr("Machine"), fStr("")},
						"secret-noterm": {fInt(2), fStr("ZKM"), dfield{kind: "str", s: append([]byte("A = "), big...), noTerm: true}},
						"mytype":        {fInt(1), fStr("A = 1"), dfield{kind: "str", s: big}, fStr("")},
						"many":          nil,
					}
					var many []dfield
					cnt := cap * times / 8
					many = append(many, fInt(int64(cnt)))
					for i := 0; i < cnt; i++ {
						many = append(many, fStr("A = 12"))
					}
					many = append(many, fStr("Machine"), fStr(""))
					shapes["many"] = many
					names := make([]string, 0, len(shapes))
					for k := range shapes {
						names = append(names, k)
					}
					sort.Strings(names)
					for _, name := range names {
						fs := shapes[name]
						if name == "many" && cap*times > 256<<10 {
							continue // (the op line carries the message in hex)
						}
						// with a key that is off, the secret travels in encrypted string form
						var b []byte
						if strings.HasPrefix(name, "secret") && key && !enc {
							b = append(serialize(fs[:2], false), serialize(fs[2:3], true)...)
							b = append(b, serialize(fs[3:], false)...)
						} else {
							b = serialize(fs, enc)
						}
						frames := chunkFrames(b, 64<<10)
						w := newDWorld(c, fmt.Sprintf("oversize %s cap=%d x%d enc=%s key=%s", name, cap, times, b01(enc), b01(key)), enc, key, frames, 0)
						if name == "string" {
							w.opStrMax(cap)
						} else {
							w.opAd(cap)
						}
						c.Count("oversize:" + name)
						w.done(cases, true)
					}
				}
			}
		}
	}
}

// the byte budget of the bounded ClassAd reader is ONE budget across all strings of the ad, the
// secret after a marker included: ads whose strings are each below the cap but together above it,
// delivered in 16-byte frames so that the bytes taken from the wire show how far the reader went
func decodeBudget(c *Ctx, cases *[]Case) {
	fill := func(n int) string { return "A = \"" + strings.Repeat("v", n) + "\"" }
	for _, enc := range []bool{false, true} {
		for _, key := range []bool{false, true} {
			if enc && !key {
				continue
			}
			for _, cap := range []int{200, 1000, 4000} {
				shapes := map[string][]dfield{
					"expr-then-secret": {fInt(3), fStr(fill(cap - 20)), fStr("ZKM"), fStr(fill(cap - 20)), fStr("B = 2"), fStr("Machine"), fStr("")},
					"secret-then-expr": {fInt(3), fStr("ZKM"), fStr(fill(cap - 20)), fStr(fill(cap - 20)), fStr("B = 2"), fStr("Machine"), fStr("")},
					"two-secrets":      {fInt(2), fStr("ZKM"), fStr(fill(cap/2 + 10)), fStr("ZKM"), fStr(fill(cap/2 + 10)), fStr("Machine"), fStr("")},
					"two-exprs":        {fInt(2), fStr(fill(cap / 2)), fStr(fill(cap/2 + 10)), fStr("Machine"), fStr("")},
					"many-exprs":       nil,
					"expr-then-mytype": {fInt(1), fStr(fill(cap - 20)), fStr(strings.Repeat("t", cap-20)), fStr("")},
					"types":            {fInt(0), fStr(strings.Repeat("t", cap-2)), fStr(strings.Repeat("u", cap-2))},
				}
				var many []dfield
				many = append(many, fInt(int64(cap)))
				for i := 0; i < cap; i++ {
					many = append(many, fStr("A = 12"))
				}
				shapes["many-exprs"] = append(many, fStr("Machine"), fStr(""))
				names := make([]string, 0, len(shapes))
				for k := range shapes {
					names = append(names, k)
				}
				sort.Strings(names)
				for _, name := range names {
					fs := shapes[name]
					var b []byte
					if key && !enc {
						// the field after a marker travels in encrypted string form
						for i, f := range fs {
							b = append(b, serialize([]dfield{f}, i > 0 && fs[i-1].kind == "str" && string(fs[i-1].s) == "ZKM")...)
						}
					} else {
						b = serialize(fs, enc)
					}
					w := newDWorld(c, fmt.Sprintf("budget %s cap=%d enc=%s key=%s", name, cap, b01(enc), b01(key)), enc, key, chunkFrames(b, 16), 0)
					w.tight = true
					w.opAd(cap)
					c.Count("budget:" + name)
					w.done(cases, true)
				}
			}
		}
	}
}

// handshake messages on a real stream: status/length/data and the key-exchange record
func decodeHandshake(c *Ctx, cases *[]Case, childJobs *[]childJob) {
	lens := []int64{-1, 0, 1, 5, 6, 7, 4096, 1 << 20, 1<<24 + 3, -2147483648, -1 << 63}
	fatal := []int64{2147483647, 1 << 31, 1 << 33, 1 << 40, 1 << 62, 9223372036854775807}
	data := []byte("\x16\x03\x01hs")
	for _, enc := range []bool{false, true} {
		for _, l := range append(append([]int64{}, lens...), fatal...) {
			for _, kind := range []string{"tls", "xkey"} {
				var fs []dfield
				if kind == "tls" {
					fs = []dfield{fInt(2), fInt(l), fRaw(data)}
				} else {
					fs = []dfield{fInt(1), fInt(32), fInt(3), fInt(0), fInt(l), fRaw(data)}
				}
				frames := []dframe{{p: serialize(fs, enc), eom: true}}
				label := fmt.Sprintf("handshake %s len=%d enc=%s", kind, l, b01(enc))
				if l > 1<<26 {
					*childJobs = append(*childJobs, childJob{Label: label, Kind: kind, Enc: enc, Frames: hexFrames(frames), InBytes: len(frames[0].p)})
					c.Count("handshake:child:" + kind)
					continue
				}
				w := newDWorld(c, label, enc, false, frames, 1)
				if kind == "tls" {
					w.opTLS()
				} else {
					w.opXKey()
				}
				// (these two read through a Message of their own: what they leave behind is dropped with it)
				c.Count("handshake:" + kind)
				w.done(cases, true)
			}
		}
	}
	// random shapes
	for i := 0; i < c.Pick(60, 6000); i++ {
		enc := c.Rng.Intn(2) == 1
		n := c.Rng.Intn(40)
		d := randAscii(c, n)
		l := int64(n + c.Rng.Intn(5) - 2)
		var fs []dfield
		kind := []string{"tls", "xkey", "idstr", "token"}[c.Rng.Intn(4)]
		switch kind {
		case "tls":
			fs = []dfield{fInt(int64(c.Rng.Intn(6) - 1)), fInt(l), fRaw(d)}
		case "xkey":
			fs = []dfield{fInt(int64(c.Rng.Intn(3))), fInt(32), fInt(3), fInt(0), fInt(l), fRaw(d)}
		case "idstr":
			s := bytes.ReplaceAll(d, []byte{0}, []byte{'0'})
			if c.Rng.Intn(5) == 0 {
				s = bytes.Repeat([]byte("n"), 1020+c.Rng.Intn(10))
				l = int64(len(s) + c.Rng.Intn(3) - 1)
			}
			fs = []dfield{fInt(l), {kind: "str", s: s}}
		case "token":
			s := bytes.ReplaceAll(d, []byte{0}, []byte{'0'})
			if c.Rng.Intn(5) == 0 {
				s = bytes.Repeat([]byte("t"), 65530+c.Rng.Intn(12))
			}
			fs = []dfield{{kind: "str", s: s}}
		}
		mut := "valid"
		if c.Rng.Intn(3) == 0 {
			fs, mut = mutate(c, fs, enc)
		}
		if hugeCount(fs) && (kind == "tls" || kind == "xkey") {
			// lengths that could size a huge buffer go through the child process (catalogue above)
			for j := range fs {
				if fs[j].kind == "int" && (fs[j].i > 100000 || fs[j].i < -100000) {
					fs[j].i = -1
				}
			}
		}
		frames, fcls := frameMsg(c, serialize(fs, enc))
		tr := 0
		if kind == "tls" || kind == "xkey" {
			tr = 1
		}
		w := newDWorld(c, fmt.Sprintf("handshake#%d %s %s %s", i, kind, mut, fcls), enc, false, frames, tr)
		switch kind {
		case "tls":
			w.opTLS()
		case "xkey":
			w.opXKey()
		case "idstr":
			w.opIDStr()
		case "token":
			w.opToken()
		}
		if tr == 0 {
			w.opRest()
		}
		c.Count("handshake:" + kind)
		c.Count(mut)
		w.done(cases, true)
	}
}

// ------------------------------------------------------------------ frame layer on raw wire bytes

type wworld struct {
	c     *Ctx
	conn  *bufconn.Conn
	s     *stream.Stream
	ops   []string
	real  []string
	label string
	wire  int
	dead  bool
	// last call: the header at the head of the wire was refused (an error, no payload byte taken, no wait)
	lastHdrRefused bool
}

func newWWorld(c *Ctx, label string, wire []byte, keyed bool) *wworld {
	return newWWorldP(c, label, wire, orc.Payload(wire), keyed)
}

func newWWorldP(c *Ctx, label string, wire []byte, payload string, keyed bool) *wworld {
	conn := bufconn.New()
	conn.Feed(wire)
	w := &wworld{c: c, conn: conn, s: stream.NewStream(conn), label: label, wire: len(wire)}
	if keyed {
		_ = w.s.SetSymmetricKey(keyBytes(78))
	}
	w.ops = append(w.ops, fmt.Sprintf("wire %s %s", b01(keyed), payload))
	w.real = append(w.real, "ok")
	return w
}

func (w *wworld) op(op, entry string, f func() (string, error)) {
	if w.dead {
		return // a receive error is terminal: the connection is dropped
	}
	var val string
	var err error
	var pv any
	var m0, m1 runtime.MemStats
	// independent of the model: what the next frame header announces
	announced, flag, haveHdr := uint32(0), byte(0), len(w.conn.In) >= 5
	if haveHdr {
		flag, announced = w.conn.In[0], binary.BigEndian.Uint32(w.conn.In[1:5])
	}
	firstBad := firstBadFrame(w.conn.In)
	inBefore, eofReads0 := len(w.conn.In), w.conn.EOFReads
	runtime.ReadMemStats(&m0)
	func() {
		defer func() { pv = recover() }()
		val, err = f()
	}()
	runtime.ReadMemStats(&m1)
	viol := func(key, what, exp, obs string) {
		c13Violate(w.c, Violation{Property: "C13", Key: key, What: what, Ops: append([]string{"# " + w.label}, w.ops...), Expected: exp, Observed: obs})
	}
	w.dead = pv != nil || err != nil
	switch {
	case pv != nil:
		w.ops, w.real = append(w.ops, op), append(w.real, "err panic")
		viol("C13:panic:"+entry, fmt.Sprintf("%s panicked on peer-controlled bytes: %v", entry, pv), "an error", fmt.Sprint(pv))
	case err != nil:
		w.ops, w.real = append(w.ops, op), append(w.real, "err "+decErr(err))
	default:
		w.ops, w.real = append(w.ops, op), append(w.real, fmt.Sprintf("ok%s rest=%d", val, len(w.conn.In)))
	}
	// frame length and end-flag validation: a header announcing more than MaxMessageSize, or an
	// end flag above 10, is refused — before any payload buffer is sized from it
	if haveHdr && pv == nil {
		obs := "accepted"
		if err != nil {
			obs = "err " + decErr(err)
		}
		// "refused" is judged on EFFECTS, not on the wording of the error: an error came back, not one
		// byte of the frame's payload was taken from the wire (at most the 5 header bytes were consumed)
		// and the reader never went on to wait for bytes the wire does not hold
		refused := err != nil && inBefore-len(w.conn.In) <= 5 && w.conn.EOFReads == eofReads0
		how := fmt.Sprintf("%s; %d bytes taken from the wire, %d reads past its end", obs, inBefore-len(w.conn.In), w.conn.EOFReads-eofReads0)
		w.lastHdrRefused = refused
		if announced > stream.MaxMessageSize && !refused {
			viol("C13:frame-limit:"+entry, fmt.Sprintf("%s did not refuse a frame header announcing %d bytes (limit %d)", entry, announced, stream.MaxMessageSize), "an error, no payload byte read", how)
		} else if announced <= stream.MaxMessageSize && flag > 10 && !refused {
			viol("C13:frame-flag:"+entry, fmt.Sprintf("%s did not refuse a frame header with end flag %d", entry, flag), "an error, no payload byte read", how)
		}
	}
	if a, lim := m1.TotalAlloc-m0.TotalAlloc, uint64(16*w.wire+4<<20); a > lim {
		viol("C13:alloc:"+entry, fmt.Sprintf("%s allocated %d bytes for %d wire bytes", entry, a, w.wire), fmt.Sprintf("≤ %d", lim), fmt.Sprint(a))
	}
	// a reader that takes several frames (GetFile, ReceiveCompleteMessage): the first frame of the
	// unread wire that cannot be delivered decides how it must end. When that frame is an oversize
	// header, every frame before it is complete and legal, so "ran out of data" can only mean the
	// reader accepted the oversize header and waited for its payload.
	if pv == nil && err != nil && (errors.Is(err, io.EOF) || errors.Is(err, io.ErrUnexpectedEOF) || w.conn.EOFReads > eofReads0) && firstBad == "oversize" {
		viol("C13:frame-limit:"+entry, fmt.Sprintf("%s ran out of data although the first undeliverable frame of the wire is a header announcing more than %d bytes: the header was accepted and a payload buffer sized from it", entry, stream.MaxMessageSize), "err tooLarge", "err eof")
	}
}

// firstBadFrame walks the frames of a wire (reference parser, independent of the library) and
// names what stops it: "" (the wire ends on a frame boundary), "oversize", "flag", "truncated".
func firstBadFrame(b []byte) string {
	for len(b) > 0 {
		if len(b) < 5 {
			return "truncated"
		}
		n := binary.BigEndian.Uint32(b[1:5])
		if n > stream.MaxMessageSize {
			return "oversize"
		}
		if b[0] > 10 {
			return "flag"
		}
		if uint64(len(b)-5) < uint64(n) {
			return "truncated"
		}
		b = b[5+int(n):]
	}
	return ""
}

func (w *wworld) recvc() {
	w.op("recvc", "stream.ReceiveCompleteMessage", func() (string, error) {
		v, err := w.s.ReceiveCompleteMessage(bg)
		return showVal(v), err
	})
}

func (w *wworld) recvf() {
	w.op("recvf", "stream.ReceiveFrameWithEnd", func() (string, error) {
		v, fl, err := w.s.ReceiveFrameWithEnd(bg)
		return fmt.Sprintf(" %d %s", fl, orc.ShowBytes(v)), err
	})
}

func (w *wworld) readmsg() {
	w.op("readmsg", "stream.StartMessageRead", func() (string, error) {
		if err := w.s.StartMessageRead(bg); err != nil {
			return "", err
		}
		var all []byte
		buf := make([]byte, 4096)
		for {
			n, err := w.s.ReadMessageBytes(bg, buf)
			all = append(all, buf[:n]...)
			if err != nil {
				break
			}
		}
		_ = w.s.EndMessageRead()
		return showVal(all), nil
	})
}

// the frame reader without end flag and its two callers
func (w *wworld) recvn() {
	w.op("recvn", "stream.ReceiveFrame", func() (string, error) {
		v, err := w.s.ReceiveFrame(bg)
		return showVal(v), err
	})
}

func (w *wworld) getsecret() {
	w.op("getsecret", "stream.GetSecret", func() (string, error) {
		v, err := w.s.GetSecret(bg)
		return showVal([]byte(v)), err
	})
}

func (w *wworld) getfile() {
	w.op("getfile", "stream.GetFile", func() (string, error) {
		dir, err := os.MkdirTemp(workRoot(), scratchPrefix("c13f"))
		if err != nil {
			return "", err
		}
		defer os.RemoveAll(dir)
		p := filepath.Join(dir, "received")
		n, err := w.s.GetFile(bg, p)
		if st, e := os.Stat(p); e == nil && st.Size() > int64(w.wire) {
			c13Violate(w.c, Violation{Property: "C13", Key: "C13:file-size:stream.GetFile", What: fmt.Sprintf("GetFile wrote %d bytes to the file from %d wire bytes", st.Size(), w.wire),
				Ops: append([]string{"# " + w.label}, w.ops...), Expected: fmt.Sprintf("≤ %d", w.wire), Observed: fmt.Sprint(st.Size())})
		}
		return fmt.Sprintf(" %d", n), err
	})
}

func (w *wworld) api(name string) {
	switch name {
	case "recvc":
		w.recvc()
	case "readmsg":
		w.readmsg()
	case "recvf":
		w.recvf()
	case "recvn":
		w.recvn()
	case "getsecret":
		w.getsecret()
	case "getfile":
		w.getfile()
	}
}

var wireEntry = map[string]string{"recvc": "stream.ReceiveCompleteMessage", "readmsg": "stream.StartMessageRead", "recvf": "stream.ReceiveFrameWithEnd",
	"recvn": "stream.ReceiveFrame", "getsecret": "stream.GetSecret", "getfile": "stream.GetFile"}

// decodeWireNoEnd: stream.ReceiveFrame — the frame reader behind GetSecret and GetFile — under
// hostile headers. Headers that could size a buffer of more than 64 MiB go to the child process.
func decodeWireNoEnd(c *Ctx, cases *[]Case, childJobs *[]childJob) {
	add := func(w *wworld) {
		c.Distinct(strings.Join(w.ops, "\n"), true)
		*cases = append(*cases, Case{Label: w.label, Ops: w.ops, Real: w.real})
	}
	run := func(label string, wire []byte, apis ...string) {
		// the largest length any header position of this wire could announce decides where it runs
		huge := false
		for b := wire; len(b) >= 5; {
			n := binary.BigEndian.Uint32(b[1:5])
			if n > 1<<26 {
				huge = true
			}
			if uint64(len(b)-5) < uint64(n) {
				break
			}
			b = b[5+int(n):]
		}
		if huge && len(apis) == 1 {
			exp := ""
			if len(wire) >= 5 && binary.BigEndian.Uint32(wire[1:5]) > stream.MaxMessageSize {
				exp = "err tooLarge"
			}
			*childJobs = append(*childJobs, childJob{Label: label, Kind: "wire", Api: apis[0], Wire: hex.EncodeToString(wire), InBytes: len(wire), Expect: exp})
			c.Count("wire-noend:child:" + apis[0])
			return
		}
		if huge {
			return
		}
		w := newWWorld(c, label, wire, false)
		for _, a := range apis {
			w.api(a)
		}
		c.Count("wire-noend:" + apis[0])
		add(w)
	}
	flags := []byte{0, 1, 10, 11, 255}
	lens := []uint32{0, 1, 7, 8, 9, 1<<20 - 1, 1 << 20, 1<<20 + 1, 1 << 24, 1<<26 + 1, 0x7fffffff, 0x80000000, 0xffffffff}
	// one header, a short body
	for _, n := range lens {
		for _, fl := range flags {
			if n > 1<<20+1 && fl != 1 && !(fl == 255 && n == 0xffffffff) {
				continue
			}
			for _, bl := range []int{0, 4, 8, 12} {
				if n > 1<<26 && bl != 0 && bl != 8 {
					continue // (each of these is a process of its own when the limit is gone)
				}
				body := bytes.Repeat([]byte{0x01}, bl)
				if bl >= 4 {
					body[bl-1] = 0
				}
				wire := wireFrame(fl, n, body)
				for _, apiName := range []string{"recvn", "getsecret", "getfile"} {
					run(fmt.Sprintf("noend-header n=%d flag=%d body=%d %s", n, fl, bl, apiName), wire, apiName)
				}
			}
		}
	}
	// files: size frame, chunks, end marker — valid, and with one hostile element
	marker := func(v uint32) []byte { b := make([]byte, 4); binary.BigEndian.PutUint32(b, v); return wireFrame(1, 4, b) }
	sizes := []int64{0, 1, 3, 10, -1, -1 << 63, 1 << 40, 1<<63 - 1}
	for _, size := range sizes {
		for _, shape := range []string{"exact", "short", "over", "empty-chunks", "no-marker", "bad-marker", "marker-len", "size-len", "hostile-chunk", "hostile-chunk-huge", "hostile-marker", "hostile-marker-huge", "flag-chunk"} {
			var wire []byte
			sz := be8(size)
			if shape == "size-len" {
				sz = sz[:7]
			}
			wire = append(wire, wireFrame(1, uint32(len(sz)), sz)...)
			want := size
			if want > 10 || want < 0 {
				want = 6
			}
			data := bytes.Repeat([]byte{0x62}, int(want))
			chunk := func(b []byte) { wire = append(wire, wireFrame(1, uint32(len(b)), b)...) }
			switch shape {
			case "short":
				if len(data) > 0 {
					chunk(data[:len(data)-1])
				}
			case "over":
				chunk(append(append([]byte{}, data...), 0x63, 0x63))
			case "empty-chunks":
				for i := 0; i < 50; i++ {
					chunk(nil)
				}
				chunk(data)
			case "hostile-chunk":
				chunk(data[:len(data)/2])
				wire = append(wire, wireFrame(1, 1<<20+1, []byte("xy"))...)
			case "hostile-chunk-huge":
				chunk(data[:len(data)/2])
				wire = append(wire, wireFrame(1, 0xfffffff0, []byte("xy"))...)
			case "flag-chunk":
				chunk(data[:len(data)/2])
				wire = append(wire, wireFrame(11, 2, []byte("xy"))...)
			default:
				for len(data) > 0 {
					k := 1 + c.Rng.Intn(len(data))
					chunk(data[:k])
					data = data[k:]
				}
			}
			switch shape {
			case "no-marker":
			case "bad-marker":
				wire = append(wire, marker(667)...)
			case "marker-len":
				wire = append(wire, wireFrame(1, 5, []byte{0, 0, 2, 154, 0})...)
			case "hostile-marker":
				wire = append(wire, wireFrame(1, 1<<20+1, []byte{0, 0, 2, 154})...)
			case "hostile-marker-huge":
				wire = append(wire, wireFrame(1, 0x80000004, []byte{0, 0, 2, 154})...)
			default:
				wire = append(wire, marker(666)...)
			}
			wire = append(wire, wireFrame(1, 3, []byte("nx\x00"))...) // what follows the file stays unread
			run(fmt.Sprintf("noend-file size=%d %s", size, shape), wire, "getfile")
			c.Count("wire-noend:file:" + shape)
		}
	}
	// random frame sequences read frame by frame / as secrets / as a file
	for i := 0; i < c.Pick(120, 8000); i++ {
		var wire []byte
		nf := 1 + c.Rng.Intn(5)
		for j := 0; j < nf; j++ {
			body := randAscii(c, c.Rng.Intn(12))
			if j == 0 && c.Rng.Intn(2) == 0 {
				body = be8(int64(c.Rng.Intn(20) - 2))
			}
			if j == nf-1 && c.Rng.Intn(2) == 0 {
				body = []byte{0, 0, 2, byte(153 + c.Rng.Intn(3))}
			}
			fl := []byte{0, 1, 1, 1, 2, 10, 11}[c.Rng.Intn(7)]
			n := uint32(len(body))
			switch c.Rng.Intn(12) {
			case 0:
				n = []uint32{0, n + 1, n + 100, 1 << 20, 1<<20 + 1, 1 << 25}[c.Rng.Intn(6)]
			case 1:
				if len(body) > 0 {
					body = body[:len(body)-1]
				}
			}
			wire = append(wire, wireFrame(fl, n, body)...)
		}
		var apis []string
		switch c.Rng.Intn(3) {
		case 0:
			apis = []string{"getfile", "recvn"}
		case 1:
			for k := 0; k <= nf; k++ {
				apis = append(apis, []string{"recvn", "getsecret", "recvf"}[c.Rng.Intn(3)])
			}
		default:
			apis = []string{"getsecret", "getfile"}
		}
		run(fmt.Sprintf("noend#%d", i), wire, apis...)
	}
	// an empty cleartext frame on a keyed stream; GetSecret turns crypto on for its frame
	for _, apiName := range []string{"recvn", "getsecret", "getfile"} {
		w := newWWorld(c, "noend-keyed-empty "+apiName, wireFrame(1, 0, nil), true)
		w.api(apiName)
		c.Count("wire-noend:keyed-empty")
		add(w)
	}
}

// decodeNested: ClassAd VALUES that make a recursive parser / renderer go deep or wide — nested
// ads `[a=[a=[…]]]`, parenthesised and unary chains, long lists, long operator chains — as the
// value of one attribute, alone and followed by a malformed expression (the error path renders the
// partial ad). Small depths run in-process (compared with the model); large ones in the child
// process, whose stack is limited (SetMaxStack 48 MiB): unbounded recursion is a dead process.
func decodeNested(c *Ctx, cases *[]Case, childJobs *[]childJob) {
	shape := func(kind string, d int) string {
		switch kind {
		case "nested-ad":
			return strings.Repeat("[a=", d) + "1" + strings.Repeat("]", d)
		case "parens":
			return strings.Repeat("(", d) + "1" + strings.Repeat(")", d)
		case "unary":
			return strings.Repeat("-", d) + "1"
		case "not":
			return strings.Repeat("!", d) + "true"
		case "list":
			return "{" + strings.Repeat("1,", d) + "1}"
		case "nested-list":
			return strings.Repeat("{", d) + "1" + strings.Repeat("}", d)
		case "chain":
			return strings.Repeat("1+", d) + "1"
		case "ternary":
			return strings.Repeat("true?1:", d) + "0"
		case "call":
			return strings.Repeat("f(", d) + "1" + strings.Repeat(")", d)
		case "unclosed":
			return strings.Repeat("[a=", d)
		}
		return "1"
	}
	kinds := []string{"nested-ad", "parens", "unary", "not", "list", "nested-list", "chain", "ternary", "call", "unclosed"}
	depths := []int{3, 40, 1000, c.Pick(30000, 150000)}
	for _, kind := range kinds {
		for _, d := range depths {
			for _, tail := range []string{"", "bad"} {
				for _, enc := range []bool{false, true} {
					if enc && (d == 40 || tail == "bad" && d > 1000) {
						continue
					}
					exprs := []dfield{fStr("A = " + shape(kind, d))}
					if tail == "bad" {
						exprs = append(exprs, fStr("novalue"))
					}
					fs := append([]dfield{fInt(int64(len(exprs)))}, exprs...)
					fs = append(fs, fStr("Machine"), fStr(""))
					b := serialize(fs, enc)
					frames := chunkFrames(b, 64<<10)
					for _, cp := range []int{0, 1 << 20} {
						label := fmt.Sprintf("nested %s depth=%d tail=%q cap=%d enc=%s", kind, d, tail, cp, b01(enc))
						if d > 1000 {
							if cp != 0 && kind != "nested-ad" {
								continue
							}
							*childJobs = append(*childJobs, childJob{Label: label, Kind: "adnest", Enc: enc, Frames: hexFrames(frames), InBytes: len(b), Api: fmt.Sprint(cp)})
							c.Count("nested:child:" + kind)
							continue
						}
						w := newDWorld(c, label, enc, enc, frames, 0)
						w.allocFactor = 1024
						w.opAd(cp)
						w.opRest()
						c.Count("nested:" + kind)
						w.done(cases, true)
					}
				}
			}
		}
	}
}

func wireFrame(flag byte, n uint32, body []byte) []byte {
	return append(refcodec.Header(flag, n), body...)
}

func decodeWire(c *Ctx, cases *[]Case) {
	add := func(w *wworld) {
		c.Distinct(strings.Join(w.ops, "\n"), true)
		*cases = append(*cases, Case{Label: w.label, Ops: w.ops, Real: w.real})
	}
	flags := []byte{0, 1, 2, 10, 11, 255}
	for i := 0; i < c.Pick(150, 12000); i++ {
		var wire []byte
		nf := 1 + c.Rng.Intn(5)
		cls := "wire:valid"
		for j := 0; j < nf; j++ {
			body := randAscii(c, c.Rng.Intn(12))
			fl := byte(0)
			if j == nf-1 || c.Rng.Intn(5) == 0 {
				fl = 1
			}
			n := uint32(len(body))
			if c.Rng.Intn(6) == 0 {
				cls = "wire:mutated"
				switch c.Rng.Intn(6) {
				case 0:
					fl = flags[c.Rng.Intn(len(flags))]
				case 1:
					n = []uint32{0, n + 1, n + 100, 1 << 20, 1<<20 + 1, 0xffffffff, 0x80000000}[c.Rng.Intn(7)]
				case 2:
					body = nil
					n = 0
				case 3:
					wire = append(wire, wireFrame(fl, n, body)[:c.Rng.Intn(5)]...)
					continue
				case 4:
					if len(body) > 0 {
						body = body[:len(body)-1]
					}
				case 5:
					fl = 0
				}
			}
			wire = append(wire, wireFrame(fl, n, body)...)
		}
		w := newWWorld(c, fmt.Sprintf("wire#%d %s", i, cls), wire, false)
		switch c.Rng.Intn(3) {
		case 0:
			w.recvc()
			w.recvc()
		case 1:
			w.readmsg()
			w.recvf()
		default:
			for k := 0; k < nf+1; k++ {
				w.recvf()
			}
		}
		c.Count(cls)
		add(w)
	}
	// limits of the frame header, exactly
	for _, n := range []uint32{0, 1, 1<<20 - 1, 1 << 20, 1<<20 + 1, 0x7fffffff, 0xffffffff} {
		for _, fl := range flags {
			for _, trunc := range []bool{false, true} {
				bl := int(min64(int64(n), 1<<20+8))
				if n > 1<<20+1 {
					bl = 5
				}
				if trunc {
					if bl == 0 {
						continue
					}
					bl--
				}
				wire := wireFrame(fl, n, bytes.Repeat([]byte{0x51}, bl))
				payload := hex.EncodeToString(wire[:5])
				if bl > 0 {
					payload += fmt.Sprintf("+fill:%d:51", bl)
				}
				for _, api := range []string{"recvc", "readmsg"} {
					w := newWWorldP(c, fmt.Sprintf("wire-limit n=%d flag=%d trunc=%v %s", n, fl, trunc, api), wire, payload, false)
					if api == "recvc" {
						w.recvc()
					} else {
						w.readmsg()
					}
					c.Count("wire:limit")
					add(w)
				}
			}
		}
	}
	// an empty cleartext frame on a keyed stream
	for _, fl := range []byte{0, 1} {
		w := newWWorld(c, fmt.Sprintf("wire-keyed-empty flag=%d", fl), wireFrame(fl, 0, nil), true)
		w.recvc()
		c.Count("wire:keyed-empty")
		add(w)
	}
	// many empty partial frames, then the end: proportional work, constant stack (in-process size)
	for _, k := range []int{1000, c.Pick(20000, 100000)} {
		var wire []byte
		for i := 0; i < k; i++ {
			wire = append(wire, wireFrame(0, 0, nil)...)
		}
		wire = append(wire, wireFrame(1, 2, []byte("ok"))...)
		for _, api := range []string{"recvc", "readmsg"} {
			w := newWWorldP(c, fmt.Sprintf("wire-flood k=%d %s", k, api), wire, floodPayload(k), false)
			t0, cpu0 := time.Now(), cpuTime()
			if api == "recvc" {
				w.recvc()
			} else {
				w.readmsg()
			}
			if d := time.Since(t0); slowAndBusy(c, t0, cpu0, 20*time.Second) {
				c13Violate(c, Violation{Property: "C13", Key: "C13:time:stream." + api, What: fmt.Sprintf("%d empty partial frames took %v", k, d), Ops: []string{"# " + w.label}, Expected: "linear time", Observed: d.String()})
			}
			c.Count("wire:flood")
			add(w)
		}
	}
}

// the oracle's payload syntax has no repetition of a multi-byte pattern; an empty partial frame
// is five zero bytes, so k of them are one constant run
func floodPayload(k int) string {
	return fmt.Sprintf("fill:%d:00+0100000002+6f6b", 5*k)
}

func min64(a, b int64) int64 {
	if a < b {
		return a
	}
	return b
}

// ------------------------------------------------------------------ text parsers, blobs, headers

func guardLeaf(c *Ctx, entry string, in string, f func()) {
	defer func() {
		if p := recover(); p != nil {
			c13Violate(c, Violation{Property: "C13", Key: "C13:panic:" + entry, What: fmt.Sprintf("%s panicked: %v", entry, p),
				Ops: []string{entry + " " + strconv.Quote(clip(in, 200))}, Expected: "a value or an error", Observed: fmt.Sprint(p)})
		}
	}()
	t0, cpu0 := time.Now(), cpuTime()
	var m0, m1 runtime.MemStats
	measure := len(in) >= 1024 // (short inputs: the fixed costs of the parsers dominate; panics and time still checked)
	if measure {
		runtime.ReadMemStats(&m0)
	}
	f()
	if measure {
		runtime.ReadMemStats(&m1)
		// allocation in proportion to the text: a generous linear budget (per-separator slices,
		// copies, maps), which a quadratic blow-up or a buffer sized from a number in the text exceeds
		if a, lim := m1.TotalAlloc-m0.TotalAlloc, uint64(256*len(in)+4<<20); a > lim {
			c13Violate(c, Violation{Property: "C13", Key: "C13:alloc:" + entry, What: fmt.Sprintf("%s allocated %d bytes for a text of %d bytes", entry, a, len(in)),
				Ops: []string{entry + " " + strconv.Quote(clip(in, 200))}, Expected: fmt.Sprintf("≤ 256·len + 4 MiB = %d", lim), Observed: fmt.Sprint(a)})
		}
		c.Count("leaf:alloc-measured")
	}
	if d := time.Since(t0); slowAndBusy(c, t0, cpu0, 5*time.Second) {
		c13Violate(c, Violation{Property: "C13", Key: "C13:time:" + entry, What: fmt.Sprintf("%s took %v on %d bytes", entry, d, len(in)),
			Ops: []string{entry + " " + strconv.Quote(clip(in, 200))}, Expected: "time linear in the input", Observed: d.String()})
	}
}

// cpuTime: processor time this process has consumed (user + system).
func cpuTime() time.Duration {
	var ru syscall.Rusage
	if syscall.Getrusage(syscall.RUSAGE_SELF, &ru) != nil {
		return 0
	}
	return time.Duration(ru.Utime.Nano() + ru.Stime.Nano())
}

// slowAndBusy: the call took longer than the (generous) bound AND the process burnt a fair share of
// that on the processor. Super-linear work is processor time; a call that was merely descheduled on
// a loaded machine shows a long wall clock and little processor time, and is counted, not reported.
func slowAndBusy(c *Ctx, t0 time.Time, cpu0 time.Duration, bound time.Duration) bool {
	if time.Since(t0) <= bound {
		return false
	}
	if cpu := cpuTime() - cpu0; cpu0 > 0 && cpu < bound/4 {
		c.Count("slow-wall-clock-little-cpu:not-judged")
		return false
	}
	return true
}

func clip(s string, n int) string {
	if len(s) > n {
		return s[:n] + fmt.Sprintf("...(%d bytes)", len(s))
	}
	return s
}

func leafInputs(c *Ctx) []string {
	base := []string{
		"", "#", "##", "[", "]", "[]", "#[]", "a#[]", "<1.2.3.4:5?sock=x>#1#2#[Encryption=\"YES\";]deadbeef",
		"[A=\";]", "[A=\"]", "[=\"]", "[A=\"\"]", "[\"=\"]", "[A=\";B=\"\";C=\"x;]", "x#[A=\";]k", "[;;;]", "[A==\"]", "[A = \" ]",
		"SessionKey:a#[x]k FamilySessionKey:b#[y]", "SessionKey:", "SessionKey:#", "FamilySessionKey:#[", "SessionKey:a#b#c#d",
		"<127.0.0.1:9618?sock=abc&ccbid=1.2.3.4:5%23%36>", "<[::1]:9618?addrs=[--1]-9618+127.0.0.1-9618&noUDP&sock=s>", "<:?>", "?", "<?&;=%>", "a?b=%zz", "a?%", "a?=%2", "a?b=%", "<a?sock=>", "<<a>>?sock=&sock=1?x",
		"$CondorVersion: 25.4.0 2025-10-31 $", "25.4", "1.2.3.4.5", ".", "..", "1..2", "9999999999999999999999.1.1", "-1.-2.-3", "$::$", "1.x 2.3",
		"1 <a:1> 2 3", "x", " ", "18446744073709551616 <a>",
	}
	// structure-aware claim ids: every combination of a small grammar of parts, well-formed and
	// damaged (IPv6 sinfuls carry ']' and '[' of their own; info blocks unclosed, unopened, doubled;
	// secrets absent / short / with separators), so that each separator search meets each shape
	for _, sinful := range []string{"<1.2.3.4:5>", "<[::1]:9618>", "<[::1]:9618?sock=a#1>", "<h:1?addrs=[--1]-9>", "", "]", "[x"} {
		for _, mid := range []string{"#1700000000#7#", "#1#", "#", "##", ""} {
			for _, info := range []string{"[Encryption=\"YES\";]", "[Encryption=\"YES\";", "Encryption=\"YES\";]", "[", "]", "[]", "[[A=\"b\";]]", "[A=\"]\";]", ""} {
				for _, secret := range []string{"0123456789abcdef0123456789abcdef0123456789abcdef0123456789abcdef", "00ff", "", "#x", "]"} {
					base = append(base, sinful+mid+info+secret)
				}
			}
		}
	}
	syms := []string{"#", "[", "]", "\"", ";", "=", "?", "&", "%", "<", ">", ":", ".", " ", "+", "\\", "\x00", "\xff", "%41", "%4", "sock=", "ccbid=", "SessionKey:", "A", "1"}
	for i := 0; i < c.Pick(400, 20000); i++ {
		var b strings.Builder
		n := 1 + c.Rng.Intn(14)
		for j := 0; j < n; j++ {
			b.WriteString(syms[c.Rng.Intn(len(syms))])
		}
		base = append(base, b.String())
	}
	// numeric fields a parser might size something from (ports, counts, version parts, cursors)
	for _, num := range []string{"4294967296", "2147483648", "99999999999999999999", "-1", "1e9"} {
		pad := strings.Repeat("x", 1100)
		base = append(base, "<1.2.3.4:"+num+"?sock="+pad+">", "<1.2.3.4:5?ccbid="+num+"#"+num+"&sock="+pad+">", "$CondorVersion: "+num+"."+num+"."+num+" "+pad+" $",
			num+" <a:1> "+num+" "+num+" "+pad, pad+"#"+num+"#"+num+"#[Encryption=\"YES\";]"+pad)
	}
	// long inputs: separators only / one long token (quadratic behaviour shows here)
	for _, sym := range []string{"#", "]", "[", ";", "=", "&", ".", " ", "%", "A", "\"", "?", "1.", "sock=&"} {
		base = append(base, strings.Repeat(sym, c.Pick(200000, 2000000)/len(sym)))
	}
	return base
}

func decodeLeaves(c *Ctx, cases *[]Case) {
	ins := leafInputs(c)
	cw := newClWorld(c)
	for _, in := range ins {
		s := in
		c.Res.Evaluations++
		guardLeaf(c, "security.ParseClaimID", s, func() {
			p := security.ParseClaimID(s)
			_, _, _, _ = p.SecSessionID(), p.SecSessionInfo(), p.SecSessionKey(), p.PublicClaimID()
		})
		guardLeaf(c, "security.ParseCondorPrivateInherit", s, func() { _ = security.ParseCondorPrivateInherit(s) })
		guardLeaf(c, "security.ParseCondorInherit", s, func() { _, _, _ = security.ParseCondorInherit(s) })
		guardLeaf(c, "addresses.ParseSinful", s, func() {
			info, _ := addresses.ParseSinful(s)
			_, _ = info.IsCCB(), info.IsSharedPort()
		})
		guardLeaf(c, "addresses.SplitCCBContact", s, func() { _, _, _ = addresses.SplitCCBContact(s) })
		guardLeaf(c, "addresses.ParseHTCondorAddress", s, func() {
			a := addresses.ParseHTCondorAddress(s)
			_ = addresses.IsValidSharedPortID(a.SharedPortID)
		})
		guardLeaf(c, "version.Parse", s, func() { _, _ = version.Parse(s) })
		guardLeaf(c, "watch.DecodeRequest", s, func() {
			ad := classad.New()
			ad.InsertAttrString(watch.AttrAdType, "T")
			ad.InsertAttrString(watch.AttrCursor, s)
			_, _, _, _ = watch.DecodeRequest(ad)
			h := classad.New()
			h.InsertAttr(watch.AttrKind, int64(len(s)))
			h.InsertAttrString(watch.AttrKey, s)
			h.InsertAttrString(watch.AttrCursor, s)
			_, _, _, _ = watch.DecodeHeader(h)
			_, _, _, _ = watch.DecodeHeader(classad.New())
		})
		c.Count("leaf:text")
		if len(s) <= 4096 {
			// these three are modelled (ClaimId model): compare
			n0 := len(cw.ops)
			cw.parse(s)
			cw.attrs(s)
			cw.importInfo(s)
			_ = n0
		} else {
			guardLeaf(c, "security.ParseClaimIDStrict", s, func() { _ = security.ParseClaimIDStrict(s) })
			guardLeaf(c, "security.ImportSecSessionInfo", s, func() { _, _ = security.ImportSecSessionInfo(s) })
			guardLeaf(c, "security.ImportSessionInfoAttributes", s, func() { _, _ = security.ImportSessionInfoAttributes(s) })
		}
	}
	*cases = append(*cases, Case{Label: "claim-text", Ops: cw.ops[1:], Real: cw.real[1:]})
	c.Res.Evaluations += len(cw.ops) - 1

	// crypto-state blobs: a valid layout with one field mutated, truncations, random
	valid := buildBlob(&blobFields{flags: 0x3f, key: keyBytes(5), ectr: 3, dctr: 4, fs: make([]byte, 32), fr: make([]byte, 32), peer: []byte("<1.2.3.4:5>")})
	var blobs [][]byte
	for i := 0; i <= len(valid); i++ {
		blobs = append(blobs, valid[:i])
	}
	for i := 0; i < c.Pick(300, 3000); i++ {
		b := append([]byte{}, valid...)
		switch c.Rng.Intn(4) {
		case 0:
			b[c.Rng.Intn(len(b))] ^= byte(1 + c.Rng.Intn(255))
		case 1:
			off := 79 + c.Rng.Intn(len(b)-79-1)
			binary.BigEndian.PutUint16(b[off:], []uint16{0, 1, 0xffff, 0x8000, uint16(len(b))}[c.Rng.Intn(5)])
		case 2:
			b = append(b, randBytes(c, c.Rng.Intn(9))...)
		case 3:
			b = randBytes(c, c.Rng.Intn(120))
		}
		blobs = append(blobs, b)
	}
	var ops, real []string
	for _, b := range blobs {
		bb := b
		op := "blob " + hexOrDash(bb)
		rep := "ok"
		func() {
			defer func() {
				if p := recover(); p != nil {
					rep = "err panic"
					c13Violate(c, Violation{Property: "C13", Key: "C13:panic:stream.NewStreamWithCryptoState", What: fmt.Sprintf("NewStreamWithCryptoState panicked: %v", p), Ops: []string{op}, Expected: "an error", Observed: fmt.Sprint(p)})
				}
			}()
			if _, err := stream.NewStreamWithCryptoState(bufconn.New(), bb); err != nil {
				rep = "err " + errClass(err)
			}
		}()
		ops, real = append(ops, op), append(real, rep)
		c.Count("leaf:blob")
	}
	*cases = append(*cases, Case{Label: "crypto-state-blobs", Ops: ops, Real: real})
	c.Res.Evaluations += len(ops)

	// shared-port hand-off header
	ops, real = nil, nil
	good := wireFrame(1, 8, be8(int64(passSockCommand())))
	var hdrs [][]byte
	for i := 0; i <= len(good); i++ {
		hdrs = append(hdrs, good[:i])
	}
	for _, n := range []uint32{0, 1, 7, 8, 9, 63, 64, 65, 1 << 20, 0xffffffff} {
		body := bytes.Repeat([]byte{0}, int(min64(int64(n), 80)))
		hdrs = append(hdrs, wireFrame(1, n, body), wireFrame(0, n, body[:len(body)/2]))
	}
	hdrs = append(hdrs, wireFrame(1, 8, be8(int64(passSockCommand())+1)), wireFrame(7, 8, be8(int64(passSockCommand()))), append(append([]byte{}, good...), 1, 2, 3))
	for i := 0; i < c.Pick(100, 1000); i++ {
		hdrs = append(hdrs, randBytes(c, c.Rng.Intn(20)))
	}
	for _, h := range hdrs {
		hh := h
		op := "passsock " + orc.Payload(hh)
		rep := "ok"
		func() {
			defer func() {
				if p := recover(); p != nil {
					rep = "err panic"
					c13Violate(c, Violation{Property: "C13", Key: "C13:panic:sharedport.readPassSockHeader", What: fmt.Sprintf("readPassSockHeader panicked: %v", p), Ops: []string{op}, Expected: "an error", Observed: fmt.Sprint(p)})
				}
			}()
			if err := sharedport.VerifReadPassSockHeader(bytes.NewReader(hh)); err != nil {
				rep = "err " + decErr(err)
			}
		}()
		ops, real = append(ops, op), append(real, rep)
		c.Count("leaf:passsock")
	}
	*cases = append(*cases, Case{Label: "passsock-headers", Ops: ops, Real: real})
	c.Res.Evaluations += len(ops)
}

func passSockCommand() int { return int(commands.SHARED_PORT_PASS_SOCK) }

// the malformed stream: random bytes as a message, every entry point
func decodeGarbage(c *Ctx, cases *[]Case) {
	entries := []string{"str", "strmax", "skipstr", "ad", "adcap", "adraw", "skipad", "idstr", "token"}
	for i := 0; i < c.Pick(250, 25000); i++ {
		enc := c.Rng.Intn(2) == 1
		b := randAscii(c, c.Rng.Intn(60))
		if c.Rng.Intn(2) == 0 {
			// a small plausible count in front
			b = append(be8(int64(c.Rng.Intn(4))), b...)
		}
		frames, fcls := frameMsg(c, b)
		entry := entries[c.Rng.Intn(len(entries))]
		w := newDWorld(c, fmt.Sprintf("garbage#%d %s %s", i, entry, fcls), enc, enc || c.Rng.Intn(3) == 0, frames, 0)
		switch entry {
		case "idstr":
			w.opIDStr()
		case "token":
			w.opToken()
		default:
			decodeEntry(w, entry, 1+c.Rng.Intn(40))
		}
		w.opRest()
		c.Count("garbage:" + entry)
		w.done(cases, true)
	}
}

// ------------------------------------------------------------------ child process for fatal inputs

type childJob struct {
	Label   string   `json:"label"`
	Kind    string   `json:"kind"` // tls | xkey | stack
	Enc     bool     `json:"enc"`
	Frames  []string `json:"frames"` // hex payload + "/0|1"
	InBytes int      `json:"in_bytes"`
	K       int      `json:"k"`
	Api     string   `json:"api,omitempty"`    // kind "wire": recvn | getsecret | getfile | recvc | readmsg
	Wire    string   `json:"wire,omitempty"`   // kind "wire": raw wire bytes (hex)
	Expect  string   `json:"expect,omitempty"` // kind "wire": non-empty = the property demands that the first header is refused (judged on effects: childResult.HdrRefused)
}

type childResult struct {
	Reply string `json:"reply"`
	Alloc uint64 `json:"alloc"`
	Stack uint64 `json:"stack"` // growth of the memory in use by goroutine stacks
	// kind "wire": what the in-process oracles of wworld.op recorded inside the child
	Viol []Violation `json:"viol,omitempty"`
	Op   string      `json:"op,omitempty"` // kind "adnest": the operation as finally logged (parser verdict filled in)
	// kind "wire": the reader returned an error without taking a payload byte or waiting for one
	HdrRefused bool `json:"hdr_refused,omitempty"`
}

func hexFrames(fs []dframe) []string {
	var out []string
	for _, f := range fs {
		out = append(out, hex.EncodeToString(f.p)+"/"+b01(f.eom))
	}
	return out
}

func unhexFrames(ss []string) []dframe {
	var out []dframe
	for _, s := range ss {
		parts := strings.Split(s, "/")
		p, _ := hex.DecodeString(parts[0])
		out = append(out, dframe{p: p, eom: parts[1] == "1"})
	}
	return out
}

// runDecodeChild executes the jobs listed in $VERIF_C13_JOBS one by one, printing one RESULT line
// each. It limits its own address space and stack so that a runaway allocation or recursion kills
// this process quickly instead of the machine.
func runDecodeChild(c *Ctx) error {
	path := os.Getenv("VERIF_C13_JOBS")
	if path == "" {
		return errors.New("decodechild is started by the decode engine")
	}
	raw, err := os.ReadFile(path)
	if err != nil {
		return err
	}
	var jobs []childJob
	if err := json.Unmarshal(raw, &jobs); err != nil {
		return err
	}
	lim := uint64(6 << 30)
	_ = syscall.Setrlimit(syscall.RLIMIT_AS, &syscall.Rlimit{Cur: lim, Max: lim})
	debug.SetMaxStack(48 << 20)
	start, _ := strconv.Atoi(os.Getenv("VERIF_C13_START"))
	out := bufio.NewWriter(os.Stdout)
	for i := start; i < len(jobs); i++ {
		j := jobs[i]
		fmt.Fprintf(out, "START %d\n", i)
		out.Flush()
		var rep, childOp string
		hdrRefused := false
		var m0, m1 runtime.MemStats
		runtime.ReadMemStats(&m0)
		func() {
			defer func() {
				if p := recover(); p != nil {
					rep = fmt.Sprintf("err panic %v", p)
				}
			}()
			switch j.Kind {
			case "tls", "xkey":
				w := newDWorld(c, j.Label, j.Enc, false, unhexFrames(j.Frames), 1)
				if j.Kind == "tls" {
					w.opTLS()
				} else {
					w.opXKey()
				}
				rep = w.real[len(w.real)-1]
			case "krb", "tok2", "tok1s", "tok3s", "ctb":
				w := newDWorld(c, j.Label, j.Enc, false, unhexFrames(j.Frames), 1)
				w.opSub(j.Kind)
				rep = w.real[len(w.real)-1]
			case "adnest":
				w := newDWorld(c, j.Label, j.Enc, j.Enc, unhexFrames(j.Frames), 0)
				w.allocFactor = 1024
				runtime.ReadMemStats(&m0)
				cp, _ := strconv.Atoi(j.Api)
				w.opAd(cp)
				rep = w.real[len(w.real)-1]
				childOp = w.ops[len(w.ops)-1]
			case "wire":
				wire, _ := hex.DecodeString(j.Wire)
				w := newWWorld(c, j.Label, wire, false)
				w.api(j.Api)
				rep = w.real[len(w.real)-1]
				hdrRefused = w.lastHdrRefused
			case "stack":
				var wire []byte
				for k := 0; k < j.K; k++ {
					wire = append(wire, wireFrame(0, 0, nil)...)
				}
				wire = append(wire, wireFrame(1, 2, []byte("ok"))...)
				runtime.ReadMemStats(&m0)
				conn := bufconn.New()
				conn.Feed(wire)
				s := stream.NewStream(conn)
				if err := s.StartMessageRead(bg); err != nil {
					rep = "err " + decErr(err)
				} else {
					rep = "ok"
				}
			}
		}()
		runtime.ReadMemStats(&m1)
		var stk uint64
		if m1.StackInuse > m0.StackInuse {
			stk = m1.StackInuse - m0.StackInuse
		}
		cr := childResult{Reply: rep, Alloc: m1.TotalAlloc - m0.TotalAlloc, Stack: stk, Op: childOp, HdrRefused: hdrRefused}
		if j.Kind == "wire" {
			cr.Viol = append(cr.Viol, c.Res.Violations...)
			c.Res.Violations = nil
			c13Seen = map[string]int{}
		}
		b, _ := json.Marshal(cr)
		fmt.Fprintf(out, "RESULT %d %s\n", i, b)
		out.Flush()
	}
	os.Exit(0)
	return nil
}

// runChildJobs spawns the child (again after every crash) and judges each job.
func runChildJobs(c *Ctx, jobs []childJob, cases *[]Case) error {
	if len(jobs) == 0 {
		return nil
	}
	root := workRoot()
	dir, err := os.MkdirTemp(root, scratchPrefix("c13"))
	if err != nil {
		return err
	}
	defer os.RemoveAll(dir)
	jp := filepath.Join(dir, "jobs.json")
	b, _ := json.Marshal(jobs)
	if err := os.WriteFile(jp, b, 0o644); err != nil {
		return err
	}
	exe, err := os.Executable()
	if err != nil {
		return err
	}
	results := make([]*childResult, len(jobs))
	fatal := make([]string, len(jobs))
	start := 0
	for start < len(jobs) {
		cmd := exec.Command(exe, "decodechild", "-out", filepath.Join(dir, "child.json"), "-seed", fmt.Sprint(c.Seed), "-oracle", c.Oracle)
		cmd.Env = append(os.Environ(), "VERIF_C13_JOBS="+jp, fmt.Sprintf("VERIF_C13_START=%d", start), "GOMEMLIMIT=4GiB", "GOTRACEBACK=single")
		var so progressBuf
		var se bytes.Buffer
		cmd.Stdout, cmd.Stderr = &so, &se
		done := make(chan error, 1)
		if err := cmd.Start(); err != nil {
			return err
		}
		go func() { done <- cmd.Wait() }()
		// the child reports START / RESULT per job: it is killed when it stops PROGRESSING (no new output
		// for two minutes: one job hangs), not when the whole batch takes long on a busy machine
		timedOut := false
		lastLen, lastChange := 0, time.Now()
	waitChild:
		for {
			select {
			case <-done:
				break waitChild
			case <-time.After(500 * time.Millisecond):
				if n := so.Len(); n != lastLen {
					lastLen, lastChange = n, time.Now()
				}
				if time.Since(lastChange) > 120*time.Second {
					_ = cmd.Process.Kill()
					<-done
					timedOut = true
					break waitChild
				}
			}
		}
		last := start - 1
		started := -1
		for _, line := range strings.Split(so.String(), "\n") {
			f := strings.SplitN(line, " ", 3)
			if len(f) >= 2 && f[0] == "START" {
				started, _ = strconv.Atoi(f[1])
			}
			if len(f) == 3 && f[0] == "RESULT" {
				i, _ := strconv.Atoi(f[1])
				var r childResult
				if json.Unmarshal([]byte(f[2]), &r) == nil && i < len(jobs) {
					results[i] = &r
					last = i
				}
			}
		}
		if last >= len(jobs)-1 {
			break
		}
		// the child died (or hung) inside job `started`
		dead := last + 1
		if started > dead {
			dead = started
		}
		msg := firstLine(se.String())
		if timedOut {
			msg = "no result after 120 s (killed)"
		}
		fatal[dead] = msg
		start = dead + 1
	}
	for i, j := range jobs {
		ops := []string{"# " + j.Label + " (child process: RLIMIT_AS 6 GiB, GOMEMLIMIT 4 GiB, max stack 48 MiB)", fmt.Sprintf("new %s 0", b01(j.Enc)), "frames " + strings.Join(payloadFrames(j.Frames), " "), j.Kind}
		entry := map[string]string{"tls": "security.receiveMessage", "xkey": "security.exchangeKey", "stack": "stream.readNextFrame"}[j.Kind]
		if j.Kind == "wire" {
			wire, _ := hex.DecodeString(j.Wire)
			ops = []string{ops[0], "wire 0 " + orc.Payload(wire), j.Api}
			entry = wireEntry[j.Api]
		}
		if k, ok := subKinds[j.Kind]; ok {
			entry = k.entry
		}
		if j.Kind == "adnest" {
			entry = "message.GetClassAd"
			if j.Api != "0" {
				entry = "message.GetClassAdWithMaxSize"
			}
			ops[1] = fmt.Sprintf("new %s %s", b01(j.Enc), b01(j.Enc))
			ops[3] = fmt.Sprintf("ad %s -", j.Api)
		}
		c.Res.Evaluations++
		c.Planned("decode-child-jobs", 1)
		if fatal[i] != "" || results[i] != nil {
			c.Ran("decode-child-jobs", 1)
		}
		switch {
		case fatal[i] != "":
			key := "C13:fatal:" + entry
			c13Violate(c, Violation{Property: "C13", Key: key, What: fmt.Sprintf("%s killed the process on peer-controlled input (%s)", entry, j.Label), Ops: ops, Expected: "an error", Observed: fatal[i]})
		case results[i] == nil:
			c.Res.Notes = append(c.Res.Notes, "child job without result: "+j.Label)
		default:
			r := results[i]
			if strings.HasPrefix(r.Reply, "err panic") {
				c13Violate(c, Violation{Property: "C13", Key: "C13:panic:" + entry, What: fmt.Sprintf("%s panicked on peer-controlled input (%s)", entry, j.Label), Ops: ops, Expected: "an error", Observed: r.Reply})
			}
			lim := uint64(64*j.InBytes + 4<<20)
			if j.Kind == "adnest" {
				lim = uint64(1024*j.InBytes + 4<<20)
			}
			if j.Kind == "stack" {
				lim = uint64(64*5*j.K + 4<<20)
			}
			if r.Alloc > lim {
				c13Violate(c, Violation{Property: "C13", Key: "C13:alloc:" + entry, What: fmt.Sprintf("%s allocated %d bytes for %d input bytes (%s)", entry, r.Alloc, j.InBytes, j.Label), Ops: ops, Expected: fmt.Sprintf("≤ %d", lim), Observed: fmt.Sprint(r.Alloc)})
			}
			if j.Kind == "stack" && r.Stack > 4<<20 {
				c13Violate(c, Violation{Property: "C13", Key: "C13:stack:" + entry, What: fmt.Sprintf("%s: goroutine stack grew by %d bytes while reading %d empty partial frames (%d wire bytes): one stack frame per partial frame", entry, r.Stack, j.K, j.InBytes),
					Ops: ops, Expected: "constant stack (≤ 4 MiB growth)", Observed: fmt.Sprint(r.Stack)})
			}
			if j.Kind == "adnest" {
				// recursion: the goroutine stack may grow with the nesting of the value, in proportion to
				// the bytes received — not beyond
				if lim := uint64(64*j.InBytes + 4<<20); r.Stack > lim {
					c13Violate(c, Violation{Property: "C13", Key: "C13:stack:" + entry, What: fmt.Sprintf("%s: goroutine stack grew by %d bytes while decoding %d input bytes (%s)", entry, r.Stack, j.InBytes, j.Label), Ops: ops, Expected: fmt.Sprintf("≤ 64·input + 4 MiB = %d", lim), Observed: fmt.Sprint(r.Stack)})
				}
				rep := r.Reply
				if strings.HasPrefix(rep, "err panic") {
					rep = "err panic" + rep[strings.LastIndex(rep, " f="):]
				}
				if r.Op != "" {
					ops[3] = r.Op
				}
				*cases = append(*cases, Case{Label: j.Label, Ops: ops[1:], Real: []string{"ok", "ok", rep}})
			} else if j.Kind == "wire" {
				for _, v := range r.Viol {
					v.Ops = append([]string{ops[0]}, v.Ops...)
					c13Violate(c, v)
				}
				if j.Expect != "" && !r.HdrRefused {
					c13Violate(c, Violation{Property: "C13", Key: "C13:frame-limit:" + entry, What: fmt.Sprintf("%s did not refuse a frame header announcing more than %d bytes (%s)", entry, stream.MaxMessageSize, j.Label), Ops: ops, Expected: j.Expect, Observed: clip(r.Reply, 200)})
				}
				rep := r.Reply
				if strings.HasPrefix(rep, "err panic") {
					rep = "err panic"
				}
				*cases = append(*cases, Case{Label: j.Label, Ops: ops[1:], Real: []string{"ok", rep}})
			} else if k, ok := subKinds[j.Kind]; ok && !k.model {
				// no model counterpart: judged above (fatal / panic / allocation)
			} else if j.Kind != "stack" {
				rep := r.Reply
				if strings.HasPrefix(rep, "err panic") {
					rep = "err panic" + rep[strings.LastIndex(rep, " f="):]
				}
				*cases = append(*cases, Case{Label: j.Label, Ops: append(ops[1:3:3], j.Kind), Real: []string{"ok", "ok", rep}})
			}
		}
	}
	return nil
}

func payloadFrames(hf []string) []string {
	var out []string
	for _, s := range hf {
		parts := strings.Split(s, "/")
		p, _ := hex.DecodeString(parts[0])
		out = append(out, orc.Payload(p)+"/"+parts[1])
	}
	return out
}

func firstLine(s string) string {
	for _, l := range strings.Split(s, "\n") {
		if strings.TrimSpace(l) != "" {
			return clip(l, 300)
		}
	}
	return "process died without a message"
}

// workRoot: the scratch directory of THIS checkout: next to where the driver asked for the result
// (-out <root>/.work/...), else <root>/.work derived from the executable (<root>/.bin/corr), else a
// private directory under the system's temporary directory. Never a path of another checkout.
func workRoot() string {
	var cands []string
	for i, a := range os.Args {
		if (a == "-out" || a == "--out") && i+1 < len(os.Args) {
			if d := filepath.Dir(os.Args[i+1]); filepath.Base(d) == ".work" {
				cands = append(cands, d)
			}
		}
	}
	if exe, err := os.Executable(); err == nil && filepath.Base(filepath.Dir(exe)) == ".bin" {
		cands = append(cands, filepath.Join(filepath.Dir(filepath.Dir(exe)), ".work"))
	}
	for _, d := range cands {
		if os.MkdirAll(d, 0o755) == nil {
			return d
		}
	}
	d := filepath.Join(os.TempDir(), fmt.Sprintf("cedar-verif-work-%d", os.Getuid()))
	_ = os.MkdirAll(d, 0o700)
	return d
}

// ------------------------------------------------------------------ engine

func runDecode(c *Ctx) error {
	c.Res.Rule = "every decoder entry point (typed values, capped and uncapped strings, SkipString, the ClassAd receivers GetClassAd / GetClassAdWithMaxSize / GetClassAdRaw / GetClassAdRawBody / SkipClassAdRaw incl. the in-band secret marker, handshake length-prefixed records receiveMessage / exchangeKey / getIDString / getToken, the frame readers on raw wire bytes, claim-id and session-info text, crypto-state blobs, the shared-port hand-off header, address / version / inherit / watch parsers) fed messages from the wire grammar with one field mutated (length and count fields from the catalogue −1, 0, ±1, 2^31−1, 2^31, 2^32+5, 2^40, 2^62, −2^63; missing terminators; dropped / inserted fields; secret marker; NULL-string marker), cut into frames at random points, truncated or left without end-of-message, in both string modes, over a counting mock stream, a real keyless stream and a real keyed stream; capped readers against 10–400× their cap; a malformed stream of random bytes; distinct by op-sequence hash; non-trivial = some field or the framing deviates from a valid message"
	var cases []Case
	var jobs []childJob
	lap := time.Now()
	timed := func(name string) {
		c.Res.Distribution["ms:"+name] = int(time.Since(lap) / time.Millisecond)
		lap = time.Now()
	}
	for i := 0; i < c.Pick(700, 80000); i++ {
		decodeAdCase(c, i, &cases)
	}
	timed("ad")
	for i := 0; i < c.Pick(500, 50000); i++ {
		decodeTypedCase(c, i, &cases)
	}
	timed("typed")
	decodeCatalogue(c, &cases)
	timed("catalogue")
	decodeOversize(c, &cases)
	timed("oversize")
	decodeBudget(c, &cases)
	timed("budget")
	decodeHandshake(c, &cases, &jobs)
	timed("handshake")
	decodeGarbage(c, &cases)
	timed("garbage")
	decodeWire(c, &cases)
	timed("wire")
	decodeWireNoEnd(c, &cases, &jobs)
	timed("wire-noend")
	if err := decodeHandshakeAds(c); err != nil {
		return err
	}
	timed("handshake-ads")
	decodeSubprotocols(c, &cases, &jobs)
	timed("subprotocols")
	decodeNested(c, &cases, &jobs)
	timed("nested")
	decodeLeaves(c, &cases)
	timed("leaves")
	// stack depth of the multi-frame reader
	jobs = append(jobs, childJob{Label: "stack: 400000 empty partial frames then the end (2 MB on the wire)", Kind: "stack", K: 400000, InBytes: 5 * 400000})
	if c.Thorough() {
		jobs = append(jobs, childJob{Label: "stack: 2000000 empty partial frames then the end (10 MB on the wire)", Kind: "stack", K: 2000000, InBytes: 5 * 2000000})
	}
	if err := runChildJobs(c, jobs, &cases); err != nil {
		return err
	}
	timed("child")
	defer timed("oracle")
	return diffBatch(c, "decode", cases, decodeNorm)
}

// decodeNorm: the meter q= counts the calls of stream.IsEncrypted() the decoder makes -- how many of
// them one string costs is an internal matter of the library (caching the answer, asking once per
// message, is behaviour-preserving). The count stays in the recorded lines for the reader and is
// bounded by the property oracle (C13:steps, C13:spin); it is not part of the model comparison.
var reDecodeQ = regexp.MustCompile(` q=[0-9]+`)

func decodeNorm(s string) string { return reDecodeQ.ReplaceAllString(s, "") }

// progressBuf: a buffer a child's output is copied into while the parent watches its length.
type progressBuf struct {
	mu sync.Mutex
	b  bytes.Buffer
}

func (p *progressBuf) Write(x []byte) (int, error) {
	p.mu.Lock()
	defer p.mu.Unlock()
	return p.b.Write(x)
}
func (p *progressBuf) Len() int       { p.mu.Lock(); defer p.mu.Unlock(); return p.b.Len() }
func (p *progressBuf) String() string { p.mu.Lock(); defer p.mu.Unlock(); return p.b.String() }
