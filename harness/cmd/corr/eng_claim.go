package main

// Engine `claim` (property C16): a claim id minted by one endpoint and imported by another yields
// one shared, working session. Runs the REAL security.MintClaimSession / ImportClaimSession /
// ImportFileTransferSession / ParseClaimIDStrict / Export+ImportSecSessionInfo and real
// client/server handshakes naming the session explicitly, renders every observable in the
// vocabulary of the Lean oracle's `claim` engine and diffs; independently runs the property
// oracle on the implementation.

import (
	"bytes"
	"context"
	"crypto/hmac"
	"crypto/sha256"
	"encoding/hex"
	"errors"
	"fmt"
	"io"
	"log/slog"
	"net"
	"regexp"
	"sort"
	"strconv"
	"strings"
	"time"

	"github.com/PelicanPlatform/classad/classad"
	"github.com/bbockelm/cedar/message"
	"github.com/bbockelm/cedar/security"
	"github.com/bbockelm/cedar/stream"
)

func init() { register(Engine{"claim", runClaim}) }

// ---------------------------------------------------------------- rendering

func clHex(s string) string { return hexOrDash([]byte(s)) }

// clHKDF: HKDF-SHA256 (RFC 5869) written out by hand, one output block (32 bytes).
func clHKDF(secret string) []byte {
	ext := hmac.New(sha256.New, []byte("htcondor"))
	ext.Write([]byte(secret))
	prk := ext.Sum(nil)
	exp := hmac.New(sha256.New, prk)
	exp.Write([]byte("keygen"))
	exp.Write([]byte{1})
	return exp.Sum(nil)
}

var clShown = []string{"Encryption", "Integrity", "CryptoMethods", "CryptoMethodsList", "ValidCommands",
	"SessionExpires", "RemoteVersion", "ShortVersion", "SecUseSession", "Sid", "Enact", "NegotiatedSession",
	"AuthMethods", "User", "Authenticated"}

func clShowVal(ad *classad.ClassAd, name string) (string, bool) {
	if _, ok := ad.Lookup(name); !ok {
		return "", false
	}
	v := ad.EvaluateAttr(name)
	switch {
	case v.IsString():
		s, _ := v.StringValue()
		return "s:" + clHex(s), true
	case v.IsInteger():
		i, _ := v.IntValue()
		return fmt.Sprintf("i:%d", i), true
	case v.IsBool():
		b, _ := v.BoolValue()
		return "b:" + b01(b), true
	}
	return "?:" + v.String(), true
}

func clShowPolicy(ad *classad.ClassAd) string {
	if ad == nil {
		return "nil"
	}
	var parts []string
	for _, n := range clShown {
		if s, ok := clShowVal(ad, n); ok {
			parts = append(parts, n+"="+s)
		}
	}
	return fmt.Sprintf("n=%d[%s]", len(ad.GetAttributes()), strings.Join(parts, ","))
}

// clShowExpiry renders an entry's expiration: zero, whole seconds (from SessionExpires), or the
// fallback duration when it lies in [t0+fb, t1+fb].
func clShowExpiry(exp time.Time, fb time.Duration, t0, t1 time.Time) string {
	switch {
	case exp.IsZero():
		return "never"
	case exp.Nanosecond() == 0:
		return fmt.Sprintf("unix:%d", exp.Unix())
	case fb > 0 && !exp.Before(t0.Add(fb)) && !exp.After(t1.Add(fb)):
		return fmt.Sprintf("fallback:%d", int64(fb))
	}
	return fmt.Sprintf("time:%d", exp.UnixNano())
}

func clShowEntry(e *security.SessionEntry, secret string, fb time.Duration, t0, t1 time.Time) string {
	key := "nil"
	proto := "-"
	if ki := e.KeyInfo(); ki != nil {
		proto = clHex(ki.Protocol)
		if bytes.Equal(ki.Data, clHKDF(secret)) {
			key = "hkdf:" + clHex(secret)
		} else {
			key = "raw:" + hex.EncodeToString(ki.Data)
		}
	}
	s := fmt.Sprintf("id=%s addr=%s key=%s proto=%s exp=%s tag=%s inh=%s pol=%s", clHex(e.ID()), clHex(e.Addr()), key, proto,
		clShowExpiry(e.Expiration(), fb, t0, t1), clHex(e.Tag()), b01(e.IsInherited()), clShowPolicy(e.Policy()))
	if e.Lease() != 0 {
		s += fmt.Sprintf(" lease=%d", e.Lease())
	}
	return s
}

// clCmdKeys: the command-map keys that point at sid, read through the cache hook (not from the
// human-readable DebugDump text).
func clCmdKeys(c *security.SessionCache, sid string) string {
	var keys []string
	for k, v := range security.VerifCommandMap(c) {
		if v == sid {
			keys = append(keys, hex.EncodeToString([]byte(k)))
		}
	}
	sort.Strings(keys)
	return "[" + strings.Join(keys, ",") + "]"
}

var clAttrRe = regexp.MustCompile(`^[A-Za-z_][A-Za-z0-9_]*=`)

// clSplitInfo splits the inside of a session_info text at every ';' that is followed by the start of
// an attribute (`Name=`) or by the end of the text — a ';' inside a value is not followed by one in
// any text the grammar produces, and for arbitrary texts the split is still the same function on both
// sides of the comparison. ok=false unless the result is a sequence of `Name=value;` entries.
func clSplitInfo(content string) (parts []string, ok bool) {
	if !strings.HasSuffix(content, ";") {
		return nil, false
	}
	start := 0
	for i := 0; i < len(content); i++ {
		if content[i] == ';' && (i+1 == len(content) || clAttrRe.MatchString(content[i+1:])) {
			parts = append(parts, content[start:i])
			start = i + 1
		}
	}
	if len(parts) == 0 {
		return nil, false
	}
	for _, p := range parts {
		if !clAttrRe.MatchString(p) {
			return nil, false
		}
	}
	return parts, true
}

// clInfoCanon puts the attributes of the session_info text `[Name=value;…]` inside s (a bare text, or
// a claim id `<sid>#[info]<secret>`) into sorted order: the order of attributes in the text carries no
// meaning (any ClassAd reader accepts any order), so a re-ordering by the library is not a difference.
func clInfoCanon(s string) string {
	end := strings.LastIndexByte(s, ']')
	if end < 0 {
		return s
	}
	for i := 0; i < end; i++ {
		if s[i] != '[' {
			continue
		}
		if parts, ok := clSplitInfo(s[i+1 : end]); ok {
			sort.Strings(parts)
			return s[:i+1] + strings.Join(parts, ";") + ";" + s[end:]
		}
	}
	return s
}

var clHexTokRe = regexp.MustCompile(`(^|[ =])([0-9a-f]{8,})`)

// clNorm canonicalises the session_info texts inside the hex-rendered values of a compared line
// (applied to the model's line and the implementation's alike).
func clNorm(line string) string {
	return clHexTokRe.ReplaceAllStringFunc(line, func(m string) string {
		i := 0
		for i < len(m) && (m[i] == ' ' || m[i] == '=') {
			i++
		}
		raw, err := hex.DecodeString(m[i:])
		if err != nil || !strings.Contains(string(raw), "[") {
			return m
		}
		return m[:i] + hex.EncodeToString([]byte(clInfoCanon(string(raw))))
	})
}

func clEntry(c *security.SessionCache, id string) *security.SessionEntry {
	for _, e := range c.Snapshot() {
		if e.ID() == id {
			return e
		}
	}
	return nil
}

func clErrClass(err error) string {
	m := err.Error()
	has := func(s string) bool { return strings.Contains(m, s) }
	switch {
	case has("requires a startd sinful"), has("must list AES first"), has("illegal in a claim id"), has("only implements AES-GCM"):
		return "refused"
	case has("carries no security session"), has("carries no session key"), has("must be bracketed"), has("empty session key"):
		return "malformed"
	}
	return errClass(err)
}

func clInts(v []int) string {
	if len(v) == 0 {
		return "-"
	}
	p := make([]string, len(v))
	for i, x := range v {
		p[i] = strconv.Itoa(x)
	}
	return strings.Join(p, ",")
}

func clOptBool(b *bool) string {
	if b == nil {
		return "n"
	}
	return b01(*b)
}

// ---------------------------------------------------------------- generator

type clMint struct {
	o        security.MintClaimOptions
	rvShort  string // the compact version the importer must learn ("" when no version)
	classes  []string
	wantFail bool // options the minter must refuse (cipher list not starting with AES)
}

var clCommands = []int{443, 444, 60021, 60008, 404, 403, 442, 0, 1, 60040, 510}

func clPick[T any](c *Ctx, l []T) T { return l[c.Rng.Intn(len(l))] }

func clWord(c *Ctx, n int) string {
	const al = "abcdefghijklmnopqrstuvwxyz0123456789_"
	b := make([]byte, n)
	for i := range b {
		b[i] = al[c.Rng.Intn(len(al))]
	}
	return string(b)
}

// clSinful draws a sinful string from the grammar <host:port?param&param...>, with and without
// embedded '#', brackets (IPv6 literals, bracketed addrs) and parameters.
func clSinful(c *Ctx) (string, string) {
	if c.Rng.Intn(12) == 0 {
		// boundary shapes of the claim-id grammar itself
		return clPick(c, []string{"x#[", "#", "<a>#[b]", "[", "]", "<h:1>#", "<h:1?x=]>", "<h:1?x=#[y]z>", "<h:1?x=[>", "a", "<h:1>#[]"}), "sinful:boundary"
	}
	host := clPick(c, []string{"127.0.0.1", "10.0.0.5", "192.168.1.10", "[::1]", "[2001:db8::1f]", "[fe80::1%eth0]", "node-" + clWord(c, 3) + ".example.org"})
	port := clPick(c, []string{"9618", "0", "65535", strconv.Itoa(1024 + c.Rng.Intn(60000))})
	var params []string
	hasHash, hasBr := false, strings.Contains(host, "[")
	for _, k := range c.Rng.Perm(7)[:c.Rng.Intn(5)] {
		switch k {
		case 0:
			params = append(params, "addrs=127.0.0.1-9618+[--1]-9618")
			hasBr = true
		case 1:
			params = append(params, "alias="+clWord(c, 4)+".example.org")
		case 2:
			params = append(params, "noUDP")
		case 3:
			params = append(params, "sock=startd_"+strconv.Itoa(c.Rng.Intn(99999))+"_"+clWord(c, 4))
		case 4:
			params = append(params, "sock=slot"+strconv.Itoa(1+c.Rng.Intn(9))+"#"+strconv.Itoa(c.Rng.Intn(50)))
			hasHash = true
		case 5:
			params = append(params, "CCBID=10.1.2.3:9618%3fsock%3dcollector#"+strconv.Itoa(c.Rng.Intn(100000)))
			hasHash = true
		case 6:
			params = append(params, "PrivNet="+clWord(c, 5))
		}
	}
	s := "<" + host + ":" + port
	if len(params) > 0 {
		s += "?" + strings.Join(params, "&")
	}
	s += ">"
	cls := "sinful:plain"
	switch {
	case hasHash && hasBr:
		cls = "sinful:hash+brackets"
	case hasHash:
		cls = "sinful:hash"
	case hasBr:
		cls = "sinful:brackets"
	}
	if len(params) > 0 {
		cls += "+params"
	}
	return s, cls
}

func clGenMint(c *Ctx) clMint {
	var m clMint
	sf, cls := clSinful(c)
	m.classes = append(m.classes, cls)
	m.o.Sinful = sf
	m.o.Birthdate = clPick(c, []int64{1700000000, 1, 0, 1790000000 + int64(c.Rng.Intn(100000)), int64(c.Rng.Intn(2000000000))})
	m.o.SequenceNum = clPick(c, []int{1, 7, 0, c.Rng.Intn(100000), 2147483647})
	tr, fa := true, false
	tog := []*bool{nil, &tr, &fa}
	m.o.Encryption = clPick(c, tog)
	m.o.Integrity = clPick(c, tog)
	m.classes = append(m.classes, "enc:"+clOptBool(m.o.Encryption), "int:"+clOptBool(m.o.Integrity))
	switch r := c.Rng.Intn(20); {
	case r < 4:
		m.o.CryptoMethods = ""
		m.classes = append(m.classes, "cipher:default")
	case r < 9:
		m.o.CryptoMethods = clPick(c, []string{"AES", "AESGCM"})
		m.classes = append(m.classes, "cipher:single")
	case r < 18:
		n := 1 + c.Rng.Intn(3)
		l := []string{clPick(c, []string{"AES", "AESGCM"})}
		for i := 0; i < n; i++ {
			l = append(l, clPick(c, []string{"BLOWFISH", "3DES", "AES", "AESGCM", "TRIPLEDES"}))
		}
		sep := ","
		if c.Rng.Intn(6) == 0 {
			sep = ", "
		}
		m.o.CryptoMethods = strings.Join(l, sep)
		m.classes = append(m.classes, "cipher:multi"+strconv.Itoa(len(l)))
	default:
		m.o.CryptoMethods = clPick(c, []string{"BLOWFISH", "3DES,AES", "aes", "BLOWFISH,AES", " ,AES"})
		m.wantFail = true
		m.classes = append(m.classes, "cipher:refused")
	}
	switch r := c.Rng.Intn(10); {
	case r < 3:
		m.classes = append(m.classes, "version:none")
	case r < 6:
		m.rvShort = fmt.Sprintf("%d.%d.%d", 8+c.Rng.Intn(18), c.Rng.Intn(12), c.Rng.Intn(30))
		m.o.RemoteVersion = m.rvShort
		m.classes = append(m.classes, "version:short")
	default:
		m.rvShort = fmt.Sprintf("%d.%d.%d", 8+c.Rng.Intn(18), c.Rng.Intn(12), c.Rng.Intn(30))
		date := clPick(c, []string{"2025-10-31", "Sep 29 2022", "Jan  1 2026"})
		tail := clPick(c, []string{"BuildID: 847437 PackageID: " + m.rvShort + "-0.847437 GitSHA: a6507f91 RC $", "BuildID: 605351 $", "$", "PRE-RELEASE-UWCS $"})
		m.o.RemoteVersion = "$CondorVersion: " + m.rvShort + " " + date + " " + tail
		m.classes = append(m.classes, "version:long")
	}
	switch r := c.Rng.Intn(10); {
	case r < 4:
		m.classes = append(m.classes, "cmds:0")
	case r < 6:
		m.o.ValidCommands = []int{clPick(c, clCommands)}
		m.classes = append(m.classes, "cmds:1")
	default:
		n := 2 + c.Rng.Intn(5)
		for i := 0; i < n; i++ {
			m.o.ValidCommands = append(m.o.ValidCommands, clPick(c, clCommands))
		}
		m.classes = append(m.classes, "cmds:many")
	}
	switch r := c.Rng.Intn(12); {
	case r < 4:
		m.classes = append(m.classes, "life:none")
	case r < 9:
		m.o.Lifetime = clPick(c, []time.Duration{time.Hour, 24 * time.Hour, 2*time.Hour + 1, time.Duration(3600+c.Rng.Intn(100000))*time.Second + time.Duration(c.Rng.Intn(1000000000))})
		m.classes = append(m.classes, "life:long")
	case r < 10:
		m.o.Lifetime = 1 // expires at once on both ends
		m.classes = append(m.classes, "life:1ns")
	case r < 11:
		m.o.Lifetime = -time.Duration(1 + c.Rng.Intn(1000000))
		m.classes = append(m.classes, "life:negative")
	default:
		m.o.Lifetime = 100 * 365 * 24 * time.Hour
		m.classes = append(m.classes, "life:century")
	}
	if c.Rng.Intn(3) == 0 {
		m.o.PeerAddr = "<10.9.8.7:" + strconv.Itoa(1000+c.Rng.Intn(9000)) + ">"
		if c.Rng.Intn(2) == 0 {
			m.o.ExtraValidCommands = []int{clPick(c, clCommands), 60021}
		}
		if c.Rng.Intn(3) == 0 {
			m.o.Tag = "T" + clWord(c, 2)
		}
	}
	if c.Rng.Intn(4) == 0 {
		m.o.PeerFQU = clPick(c, []string{security.SubmitSideMatchSessionFQU, security.NegotiatorSideMatchSessionFQU, "schedd@pool"})
	}
	return m
}

func clGenImport(c *Ctx, sinful string) (security.ClaimSessionOptions, string) {
	var o security.ClaimSessionOptions
	cls := "import:plain"
	if c.Rng.Intn(2) == 0 {
		o.PeerAddr = sinful
		cls = "import:peer"
		if c.Rng.Intn(2) == 0 {
			o.ExtraValidCommands = []int{clPick(c, clCommands)}
		}
		if c.Rng.Intn(4) == 0 {
			o.Tag = "I" + clWord(c, 2)
		}
	}
	if c.Rng.Intn(4) == 0 {
		o.PeerFQU = clPick(c, []string{security.ExecuteSideMatchSessionFQU, "startd@pool"})
	}
	if c.Rng.Intn(3) == 0 {
		// a fallback lifetime: longer or shorter than what a minted lifetime leaves
		o.Duration = clPick(c, []time.Duration{time.Duration(1+c.Rng.Intn(48)) * time.Hour, time.Duration(1+c.Rng.Intn(48)) * time.Hour, time.Duration(1+c.Rng.Intn(59)) * time.Minute, time.Duration(30+c.Rng.Intn(600)) * time.Second})
		cls += "+fallback"
	}
	return o, cls
}

// ---------------------------------------------------------------- real-code drivers

type clWorld struct {
	c      *Ctx
	ops    []string
	real   []string
	caches map[string]*security.SessionCache
}

func newClWorld(c *Ctx) *clWorld {
	w := &clWorld{c: c, caches: map[string]*security.SessionCache{}}
	w.log("new", "ok")
	return w
}

func (w *clWorld) log(op, r string) { w.ops = append(w.ops, op); w.real = append(w.real, r) }

func (w *clWorld) cache(n string) *security.SessionCache {
	if w.caches[n] == nil {
		w.caches[n] = security.NewSessionCache()
	}
	return w.caches[n]
}

// guard runs f, turning a panic into the model's `err panic` plus a C13 violation.
func (w *clWorld) guard(op string, f func() string) (reply string) {
	defer func() {
		if r := recover(); r != nil {
			reply = "err panic"
			w.c.Violate(Violation{Property: "C13", Key: "C13:claim-panic:" + strings.Fields(op)[0], What: fmt.Sprintf("panic in the claim-id code: %v", r),
				Ops: append(append([]string{}, w.ops...), op), Expected: "an error", Observed: fmt.Sprint(r)})
		}
	}()
	return f()
}

type clMinted struct {
	mc     *security.MintedClaim
	secret string
	info   string
	t0, t1 time.Time
	err    error
}

// mint calls the real MintClaimSession; `time.Now()` inside is bracketed by t0/t1 and the call is
// repeated (fresh cache) in the rare case the bracket straddles a second boundary, so that the
// embedded SessionExpires is a function of t0.
func (w *clWorld) mint(cache string, o security.MintClaimOptions) clMinted {
	var r clMinted
	for try := 0; try < 8; try++ {
		w.caches[cache] = security.NewSessionCache()
		r.t0 = time.Now()
		r.mc, r.err = security.MintClaimSession(w.caches[cache], o)
		r.t1 = time.Now()
		if o.Lifetime <= 0 || r.t0.Add(o.Lifetime).Unix() == r.t1.Add(o.Lifetime).Unix() {
			break
		}
	}
	op := fmt.Sprintf("mint %s sinful=%s bday=%d seq=%d fqu=%s peer=%s enc=%s int=%s cm=%s rv=%s life=%d xcmds=%s cmds=%s tag=%s now=%d",
		cache, clHex(o.Sinful), o.Birthdate, o.SequenceNum, clHex(o.PeerFQU), clHex(o.PeerAddr), clOptBool(o.Encryption), clOptBool(o.Integrity),
		clHex(o.CryptoMethods), clHex(o.RemoteVersion), int64(o.Lifetime), clInts(o.ExtraValidCommands), clInts(o.ValidCommands), clHex(o.Tag), r.t0.UnixNano())
	if r.err != nil {
		w.log(op+" secret=-", "err "+clErrClass(r.err))
		return r
	}
	id := r.mc.ClaimID()
	// reference reading of the grammar: the secret is the trailing 64 lowercase hex characters
	if len(id) >= 64 {
		r.secret = id[len(id)-64:]
	}
	want := o.Sinful + "#" + strconv.FormatInt(o.Birthdate, 10) + "#" + strconv.Itoa(o.SequenceNum) + "#"
	if strings.HasPrefix(id, want) && len(id) >= len(want)+64 {
		r.info = id[len(want) : len(id)-64]
	}
	e := clEntry(w.caches[cache], r.mc.SessionID())
	ent := "entry-missing"
	if e != nil {
		ent = clShowEntry(e, r.secret, o.Lifetime, r.t0, r.t1)
	}
	w.log(op+" secret="+clHex(r.secret), fmt.Sprintf("ok claim=%s pub=%s sid=%s %s cmds=%s", clHex(id), clHex(r.mc.PublicClaimID()), clHex(r.mc.SessionID()),
		ent, clCmdKeys(w.caches[cache], r.mc.SessionID())))
	return r
}

func (w *clWorld) importOp(kind, cache, claim string, o security.ClaimSessionOptions, fresh bool) (string, error) {
	if fresh {
		w.caches[cache] = security.NewSessionCache()
	}
	ch := w.cache(cache)
	t0 := time.Now()
	op := fmt.Sprintf("%s %s claim=%s peer=%s fqu=%s dur=%d tag=%s xcmds=%s now=%d", kind, cache, clHex(claim), clHex(o.PeerAddr), clHex(o.PeerFQU),
		int64(o.Duration), clHex(o.Tag), clInts(o.ExtraValidCommands), t0.UnixNano())
	var sid string
	var err error
	rep := w.guard(op, func() string {
		if kind == "importft" {
			sid, err = security.ImportFileTransferSession(ch, claim, o)
		} else {
			sid, err = security.ImportClaimSession(ch, claim, o)
		}
		t1 := time.Now()
		if err != nil {
			return "err " + clErrClass(err)
		}
		e := clEntry(ch, sid)
		if e == nil {
			return "ok sid=" + clHex(sid) + " entry-missing"
		}
		secret := security.ParseClaimIDStrict(claim).SecSessionKey()
		return fmt.Sprintf("ok sid=%s %s cmds=%s", clHex(sid), clShowEntry(e, secret, o.Duration, t0, t1), clCmdKeys(ch, sid))
	})
	w.log(op, rep)
	if rep == "err panic" {
		err = errors.New("panic")
	}
	return sid, err
}

func (w *clWorld) parse(claim string) *security.ClaimID {
	var p *security.ClaimID
	op := "parse " + clHex(claim)
	w.log(op, w.guard(op, func() string {
		p = security.ParseClaimIDStrict(claim)
		return fmt.Sprintf("ok sid=%s info=%s key=%s ssid=%s pub=%s", clHexRaw(p, "sid"), clHex(p.SecSessionInfo()), clHex(p.SecSessionKey()), clHex(p.SecSessionID()), clHex(p.PublicClaimID()))
	}))
	return p
}

// the raw sessionID field is observable through PublicClaimID (sid + "#...") when non-empty
func clHexRaw(p *security.ClaimID, _ string) string {
	pub := p.PublicClaimID()
	if pub == "" {
		return "-"
	}
	return clHex(strings.TrimSuffix(pub, "#..."))
}

func (w *clWorld) attrs(info string) {
	op := "attrs " + clHex(info)
	w.log(op, w.guard(op, func() string {
		m, err := security.ImportSessionInfoAttributes(info)
		if err != nil {
			return "err " + clErrClass(err)
		}
		var items []string
		for k, v := range m {
			items = append(items, clHex(k)+"="+clHex(v))
		}
		sort.Strings(items)
		return "ok [" + strings.Join(items, ",") + "]"
	}))
}

func (w *clWorld) importInfo(info string) *classad.ClassAd {
	var ad *classad.ClassAd
	op := "importinfo " + clHex(info)
	w.log(op, w.guard(op, func() string {
		p, err := security.ImportSecSessionInfo(info)
		if err != nil {
			return "err " + clErrClass(err)
		}
		ad = p
		return "ok " + clShowPolicy(p)
	}))
	return ad
}

type clAttr struct {
	name string
	val  any // string | int64 | bool
}

func (w *clWorld) export(attrs []clAttr) (string, error) {
	ad := classad.New()
	var toks []string
	for _, a := range attrs {
		_ = ad.Set(a.name, a.val)
		switch v := a.val.(type) {
		case string:
			toks = append(toks, clHex(a.name)+"=s:"+clHex(v))
		case int64:
			toks = append(toks, fmt.Sprintf("%s=i:%d", clHex(a.name), v))
		case bool:
			toks = append(toks, clHex(a.name)+"=b:"+b01(v))
		}
	}
	op := strings.TrimRight("export "+strings.Join(toks, " "), " ")
	var text string
	var err error
	w.log(op, w.guard(op, func() string {
		text, err = security.ExportSecSessionInfo(ad)
		if err != nil {
			return "err " + clErrClass(err)
		}
		return "ok " + clHex(text)
	}))
	return text, err
}

// clAttrsOf lists a policy's string/int/bool attributes (sorted by name) for an `export` op.
func clAttrsOf(ad *classad.ClassAd) []clAttr {
	names := ad.GetAttributes()
	sort.Strings(names)
	var out []clAttr
	for _, n := range names {
		v := ad.EvaluateAttr(n)
		switch {
		case v.IsString():
			s, _ := v.StringValue()
			out = append(out, clAttr{n, s})
		case v.IsInteger():
			i, _ := v.IntValue()
			out = append(out, clAttr{n, i})
		case v.IsBool():
			b, _ := v.BoolValue()
			out = append(out, clAttr{n, b})
		}
	}
	return out
}

type clResume struct {
	reply       string
	clientUser  string
	serverUser  string
	serverCmds  string
	resumedBoth bool
	authMatch   bool
	encrypted   bool
	detail      string
}

// resume performs a REAL handshake: client names the session id explicitly
// (SecurityConfig.SessionID), server resumes from its cache; then one application message each way.
func (w *clWorld) resume(client, server, sid string) clResume {
	var out clResume
	op := fmt.Sprintf("resume %s %s %s %d", client, server, clHex(sid), time.Now().UnixNano())
	out.reply = w.guard(op, func() string { return clHandshake(w.cache(client), w.cache(server), sid, &out) })
	w.log(op, out.reply)
	return out
}

func clHandshake(cc, sc *security.SessionCache, sid string, out *clResume) string {
	a, b := net.Pipe()
	defer a.Close()
	defer b.Close()
	dl := time.Now().Add(30 * time.Second)
	_ = a.SetDeadline(dl)
	_ = b.SetDeadline(dl)
	ctx, cancel := context.WithDeadline(context.Background(), dl)
	defer cancel()
	type sres struct {
		neg  *security.SecurityNegotiation
		got  string
		hErr error
		mErr error
	}
	ch := make(chan sres, 1)
	go func() {
		var r sres
		defer func() {
			if p := recover(); p != nil {
				r.hErr = fmt.Errorf("panic: %v", p)
			}
			if r.hErr != nil || r.mErr != nil {
				_ = b.Close()
			}
			ch <- r
		}()
		ss := stream.NewStream(b)
		au := security.NewAuthenticator(&security.SecurityConfig{SessionCache: sc, AuthMethods: []security.AuthMethod{security.AuthFS},
			Authentication: security.SecurityOptional, CryptoMethods: []security.CryptoMethod{security.CryptoAES}, Encryption: security.SecurityOptional}, ss)
		r.neg, r.hErr = au.ServerHandshake(ctx)
		if r.hErr != nil {
			return
		}
		if !ss.IsEncrypted() {
			r.mErr = errors.New("server stream not encrypted")
			return
		}
		m := message.NewMessageFromStream(ss)
		r.got, r.mErr = m.GetString(ctx)
		if r.mErr != nil {
			return
		}
		rm := message.NewMessageForStream(ss)
		if r.mErr = rm.PutString(ctx, "re:"+r.got); r.mErr == nil {
			r.mErr = rm.FinishMessage(ctx)
		}
	}()
	cs := stream.NewStream(a)
	au := security.NewAuthenticator(&security.SecurityConfig{Command: 443, SessionCache: cc, SessionID: sid}, cs)
	neg, err := au.ClientHandshake(ctx)
	if err != nil {
		_ = a.Close()
		sr := <-ch
		var re *security.SessionResumptionError
		if errors.As(err, &re) {
			switch {
			case strings.Contains(re.Reason, "not found in cache"):
				return "err clientNotFound"
			case strings.Contains(re.Reason, "not found on server"):
				return "err serverNotFound"
			}
		}
		out.detail = fmt.Sprintf("client: %v; server: %v", err, sr.hErr)
		return "err other:" + strings.ReplaceAll(err.Error(), " ", "_")
	}
	var reply string
	m := message.NewMessageForStream(cs)
	cErr := m.PutString(ctx, "hello over "+sid)
	if cErr == nil {
		cErr = m.FinishMessage(ctx)
	}
	if cErr == nil {
		rm := message.NewMessageFromStream(cs)
		reply, cErr = rm.GetString(ctx)
	}
	if cErr != nil {
		_ = a.Close()
	}
	sr := <-ch
	if sr.hErr != nil {
		out.detail = "server handshake: " + sr.hErr.Error()
		return "err other:server:" + strings.ReplaceAll(sr.hErr.Error(), " ", "_")
	}
	out.clientUser, out.serverUser, out.serverCmds = neg.User, sr.neg.User, sr.neg.ValidCommands
	out.resumedBoth = neg.SessionResumed && sr.neg.SessionResumed && au.WasSessionResumed()
	out.authMatch = string(neg.NegotiatedAuth) == security.AuthMethodMatch && string(sr.neg.NegotiatedAuth) == security.AuthMethodMatch
	out.encrypted = cs.IsEncrypted()
	fwd := sr.mErr == nil && sr.got == "hello over "+sid
	back := cErr == nil && reply == "re:hello over "+sid
	out.detail = fmt.Sprintf("server read: %v; client read: %v", sr.mErr, cErr)
	switch {
	case fwd && back:
		return "ok resumed deliver=1"
	case !fwd && !back:
		return "ok resumed deliver=0"
	}
	return "ok resumed deliver=half"
}

// ---------------------------------------------------------------- the property oracle (implementation only)

// clSpecInfo is the session_info text written from the property's grammar (sorted attribute names,
// quoted strings, bare integer expiry, '.'-delimited cipher list next to the preferred cipher).
func clSpecInfo(m clMint, expires int64) string {
	yn := func(b *bool) string {
		if b == nil || *b {
			return "YES"
		}
		return "NO"
	}
	cm := m.o.CryptoMethods
	if cm == "" {
		cm = "AES"
	}
	var b strings.Builder
	b.WriteString("[")
	if strings.Contains(cm, ",") {
		first := strings.TrimSpace(cm[:strings.Index(cm, ",")])
		fmt.Fprintf(&b, `CryptoMethods="%s";CryptoMethodsList="%s";`, first, strings.ReplaceAll(cm, ",", "."))
	} else {
		fmt.Fprintf(&b, `CryptoMethods="%s";`, cm)
	}
	fmt.Fprintf(&b, `Encryption="%s";Integrity="%s";`, yn(m.o.Encryption), yn(m.o.Integrity))
	if m.o.Lifetime > 0 {
		fmt.Fprintf(&b, `SessionExpires=%d;`, expires)
	}
	if m.rvShort != "" {
		fmt.Fprintf(&b, `ShortVersion="%s";`, m.rvShort)
	}
	if len(m.o.ValidCommands) > 0 {
		fmt.Fprintf(&b, `ValidCommands="%s";`, clInts(m.o.ValidCommands))
	}
	b.WriteString("]")
	return b.String()
}

func clStr(ad *classad.ClassAd, n string) string {
	if ad == nil {
		return "<nil policy>"
	}
	s, ok := clShowVal(ad, n)
	if !ok {
		return "<absent>"
	}
	return s
}

// ---------------------------------------------------------------- run

func runClaim(c *Ctx) error {
	slog.SetDefault(slog.New(slog.NewTextHandler(io.Discard, nil)))
	prop := "C16"
	c.Res.Rule = "mint options drawn from the grammar (sinfuls plain / IPv6-bracketed / with addrs, alias, sock, CCBID parameters, with and without embedded '#', plus boundary shapes of the id grammar; encryption/integrity nil/on/off; default, single and multi cipher lists incl. refused ones; versions absent/short/long; 0..6 commands; lifetimes none/long/1ns/negative/century; peer address, tag, identities), the REAL MintClaimSession on one cache and ImportClaimSession / ImportFileTransferSession on another with drawn import options; both entries rendered field by field and compared with the model; session_info text compared with an independent spec rendering and re-exported after import; real client/server handshakes naming the session explicitly in both directions with one message each way; every case repeats import+handshakes with a single-character corruption of the secret; a third of the cases then re-mint the same slot (new secret, longer lifetime) and import the new id into the cache that already holds the first import, with handshakes both ways; plus a malformed stream (mutated claim ids, random session_info texts, random policies) through parse/attrs/importinfo/export/import; distinct by op sequence without times and random secrets; non-trivial = minted and imported successfully and at least one handshake ran"
	var cases []Case
	desc := ""
	viol := func(w *clWorld, key, what, exp, obs string) {
		c.Violate(Violation{Property: prop, Key: key, What: what + " [" + desc + "]", Ops: append([]string{}, w.ops...), Expected: exp, Observed: obs})
	}
	n := c.Pick(1200, 40000)
	for i := 0; i < n; i++ {
		w := newClWorld(c)
		m := clGenMint(c)
		for _, cl := range m.classes {
			c.Count(cl)
		}
		keyParts := []string{fmt.Sprintf("%+v|%v|%v", struct {
			S, CM, RV, FQ, PA, TG string
			B                     int64
			Q                     int
			L                     time.Duration
			C, X                  []int
		}{m.o.Sinful, m.o.CryptoMethods, m.o.RemoteVersion, m.o.PeerFQU, m.o.PeerAddr, m.o.Tag, m.o.Birthdate, m.o.SequenceNum, m.o.Lifetime, m.o.ValidCommands, m.o.ExtraValidCommands},
			clOptBool(m.o.Encryption), clOptBool(m.o.Integrity))}
		desc = fmt.Sprintf("MintClaimOptions{Sinful:%q Birthdate:%d SequenceNum:%d Encryption:%s Integrity:%s CryptoMethods:%q RemoteVersion:%q Lifetime:%v ValidCommands:%v PeerAddr:%q Tag:%q PeerFQU:%q}",
			m.o.Sinful, m.o.Birthdate, m.o.SequenceNum, clOptBool(m.o.Encryption), clOptBool(m.o.Integrity), m.o.CryptoMethods, m.o.RemoteVersion, m.o.Lifetime, m.o.ValidCommands, m.o.PeerAddr, m.o.Tag, m.o.PeerFQU)
		r := w.mint("M", m.o)
		nontrivial := false
		if r.err != nil {
			c.Count("mint:refused")
			if !m.wantFail {
				viol(w, "C16:mint-rejects-valid-options", "MintClaimSession refused options of the quantified domain", "a claim id", r.err.Error())
			}
		} else {
			c.Count("mint:ok")
			if m.wantFail {
				viol(w, "C16:mint-accepts-non-aes", "MintClaimSession minted a claim whose first cipher is not AES", "refusal", "minted")
			}
			nontrivial = clCheckMinted(c, w, m, r, viol, &keyParts)
		}
		c.Distinct(strings.Join(keyParts, "\n"), nontrivial)
		if i < 2 {
			c.Sample(map[string]any{"ops": abbreviate(w.ops), "real": abbreviate(w.real)})
		}
		cases = append(cases, Case{Label: fmt.Sprintf("claim#%d", i), Ops: w.ops, Real: w.real})
	}
	// malformed stream
	nm := c.Pick(2500, 60000)
	for i := 0; i < nm; i++ {
		w := newClWorld(c)
		clMalformed(c, w)
		c.Distinct(strings.Join(w.ops, "\n"), false)
		cases = append(cases, Case{Label: fmt.Sprintf("malformed#%d", i), Ops: w.ops, Real: w.real})
	}
	// times and (random) secrets never repeat; compare everything else
	return diffBatch(c, "claim", cases, clNorm)
}

// clCheckMinted runs imports, round trips, handshakes and corruptions for one minted claim and
// applies the property oracle. Returns whether the case reached the handshake.
func clCheckMinted(c *Ctx, w *clWorld, m clMint, r clMinted, viol func(w *clWorld, key, what, exp, obs string), keyParts *[]string) bool {
	mc := r.mc
	claim := mc.ClaimID()
	wantSid := m.o.Sinful + "#" + strconv.FormatInt(m.o.Birthdate, 10) + "#" + strconv.Itoa(m.o.SequenceNum)
	// --- grammar of the minted id (reference reading, not the library's parser)
	if mc.SessionID() != wantSid {
		viol(w, "C16:minted-sid", "minted session id is not <sinful>#bday#seq", wantSid, mc.SessionID())
	}
	okSecret := len(r.secret) == 64 && strings.Trim(r.secret, "0123456789abcdef") == ""
	if !okSecret || r.info == "" || claim != wantSid+"#"+r.info+r.secret {
		viol(w, "C16:minted-grammar", "minted claim id is not <sid>#[info]<64 hex>", wantSid+"#[...]<64 hex>", claim)
		return false
	}
	exp := r.t0.Add(m.o.Lifetime).Unix()
	if spec := clSpecInfo(m, exp); clInfoCanon(r.info) != clInfoCanon(spec) {
		viol(w, "C16:info-text", "session_info text differs from the grammar's rendering of the options", spec, r.info)
	}
	// --- public form
	pub := mc.PublicClaimID()
	leak := func(text string) bool {
		for i := 0; i+8 <= len(r.secret); i++ {
			if strings.Contains(text, r.secret[i:i+8]) {
				return true
			}
		}
		return false
	}
	if leak(pub) || pub != wantSid+"#..." {
		viol(w, "C16:public-form", "PublicClaimID is not <sid>#... or contains part of the secret", wantSid+"#...", pub)
	}
	// --- library parser on the minted id
	p := w.parse(claim)
	if p.SecSessionID() != wantSid || p.SecSessionInfo() != r.info || p.SecSessionKey() != r.secret {
		viol(w, "C16:parse-minted", "ParseClaimIDStrict does not return the minted (sid, info, secret)", fmt.Sprintf("(%q,%q,%q)", wantSid, r.info, r.secret),
			fmt.Sprintf("(%q,%q,%q)", p.SecSessionID(), p.SecSessionInfo(), p.SecSessionKey()))
	}
	if leak(p.PublicClaimID()) {
		viol(w, "C16:public-form-parsed", "ClaimID.PublicClaimID contains part of the secret", "no secret", p.PublicClaimID())
	}
	// --- import on the other endpoint
	io, icls := clGenImport(c, m.o.Sinful)
	c.Count(icls)
	*keyParts = append(*keyParts, fmt.Sprintf("%+v", io))
	isid, err := w.importOp("import", "I", claim, io, true)
	if err != nil {
		viol(w, "C16:import-rejects-minted", "ImportClaimSession rejects a claim id MintClaimSession produced", "session "+wantSid, err.Error())
		return false
	}
	if isid != mc.SessionID() {
		viol(w, "C16:sid-differs", "importer's session id differs from the minter's", mc.SessionID(), isid)
	}
	em, ei := clEntry(w.cache("M"), mc.SessionID()), clEntry(w.cache("I"), isid)
	if em == nil || ei == nil {
		viol(w, "C16:entry-missing", "no cache entry under the session id", "entries on both ends", fmt.Sprintf("minter:%v importer:%v", em != nil, ei != nil))
		return false
	}
	if em.KeyInfo() == nil || ei.KeyInfo() == nil || !bytes.Equal(em.KeyInfo().Data, ei.KeyInfo().Data) || em.KeyInfo().Protocol != ei.KeyInfo().Protocol {
		viol(w, "C16:key-differs", "minter and importer hold different key material", "equal keys", "different keys")
	} else if !bytes.Equal(em.KeyInfo().Data, clHKDF(r.secret)) {
		viol(w, "C16:key-not-hkdf", "session key is not HKDF-SHA256(secret, htcondor, keygen)", hex.EncodeToString(clHKDF(r.secret)), hex.EncodeToString(em.KeyInfo().Data))
	}
	for _, at := range []string{"Encryption", "Integrity", "CryptoMethods", "ValidCommands", "SessionExpires", "RemoteVersion", "SecUseSession", "Sid", "Enact", "NegotiatedSession", "AuthMethods", "Authenticated"} {
		if x, y := clStr(em.Policy(), at), clStr(ei.Policy(), at); x != y {
			viol(w, "C16:policy-differs:"+at, "policy attribute differs between minter and importer", x, y)
		}
	}
	if len(em.Policy().GetAttributes()) != len(ei.Policy().GetAttributes()) {
		viol(w, "C16:policy-differs:attribute-count", "policies have different attribute sets", fmt.Sprint(em.Policy().GetAttributes()), fmt.Sprint(ei.Policy().GetAttributes()))
	}
	wantMU, wantIU := m.o.PeerFQU, io.PeerFQU
	if wantMU == "" {
		wantMU = security.SubmitSideMatchSessionFQU
	}
	if wantIU == "" {
		wantIU = security.ExecuteSideMatchSessionFQU
	}
	// expiry: lockstep whenever the id carries one; otherwise only the importer's own fallback applies
	if m.o.Lifetime > 0 || io.Duration <= 0 {
		if !em.Expiration().Equal(ei.Expiration()) {
			viol(w, "C16:expiry-differs", "minter and importer expire the session at different times", em.Expiration().Format(time.RFC3339Nano), ei.Expiration().Format(time.RFC3339Nano))
		}
	}
	if m.o.Lifetime > 0 {
		if !em.Expiration().Equal(time.Unix(exp, 0)) {
			viol(w, "C16:expiry-not-embedded", "minter's expiry is not the SessionExpires second embedded in the id", time.Unix(exp, 0).Format(time.RFC3339Nano), em.Expiration().Format(time.RFC3339Nano))
		}
	} else if !em.Expiration().IsZero() {
		viol(w, "C16:expiry-without-lifetime", "minter expires a session minted without lifetime", "never", em.Expiration().String())
	}
	// --- the policy the id carries is the minted one, and its text survives parse/render
	pol := w.importInfo(r.info)
	if pol == nil {
		viol(w, "C16:info-reimport", "ImportSecSessionInfo fails on a minted session_info", "policy", "error")
	} else {
		yn := func(b *bool) string {
			if b == nil || *b {
				return "s:" + clHex("YES")
			}
			return "s:" + clHex("NO")
		}
		cm := m.o.CryptoMethods
		if cm == "" {
			cm = "AES"
		}
		wantAttr := map[string]string{"Encryption": yn(m.o.Encryption), "Integrity": yn(m.o.Integrity), "CryptoMethods": "s:" + clHex(cm),
			"ValidCommands": "<absent>", "SessionExpires": "<absent>", "RemoteVersion": "<absent>"}
		if len(m.o.ValidCommands) > 0 {
			wantAttr["ValidCommands"] = "s:" + clHex(clInts(m.o.ValidCommands))
		}
		if m.o.Lifetime > 0 {
			wantAttr["SessionExpires"] = "s:" + clHex(strconv.FormatInt(exp, 10))
		}
		if m.rvShort != "" {
			wantAttr["RemoteVersion"] = "s:" + clHex(m.rvShort)
		}
		for _, at := range []string{"Encryption", "Integrity", "CryptoMethods", "ValidCommands", "SessionExpires", "RemoteVersion"} {
			if got := clStr(pol, at); got != wantAttr[at] {
				viol(w, "C16:policy-not-carried:"+at, "the policy parsed from the id does not carry the minting option", wantAttr[at], got)
			}
		}
		if t2, err := w.export(clAttrsOf(pol)); err != nil || t2 != r.info {
			viol(w, "C16:text-roundtrip", "session_info text does not survive parse + render", r.info, fmt.Sprintf("%q err=%v", t2, err))
		}
	}
	// --- derived file-transfer session: two importers agree
	if c.Rng.Intn(3) == 0 {
		f1, e1 := w.importOp("importft", "I", claim, io, false)
		f2, e2 := w.importOp("importft", "F", claim, security.ClaimSessionOptions{}, true)
		if e1 != nil || e2 != nil || f1 != f2 || f1 != "filetrans."+wantSid {
			viol(w, "C16:filetrans-id", "file-transfer session ids differ or are not filetrans.<sid>", "filetrans."+wantSid, fmt.Sprintf("%q %q %v %v", f1, f2, e1, e2))
		} else if a, b := clEntry(w.cache("I"), f1), clEntry(w.cache("F"), f2); a == nil || b == nil || !bytes.Equal(a.KeyInfo().Data, b.KeyInfo().Data) || !bytes.Equal(a.KeyInfo().Data, clHKDF(r.secret)) {
			viol(w, "C16:filetrans-key", "file-transfer sessions are not keyed on HKDF(secret) on both importers", "equal keys", "different")
		} else {
			rs := w.resume("I", "F", f1)
			if rs.reply != "ok resumed deliver=1" {
				viol(w, "C16:filetrans-resume", "file-transfer session does not resume between two importers", "ok resumed deliver=1", rs.reply+" "+rs.detail)
			}
		}
		c.Count("op:filetrans")
	}
	// --- real handshakes, both directions
	expired := m.o.Lifetime > 0 && m.o.Lifetime < time.Second
	for _, dir := range [][2]string{{"I", "M"}, {"M", "I"}} {
		rs := w.resume(dir[0], dir[1], mc.SessionID())
		c.Count("resume:" + strings.Fields(rs.reply + " x")[1])
		if expired {
			if strings.HasPrefix(rs.reply, "ok") {
				viol(w, "C16:expired-resumes", "a session past the embedded expiry still resumes", "not found", rs.reply)
			}
			continue
		}
		if rs.reply != "ok resumed deliver=1" {
			viol(w, "C16:resume-fails:"+dir[0]+"->"+dir[1], "the shared session does not resume / carry data in this direction", "ok resumed deliver=1", rs.reply+" "+rs.detail)
			continue
		}
		wantCU, wantSU := wantIU, wantMU // client=I sees execute side; server=M sees submit side
		if dir[0] == "M" {
			wantCU, wantSU = wantMU, wantIU
		}
		if !rs.resumedBoth || !rs.authMatch || !rs.encrypted {
			viol(w, "C16:fresh-handshake:"+dir[0]+"->"+dir[1], "connection was not a pure resumption of the claim session", "resumed, MATCH, encrypted", fmt.Sprintf("resumed=%v match=%v enc=%v", rs.resumedBoth, rs.authMatch, rs.encrypted))
		}
		if rs.clientUser != wantCU || rs.serverUser != wantSU {
			viol(w, "C16:resumed-identity:"+dir[0]+"->"+dir[1], "resumed session reports the wrong peer identity", wantCU+" / "+wantSU, rs.clientUser+" / "+rs.serverUser)
		}
		if rs.serverCmds != clInts0(m.o.ValidCommands) {
			viol(w, "C16:resumed-commands:"+dir[0]+"->"+dir[1], "resumed session does not restore the command policy", clInts0(m.o.ValidCommands), rs.serverCmds)
		}
	}
	// --- property oracle: USE does not move the expiry. After any number of resumptions in either
	// direction both sides still expire the session at the time derived from the claim (the embedded
	// SessionExpires) — a connection that rides the session must not replace it by "now + something".
	if !expired {
		for k, extra := 0, c.Rng.Intn(3); k < extra; k++ {
			dir := clPick(c, [][2]string{{"I", "M"}, {"M", "I"}})
			rs := w.resume(dir[0], dir[1], mc.SessionID())
			c.Count("resume-again:" + strings.Fields(rs.reply + " x")[1])
			if rs.reply != "ok resumed deliver=1" {
				viol(w, "C16:resume-fails-again:"+dir[0]+"->"+dir[1], "the shared session stops resuming after it was used", "ok resumed deliver=1", rs.reply+" "+rs.detail)
			}
		}
		em2, ei2 := clEntry(w.cache("M"), mc.SessionID()), clEntry(w.cache("I"), mc.SessionID())
		switch {
		case em2 == nil || ei2 == nil:
			viol(w, "C16:session-gone-after-use", "after resumptions a side no longer holds the session", "both hold it", fmt.Sprintf("minter holds=%v importer holds=%v", em2 != nil, ei2 != nil))
		default:
			if m.o.Lifetime > 0 {
				for _, s := range []struct {
					side string
					e    *security.SessionEntry
				}{{"minter", em2}, {"importer", ei2}} {
					if !s.e.Expiration().Equal(time.Unix(exp, 0)) {
						viol(w, "C16:expiry-moved-by-use:"+s.side, "after the session was resumed the "+s.side+"'s expiry is no longer the SessionExpires second embedded in the claim id (a connection riding the session replaced it)",
							time.Unix(exp, 0).Format(time.RFC3339Nano), s.e.Expiration().Format(time.RFC3339Nano))
					}
				}
			}
			if (m.o.Lifetime > 0 || io.Duration <= 0) && !em2.Expiration().Equal(ei2.Expiration()) {
				viol(w, "C16:expiry-differs-after-use", "after the session was resumed minter and importer expire it at different times", em2.Expiration().Format(time.RFC3339Nano), ei2.Expiration().Format(time.RFC3339Nano))
			}
			if m.o.Lifetime <= 0 && io.Duration > 0 && !ei2.Expiration().Equal(ei.Expiration()) {
				c.Count("observation:fallback-expiry-moved-by-use") // the claim carries no expiry: the importer's own fallback, outside the lockstep clause
			}
			c.Count("expiry-after-use-checked")
		}
	}
	// --- single-character corruption of the secret
	pos := c.Rng.Intn(64)
	var repl byte
	kind := ""
	switch k := c.Rng.Intn(10); {
	case k < 5:
		kind = "hex"
		for {
			repl = "0123456789abcdef"[c.Rng.Intn(16)]
			if repl != r.secret[pos] {
				break
			}
		}
	case k < 7:
		kind = "upper-or-letter"
		repl = "ABCDEFGgzZ"[c.Rng.Intn(10)]
	default:
		kind = "punct"
		repl = "#][\" ;=.,-_"[c.Rng.Intn(11)]
	}
	switch c.Rng.Intn(6) {
	case 0:
		pos = 0
	case 1:
		pos = 63
	}
	c.Count("corrupt:" + kind)
	bad := []byte(claim)
	bad[len(claim)-64+pos] = repl
	*keyParts = append(*keyParts, fmt.Sprintf("corrupt %d %c", pos, repl))
	defer clRemint(c, w, m, io, wantSid, expired, viol)
	if string(bad) == claim {
		return true
	}
	wsid, werr := w.importOp("import", "W", string(bad), security.ClaimSessionOptions{}, true)
	if werr == nil {
		if ew := clEntry(w.cache("W"), wsid); ew != nil && ew.KeyInfo() != nil && bytes.Equal(ew.KeyInfo().Data, em.KeyInfo().Data) {
			viol(w, "C16:wrong-secret-same-key", "an importer holding a different secret derives the minter's key", "different key", "same key")
		}
		if !expired {
			for _, dir := range [][2]string{{"W", "M"}, {"M", "W"}} {
				rs := w.resume(dir[0], dir[1], wsid)
				c.Count("resume-wrong:" + strings.Fields(rs.reply + " x")[1])
				if rs.reply == "ok resumed deliver=1" || rs.reply == "ok resumed deliver=half" {
					viol(w, "C16:wrong-secret-delivers:"+dir[0]+"->"+dir[1], "application data was delivered to/from an importer holding a different secret", "no delivery", rs.reply)
				}
			}
		}
	} else {
		c.Count("corrupt:import-rejected")
	}
	return true
}

// clRemint: the same slot (sinful, birthdate, sequence) is minted again — new secret, other
// lifetime — and the new claim id is imported into the cache that already holds the first import.
// Minter and importer must again share ONE session: the importer's entry is the new one.
func clRemint(c *Ctx, w *clWorld, m clMint, io security.ClaimSessionOptions, wantSid string, wasExpired bool, viol func(w *clWorld, key, what, exp, obs string)) {
	if c.Rng.Intn(3) != 0 {
		return
	}
	c.Count("op:remint-reimport")
	o2 := m.o
	if o2.Lifetime > 0 {
		o2.Lifetime += 2 * time.Hour
	} else if c.Rng.Intn(2) == 0 {
		o2.Lifetime = 3 * time.Hour
	}
	r2 := w.mint("M", o2)
	if r2.err != nil || len(r2.secret) != 64 {
		return
	}
	claim2 := r2.mc.ClaimID()
	isid, err := w.importOp("import", "I", claim2, io, false)
	if err != nil {
		viol(w, "C16:reimport-rejected", "ImportClaimSession rejects the re-minted claim id of a slot it already imported", "session "+wantSid, err.Error())
		return
	}
	em, ei := clEntry(w.cache("M"), r2.mc.SessionID()), clEntry(w.cache("I"), isid)
	if em == nil || ei == nil || em.KeyInfo() == nil || ei.KeyInfo() == nil {
		viol(w, "C16:reimport-entry-missing", "no keyed entry under the session id after re-mint + re-import", "entries on both ends", "missing")
		return
	}
	if !bytes.Equal(em.KeyInfo().Data, ei.KeyInfo().Data) || !bytes.Equal(ei.KeyInfo().Data, clHKDF(r2.secret)) {
		viol(w, "C16:reimport-key-differs", "after re-mint + re-import the importer does not hold the key of the claim id it imported last", "HKDF(new secret) on both ends", "importer key differs")
	}
	if (o2.Lifetime > 0 || io.Duration <= 0) && !em.Expiration().Equal(ei.Expiration()) {
		viol(w, "C16:reimport-expiry-differs", "after re-mint + re-import minter and importer expire the session at different times", em.Expiration().Format(time.RFC3339Nano), ei.Expiration().Format(time.RFC3339Nano))
	}
	for _, dir := range [][2]string{{"I", "M"}, {"M", "I"}} {
		rs := w.resume(dir[0], dir[1], r2.mc.SessionID())
		if rs.reply != "ok resumed deliver=1" {
			viol(w, "C16:reimport-resume-fails:"+dir[0]+"->"+dir[1], "after re-mint + re-import the shared session does not resume / carry data", "ok resumed deliver=1", rs.reply+" "+rs.detail)
		}
	}
}

func clInts0(v []int) string {
	if len(v) == 0 {
		return ""
	}
	return clInts(v)
}

// clMalformed: mutated claim ids, random session_info texts and random policies through the
// parsing / rendering entry points; only model-vs-code agreement (and absence of panics) is claimed.
func clMalformed(c *Ctx, w *clWorld) {
	alpha := []string{"#", "[", "]", ";", "=", "\"", " ", ",", ".", "a", "Z", "0", "9", "-", "+", "$", "<", ">", "\t", "é", "Integrity", "CryptoMethods", "CryptoMethodsList", "SessionExpires", "ShortVersion", "ValidCommands", "Encryption", "YES", "AES", "AESGCM", "BLOWFISH", "443", "1700000000"}
	rnd := func(n int) string {
		var b strings.Builder
		for i := 0; i < n; i++ {
			b.WriteString(clPick(c, alpha))
		}
		return b.String()
	}
	base := `<10.0.0.1:9618?sock=a#1>#1700000000#7#[CryptoMethods="AES";CryptoMethodsList="AES.BLOWFISH";Encryption="YES";Integrity="NO";SessionExpires=1790003600;ShortVersion="25.4.0";ValidCommands="443,444";]0123456789abcdef0123456789abcdef0123456789abcdef0123456789abcdef`
	mutate := func(s string) string {
		b := []byte(s)
		for k := 1 + c.Rng.Intn(3); k > 0 && len(b) > 0; k-- {
			i := c.Rng.Intn(len(b))
			switch c.Rng.Intn(3) {
			case 0:
				b = append(b[:i], b[i+1:]...)
			case 1:
				b[i] = clPick(c, alpha)[0]
			default:
				b = append(b[:i], append([]byte(clPick(c, alpha)), b[i:]...)...)
			}
		}
		return string(b)
	}
	switch k := c.Rng.Intn(10); {
	case k < 3:
		c.Count("malformed:claim-mutated")
		id := mutate(base)
		w.parse(id)
		_, _ = w.importOp("import", "X", id, security.ClaimSessionOptions{PeerAddr: "<p:1>"}, true)
		if c.Rng.Intn(3) == 0 {
			_, _ = w.importOp("importft", "X", id, security.ClaimSessionOptions{Duration: time.Hour}, false)
		}
	case k < 5:
		c.Count("malformed:claim-random")
		id := rnd(1 + c.Rng.Intn(12))
		w.parse(id)
		_, _ = w.importOp("import", "X", id, security.ClaimSessionOptions{}, true)
	case k < 8:
		c.Count("malformed:info")
		var info string
		switch c.Rng.Intn(3) {
		case 0:
			info = mutate(`[CryptoMethods="AES";CryptoMethodsList="AES.BLOWFISH";Encryption="YES";SessionExpires=1790003600;ShortVersion="25.4.0";ValidCommands="443,444";]`)
		case 1:
			info = "[" + rnd(c.Rng.Intn(14)) + "]"
		default:
			info = rnd(c.Rng.Intn(10))
		}
		w.attrs(info)
		w.importInfo(info)
		_, _ = w.importOp("import", "X", "<h:1>#1#2#"+info+"00ff", security.ClaimSessionOptions{}, true)
	default:
		c.Count("malformed:policy")
		var attrs []clAttr
		names := []string{"Integrity", "Encryption", "ValidCommands", "SessionExpires", "CryptoMethods", "RemoteVersion", "Other", "CryptoMethodsList"}
		for _, n := range names {
			switch c.Rng.Intn(5) {
			case 0:
			case 1:
				attrs = append(attrs, clAttr{n, int64(c.Rng.Intn(5)) - 2 + int64(c.Rng.Intn(2))*1700000000})
			case 2:
				attrs = append(attrs, clAttr{n, c.Rng.Intn(2) == 0})
			case 3:
				attrs = append(attrs, clAttr{n, clPick(c, []string{"", "0", " 12 ", "+5", "-3", "1_0", "9223372036854775807", "9223372036854775808", "-9223372036854775808", "12x", "AES,3DES", "AES , X", ",", "$CondorVersion: 1.2.3; x $", "$ x 1.2,; $", "$a b$", "1.2 3.4", "x .5 6.7,"})})
			default:
				attrs = append(attrs, clAttr{n, rnd(1 + c.Rng.Intn(4))})
			}
		}
		if t, err := w.export(attrs); err == nil {
			w.attrs(t)
			w.importInfo(t)
		}
	}
}
