// corr: correspondence check between the Lean model (cedar_oracle) and the real cedar
// packages built from /repo's working tree, plus the per-property oracles that look for a
// concrete failing input on the implementation. One sub-command per engine.
package main

import (
	"encoding/json"
	"flag"
	"fmt"
	"io"
	"log/slog"
	"math/rand"
	"os"
	"regexp"
	"sort"
	"strings"
	"time"
)

type Mismatch struct {
	Case      int      `json:"case"`
	Label     string   `json:"label"`
	Ops       []string `json:"ops"`
	Real      []string `json:"real"`
	Model     []string `json:"model"`
	FirstDiff int      `json:"first_diff"`
}

type Violation struct {
	Property string   `json:"property"`
	Key      string   `json:"key"`  // stable identifier of the failing site/input class (known-findings match on it)
	What     string   `json:"what"` // human-readable: what property clause failed
	Ops      []string `json:"ops"`
	Expected string   `json:"expected"`
	Observed string   `json:"observed"`
}

type Result struct {
	Engine             string         `json:"engine"`
	Tier               string         `json:"tier"`
	Seed               int64          `json:"seed"`
	Evaluations        int            `json:"evaluations"`
	DistinctNontrivial int            `json:"distinct_nontrivial"`
	Rule               string         `json:"rule"`
	Samples            []any          `json:"samples"`
	Distribution       map[string]int `json:"distribution"`
	TracesValidated    int            `json:"traces_validated_against_impl"`
	Mismatches         []Mismatch     `json:"mismatches"`
	Violations         []Violation    `json:"violations"`
	Notes              []string       `json:"notes"`
	WallS              float64        `json:"wall_s"`
}

type Ctx struct {
	Tier   string
	Seed   int64
	Rng    *rand.Rand
	Oracle string
	Res    *Result
	seen   map[string]bool
	Replay string
}

func (c *Ctx) Thorough() bool { return c.Tier == "thorough" }
func (c *Ctx) Count(k string) { c.Res.Distribution[k]++ }
func (c *Ctx) Pick(quick, thorough int) int {
	if c.Thorough() {
		return thorough
	}
	return quick
}

// Distinct records a case by its canonical key; returns true the first time.
func (c *Ctx) Distinct(key string, nontrivial bool) {
	c.Res.Evaluations++
	if nontrivial && !c.seen[key] {
		c.seen[key] = true
		c.Res.DistinctNontrivial++
	}
}

func (c *Ctx) Sample(v any) {
	if len(c.Res.Samples) < 6 {
		c.Res.Samples = append(c.Res.Samples, v)
	}
}

func (c *Ctx) Violate(v Violation) {
	if len(c.Res.Violations) < 50 {
		c.Res.Violations = append(c.Res.Violations, v)
	}
}

type Engine struct {
	Name string
	Run  func(c *Ctx) error
}

var engines = map[string]Engine{}

func register(e Engine) { engines[e.Name] = e }

func main() {
	// the library logs every handshake step at Info level; keep the harness output clean
	slog.SetDefault(slog.New(slog.NewTextHandler(io.Discard, nil)))
	if len(os.Args) < 2 {
		usage()
	}
	name := os.Args[1]
	fs := flag.NewFlagSet(name, flag.ExitOnError)
	tier := fs.String("tier", "quick", "quick|thorough")
	seed := fs.Int64("seed", 1, "PRNG seed")
	oracle := fs.String("oracle", "/verif/lean/.lake/build/bin/cedar_oracle", "path of the compiled Lean oracle")
	out := fs.String("out", "", "write result JSON here (default stdout)")
	replay := fs.String("replay", "", "replay file: run only the ops recorded there")
	_ = fs.Parse(os.Args[2:])
	e, ok := engines[name]
	if !ok {
		usage()
	}
	res := &Result{Engine: name, Tier: *tier, Seed: *seed, Distribution: map[string]int{}, Samples: []any{}, Mismatches: []Mismatch{}, Violations: []Violation{}, Notes: []string{}}
	c := &Ctx{Tier: *tier, Seed: *seed, Rng: rand.New(rand.NewSource(*seed)), Oracle: *oracle, Res: res, seen: map[string]bool{}, Replay: *replay}
	t0 := time.Now()
	if err := e.Run(c); err != nil {
		fmt.Fprintln(os.Stderr, "corr:", err)
		os.Exit(3)
	}
	res.WallS = time.Since(t0).Seconds()
	b, _ := json.MarshalIndent(res, "", " ")
	if *out == "" {
		fmt.Println(string(b))
	} else if err := os.WriteFile(*out, b, 0o644); err != nil {
		fmt.Fprintln(os.Stderr, "corr:", err)
		os.Exit(3)
	}
}

func usage() {
	var names []string
	for n := range engines {
		names = append(names, n)
	}
	sort.Strings(names)
	fmt.Fprintln(os.Stderr, "usage: corr <engine> [-tier quick|thorough] [-seed N] [-oracle path] [-out file]\nengines:", names)
	os.Exit(2)
}

// compareBatch runs the oracle on all cases at once and records mismatches.
type Case struct {
	Label string
	Ops   []string
	Real  []string
}

// unclassifiedErrorMatches: real = "err other:<text> rest…", model = "err <class> rest…" with equal rests.
func unclassifiedErrorMatches(real, model string) bool {
	ra, mb := strings.Fields(real), strings.Fields(model)
	if len(ra) < 2 || len(mb) < 2 || len(ra) != len(mb) || ra[0] != "err" || mb[0] != "err" || !(ra[1] == "other" || strings.HasPrefix(ra[1], "other:")) {
		return false
	}
	for i := 2; i < len(ra); i++ {
		if ra[i] != mb[i] {
			return false
		}
	}
	return true
}

func diffBatch(c *Ctx, engine string, cases []Case, norm func(string) string) error {
	var lines []string
	for _, cs := range cases {
		lines = append(lines, cs.Ops...)
	}
	replies, err := runOracle(c, engine, lines)
	if err != nil {
		return err
	}
	if len(replies) != len(lines) {
		return fmt.Errorf("oracle returned %d replies for %d ops", len(replies), len(lines))
	}
	off := 0
	for i, cs := range cases {
		model := replies[off : off+len(cs.Ops)]
		off += len(cs.Ops)
		c.Res.TracesValidated++
		for j := range cs.Ops {
			a, b := cs.Real[j], model[j]
			if norm != nil {
				a, b = norm(a), norm(b)
			}
			if a != b && (unclassifiedErrorMatches(a, b) || otherClassMatches(a, b)) {
				// the implementation returned an error whose TEXT the harness does not know (a reworded
				// message, say); error wording is part of no property, so it is accepted as "an error"
				// where the model also says error — and counted, so that it stays visible
				c.Res.Distribution["unclassified-error-text-accepted-as-error"]++
				continue
			}
			if a != b {
				if len(c.Res.Mismatches) < 20 {
					c.Res.Mismatches = append(c.Res.Mismatches, Mismatch{Case: i, Label: cs.Label, Ops: cs.Ops, Real: cs.Real, Model: append([]string{}, model...), FirstDiff: j})
				} else {
					c.Res.Distribution["mismatches_not_recorded"]++
				}
				break
			}
		}
	}
	return nil
}

// Planned / Ran: coverage an engine planned for itself and what of it actually ran. A setup step
// that fails (cannot listen, a preparatory handshake fails, a sandbox cannot be made) must not turn
// into a quiet `continue`: the engine would complete, look green and have checked a fraction.
// ./check compares every `planned:<what>` with `ran:<what>` in the Distribution and breaks an
// obligation when less than 90 % ran. (Workers of the race engine write the same keys into their Dist.)
func (c *Ctx) Planned(what string, n int) { c.Res.Distribution["planned:"+what] += n }
func (c *Ctx) Ran(what string, n int)     { c.Res.Distribution["ran:"+what] += n }

// HarnessPanic: a panic of the HARNESS (not of the library) that an engine recovered from in order to
// go on. The cases it would have produced are lost, so ./check reports it as a broken obligation.
func (c *Ctx) HarnessPanic(where string, p any) {
	c.Res.Distribution["harness-panic-swallowed"]++
	if len(c.Res.Notes) < 200 {
		c.Res.Notes = append(c.Res.Notes, fmt.Sprintf("harness panic swallowed in %s: %v", where, p))
	}
}

// otherClassMatches: the implementation's line carries the error class `other` (an error whose
// wording the harness does not know; never the text itself) somewhere INSIDE it -- `ret=other`,
// `err:allFailed[ctx,other]` -- and the model's line is the same except that it names a class there.
// Error wording is part of no property: "an error of unknown wording" is accepted wherever the model
// says "an error" (any class name that is not ok), and counted by the caller.
var reOtherClass = regexp.MustCompile(`\bother(?::[^ ,\]|=]*)?`)

var reBracketList = regexp.MustCompile(`\[[^\[\]]*\]`)

// otherInLists: comma lists in brackets are canonicalised by sorting, so an `other` does not stand at
// the position of the class it replaces: the k-th list of both lines is compared as a multiset, each
// surplus `other` of the implementation against one surplus class of the model; lists that agree in
// this sense are replaced by the same placeholder on both sides.
func otherInLists(real, model string) (string, string, bool) {
	rl, ml := reBracketList.FindAllStringIndex(real, -1), reBracketList.FindAllStringIndex(model, -1)
	if len(rl) != len(ml) {
		return real, model, true // nothing done here; the positional comparison decides
	}
	for k := len(rl) - 1; k >= 0; k-- {
		rs, ms := real[rl[k][0]+1:rl[k][1]-1], model[ml[k][0]+1:ml[k][1]-1]
		if !reOtherClass.MatchString(rs) {
			continue
		}
		re, me := strings.Split(rs, ","), strings.Split(ms, ",")
		if len(re) != len(me) {
			return real, model, false
		}
		left := map[string]int{}
		for _, x := range me {
			left[x]++
		}
		others := 0
		for _, x := range re {
			if left[x] > 0 {
				left[x]--
			} else if reOtherClass.FindString(x) == x {
				others++
			} else {
				return real, model, false
			}
		}
		for x, n := range left {
			if n > 0 && (x == "ok" || strings.HasPrefix(x, "ok:") || x == "none") {
				return real, model, false
			}
			others -= n
		}
		if others != 0 {
			return real, model, false
		}
		real = real[:rl[k][0]] + "[~]" + real[rl[k][1]:]
		model = model[:ml[k][0]] + "[~]" + model[ml[k][1]:]
	}
	return real, model, true
}

func otherClassMatches(real, model string) bool {
	if !reOtherClass.MatchString(real) {
		return false
	}
	var ok bool
	if real, model, ok = otherInLists(real, model); !ok {
		return false
	}
	if real == model {
		return true
	}
	locs := reOtherClass.FindAllStringIndex(real, -1)
	if len(locs) == 0 || len(locs) > 8 {
		return false
	}
	var pat strings.Builder
	pat.WriteString(`\A`)
	prev := 0
	for _, l := range locs {
		pat.WriteString(regexp.QuoteMeta(real[prev:l[0]]))
		pat.WriteString(`([A-Za-z][A-Za-z0-9_.:\-]*)`)
		prev = l[1]
	}
	pat.WriteString(regexp.QuoteMeta(real[prev:]))
	pat.WriteString(`\z`)
	re, err := regexp.Compile(pat.String())
	if err != nil {
		return false
	}
	m := re.FindStringSubmatch(model)
	if m == nil {
		return false
	}
	for _, g := range m[1:] {
		if g == "ok" || strings.HasPrefix(g, "ok:") || g == "none" {
			return false
		}
	}
	return true
}
